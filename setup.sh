#!/bin/bash
# Run once after a fresh restore, offline. Builds the tools, warms the Go build
# cache for the three build flavours and runs the scheduler calibration.
set -e
VERIF=$(cd "$(dirname "$0")" && pwd)
export GOFLAGS=-mod=mod GOPROXY=off GOSUMDB=off GOTOOLCHAIN=local GOWORK=off
mkdir -p "$VERIF/bin" "$VERIF/evidence" "$VERIF/replays"
cd "$VERIF/harness"
go build -o "$VERIF/bin/instrument" ./cmd/instrument
cd "$VERIF"
./check CALIB
./check CALIBRACE
echo "setup ok"
