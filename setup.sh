#!/bin/bash
# Run once after a fresh restore, offline. Builds the tools, warms the Go build
# cache for the three build flavours, runs the scheduler calibration and checks
# the AST rewriter by running zap's own suite against the instrumented
# (pass-through) build.
set -e
VERIF=$(cd "$(dirname "$0")" && pwd)
export GOFLAGS=-mod=mod GOPROXY=off GOSUMDB=off GOTOOLCHAIN=local GOWORK=off
mkdir -p "$VERIF/bin" "$VERIF/evidence" "$VERIF/replays"
cd "$VERIF/harness"
go build -o "$VERIF/bin/instrument" ./cmd/instrument
cd "$VERIF"
./check CALIB
./check CALIBRACE
# Equivalence check of the instrumenter: outside a scheduler run the shims are
# pass-through, so zap's own tests must pass on the rewritten sources. A failure
# here is reported but does not stop setup (zap's suite has a few wall-clock
# tests that can fail on a loaded machine); it is retried once.
W="$VERIF/.work/passthru"; rm -rf "$W"; mkdir -p "$W"
if "$VERIF/bin/instrument" -repo /repo -shim "$VERIF/shim" -out "$W" -mode inst >"$W/log" 2>&1; then
  pt=FAIL
  for try in 1 2; do
    if (cd /repo && go test -overlay "$W/overlay.json" -vet=off -count=1 ./... >"$W/test.log" 2>&1); then pt=pass; break; fi
  done
  echo "instrumented pass-through run of zap's suite: $pt"
  [ $pt = pass ] || grep -E "^(--- FAIL|FAIL|panic)" "$W/test.log" | head -10
else
  echo "instrumented pass-through run: instrumenter failed"; cat "$W/log"
fi
rm -rf "$W"
echo "setup ok"
