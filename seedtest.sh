#!/bin/bash
# usage: seedtest.sh <ID> <patch.diff> [tier] : apply a seeded change to a SCRATCH COPY of /repo's HEAD, run the check on it
ID=$1; P=$(readlink -f "$2"); TIER=${3:-quick}
[ -f "$P" ] || { echo "NO SUCH PATCH $2"; exit 3; }
T=/tmp/seedt.$$; rm -rf $T; mkdir -p $T; git -C /repo archive HEAD | tar -x -C $T
cd $T && git init -q . && git add -A >/dev/null 2>&1 && git -c user.email=x -c user.name=x commit -qm base >/dev/null
if ! git apply "$P" 2>/dev/null; then
  git apply -3 "$P" 2>&1 | tail -2
  if git diff --name-only --diff-filter=U | grep -q .; then echo "PATCH DOES NOT APPLY CLEANLY"; rm -rf $T; exit 3; fi
fi
git diff --quiet && { echo "PATCH NOT APPLIED (no change in the scratch tree)"; echo "rc=3"; cd /; rm -rf $T; exit 3; }
git diff --stat | tail -1
# the whole output goes to a file first: cutting a pipe short would kill the check and falsify its exit status
cd /verif && VERIF_EVIDENCE_DIR=/tmp/evscratch VERIF_REPO=$T VERIF_WORKTAG=.seed$$ timeout ${MUT_TIMEOUT:-1200} ./check $ID $TIER > $T.out 2>&1
rc=$?
grep -v "^KNOWN-FINDING" $T.out | head -${LINES_MAX:-8}
echo "rc=$rc"
rm -rf $T $T.out
