#!/bin/bash
# usage: seedtest.sh <ID> <patch.diff> [tier]  : apply a seeded change to /repo, run the check, undo it
ID=$1; P=$2; TIER=${3:-quick}
cd /repo || exit 2
git diff --quiet || { echo "/repo is dirty"; exit 2; }
if ! git apply "$P" 2>/dev/null; then
  git apply -3 "$P" 2>&1 | tail -2 || { echo "PATCH DOES NOT APPLY"; git checkout -- .; exit 3; }
  git reset -q
fi
git diff --stat | tail -1
cd /verif && timeout ${MUT_TIMEOUT:-1200} ./check $ID $TIER 2>&1 | grep -v "^KNOWN-FINDING" | head -${LINES_MAX:-8}
echo "rc=${PIPESTATUS[0]}"
git -C /repo checkout -- . ; git -C /repo status --short | head -3
