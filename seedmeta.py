#!/usr/bin/env python3
# usage: seedmeta.py <name> <property> <summary> <needs> <detected: yes/no + by what>
import json,sys,os
name,prop,summary,needs,detected=sys.argv[1:6]
d=f"/verif/seeded/{name}"
meta={"property":prop,"summary":summary,"needs_to_manifest":needs,
 "confirmed_by":"verify_seed.sh in a scratch worktree of /repo HEAD: full zap suite (root, exp, zapgrpc/internal/test) passes with the change; demo_test.go fails with it and passes without it",
 "check_result":detected,
 "how_to_run":"git -C /repo apply /verif/seeded/%s/patch.diff && (cd /verif && ./check %s quick); git -C /repo checkout -- ."%(name,prop)}
json.dump(meta,open(d+"/meta.json","w"),indent=1)
