#!/usr/bin/env python3
# Regenerates /verif/MANIFEST.json from the table below and validates it.
import json
props=[json.loads(l) for l in open('/verif/properties.jsonl')]
TB="Trusted: Go 1.23.5 toolchain and runtime, the AST instrumenter and scheduler shims (calibrated at setup: seeded lost update, lock-order deadlock, leak and race must be found, corrected forms must be silent)."
C={}
C["C12"]=dict(cat="model_checking",engine="vsched+mc",
 text="Exhaustive enumeration of executions of the real BufferedWriteSyncer under a controlled scheduler: all operation sequences over a state-dependent 11-symbol alphabet (Write of 0/1/free-1/free/free+1/Size/Size+1/2Size+1 bytes, Sync, Tick, Stop) to depth 6 (7 thorough) for sizes 1/4/8 (+ default size, shallower) against a reference model evaluated at every sink-call boundary (= every crash point); all schedules with <=2 (3 thorough) preemptions of ~2900 generated 2-3 thread drivers over Write/Sync/Stop/Tick plus the flush goroutine, with deadlock, goroutine-leak and livelock detection; real-process SIGKILL runs at every sink call.",
 note="Scheduling points at synchronisation operations only (sufficient for data-race-free code; races are C09). Bounds as stated. Crash = process death; OS-level torn writes not modelled. "+TB,
 tech="stateless model checking of the implementation (controlled scheduler, preemption-bounded DFS over all schedules) + bounded-exhaustive operation sequences against a reference model + crash-point enumeration")
C["C13"]=dict(cat="model_checking",engine="seqx+vsched",
 text="Every payload over {a,space,LF,TAB,CR}^<=4 plus 64KiB payloads on every zap-provided writer (fresh and in sequence); every scripted (count,error,sync-error) outcome through AddSync/Lock/CombineWriteSyncers(1); every per-sink outcome vector in {full,short,zero}x{nil,error} for k<=5 (6 thorough) sinks of a multi-WriteSyncer on Write and every failure mask on Sync; all interleavings (unbounded) of 2-3 threads doing Write/Sync through Lock/CombineWriteSyncers over a sink that detects overlapping calls.",
 note="Outcome and payload alphabets are finite and listed in the evidence rule; sinks that mutate the payload are not modelled. "+TB,
 tech="bounded-exhaustive fault/outcome-vector enumeration on the real code + exhaustive interleaving exploration under the controlled scheduler")
C["C17"]=dict(cat="model_checking",engine="seqx",
 text="Explicit enumeration of every byte stream of length <=6 (7 thorough) over {a,b,LF} under every assignment of {no cut, cut, cut+empty Write, cut+Sync} to its byte boundaries, with/without a leading Sync and with Close / Close+Sync / Close+Close at the end, each run on a fresh zapio.Writer over an observer core (level enabled and disabled) and compared with a list reference model; plus multi-byte, invalid-UTF-8 and 5000-byte-line streams under all pairs of cut positions.",
 note="Alphabet and length bound as stated; no state deduplication (every history is run). Trusted: Go toolchain, zaptest/observer as the recording core.",
 tech="bounded-exhaustive enumeration of operation histories against a reference model (explicit-state, no dedup)")
C["C04"]=dict(cat="model_checking",engine="vsched+mc",
 text="All schedules with <=2 preemptions (3 thorough, on the smaller drivers) of ~620 generated drivers: 2-3 threads x 1-2 log calls (Logger.Info small/large, Sugar.Infow, Check+Write, With-child) sharing one core over Lock(sink), CombineWriteSyncers, zap.Open through a registered scheme, BufferedWriteSyncer (with concurrent Sync and flush ticks), tees thereof. The harness sink writes each payload in two halves with a scheduling point in between and counts overlapping calls; freed pool buffers are poisoned. Oracle: the sink stream splits into exactly the lines the same calls produce sequentially, once each, in per-thread order, on every tee branch; no deadlock/panic/leak.",
 note="Scheduling points at synchronisation operations, pool Get/Put and inside the harness sink; sufficient for data-race-free code (C09). Thread/op counts and preemption bound as stated. "+TB,
 tech="stateless model checking of the implementation: preemption-bounded DFS over all thread schedules under a controlled scheduler, sequential-reference oracle")
C["C09"]=dict(cat="model_checking",engine="vsched+mc (race build)",
 text="~10^4 generated programs (all unordered pairs of single operations over a ~33-op alphabet of the documented concurrent API, deeper-bounded pairs, 2-op sequences and triples over a reduced alphabet) x 8 core families x fresh/warmed-up objects, each explored over all schedules within the preemption bound, in a -race build whose scheduler hand-off is invisible to TSan (plain-word spin in //go:norace code, real primitives executed after each grant) so the race detector's happens-before relation is the program's own on every explored schedule. Verdicts: TSan report (worker exit 66, schedule taken from a journal, replayed 3x in fresh processes), deadlock, goroutine leak, livelock, panic.",
 note="Happens-before race detection per explored schedule; 2-3 threads, 1-2 ops each; relaxed-memory effects of racy code not explored. Calibration: a seeded racy counter is reported, the locked variant and a pool hand-off are clean. "+TB,
 tech="stateless model checking of the implementation under a controlled scheduler with the Go race detector active on every explored schedule")
C["C11"]=dict(cat="model_checking",engine="seqx+vsched",
 text="Sequential: every sequence of length <=3 (4 thorough) over 8 keys (two messages, an fnv32a-mod-4096 collider found by search, two levels, a disabled level, out-of-range levels below and above) x 6 timestamp deltas {0, tick-1, tick, tick+1, -1, -(tick+1)} for first, thereafter in 0..3 and tick in {1ns, 10ns, 1s}, on the parent sampler and alternating parent/With-child, with the real sampler driven in lockstep with a reference counter model (no state deduplication; fresh instances every 10^4 sequences); oracle per entry: forwarded iff admitted, hook called exactly once with the applied decision, disabled levels consume nothing, out-of-range levels pass unsampled. Concurrent: every interleaving (sampler atomics are the scheduling points; unbounded for <=4 entries, preemption bound 4 above) of 2-3 threads x 1-2 same-key entries inside an open window (exact admitted count) and straddling the window end (per-entry accounting only).",
 note="Hash = fnv32a mod 4096 per level; timestamps inside the int64 nanosecond range; sequence length and thread counts as stated. "+TB,
 tech="explicit enumeration of all entry histories against a reference model + exhaustive interleaving exploration of the real atomics under a controlled scheduler")
ENC="Encoder explorer (internal/encx): F1 = every field tree with <=4 (5 thorough) nodes over a reduced leaf set x object/inline/dict/array containers x every marshaler error position x every split into <=2 With segments + call-site fields; F2 = the full leaf alphabet (~110 leaves: boundary numerics of every width, NaN/Inf/-0/subnormals, hostile and invalid-UTF-8 strings/bytes, complex, durations and times under every built-in encoder, pointers, reflected values incl. unencodable ones, Stringers and errors incl. panicking and nil ones, typed slices) in 10 context classes, and every string of <=2 (3 thorough) units over a 16-unit alphabet as value and as key; F3 = the full product of key presence x sub-encoder variants (11200 configurations) x 32 entry variants x line endings, plus all 256 level values. "
C["C01"]=dict(cat="exploration",engine="seqx",
 text=ENC+"Oracle: an independent strict RFC 8259 recogniser accepts exactly one object, followed by exactly the configured line ending; no byte below 0x20 inside the object; valid UTF-8; encoding/json.Valid agrees; the call returns normally. Both the Encoder.EncodeEntry path and the Core.With/Write path to a byte sink are driven.",
 note="Bounded-exhaustive over the stated alphabets (finite trees, boundary value alphabets, built-in/nil/no-op sub-encoders); arbitrary user-written sub-encoders and marshalers are outside the alphabet. Trusted: Go toolchain, encoding/json only as a second validator.",
 tech="bounded-exhaustive enumeration of inputs and configurations on the real encoder, checked by an independent JSON recogniser")
C["C02"]=dict(cat="exploration",engine="seqx",
 text=ENC+"Restricted to configurations whose encoded value the statement defines (built-in sub-encoders, nil level encoder, distinct keys). Oracle: the line is decoded by an order- and duplicate-preserving decoder and compared member by member with a reference tree built independently from the field specs and documentation (metadata with the omission rules, then context, then call-site fields; integers textually, floats by bit pattern after ParseFloat, strings with U+FFFD replacement, base64, complex, error/verbose/causes, reference formatters for every built-in level/time/duration/caller/name encoder); for fault-free trees the nesting is also compared with zapcore.MapObjectEncoder.",
 note="Value domains are boundary alphabets, not whole types (8-bit levels complete). The reference encoder is written from the documentation and is itself part of the trusted base, cross-checked by the MapObjectEncoder comparison.",
 tech="bounded-exhaustive enumeration with an independent reference encoding (differential oracle) and a second implementation (MapObjectEncoder)")
C["C10"]=dict(cat="fault_enumeration",engine="seqx",
 text="Field faults: every tree of F1 (<=4 nodes, 5 thorough) that contains a failing node - marshaler error before/between/after children at every position, unencodable reflected values as fields and array elements, and the fault leaves (panicking Stringer/Error()/Errors(), nil-pointer Stringer and error, failing json.Marshaler) in 10 context classes - must return normally, stay well-formed (C01 recogniser) and decode to the reference tree that holds every other field unchanged plus the <key>Error member. Sink/core faults: every outcome vector over {ok, write error, short write + error, sync error} for tees and multi-syncers of k<=3 (4 thorough) destinations x levels info/error/fatal(hook) x two entries: every destination still receives every complete entry, every write error is named on the error output once per failing entry, the call returns, the fatal hook runs.",
 note="Fault kinds and positions are the listed finite alphabets. A nil-pointer Stringer/error is rendered as <nil> under the field's own key (documented in encodeStringer/encodeError) and accepted as its report.",
 tech="exhaustive fault-position and outcome-vector enumeration on the real code against a reference model")
C["C16"]=dict(cat="exploration",engine="seqx",
 text="Console encoder: the 11200-configuration product (key presence x built-in/nil/no-op sub-encoders) x 32+ entry variants x 5 field placements x separators {default,|,space,::,multi-byte} x line endings and duration encoders; plus every field tree with <=3 (4 thorough) nodes and the full leaf alphabet in 10 context classes. Oracle: the line equals, byte for byte, the reference columns (time, level, name, caller, function, message; presence rules of the statement) joined by the separator, then - iff the fields produce any member - the separator and a JSON object that parses strictly and equals the C02 reference tree, then newline+stack when present and enabled, then the line ending.",
 note="Messages and function names are non-empty in the alphabet (an empty column makes 'joined by the separator' ambiguous). Reference column renderers are written from the documentation of the built-in encoders.",
 tech="bounded-exhaustive enumeration of configurations and inputs against an independently assembled reference line")
checks=[]
for pid in sorted(C):
    c=C[pid]
    checks.append({"property_id":pid,"quick_cmd":f"./check {pid} quick","thorough_cmd":f"./check {pid} thorough",
      "evidence_file":f"/verif/evidence/{pid}.json","replay_cmd_template":"./check replay {path}","engine":c["engine"],
      "level_claimed":{"category":c["cat"],"text":c["text"],"design_ref":f"DESIGN.md section 3 {pid}"},
      "level_note":c["note"],"technique":c["tech"]})
m={"version":1,"setup_cmd":"./setup.sh",
 "hooks":{"guard":"none (no source hooks: instrumentation is generated from /repo's working tree at check time and applied with go build -overlay; /repo is never modified by checks)",
   "enable":"./check <ID> runs bin/instrument on /repo (AST rewrite of sync, sync/atomic, go, channel ops into /verif/.work) and builds the harness with go build -overlay",
   "baseline_off_cmd":"for m in . exp zapgrpc/internal/test; do (cd /repo/$m && GOFLAGS=-mod=mod GOPROXY=off go test -vet=off -count=1 ./...) || exit 1; done",
   "source_commits":[],"add_only":True},
 "engines":[
  {"name":"vsched+mc","path":"/verif/shim/vsched /verif/shim/vsync /verif/shim/vatomic /verif/harness/internal/mc /verif/harness/cmd/instrument","serves_properties":[p for p in sorted(C) if "vsched" in C[p]["engine"]],
   "kind_free_text":"hand-written controlled scheduler (virtual packages mounted into the zap module by a build overlay; AST rewrite of sync/atomic/chan/go/select) + stateless DFS explorer with iterative preemption/deviation bounding, sharded over worker processes, violations re-run in fresh processes before they are reported"},
  {"name":"seqx","path":"/verif/harness/cmd/*, /verif/harness/internal/{ev,par}","serves_properties":[p for p in sorted(C) if "seqx" in C[p]["engine"]],
   "kind_free_text":"bounded-exhaustive enumeration of operation sequences / inputs / fault vectors on the real code against reference models written in Go"}],
 "checks":checks,
 "not_applicable":[{"property_id":p["id"],"reason":"check not built yet in this session (planned: DESIGN.md section 3)"} for p in props if p["id"] not in C],
 "notes":"All checks rebuild from /repo's working tree on every run. Known findings: /verif/known_findings.json. Seeded defects used to test the checks: /verif/seeded/."}
json.dump(m,open('/verif/MANIFEST.json','w'),indent=1)
try:
    import jsonschema
    jsonschema.validate(m,json.load(open('/root/.vp/MANIFEST.schema.json')))
    print("MANIFEST valid;",len(checks),"checks")
except ImportError:
    print("written (jsonschema not available in this python)")
