#!/bin/bash
# usage: verify_seed.sh <ID> <name> <patch> <demo_test.go> <demo dir rel> <run regex> [race]
# Confirms in a scratch worktree of /repo HEAD: suite passes with the change; demo fails with it, passes without.
# On success stores /verif/seeded/<name>/{patch.diff,demo_test.go,meta.json}.
ID=$1; NAME=$2; PATCH=$3; DEMO=$4; DIR=$5; RX=$6; RACE=${7:-}
# DIR may be "<module dir>:<package dir>" for the nested modules (e.g. exp:zapslog)
MOD=.; case $DIR in *:*) MOD=${DIR%%:*}; DIR=${DIR##*:};; esac
export GOFLAGS=-mod=mod GOPROXY=off GOSUMDB=off GOTOOLCHAIN=local
WT=/tmp/sv/$(echo $NAME | tr 'A-Z' 'a-z')
rm -rf $WT; git -C /repo worktree prune; git -C /repo worktree add -q --detach $WT HEAD || exit 2
cleanup() { git -C /repo worktree remove --force $WT; }
trap cleanup EXIT
cd $WT
git apply "$PATCH" || { echo "PATCH DOES NOT APPLY"; exit 3; }
suite=pass
for m in . exp zapgrpc/internal/test; do
  (cd $WT/$m && go test -vet=off -count=1 ./... >/tmp/sv/$NAME.suite.log 2>&1) || { suite=FAIL; grep -E "^(--- FAIL|FAIL|panic)" /tmp/sv/$NAME.suite.log | head -5; }
done
echo "suite with change: $suite"
cp "$DEMO" $WT/$MOD/$DIR/seed_demo_test.go
(cd $WT/$MOD && go test $RACE -vet=off -count=1 -run "$RX" ./$DIR/ >/tmp/sv/$NAME.demo1.log 2>&1); d1=$?
git apply -R "$PATCH"
(cd $WT/$MOD && go test $RACE -vet=off -count=1 -run "$RX" ./$DIR/ >/tmp/sv/$NAME.demo0.log 2>&1); d0=$?
echo "demo with change: exit $d1 ; without: exit $d0"
if [ $suite = pass ] && [ $d1 != 0 ] && [ $d0 = 0 ]; then
  mkdir -p /verif/seeded/$NAME
  cp "$PATCH" /verif/seeded/$NAME/patch.diff; cp "$DEMO" /verif/seeded/$NAME/demo_test.go
  echo "CONFIRMED $NAME"
else
  echo "NOT CONFIRMED $NAME"; tail -5 /tmp/sv/$NAME.demo1.log /tmp/sv/$NAME.demo0.log
fi
