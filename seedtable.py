#!/usr/bin/env python3
# Regenerates the seeded-change table of DESIGN.md (between the SEEDTABLE markers) from seeded/*/meta.json
import json,glob,os,re
rows=[]
missed=0
for d in sorted(glob.glob('/verif/seeded/*/')):
    n=os.path.basename(d.rstrip('/'))
    m=json.load(open(d+'meta.json'))
    res=m.get('check_result','')
    if res.upper().startswith('MISSED'): missed+=1
    res=res.replace('|','/')
    rows.append(f"| {n} | {m.get('needs_to_manifest','').replace('|','/')} | {res} |")
hdr="| seeded change | needs | result |\n|---|---|---|\n"
tab=hdr+"\n".join(rows)+f"\n\n{len(rows)} seeded changes kept; {missed} of them were missed by the first version of the respective check and are caught now (every miss was an alphabet or driver gap - a value class, operation order or environment behaviour the enumeration did not contain - and was closed by widening the enumeration, never by special-casing the seed).\n"
p='/verif/DESIGN.md'
s=open(p).read()
s=re.sub(r'<!-- SEEDTABLE BEGIN -->.*<!-- SEEDTABLE END -->','<!-- SEEDTABLE BEGIN -->\n'+tab.replace('\\','\\\\')+'<!-- SEEDTABLE END -->',s,flags=re.S)
open(p,'w').write(s)
print(len(rows),'rows',missed,'missed at first')
