// Command c08 decides property C08: the bytes a log call produces are a
// function of the logger, entry and fields only - independent of what was
// logged before (history) and of which recycled object the internal pools hand
// out (environment), and independent of concurrent activity on other loggers
// that share nothing but those pools.
//
// Sequential part: every sequence of length L over the operation alphabet
// below is run on the real code under the controlled pool (vsync.Pool shim,
// freed buffers and checked entries poisoned), once per pool-answer sequence
// with at most D deviations from "reuse the most recently freed object"
// (deviation = an older object or a fresh one). The output of EVERY step must
// equal the output the same operation produces as the first call after a pool
// reset.
//
// Concurrent part: 2-3 threads, each with its own loggers and sinks (sharing
// only zap's package-level pools), 1-2 operations each; all schedules within
// the preemption bound (pool Get/Put are the scheduling points) combined with
// pool deviations; each thread's output must equal its sequential reference.
package main

import (
	"context"
	"errors"
	"fmt"
	"io"
	"log/slog"
	"os"
	"runtime"
	"sort"
	"strconv"
	"strings"
	"time"

	"go.uber.org/multierr"
	"go.uber.org/zap"
	"go.uber.org/zap/buffer"
	"go.uber.org/zap/exp/zapslog"
	"go.uber.org/zap/zapcore"
	"go.uber.org/zap/zzverif/vsched"
	"go.uber.org/zap/zzverif/vsync"
	"verif/harness/internal/ev"
	"verif/harness/internal/hx"
	"verif/harness/internal/mc"
)

// ---------------------------------------------------------------------------
// recording environment: one per virtual thread

type env struct {
	rec     []string // labelled chunks in arrival order
	loggers map[string]*zap.Logger
	clock   *hx.FixedClock
	hooked  []string
}

type recSink struct {
	e     *env
	label string
	fail  bool
}

func (s *recSink) Write(p []byte) (int, error) {
	s.e.rec = append(s.e.rec, s.label+":"+string(p)) // string(p) copies: later reuse of p is invisible here,
	if s.fail {                                      // reuse BEFORE this call is what must never happen
		return 0, errors.New("sink failed")
	}
	return len(p), nil
}
func (s *recSink) Sync() error { return nil }

func newEnv() *env {
	return &env{loggers: map[string]*zap.Logger{}, clock: hx.NewFixedClock()}
}

func (e *env) sink(label string) zapcore.WriteSyncer { return &recSink{e: e, label: label} }

func jsonCfg() zapcore.EncoderConfig {
	c := zap.NewProductionEncoderConfig()
	c.FunctionKey = "fn"
	return c
}

func consCfg() zapcore.EncoderConfig {
	c := zap.NewDevelopmentEncoderConfig()
	c.FunctionKey = "fn"
	return c
}

type fatalRec struct{ e *env }

func (h fatalRec) OnWrite(ce *zapcore.CheckedEntry, fs []zapcore.Field) {
	h.e.rec = append(h.e.rec, fmt.Sprintf("HOOK:%s|%s|%s|%d", ce.Level, ce.Message, ce.LoggerName, len(fs)))
}

// get builds loggers lazily, i.e. possibly in the middle of a history with
// dirty pools: construction (encoder buffers, With clones) is part of what
// must be history-independent.
func (e *env) get(name string) *zap.Logger {
	if l, ok := e.loggers[name]; ok {
		return l
	}
	opts := []zap.Option{zap.WithClock(e.clock), zap.ErrorOutput(e.sink("E"))}
	var l *zap.Logger
	switch name {
	case "J":
		l = zap.New(zapcore.NewCore(zapcore.NewJSONEncoder(jsonCfg()), e.sink("J"), zap.DebugLevel), opts...)
	case "Jc":
		l = e.get("J").With(zap.Namespace("ns"), zap.Int("c", 1), zap.String("s", "v\"q"))
	case "Js":
		l = e.get("J").WithOptions(zap.AddCaller(), zap.AddStacktrace(zap.InfoLevel))
	case "Jcall":
		l = e.get("J").WithOptions(zap.AddCaller())
	case "C":
		l = zap.New(zapcore.NewCore(zapcore.NewConsoleEncoder(consCfg()), e.sink("C"), zap.DebugLevel), opts...)
	case "Cc":
		l = e.get("C").With(zap.Namespace("cn"), zap.Int("c", 2), zap.Reflect("r", pair{1, "<r>"}))
	case "Cs":
		l = e.get("C").WithOptions(zap.AddCaller(), zap.AddStacktrace(zap.InfoLevel))
	case "T5":
		var cores []zapcore.Core
		for i := 0; i < 5; i++ {
			var enc zapcore.Encoder
			if i%2 == 0 {
				enc = zapcore.NewJSONEncoder(jsonCfg())
			} else {
				enc = zapcore.NewConsoleEncoder(consCfg())
			}
			cores = append(cores, zapcore.NewCore(enc, e.sink("T"+strconv.Itoa(i)), zap.DebugLevel))
		}
		l = zap.New(zapcore.NewTee(cores...), opts...)
	case "Cy": // console logger whose level column holds a value rendered by user code (a Stringer that is a scheduling point)
		cfg := consCfg()
		cfg.EncodeLevel = func(lv zapcore.Level, enc zapcore.PrimitiveArrayEncoder) {
			enc.AppendString(lv.CapitalString())
			if ae, ok := enc.(zapcore.ArrayEncoder); ok {
				_ = ae.AppendReflected(yieldStr{"lvl"})
			}
		}
		l = zap.New(zapcore.NewCore(zapcore.NewConsoleEncoder(cfg), e.sink("Y"), zap.DebugLevel), opts...)
	case "Ca": // console logger whose time and level columns are structured: the callbacks append an array each
		cfg := consCfg()
		col := func(tag string, v func(zapcore.ArrayEncoder)) func(zapcore.PrimitiveArrayEncoder) {
			return func(enc zapcore.PrimitiveArrayEncoder) {
				if ae, ok := enc.(zapcore.ArrayEncoder); ok {
					_ = ae.AppendArray(zapcore.ArrayMarshalerFunc(func(a zapcore.ArrayEncoder) error { a.AppendString(tag); v(a); return nil }))
					return
				}
				enc.AppendString(tag)
			}
		}
		cfg.EncodeTime = func(t time.Time, enc zapcore.PrimitiveArrayEncoder) {
			col("T", func(a zapcore.ArrayEncoder) { a.AppendInt64(t.Unix()) })(enc)
		}
		cfg.EncodeLevel = func(lv zapcore.Level, enc zapcore.PrimitiveArrayEncoder) {
			col("L", func(a zapcore.ArrayEncoder) { a.AppendString(lv.String()) })(enc)
		}
		l = zap.New(zapcore.NewCore(zapcore.NewConsoleEncoder(cfg), e.sink("Ca"), zap.DebugLevel), opts...)
	case "Cw": // console logger with more columns than the stock callbacks give: date and clock time are two columns
		cfg := consCfg()
		cfg.EncodeTime = func(t time.Time, enc zapcore.PrimitiveArrayEncoder) {
			enc.AppendString(t.UTC().Format("2006-01-02"))
			enc.AppendString(t.UTC().Format("15:04:05"))
		}
		l = zap.New(zapcore.NewCore(zapcore.NewConsoleEncoder(cfg), e.sink("Cw"), zap.DebugLevel), append(append([]zap.Option{}, opts...), zap.AddCaller())...)
	case "Cr": // console logger with its own reflection encoder (EncoderConfig.NewReflectedEncoder)
		cfg := consCfg()
		cfg.NewReflectedEncoder = func(w io.Writer) zapcore.ReflectedEncoder { return tagEnc{w, "console-owned:"} }
		l = zap.New(zapcore.NewCore(zapcore.NewConsoleEncoder(cfg), e.sink("Cr"), zap.DebugLevel), opts...)
	case "Jr": // JSON logger with its own reflection encoder
		cfg := jsonCfg()
		cfg.NewReflectedEncoder = func(w io.Writer) zapcore.ReflectedEncoder { return tagEnc{w, "json-owned:"} }
		l = zap.New(zapcore.NewCore(zapcore.NewJSONEncoder(cfg), e.sink("Jr"), zap.DebugLevel), opts...)
	case "F":
		l = e.get("J").WithOptions(zap.WithFatalHook(fatalRec{e}))
	case "X": // failing sink: write errors go to the error output
		l = zap.New(zapcore.NewCore(zapcore.NewJSONEncoder(jsonCfg()), &recSink{e: e, label: "X", fail: true}, zap.DebugLevel), opts...)
	case "Smp":
		l = zap.New(zapcore.NewSamplerWithOptions(zapcore.NewCore(zapcore.NewJSONEncoder(jsonCfg()), e.sink("S"), zap.DebugLevel), time.Hour, 100, 100), opts...)
	default:
		panic(mc.ToolErr{Msg: "unknown logger " + name})
	}
	e.loggers[name] = l
	return l
}

// ---------------------------------------------------------------------------
// field material

type pair struct {
	A int
	B string
}

// yieldStr is rendered by fmt while the console encoder prints its columns;
// its String method is a scheduling point (user code runs there).
type yieldStr struct{ s string }

func (y yieldStr) String() string { vsched.Yield(); return "<" + y.s + ">" }

// tagEnc is a user-supplied reflection encoder: every value becomes a tagged JSON string.
type tagEnc struct {
	w   io.Writer
	tag string
}

func (t tagEnc) Encode(v interface{}) error {
	_, err := fmt.Fprintf(t.w, "%q\n", t.tag+fmt.Sprint(v))
	return err
}

// reentObj logs through other loggers while it is being encoded (user code inside a marshaler that
// logs: a nested encode runs between the outer entry's fields).
type reentObj struct{ e *env }

func (r reentObj) MarshalLogObject(enc zapcore.ObjectEncoder) error {
	enc.AddInt("before", 1)
	r.e.get("Jc").Info("m-inner-json", zap.Reflect("ri", pair{9, "<in>"}), zap.Namespace("inner"))
	r.e.get("Cc").Info("m-inner-console", zap.Reflect("ri", pair{10, "in"}))
	_ = enc.AddReflected("mid", pair{11, "mid"})
	enc.AddString("after", "x")
	return nil
}

// reentJSON logs (with a reflected field of its own) from inside MarshalJSON, i.e. while the outer
// encoder's reflection machinery is at work.
type reentJSON struct{ e *env }

func (r reentJSON) MarshalJSON() ([]byte, error) {
	r.e.get("Jc").Info("m-inner-from-MarshalJSON", zap.Reflect("ri", pair{12, "deep"}))
	return []byte(`{"reent":true}`), nil
}

type failObj struct{}

func (failObj) MarshalLogObject(enc zapcore.ObjectEncoder) error {
	enc.AddInt("before", 1)
	enc.OpenNamespace("inner")
	enc.AddString("x", "y")
	return errors.New("marshal failed")
}

type nestObj struct{ depth int }

func (n nestObj) MarshalLogObject(enc zapcore.ObjectEncoder) error {
	enc.AddInt("d", n.depth)
	if n.depth > 0 {
		_ = enc.AddObject("o", nestObj{n.depth - 1})
		_ = enc.AddArray("a", nestArr{n.depth - 1})
		enc.OpenNamespace("tail")
		enc.AddBool("t", true)
	}
	return nil
}

type nestArr struct{ depth int }

func (n nestArr) MarshalLogArray(enc zapcore.ArrayEncoder) error {
	enc.AppendInt(n.depth)
	enc.AppendString("s\n")
	if n.depth > 0 {
		_ = enc.AppendArray(nestArr{n.depth - 1})
		_ = enc.AppendObject(nestObj{n.depth - 1})
		_ = enc.AppendReflected(pair{n.depth, "in-array"})
	}
	return nil
}

type failArr struct{}

func (failArr) MarshalLogArray(enc zapcore.ArrayEncoder) error {
	enc.AppendInt(1)
	return errors.New("array failed")
}

type panicStr struct{}

func (panicStr) String() string { panic("stringer exploded") }

type verboseErr struct{}

func (verboseErr) Error() string { return "short" }
func (verboseErr) Format(f fmt.State, c rune) {
	if c == 'v' && f.Flag('+') {
		fmt.Fprint(f, "short: verbose detail")
		return
	}
	fmt.Fprint(f, "short")
}

var (
	e1 = errors.New("first error")
	e2 = errors.New("second \"error\"")
)

//go:noinline
func deep(n int, f func()) {
	if n <= 0 {
		f()
		return
	}
	deep(n-1, f)
	runtime.KeepAlive(n)
}

var bigMsg = strings.Repeat("0123456789abcdef", 256) // 4 KiB
var hugeMsg = strings.Repeat("H", 40*1024)
var bigVal = strings.Repeat("v\twith\\escapes\"", 128) // ~2 KiB, grows when escaped

// ---------------------------------------------------------------------------
// the operation alphabet

type op struct {
	name string
	doc  string
	run  func(e *env)
}

func fixedEntry(e *env, msg string) zapcore.Entry {
	return zapcore.Entry{Level: zap.WarnLevel, Time: e.clock.T, LoggerName: "direct", Message: msg,
		Caller: zapcore.EntryCaller{Defined: true, File: "/x/y.go", Line: 7, Function: "pkg.fn"}, Stack: "stack\n\tline"}
}

var ops = []op{
	{"ji", "JSON: plain fields", func(e *env) { e.get("J").Info("m-ji", zap.Int("a", 1), zap.String("b", "x")) }},
	{"jns", "JSON: namespaces left open at the end of the entry", func(e *env) {
		e.get("J").Info("m-jns", zap.Namespace("n1"), zap.Int("a", 1), zap.Namespace("n2"))
	}},
	{"jref", "JSON: reflected value (allocates the reflection buffer and encoder)", func(e *env) {
		e.get("J").Info("m-jref", zap.Reflect("r", pair{1, "<x>&"}), zap.Int("z", 2))
	}},
	{"jreff", "JSON: unencodable reflected value", func(e *env) {
		e.get("J").Info("m-jreff", zap.Reflect("r", make(chan int)), zap.Int("after", 1))
	}},
	{"jfail", "JSON: object marshaler fails after opening a namespace; array marshaler fails", func(e *env) {
		e.get("J").Info("m-jfail", zap.Object("o", failObj{}), zap.Array("fa", failArr{}), zap.Int("after", 2))
	}},
	{"jnest", "JSON: nested objects, arrays, dict, inline", func(e *env) {
		e.get("J").Info("m-jnest", zap.Object("o", nestObj{2}), zap.Array("a", nestArr{2}), zap.Dict("d", zap.Int("i", 1), zap.Namespace("dn"), zap.Bool("b", false)), zap.Inline(nestObj{1}))
	}},
	{"jerr", "JSON: error group (pooled error-array elements in zapcore and zap), verbose error", func(e *env) {
		e.get("J").Info("m-jerr", zap.Error(multierr.Combine(e1, e2)), zap.Errors("es", []error{e1, nil, e2}), zap.NamedError("ne", verboseErr{}))
	}},
	{"jstk3", "JSON: caller + stack trace, shallow", func(e *env) { deep(3, func() { e.get("Js").Info("m-jstk3") }) }},
	{"jstk130", "JSON: caller + stack trace deeper than the pooled program-counter storage", func(e *env) {
		deep(130, func() { e.get("Js").Info("m-jstk130", zap.Int("a", 1)) })
	}},
	{"jcall", "JSON: caller only (first frame capture)", func(e *env) { e.get("Jcall").Warn("m-jcall") }},
	{"ci", "console: plain fields", func(e *env) { e.get("C").Info("m-ci", zap.Int("a", 1), zap.String("b", "x")) }},
	{"cy", "console: a column rendered by user code (Stringer that yields) while the line is assembled", func(e *env) {
		e.get("Cy").Named("ny").Info("m-cy", zap.Int("a", 1))
	}},
	{"cns", "console: namespace left open, reflected value", func(e *env) {
		e.get("C").Info("m-cns", zap.Namespace("n"), zap.Reflect("r", pair{3, "c"}), zap.Int("a", 1))
	}},
	{"cre", "console logger configured with its own reflection encoder: reflected values in the entry and in derived context", func(e *env) {
		e.get("Cr").With(zap.Reflect("ctx", pair{7, "c"})).Info("m-cre", zap.Reflect("r", pair{8, "<c>"}), zap.Int("a", 1))
	}},
	{"jre", "JSON logger configured with its own reflection encoder: reflected values in the entry and in derived context", func(e *env) {
		e.get("Jr").With(zap.Reflect("ctx", pair{5, "j"})).Info("m-jre", zap.Reflect("r", pair{6, "<j>"}), zap.Array("arr", nestArr{1}))
	}},
	{"carr", "console logger whose time and level columns are arrays built by the column callbacks (two structured columns in one line)", func(e *env) {
		e.get("Ca").Warn("m-carr", zap.Int("a", 1))
	}},
	{"cwide", "console line of seven metadata columns (a time callback appending two elements, level, name, caller, function)", func(e *env) {
		e.get("Cw").Named("wide").Error("m-cwide", zap.Int("a", 1))
	}},
	{"reent", "JSON: a marshaler that logs through two other loggers (JSON and console, reflected values) while it is being encoded", func(e *env) {
		e.get("J").Info("m-reent", zap.Reflect("r0", pair{1, "o"}), zap.Object("o", reentObj{e}), zap.Reflect("rj", reentJSON{e}), zap.Reflect("r1", pair{2, "o"}))
	}},
	{"creent", "console: the same marshaler in a console entry of a derived logger", func(e *env) {
		e.get("C").With(zap.Int("ctx", 1)).Info("m-creent", zap.Object("o", reentObj{e}), zap.Int("a", 1))
	}},
	{"cc", "console: logger with namespaced context", func(e *env) { e.get("Cc").Info("m-cc", zap.Int("k", 5)) }},
	{"ccnof", "console: entry without fields through the logger with namespaced context (the stored context is used as it is)", func(e *env) { e.get("Cc").Info("m-ccnof") }},
	{"jcnof", "JSON: entry without fields through the logger with namespaced context", func(e *env) { e.get("Jc").Info("m-jcnof") }},
	{"cnof", "console: no fields at all (empty context)", func(e *env) { e.get("C").Named("nm").Info("m-cnof") }},
	{"cstk", "console: caller + stack", func(e *env) { deep(2, func() { e.get("Cs").Error("m-cstk", zap.Error(e1)) }) }},
	{"cerr", "console: error group and failing marshaler", func(e *env) {
		e.get("C").Info("m-cerr", zap.Error(multierr.Combine(e1, e2)), zap.Object("o", failObj{}))
	}},
	{"jc", "JSON: logger with namespaced context", func(e *env) { e.get("Jc").Info("m-jc", zap.Int("k", 5)) }},
	{"t5", "tee of five cores (checked entry's core list grows past its pooled capacity)", func(e *env) {
		e.get("T5").Info("m-t5", zap.Int("a", 1), zap.Namespace("tn"), zap.String("s", "v"))
	}},
	{"chk", "Check without Write (checked entry never returned)", func(e *env) { _ = e.get("J").Check(zap.InfoLevel, "m-chk") }},
	{"chkw", "Check then Write with caller", func(e *env) {
		if ce := e.get("Jcall").Check(zap.ErrorLevel, "m-chkw"); ce != nil {
			ce.Write(zap.Int("a", 1))
		}
	}},
	{"big", "4 KiB message and a 2 KiB value that grows when escaped (buffer growth)", func(e *env) {
		e.get("J").Info(bigMsg, zap.String("k", bigVal))
	}},
	{"huge", "40 KiB entry (buffers grow past the pool's retention limit)", func(e *env) {
		e.get("J").Info(hugeMsg, zap.Int("a", 1))
		e.get("C").Info(hugeMsg, zap.Int("a", 1))
	}},
	{"enc", "JSON encoder used directly: clone, add context, EncodeEntry", func(e *env) {
		base := zapcore.NewJSONEncoder(jsonCfg())
		base.AddString("base", "b")
		c := base.Clone()
		c.AddInt("ctx", 1)
		c.OpenNamespace("cns")
		buf, err := c.EncodeEntry(fixedEntry(e, "m-enc"), []zapcore.Field{zap.Int("f", 1), zap.Reflect("r", pair{2, "q"})})
		if err != nil {
			panic(err)
		}
		e.rec = append(e.rec, "D:"+buf.String())
		buf.Free()
		buf2, _ := base.EncodeEntry(fixedEntry(e, "m-enc2"), nil)
		e.rec = append(e.rec, "D:"+buf2.String())
		buf2.Free()
	}},
	{"cenc", "console encoder used directly: clone, add context, EncodeEntry", func(e *env) {
		base := zapcore.NewConsoleEncoder(consCfg())
		c := base.Clone()
		c.AddInt("ctx", 1)
		c.OpenNamespace("cns")
		buf, err := c.EncodeEntry(fixedEntry(e, "m-cenc"), []zapcore.Field{zap.Int("f", 1), zap.Namespace("fn"), zap.Reflect("r", pair{2, "q"})})
		if err != nil {
			panic(err)
		}
		e.rec = append(e.rec, "D:"+buf.String())
		buf.Free()
	}},
	{"fatal", "Fatal entry with a recording custom hook", func(e *env) { e.get("F").Fatal("m-fatal", zap.Int("a", 1)) }},
	{"panic", "Panic entry, recovered (checked entry is not returned to its pool)", func(e *env) {
		defer func() { e.rec = append(e.rec, fmt.Sprintf("PANIC:%v", recover())) }()
		e.get("J").Panic("m-panic", zap.Int("a", 1))
	}},
	{"nocaller", "caller annotation and stack trace requested with a skip deeper than the stack (nothing captured; reported on the error output)", func(e *env) {
		e.get("J").WithOptions(zap.AddCaller(), zap.AddCallerSkip(1000), zap.AddStacktrace(zap.DebugLevel)).Info("m-nocaller", zap.StackSkip("deep", 1000))
	}},
	{"gc", "garbage collection: every pool emptied", func(e *env) { vsched.DropPools() }},
	{"with", "derive a child with namespaced context in the current pool state, log through it", func(e *env) {
		e.get("J").With(zap.Int("w", 1), zap.Namespace("wn"), zap.Reflect("wr", pair{9, "w"})).Info("m-with", zap.Int("k", 1))
	}},
	{"cwith", "derive a console child in the current pool state, log through it", func(e *env) {
		e.get("C").With(zap.Int("w", 1), zap.Namespace("wn")).Info("m-cwith", zap.Int("k", 1))
	}},
	{"lazy", "WithLazy child, first use", func(e *env) {
		e.get("J").WithLazy(zap.Int("l", 1), zap.Namespace("ln")).Info("m-lazy", zap.Int("k", 1))
	}},
	{"strp", "panicking Stringer field (recovered inside the encoder)", func(e *env) {
		e.get("J").Info("m-strp", zap.Stringer("s", panicStr{}), zap.Int("after", 1))
	}},
	{"stkf", "zap.Stack field", func(e *env) { deep(2, func() { e.get("J").Info("m-stkf", zap.Stack("st"), zap.StackSkip("st1", 1)) }) }},
	{"sug", "sugared logger: Infow with pairs and an error, Infof", func(e *env) {
		s := e.get("J").Sugar()
		s.Infow("m-sug", "k", 1, "e", e1, "o", pair{1, "p"})
		s.Infof("m-sugf %d %s", 7, "x")
	}},
	{"sinkerr", "sink write fails: the error is reported on the error output", func(e *env) {
		e.get("X").Info("m-sinkerr", zap.Int("a", 1))
	}},
	{"corechk", "core used without a Logger: Check + Write on a core whose sink fails (no error output was configured for this entry)", func(e *env) {
		core := zapcore.NewCore(zapcore.NewJSONEncoder(jsonCfg()), &recSink{e: e, label: "K", fail: true}, zap.DebugLevel)
		if ce := core.Check(fixedEntry(e, "m-corechk"), nil); ce != nil {
			ce.Write(zap.Int("a", 1))
		}
	}},
	{"slog", "zapslog handler: record with group attributes at error level (stack attached)", func(e *env) {
		core := zapcore.NewCore(zapcore.NewJSONEncoder(jsonCfg()), e.sink("L"), zap.DebugLevel)
		h := zapslog.NewHandler(core, zapslog.WithCaller(true)).WithGroup("g").WithAttrs([]slog.Attr{slog.Int("wa", 1)})
		r := slog.NewRecord(e.clock.T, slog.LevelError, "m-slog", 0)
		r.AddAttrs(slog.Group("grp", slog.String("s", "v"), slog.Any("any", pair{4, "s"})), slog.Any("err", e1))
		_ = h.Handle(context.Background(), r)
	}},
	{"smp", "sampled logger", func(e *env) { e.get("Smp").Info("m-smp", zap.Int("a", 1)) }},
}

var opIndex = func() map[string]int {
	m := map[string]int{}
	for i, o := range ops {
		if _, dup := m[o.name]; dup {
			panic("duplicate op " + o.name)
		}
		m[o.name] = i
	}
	return m
}()

// runSeq applies the operations in order and returns the output of each step.
// Every operation is invoked from this one call site, so call stacks (and thus
// caller and stack annotations) are identical wherever an op occurs.
func runSeq(e *env, seq []int) []string {
	out := make([]string, len(seq))
	for i, k := range seq {
		from := len(e.rec)
		ops[k].run(e)
		out[i] = strings.Join(e.rec[from:], "\x1e")
	}
	return out
}

// seqBody / concBody are the only roots under which operations run, for the
// reference runs as well as for the explored ones, so stack annotations agree.
//
//go:noinline
func seqBody(seq []int, out *[]string) func() {
	return func() { poolMisuse = ""; *out = runSeq(newEnv(), seq) }
}

//go:noinline
func concBody(progs [][]int, outs [][]string) func() {
	return func() {
		poolMisuse = ""
		var wg vsync.WaitGroup
		for t := range progs {
			t := t
			wg.Add(1)
			vsched.Go(func() { defer wg.Done(); outs[t] = runSeq(newEnv(), progs[t]) })
		}
		wg.Wait()
	}
}

// poolMisuse names the first object that was returned to its pool while it was already in it
// (two later Gets would then own the same object: released storage observable by construction).
var poolMisuse string

func poison() {
	vsched.PoolDoublePut = func(x any) {
		if poolMisuse == "" {
			poolMisuse = fmt.Sprintf("%T", x)
		}
	}
	vsched.PoolPutHook = func(x any) {
		switch b := x.(type) {
		case *buffer.Buffer:
			bs := b.Bytes()
			bs = bs[:cap(bs)]
			for i := range bs {
				bs[i] = 0xDB
			}
		case *zapcore.CheckedEntry:
			// a checked entry used after it was returned shows this text
			b.Entry = zapcore.Entry{Message: "\xDBPOOLED-CHECKED-ENTRY\xDB", LoggerName: "\xDBpooled\xDB", Stack: "\xDBpooled\xDB", Level: zapcore.Level(77)}
		}
	}
}

// ---------------------------------------------------------------------------
// references: output of each op as the first call after a pool reset

var refSeq, refConc []string
var refVio *mc.Violation

// computeRefs runs every operation alone, as the first call after a pool
// reset (twice, to be sure the output is a function of the call). An
// operation whose very first call panics or shows released memory is already
// a violation of the property (item ref|<op>).
func computeRefs() *mc.Violation {
	if refSeq != nil {
		return refVio
	}
	refSeq = make([]string, len(ops))
	refConc = make([]string, len(ops))
	for k := range ops {
		if v := refOne(k); v != nil && refVio == nil {
			refVio = v
		}
	}
	return refVio
}

func refOne(k int) *mc.Violation {
	bad := func(format string, a ...any) *mc.Violation {
		return &mc.Violation{Item: "ref|" + ops[k].name, Kind: "oracle", Detail: fmt.Sprintf("operation %s (%s) run alone, first after a pool reset: ", ops[k].name, ops[k].doc) + fmt.Sprintf(format, a...), Choices: []int{}}
	}
	for round := 0; round < 2; round++ {
		var o1 []string
		o2 := make([][]string, 1)
		res := vsched.Run(nil, seqBody([]int{k}, &o1))
		if res.Verdict == vsched.Panicked {
			return bad("panicked: %v", res.PanicVal)
		}
		if res.Verdict != vsched.OK {
			panic(mc.ToolErr{Msg: fmt.Sprintf("reference run of %s: verdict %d", ops[k].name, res.Verdict)})
		}
		res = vsched.Run(nil, concBody([][]int{{k}}, o2))
		if res.Verdict == vsched.Panicked {
			return bad("panicked: %v", res.PanicVal)
		}
		if res.Verdict != vsched.OK {
			panic(mc.ToolErr{Msg: fmt.Sprintf("reference run (thread) of %s: verdict %d", ops[k].name, res.Verdict)})
		}
		if poolMisuse != "" {
			return bad("a %s was returned to its pool twice without being taken out in between (two later calls would share it)", poolMisuse)
		}
		got, gotc := o1[0], o2[0][0]
		if round == 1 && (got != refSeq[k] || gotc != refConc[k]) {
			return bad("two identical first calls produced different output; %s", diffAt(got, refSeq[k]))
		}
		refSeq[k], refConc[k] = got, gotc
	}
	if i := strings.Index(refSeq[k], "\xDB"); i >= 0 {
		return bad("the output contains bytes of a released (poisoned) pool object; %s", diffAt(refSeq[k], refSeq[k][:i]))
	}
	return nil
}

func parseSeq(s string) []int {
	var seq []int
	for _, n := range strings.Split(s, ".") {
		if n == "" {
			continue
		}
		k, ok := opIndex[n]
		if !ok {
			panic(mc.ToolErr{Msg: "unknown op " + n})
		}
		seq = append(seq, k)
	}
	return seq
}

func seqName(seq []int) string {
	n := make([]string, len(seq))
	for i, k := range seq {
		n[i] = ops[k].name
	}
	return strings.Join(n, ".")
}

func diffAt(a, b string) string {
	i := 0
	for i < len(a) && i < len(b) && a[i] == b[i] {
		i++
	}
	lo := i - 40
	if lo < 0 {
		lo = 0
	}
	cut := func(s string) string {
		hi := i + 80
		if hi > len(s) {
			hi = len(s)
		}
		if lo > len(s) {
			return ""
		}
		return s[lo:hi]
	}
	return fmt.Sprintf("first difference at byte %d: got ...%q..., reference ...%q... (lengths %d / %d)", i, cut(a), cut(b), len(a), len(b))
}

// seqExec: one sequential history.
func seqExec(seq []int) func() mc.Exec {
	return func() mc.Exec {
		var out []string
		return mc.Exec{
			Body: seqBody(seq, &out),
			Check: func(vsched.Result) (string, error) {
				if poolMisuse != "" {
					return "", fmt.Errorf("history %s: a %s was returned to its pool twice without being taken out in between (two later calls would share it)", seqName(seq), poolMisuse)
				}
				for i, k := range seq {
					if out[i] != refSeq[k] {
						return "", fmt.Errorf("history %s: output of step %d (%s: %s) differs from the output of the same call made first after a pool reset; %s",
							seqName(seq), i+1, ops[k].name, ops[k].doc, diffAt(out[i], refSeq[k]))
					}
				}
				return fmt.Sprintf("reuse=%d/%d", vsched.PoolReuses, vsched.PoolGets), nil
			},
		}
	}
}

// concExec: threads with private environments sharing only the pools.
func concExec(progs [][]int) func() mc.Exec {
	return func() mc.Exec {
		outs := make([][]string, len(progs))
		return mc.Exec{
			Body: concBody(progs, outs),
			Check: func(vsched.Result) (string, error) {
				if poolMisuse != "" {
					return "", fmt.Errorf("threads %s: a %s was returned to its pool twice without being taken out in between (two later calls would share it)", progNames(progs), poolMisuse)
				}
				for t, p := range progs {
					for i, k := range p {
						if outs[t][i] != refConc[k] {
							return "", fmt.Errorf("threads %s: output of thread %d step %d (%s: %s) differs from the output of the same call made alone; %s",
								progNames(progs), t+1, i+1, ops[k].name, ops[k].doc, diffAt(outs[t][i], refConc[k]))
						}
					}
				}
				return fmt.Sprintf("reuse=%d/%d", vsched.PoolReuses, vsched.PoolGets), nil
			},
		}
	}
}

func progNames(progs [][]int) string {
	s := make([]string, len(progs))
	for i, p := range progs {
		s[i] = seqName(p)
	}
	return strings.Join(s, ";")
}

func merge(dst *mc.Stats, st mc.Stats) {
	dst.Execs += st.Execs
	dst.Steps += st.Steps
	dst.Branching += st.Branching
	if st.MaxPoints > dst.MaxPoints {
		dst.MaxPoints = st.MaxPoints
	}
	if st.MaxThreads > dst.MaxThreads {
		dst.MaxThreads = st.MaxThreads
	}
	if !st.Exhaustive {
		dst.Exhaustive = false
	}
	for k, n := range st.Outcomes {
		dst.Outcomes[k] += n
	}
}

// item formats:
//
//	seq|<dev>|<prefix ops a.b>|<L>     every history prefix+suffix of total length L (suffix over the whole alphabet)
//	one|<dev>|<a.b.c>                  exactly one history (replays)
//	conc|<pre>|<dev>|<a.b;c;d>         threads
//	ref|<op>                           the first-call reference runs themselves
func handler(item string, replay []int, isReplay bool, journal func([]int)) mc.ItemResult {
	poison()
	vsched.PoolChoices = true
	f := strings.Split(item, "|")
	if f[0] == "ref" {
		refSeq = nil
		refVio = nil
		return mc.ItemResult{Item: item, Violation: computeRefs()}
	}
	if v := computeRefs(); v != nil {
		return mc.ItemResult{Item: item, Violation: v}
	}
	switch f[0] {
	case "one":
		dev, _ := strconv.Atoi(f[1])
		mk := seqExec(parseSeq(f[2]))
		if isReplay {
			_, v := mc.Replay(mk, replay)
			return mc.ItemResult{Item: item, Violation: v}
		}
		st, v := mc.Explore(mk, mc.Bounds{Preempt: -1, Dev: dev}, journal)
		return mc.ItemResult{Item: item, Stats: st, Violation: v}
	case "seq":
		dev, _ := strconv.Atoi(f[1])
		prefix := parseSeq(f[2])
		L, _ := strconv.Atoi(f[3])
		total := mc.Stats{Outcomes: map[string]int{}, Exhaustive: true}
		var rec func(seq []int) *mc.Violation
		rec = func(seq []int) *mc.Violation {
			if len(seq) == L {
				st, v := mc.Explore(seqExec(seq), mc.Bounds{Preempt: -1, Dev: dev}, nil)
				merge(&total, st)
				if v != nil {
					// make the violation replayable as a single-history item
					v.Item = "one|" + f[1] + "|" + seqName(seq)
				}
				return v
			}
			for k := range ops {
				if v := rec(append(append([]int{}, seq...), k)); v != nil {
					return v
				}
			}
			return nil
		}
		v := rec(prefix)
		return mc.ItemResult{Item: item, Stats: total, Violation: v}
	case "conc":
		pre, _ := strconv.Atoi(f[1])
		dev, _ := strconv.Atoi(f[2])
		var progs [][]int
		for _, p := range strings.Split(f[3], ";") {
			progs = append(progs, parseSeq(p))
		}
		mk := concExec(progs)
		if isReplay {
			_, v := mc.Replay(mk, replay)
			return mc.ItemResult{Item: item, Violation: v}
		}
		st, v := mc.Explore(mk, mc.Bounds{Preempt: pre, Dev: dev}, journal)
		return mc.ItemResult{Item: item, Stats: st, Violation: v}
	}
	return mc.ItemResult{Item: item, ToolError: "bad item " + item}
}

func main() {
	mc.MaybeWorker(handler)
	run := ev.Start("C08", "model_checking")
	if rp := os.Getenv("VERIF_REPLAY"); rp != "" {
		mc.ReplayFromFile(rp, handler)
	}
	var items []string
	names := make([]string, len(ops))
	for i, o := range ops {
		names[i] = o.name
	}
	// sequential histories
	L, dev := 3, 1
	if run.Thorough() {
		// depth 3 with two deviations, depth 4 with one
		for _, a := range names {
			items = append(items, fmt.Sprintf("seq|2|%s|3", a))
		}
		for _, a := range names {
			for _, b := range names {
				items = append(items, fmt.Sprintf("seq|1|%s.%s|4", a, b))
			}
		}
	} else {
		for _, a := range names {
			for _, b := range names {
				items = append(items, fmt.Sprintf("seq|%d|%s.%s|%d", dev, a, b, L))
			}
		}
	}
	nseq := len(items)
	// concurrent: all unordered pairs of single ops
	pre, cdev := 2, 1
	if run.Thorough() {
		pre = 3
	}
	for i := range names {
		for j := i; j < len(names); j++ {
			items = append(items, fmt.Sprintf("conc|%d|%d|%s;%s", pre, cdev, names[i], names[j]))
		}
	}
	// two ops against one, and three threads, over a reduced alphabet of the ops that dirty a distinct pooled object
	red := []string{"jns", "jref", "jfail", "jerr", "jstk130", "cns", "t5", "with", "panic", "enc"}
	if !run.Thorough() {
		red = red[:6]
	}
	for _, a := range red {
		for _, b := range red {
			for _, c := range red {
				items = append(items, fmt.Sprintf("conc|%d|%d|%s.%s;%s", 2, 0, a, b, c))
			}
		}
	}
	for i := range red {
		for j := i; j < len(red); j++ {
			for k := j; k < len(red); k++ {
				items = append(items, fmt.Sprintf("conc|%d|%d|%s;%s;%s", 2, 0, red[i], red[j], red[k]))
			}
		}
	}
	var sum mc.Summary
	func() {
		defer func() {
			if p := recover(); p != nil {
				if te, ok := p.(mc.ToolErr); ok {
					ev.ToolError("%s", te.Msg)
				}
				panic(p)
			}
		}()
		sum = mc.Run(items, mc.Options{})
	}()
	for _, v := range sum.Violations {
		// key: what differs (the observed op), not the whole schedule
		run.Report(v.Kind+":"+v.Item, v.Detail, v)
	}
	samples := []any{}
	keys := make([]string, 0, len(sum.PerItem))
	for it := range sum.PerItem {
		keys = append(keys, it)
	}
	sort.Strings(keys)
	for i, it := range keys {
		if i%(len(keys)/6+1) == 0 {
			st := sum.PerItem[it]
			samples = append(samples, map[string]any{"item": it, "executions": st.Execs, "scheduling_points": st.Steps, "max_decisions": st.MaxPoints})
		}
	}
	reused := 0
	for k := range sum.Outcomes {
		if !strings.HasPrefix(k, "reuse=0/") {
			reused++
		}
	}
	opdoc := map[string]string{}
	for _, o := range ops {
		opdoc[o.name] = o.doc
	}
	run.Assume = []string{
		"the pools are the only state shared between log calls on distinct loggers; every sync.Pool of zap is replaced by the controlled pool (build overlay), whose answers (most recently freed / any older / fresh object) are enumerated within the deviation bound",
		"freed buffers are overwritten with 0xDB and freed checked entries with marker text at Put, so use after release is visible in the output",
		"operation alphabet and history length as stated; stack and caller annotations are compared too (all ops are invoked from one call site)",
	}
	run.Finish(map[string]any{
		"states":                        len(sum.Outcomes),
		"transitions":                   sum.Steps,
		"traces_validated_against_impl": sum.Execs,
		"evaluations":                   sum.Execs,
		"distinct_nontrivial":           reused,
		"rule":                          "one evaluation = one complete execution (history or thread schedule, with one pool-answer sequence) on the real zap code, every step compared with the first-call reference; states = distinct (objects reused / pool Gets) signatures observed, distinct_nontrivial = those in which at least one recycled object was handed out",
		"samples":                       samples,
		"exhaustive":                    sum.Exhaustive,
		"alphabet":                      opdoc,
		"sequential_items":              nseq,
		"concurrent_items":              len(items) - nseq,
		"history_length":                map[string]any{"quick": "3 (<=1 pool deviation)", "thorough": "3 (<=2 deviations) and 4 (<=1 deviation)"}[run.Tier],
		"preemption_bound":              pre,
		"executions_with_branching":     sum.Branching,
		"max_threads":                   sum.MaxThreads,
		"max_decision_points":           sum.MaxPoints,
	})
}
