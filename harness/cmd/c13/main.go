// Command c13 decides property C13 (io.Writer contract of zap's writers and
// WriteSyncer combinators): exhaustive payload alphabet on every zap writer,
// every scripted outcome through AddSync/Lock, every outcome vector of a
// multi-WriteSyncer for k <= 4 sinks, and all interleavings of Write/Sync
// through Lock under the controlled scheduler.
package main

import (
	"bytes"
	"errors"
	"fmt"
	"io"
	"log"
	"os"
	"reflect"
	"strings"
	"syscall"
	"time"

	"go.uber.org/multierr"
	"go.uber.org/zap"
	"go.uber.org/zap/zapcore"
	"go.uber.org/zap/zapio"
	"go.uber.org/zap/zaptest"
	"go.uber.org/zap/zaptest/observer"
	"go.uber.org/zap/zzverif/vsched"
	"go.uber.org/zap/zzverif/vsync"
	"verif/harness/internal/ev"
	"verif/harness/internal/mc"
)

// ---------------------------------------------------------------------------
// part 1: payloads on every zap writer

func payloads(maxLen int) []string {
	units := []string{"a", " ", "\n", "\t", "\r"}
	out := []string{""}
	cur := []string{""}
	for l := 1; l <= maxLen; l++ {
		var next []string
		for _, p := range cur {
			for _, u := range units {
				next = append(next, p+u)
			}
		}
		out = append(out, next...)
		cur = next
	}
	big := strings.Repeat("x", 64*1024)
	out = append(out, big, big+"\n", "\n"+big, " "+big+" \n", strings.Repeat("line\n", 3000))
	return out
}

type fakeT struct{ logs int }

func (f *fakeT) Logf(string, ...interface{})   { f.logs++ }
func (f *fakeT) Errorf(string, ...interface{}) {}
func (f *fakeT) Fail()                         {}
func (f *fakeT) Failed() bool                  { return false }
func (f *fakeT) Name() string                  { return "fake" }
func (f *fakeT) FailNow()                      {}

type okSink struct{ n int }

func (s *okSink) Write(p []byte) (int, error) { s.n += len(p); return len(p), nil }
func (s *okSink) Sync() error                 { return nil }

type writerCase struct {
	name string
	key  string
	mk   func() (io.Writer, func())
}

func writerCases() []writerCase {
	var cs []writerCase
	obs := func(lvl zapcore.Level) *zap.Logger {
		core, _ := observer.New(lvl)
		return zap.New(core)
	}
	cs = append(cs,
		writerCase{"zapio.Writer(enabled)", "zapio", func() (io.Writer, func()) {
			w := &zapio.Writer{Log: obs(zap.DebugLevel), Level: zap.InfoLevel}
			return w, func() { w.Close() }
		}},
		writerCase{"zapio.Writer(level disabled)", "zapio-disabled", func() (io.Writer, func()) {
			w := &zapio.Writer{Log: obs(zap.ErrorLevel), Level: zap.InfoLevel}
			return w, func() { w.Close() }
		}},
		writerCase{"zaptest.TestingWriter", "testingwriter", func() (io.Writer, func()) {
			return zaptest.NewTestingWriter(&fakeT{}), func() {}
		}},
		writerCase{"zaptest.TestingWriter(markFailed)", "testingwriter-markfailed", func() (io.Writer, func()) {
			return zaptest.NewTestingWriter(&fakeT{}).WithMarkFailed(true), func() {}
		}},
		writerCase{"BufferedWriteSyncer(size 8)", "buffered", func() (io.Writer, func()) {
			w := &zapcore.BufferedWriteSyncer{WS: &okSink{}, Size: 8}
			return w, func() { w.Stop() }
		}},
		writerCase{"BufferedWriteSyncer(default)", "buffered-default", func() (io.Writer, func()) {
			w := &zapcore.BufferedWriteSyncer{WS: &okSink{}}
			return w, func() { w.Stop() }
		}},
		writerCase{"std-log bridge NewStdLog", "stdlog-bridge", func() (io.Writer, func()) {
			return zap.NewStdLog(obs(zap.DebugLevel)).Writer(), func() {}
		}},
		writerCase{"std-log bridge NewStdLog(level disabled)", "stdlog-bridge", func() (io.Writer, func()) {
			return zap.NewStdLog(obs(zap.ErrorLevel)).Writer(), func() {}
		}},
	)
	for _, lvl := range []zapcore.Level{zap.DebugLevel, zap.InfoLevel, zap.WarnLevel, zap.ErrorLevel, zap.DPanicLevel} {
		lvl := lvl
		cs = append(cs, writerCase{"std-log bridge NewStdLogAt(" + lvl.String() + ")", "stdlog-bridge", func() (io.Writer, func()) {
			l, err := zap.NewStdLogAt(obs(zap.DebugLevel), lvl)
			if err != nil {
				ev.ToolError("NewStdLogAt: %v", err)
			}
			return l.Writer(), func() {}
		}})
	}
	return cs
}

func classify(p string) string {
	switch {
	case p == "":
		return "empty"
	case strings.TrimSpace(p) == "":
		return "whitespace-only"
	case strings.TrimSpace(p) != p:
		return "with-leading-or-trailing-whitespace"
	}
	return "plain"
}

func partWriters(run *ev.Run) (evals int, distinct map[string]bool) {
	distinct = map[string]bool{}
	ps := payloads(4)
	for _, wc := range writerCases() {
		// each payload on a fresh writer, and all payloads in sequence on one writer
		for _, p := range ps {
			w, done := wc.mk()
			n, err := safeWrite(w, []byte(p))
			done()
			evals++
			distinct[fmt.Sprintf("%s/%d/%v", wc.key, n == len(p), err == nil)] = true
			if n != len(p) || err != nil {
				run.Report("writer:"+wc.key+":"+classify(p), fmt.Sprintf("%s.Write(%q) (len %d) returned (%d, %v); an accepting writer must return (len(p), nil)", wc.name, trunc(p), len(p), n, err), map[string]any{"writer": wc.name, "payload": trunc(p), "len": len(p), "n": n})
			}
		}
		w, done := wc.mk()
		for _, p := range ps {
			n, err := safeWrite(w, []byte(p))
			evals++
			if n != len(p) || err != nil {
				run.Report("writer:"+wc.key+":"+classify(p), fmt.Sprintf("%s.Write(%q) in a sequence returned (%d, %v)", wc.name, trunc(p), n, err), map[string]any{"writer": wc.name, "payload": trunc(p), "len": len(p), "n": n})
			}
		}
		done()
	}
	return
}

// partBridgeContent drives the std-log bridge through the log.Logger API, whose
// internal buffer is recycled between calls: every message must arrive intact
// and stay intact while later calls reuse that buffer (io.Writer: "Write must
// not modify the slice data, even temporarily. Implementations must not retain p").
func partBridgeContent(run *ev.Run) (evals int) {
	msgs := []string{"first", "second message, rather longer than the first one", "3rd", strings.Repeat("m", 300)}
	type mk struct {
		name string
		mk   func(l *zap.Logger) (*log.Logger, func())
	}
	mks := []mk{
		{"NewStdLog", func(l *zap.Logger) (*log.Logger, func()) { return zap.NewStdLog(l), func() {} }},
		{"NewStdLogAt(warn)", func(l *zap.Logger) (*log.Logger, func()) {
			sl, err := zap.NewStdLogAt(l, zap.WarnLevel)
			if err != nil {
				ev.ToolError("NewStdLogAt: %v", err)
			}
			return sl, func() {}
		}},
		{"RedirectStdLog", func(l *zap.Logger) (*log.Logger, func()) { undo := zap.RedirectStdLog(l); return log.Default(), undo }},
	}
	for _, m := range mks {
		// every ordered selection of 3 messages (with repetition)
		for a := range msgs {
			for b := range msgs {
				for c := range msgs {
					evals++
					core, logs := observer.New(zap.DebugLevel)
					sl, undo := m.mk(zap.New(core))
					want := []string{msgs[a], msgs[b], msgs[c]}
					sl.Print(want[0])
					sl.Printf("%s", want[1])
					sl.Println(want[2])
					undo()
					var got []string
					for _, e := range logs.All() {
						got = append(got, e.Message)
					}
					if strings.Join(got, "\x00") != strings.Join(want, "\x00") {
						run.Report("writer:stdlog-bridge:content:"+m.name, fmt.Sprintf("%s: Print/Printf/Println of %q logged %q", m.name, want, got), map[string]any{"bridge": m.name, "messages": want, "logged": got})
					}
				}
			}
		}
	}
	return
}

func trunc(s string) string {
	if len(s) > 40 {
		return s[:40] + fmt.Sprintf("...(%d bytes)", len(s))
	}
	return s
}

func safeWrite(w io.Writer, p []byte) (n int, err error) {
	defer func() {
		if r := recover(); r != nil {
			n, err = -1, fmt.Errorf("panic: %v", r)
		}
	}()
	return w.Write(p)
}

// ---------------------------------------------------------------------------
// part 2: relays (AddSync, Lock)

type scripted struct {
	n      int
	err    error
	serr   error
	writes [][]byte
	syncs  int
}

func (s *scripted) Write(p []byte) (int, error) {
	s.writes = append(s.writes, append([]byte(nil), p...))
	switch s.n {
	case -1:
		return len(p), s.err
	case -2:
		if len(p) == 0 {
			return 0, s.err
		}
		return len(p) - 1, s.err
	}
	return 0, s.err
}

type scriptedSyncer struct{ scripted }

func (s *scriptedSyncer) Sync() error { s.syncs++; return s.serr }

func partRelays(run *ev.Run) (evals int) {
	e1 := errors.New("E-write")
	e2 := errors.New("E-sync")
	// errors a real descriptor gives: the wrappers hand on whatever they get (a terminal answers EINVAL / ENOTTY to fsync)
	e3 := error(syscall.EINVAL)
	e4 := error(&os.PathError{Op: "sync", Path: "/dev/stderr", Err: syscall.ENOTTY})
	for _, p := range []string{"", "a", "hello\n", strings.Repeat("z", 5000)} {
		for _, n := range []int{-1, -2, 0} {
			for _, werr := range []error{nil, e1, e3} {
				for _, serr := range []error{nil, e2, e3, e4} {
					want := func(s *scripted) int {
						switch n {
						case -1:
							return len(p)
						case -2:
							if len(p) == 0 {
								return 0
							}
							return len(p) - 1
						}
						return 0
					}
					desc := fmt.Sprintf("payload=%q outcome=(%d,%v) sync=%v", trunc(p), n, werr, serr)
					check := func(name string, ws zapcore.WriteSyncer, s *scripted, expectSyncCalls int, expectSyncErr error) {
						evals++
						// under the controlled scheduler: a lock that is not released on some path shows as a
						// deadlock verdict of this very case instead of hanging the enumeration
						var gn int
						var gerr, se error
						res := vsched.Run(nil, func() {
							gn, gerr = ws.Write([]byte(p))
							se = ws.Sync()
						})
						if res.Verdict != vsched.OK {
							what := map[int]string{vsched.Deadlock: "deadlocked", vsched.Panicked: "panicked", vsched.Leaked: "left a goroutine behind", vsched.Stuck: "got stuck"}[res.Verdict]
							run.Report("relay:"+name+":"+what, fmt.Sprintf("%s: Write followed by Sync %s (%v %s): %s", name, what, res.PanicVal, res.Blocked, desc), desc)
							return
						}
						if gn != want(s) || gerr != werr {
							run.Report("relay:"+name+":write", fmt.Sprintf("%s: Write returned (%d,%v), wrapped writer returned (%d,%v): %s", name, gn, gerr, want(s), werr, desc), desc)
						}
						if len(s.writes) != 1 || string(s.writes[0]) != p {
							run.Report("relay:"+name+":bytes", fmt.Sprintf("%s: wrapped writer saw %d writes: %s", name, len(s.writes), desc), desc)
						}
						if se != expectSyncErr {
							run.Report("relay:"+name+":syncerr", fmt.Sprintf("%s: Sync returned %v want %v: %s", name, se, expectSyncErr, desc), desc)
						}
						if s.syncs != expectSyncCalls {
							run.Report("relay:"+name+":synccalls", fmt.Sprintf("%s: Sync reached the wrapped value %d times, want %d: %s", name, s.syncs, expectSyncCalls, desc), desc)
						}
					}
					// AddSync over a plain writer: no-op Sync added
					s1 := &scripted{n: n, err: werr}
					check("AddSync(writer)", zapcore.AddSync(s1), s1, 0, nil)
					// AddSync over a writer that has Flush but no Sync: the added Sync is a no-op all the same
					sf := &flushWriter{scripted: scripted{n: n, err: werr}}
					check("AddSync(writer with Flush)", zapcore.AddSync(sf), &sf.scripted, 0, nil)
					if sf.flushes != 0 {
						run.Report("relay:AddSync(writer with Flush):flush-called", fmt.Sprintf("the Sync added by AddSync called the writer's Flush %d times: %s", sf.flushes, desc), desc)
					}
					// AddSync over a value that has Sync: kept
					s2 := &scriptedSyncer{scripted{n: n, err: werr, serr: serr}}
					check("AddSync(writesyncer)", zapcore.AddSync(s2), &s2.scripted, 1, serr)
					// Lock
					s3 := &scriptedSyncer{scripted{n: n, err: werr, serr: serr}}
					check("Lock", zapcore.Lock(s3), &s3.scripted, 1, serr)
					s4 := &scriptedSyncer{scripted{n: n, err: werr, serr: serr}}
					check("Lock(Lock)", zapcore.Lock(zapcore.Lock(s4)), &s4.scripted, 1, serr)
					s5 := &scripted{n: n, err: werr}
					check("Lock(AddSync(writer))", zapcore.Lock(zapcore.AddSync(s5)), s5, 0, nil)
					// CombineWriteSyncers of one
					s6 := &scriptedSyncer{scripted{n: n, err: werr, serr: serr}}
					check("CombineWriteSyncers(1)", zap.CombineWriteSyncers(s6), &s6.scripted, 1, serr)
				}
			}
		}
	}
	// BufferedWriteSyncer over a sink with scripted outcomes: whatever the sink
	// does, the io.Writer contract holds for the value BufferedWriteSyncer
	// returns - never more than len(p), and a count below len(p) only together
	// with a non-nil error; a sink that accepts everything gives (len(p), nil).
	for _, size := range []int{4, 16} {
		for _, pre := range []int{0, 2} {
			for _, plen := range []int{0, 1, size - 1, size, size + 1, 3 * size} {
				for _, n := range []int{-1, -2, 0} {
					for _, werr := range []error{nil, e1} {
						if n == 0 && werr == nil {
							continue // a sink that forever accepts nothing without an error makes bufio spin: outside any contract
						}
						evals++
						sk := &scriptedSyncer{scripted{n: n, err: werr}}
						ws := &zapcore.BufferedWriteSyncer{WS: sk, Size: size, FlushInterval: time.Hour, Clock: quietClock{make(chan time.Time)}}
						desc := fmt.Sprintf("BufferedWriteSyncer{Size:%d} with %d bytes buffered, Write of %d bytes, sink outcome=(%d,%v)", size, pre, plen, n, werr)
						var gn int
						var gerr error
						// under the controlled scheduler: whatever the sink answered, the calls that follow (another
						// Write, Sync, Stop) must return - a lock kept on an error path is a deadlock verdict here
						res := vsched.Run(nil, func() {
							if pre > 0 {
								_, _ = ws.Write(bytes.Repeat([]byte{'p'}, pre))
							}
							gn, gerr = ws.Write(bytes.Repeat([]byte{'x'}, plen))
							_, _ = ws.Write([]byte{'y'})
							_ = ws.Sync()
							_ = ws.Stop()
						})
						if res.Verdict != vsched.OK {
							what := map[int]string{vsched.Deadlock: "deadlocked", vsched.Panicked: "panicked", vsched.Leaked: "left its flush goroutine behind", vsched.Stuck: "got stuck"}[res.Verdict]
							run.Report("relay:buffered:"+what, fmt.Sprintf("%s: the Write / Write / Sync / Stop sequence %s (%v %s)", desc, what, res.PanicVal, res.Blocked), desc)
							continue
						}
						switch {
						case gn > plen || gn < 0:
							run.Report("relay:buffered:count-out-of-range", fmt.Sprintf("%s returned (%d,%v)", desc, gn, gerr), desc)
						case gn < plen && gerr == nil:
							run.Report("relay:buffered:short-count-without-error", fmt.Sprintf("%s returned (%d,nil): a short count must come with an error", desc, gn), desc)
						case n == -1 && werr == nil && (gn != plen || gerr != nil):
							run.Report("relay:buffered:healthy-sink", fmt.Sprintf("%s returned (%d,%v), want (%d,nil)", desc, gn, gerr, plen), desc)
						}
					}
				}
			}
		}
	}
	return
}

// quietClock: a clock whose ticker never fires.
type quietClock struct{ ch chan time.Time }

func (quietClock) Now() time.Time                         { return time.Unix(0, 0) }
func (c quietClock) NewTicker(time.Duration) *time.Ticker { return &time.Ticker{C: c.ch} }

// ---------------------------------------------------------------------------
// part 3: multi write syncer outcome vectors

func partMulti(run *ev.Run, maxK int) (evals int, distinct map[string]bool) {
	distinct = map[string]bool{}
	payload := []byte("0123456789")
	type outcome struct {
		n   int // -1 full, -2 short, 0 zero
		err bool
	}
	outs := []outcome{{-1, false}, {-2, false}, {0, false}, {-1, true}, {-2, true}, {0, true}}
	cnt := func(o outcome) int {
		switch o.n {
		case -1:
			return len(payload)
		case -2:
			return len(payload) - 1
		}
		return 0
	}
	for k := 1; k <= maxK; k++ {
		total := 1
		for i := 0; i < k; i++ {
			total *= len(outs)
		}
		for v := 0; v < total; v++ {
			for ci := 0; ci < 6+6; ci++ {
				// ci >= 6: nested multi-syncers (k in 3..5, distinct errors): the first two, a middle pair, or
				// all but the last sink sit in an inner NewMultiWriteSyncer that is itself an argument of the outer one
				nest := 0
				if ci >= 6 {
					if k < 3 || k > 5 {
						continue
					}
					nest = (ci-6)/2 + 1
					if nest == 2 && k < 4 {
						continue
					}
				}
				// error identity: distinct values; one shared value (io.ErrClosedPipe from every failing sink);
				// a chain in which every failing sink's error wraps the previous one's (k <= 4 for the last two)
				combine, errKind := ci%2 == 1, ci/2
				if nest > 0 {
					errKind = 0
				}
				if errKind > 0 && k > 4 {
					continue
				}
				var prevErr error
				vec := make([]outcome, k)
				x := v
				sinks := make([]*scriptedSyncer, k)
				wss := make([]zapcore.WriteSyncer, k)
				var wantErrs []error
				min := -1
				label := ""
				for i := 0; i < k; i++ {
					vec[i] = outs[x%len(outs)]
					x /= len(outs)
					sinks[i] = &scriptedSyncer{scripted{n: vec[i].n}}
					if vec[i].err {
						switch {
						case errKind == 1:
							sinks[i].err = io.ErrClosedPipe
						case errKind == 2 && prevErr != nil:
							sinks[i].err = fmt.Errorf("E%d: %w", i, prevErr)
						default:
							sinks[i].err = fmt.Errorf("E%d", i)
						}
						prevErr = sinks[i].err
						wantErrs = append(wantErrs, sinks[i].err)
					}
					wss[i] = sinks[i]
					if c := cnt(vec[i]); min < 0 || c < min {
						min = c
					}
					label += fmt.Sprintf("(%d,%v)", cnt(vec[i]), vec[i].err)
				}
				label += [...]string{"", " [every failing sink returns the same error value]", " [every failing sink's error wraps the previous one's]"}[errKind]
				var ws zapcore.WriteSyncer
				name := "NewMultiWriteSyncer"
				args := append([]zapcore.WriteSyncer(nil), wss...)
				if nest > 0 {
					a, b := 0, 2
					switch nest {
					case 2:
						a, b = 1, 3
					case 3:
						a, b = 0, k-1
					}
					inner := zapcore.NewMultiWriteSyncer(append([]zapcore.WriteSyncer(nil), wss[a:b]...)...)
					args = append(append(append([]zapcore.WriteSyncer(nil), wss[:a]...), inner), wss[b:]...)
					label += fmt.Sprintf(" [sinks %d..%d nested in an inner multi-syncer]", a, b-1)
				}
				given := append([]zapcore.WriteSyncer(nil), args...)
				if combine {
					ws = zap.CombineWriteSyncers(args...)
					name = "CombineWriteSyncers"
				} else {
					ws = zapcore.NewMultiWriteSyncer(args...)
				}
				for i := range given {
					if !sameSyncer(args[i], given[i]) {
						run.Report("multi:argument-slice-modified", fmt.Sprintf("%s k=%d outcomes %s: the constructor rewrote the slice it was given (element %d)", name, k, label, i), label)
						break
					}
				}
				evals++
				n, err := ws.Write(payload)
				distinct[label] = true
				for i, s := range sinks {
					if len(s.writes) != 1 || string(s.writes[0]) != string(payload) {
						run.Report(fmt.Sprintf("multi:sink-missed:k=%d", k), fmt.Sprintf("%s k=%d outcomes %s: sink %d saw %d writes (want exactly one with the identical bytes)", name, k, label, i, len(s.writes)), label)
					}
				}
				if n != min {
					// classify: the count is wrong exactly when a zero-count sink precedes a non-zero one?
					run.Report(fmt.Sprintf("multi:count-not-minimum:%s", shape(vec, cnt)), fmt.Sprintf("%s k=%d per-sink outcomes %s: returned count %d, smallest count any sink reported is %d", name, k, label, n, min), label)
				}
				got := multierr.Errors(err)
				if len(wantErrs) == 0 && err != nil {
					run.Report("multi:spurious-error", fmt.Sprintf("%s k=%d outcomes %s: error %v though every sink succeeded", name, k, label, err), label)
				}
				if len(got) != len(wantErrs) {
					run.Report("multi:errors-lost", fmt.Sprintf("%s k=%d outcomes %s: returned errors %v, sinks returned %v", name, k, label, got, wantErrs), label)
				} else {
					for i := range got {
						if got[i] != wantErrs[i] {
							run.Report("multi:errors-lost", fmt.Sprintf("%s k=%d outcomes %s: returned errors %v, sinks returned %v", name, k, label, got, wantErrs), label)
						}
					}
				}
			}
		}
		// Sync vectors
		for v := 0; v < 1<<k; v++ {
			for ci := 0; ci < 4; ci++ {
				combine, shared := ci%2 == 1, ci/2 == 1
				sinks := make([]*scriptedSyncer, k)
				wss := make([]zapcore.WriteSyncer, k)
				var wantErrs []error
				for i := 0; i < k; i++ {
					sinks[i] = &scriptedSyncer{scripted{n: -1}}
					if v&(1<<i) != 0 {
						sinks[i].serr = fmt.Errorf("S%d", i)
						if shared {
							sinks[i].serr = os.ErrClosed
						}
						wantErrs = append(wantErrs, sinks[i].serr)
					}
					wss[i] = sinks[i]
				}
				var ws zapcore.WriteSyncer
				if combine {
					ws = zap.CombineWriteSyncers(wss...)
				} else {
					ws = zapcore.NewMultiWriteSyncer(wss...)
				}
				evals++
				err := ws.Sync()
				for i, s := range sinks {
					if s.syncs != 1 {
						run.Report(fmt.Sprintf("multi:sync-missed:k=%d", k), fmt.Sprintf("k=%d sync-fail-mask=%b: Sync reached sink %d %d times", k, v, i, s.syncs), v)
					}
				}
				got := multierr.Errors(err)
				if len(got) != len(wantErrs) {
					run.Report("multi:sync-errors-lost", fmt.Sprintf("k=%d sync-fail-mask=%b: returned %v want %v", k, v, got, wantErrs), v)
				}
			}
		}
	}
	// zero sinks through CombineWriteSyncers: a no-op writer that accepts everything
	ws := zap.CombineWriteSyncers()
	if n, err := ws.Write(payload); n != len(payload) || err != nil {
		run.Report("multi:empty", fmt.Sprintf("CombineWriteSyncers() Write returned (%d,%v)", n, err), nil)
	}
	evals++
	return
}

// shape names the structural reason a count can be wrong, so that a known
// finding stays specific: position of the first zero relative to non-zero counts.
func shape[T any](vec []T, cnt func(T) int) string {
	firstZero, firstNonZero := -1, -1
	for i, o := range vec {
		if cnt(o) == 0 && firstZero < 0 {
			firstZero = i
		}
		if cnt(o) != 0 && firstNonZero < 0 {
			firstNonZero = i
		}
	}
	switch {
	case firstZero >= 0 && firstNonZero > firstZero:
		return "zero-count-sink-before-nonzero-sink"
	case firstZero >= 0:
		return "zero-count-sink-after-nonzero-sink"
	}
	return "no-zero-count"
}

// ---------------------------------------------------------------------------
// part 4: Lock makes Write and Sync mutually exclusive (all interleavings)

type exclSink struct {
	inUse    bool
	overlaps int
	calls    int
	log      []string // operations in arrival order (payload of writes, "S" for syncs)
	fail     bool     // every Write and Sync reports an error (the lock must be released all the same)
}

var errSinkDown = errors.New("sink down")

func (s *exclSink) enter() {
	if s.inUse {
		s.overlaps++
	}
	s.inUse = true
	vsched.Yield() // let any other thread try to get in
	vsched.Yield()
	s.inUse = false
	s.calls++
}

func (s *exclSink) Write(p []byte) (int, error) {
	s.log = append(s.log, "W"+string(p))
	s.enter()
	if s.fail {
		return 0, errSinkDown
	}
	return len(p), nil
}
func (s *exclSink) Sync() error {
	s.log = append(s.log, "S")
	s.enter()
	if s.fail {
		return errSinkDown
	}
	return nil
}

func lockHandler(item string, replay []int, isReplay bool, journal func([]int)) mc.ItemResult {
	// item: lock|<wrapper>|ops per thread e.g. W,S;S;W
	f := strings.Split(item, "|")
	wrapper := f[1]
	var progs [][]string
	for _, t := range strings.Split(f[2], ";") {
		progs = append(progs, strings.Split(t, ","))
	}
	mk := func() mc.Exec {
		s := &exclSink{}
		var s2 *exclSink
		var ws zapcore.WriteSyncer
		switch wrapper {
		case "Lock":
			ws = zapcore.Lock(s)
		case "TwoHandlesLock", "TwoHandlesCombine": // set up below: the sink is locked once and that handle is locked / combined again
			ws = zapcore.Lock(s)
		case "LockFailing": // a sink that is down: the lock is released on the error path too (a leaked lock deadlocks the next call)
			s.fail = true
			ws = zapcore.Lock(s)
		case "CombineFailing":
			s.fail = true
			s2 = &exclSink{}
			ws = zap.CombineWriteSyncers(s, s2)
		case "LockLock":
			ws = zapcore.Lock(zapcore.Lock(s))
		case "Combine1":
			ws = zap.CombineWriteSyncers(s)
		case "Combine2":
			ws = zap.CombineWriteSyncers(s, s)
		// two member sinks behind one lock: whole operations must not interleave across the members
		case "LockMulti":
			s2 = &exclSink{}
			ws = zapcore.Lock(zapcore.NewMultiWriteSyncer(s, s2))
		case "LockMultiLocked":
			s2 = &exclSink{}
			ws = zapcore.Lock(zapcore.NewMultiWriteSyncer(zapcore.Lock(s), zapcore.Lock(s2)))
		case "CombineLocked":
			s2 = &exclSink{}
			ws = zap.CombineWriteSyncers(zapcore.Lock(s), zapcore.Lock(s2))
		}
		// a second handle on the same sink: threads with an odd index use it
		ws2 := ws
		switch wrapper {
		case "TwoHandlesLock":
			ws2 = zapcore.Lock(ws)
		case "TwoHandlesCombine":
			ws2 = zap.CombineWriteSyncers(ws)
		}
		total := 0
		return mc.Exec{Body: func() {
			var wg vsync.WaitGroup
			for _, p := range progs {
				p := p
				total += len(p)
				wg.Add(1)
				ti := len(progs) - 1
				for k := range progs {
					if &progs[k][0] == &p[0] {
						ti = k
					}
				}
				vsched.Go(func() {
					defer wg.Done()
					for oi, op := range p {
						h := ws
						if ti%2 == 1 {
							h = ws2
						}
						if op == "W" {
							h.Write([]byte(fmt.Sprintf("%d.%d", ti, oi)))
						} else {
							h.Sync()
						}
					}
				})
			}
			wg.Wait()
		}, Check: func(vsched.Result) (string, error) {
			if s.overlaps > 0 {
				return "", fmt.Errorf("%s: a Write/Sync entered the wrapped sink while another call was still inside it (%d overlaps)", wrapper, s.overlaps)
			}
			mult := 1
			if wrapper == "Combine2" {
				mult = 2
			}
			if s.calls != total*mult {
				return "", fmt.Errorf("%s: sink saw %d calls, want %d", wrapper, s.calls, total*mult)
			}
			if s2 != nil {
				if s2.overlaps > 0 {
					return "", fmt.Errorf("%s: a Write/Sync entered the second member sink while another call was still inside it (%d overlaps)", wrapper, s2.overlaps)
				}
				if strings.Join(s.log, " ") != strings.Join(s2.log, " ") {
					return "", fmt.Errorf("%s: the member sinks saw the operations in different orders - [%s] vs [%s]: another operation got in between the two halves of one", wrapper, strings.Join(s.log, " "), strings.Join(s2.log, " "))
				}
			}
			return fmt.Sprintf("calls=%d", s.calls), nil
		}}
	}
	if isReplay {
		_, v := mc.Replay(mk, replay)
		return mc.ItemResult{Item: item, Violation: v}
	}
	st, v := mc.Explore(mk, mc.Bounds{Preempt: -1, Dev: -1}, journal)
	return mc.ItemResult{Item: item, Stats: st, Violation: v}
}

func main() {
	mc.MaybeWorker(lockHandler)
	run := ev.Start("C13", "model_checking")
	if rp := os.Getenv("VERIF_REPLAY"); rp != "" {
		mc.ReplayFromFile(rp, lockHandler)
	}
	maxK := 6
	if run.Thorough() {
		maxK = 8
	}
	e1, d1 := partWriters(run)
	e2 := partRelays(run)
	e2 += partBridgeContent(run)
	e3, d3 := partMulti(run, maxK)

	var items []string
	progs := []string{"W", "S", "W,S", "S,W", "W,W"}
	for _, wr := range []string{"Lock", "LockLock", "Combine1", "Combine2", "LockMulti", "LockMultiLocked", "CombineLocked", "LockFailing", "CombineFailing", "TwoHandlesLock", "TwoHandlesCombine"} {
		for i := 0; i < len(progs); i++ {
			for j := i; j < len(progs); j++ {
				items = append(items, fmt.Sprintf("lock|%s|%s;%s", wr, progs[i], progs[j]))
			}
		}
		items = append(items, fmt.Sprintf("lock|%s|W;S;W", wr), fmt.Sprintf("lock|%s|W;S;S", wr), fmt.Sprintf("lock|%s|W,S;S;W", wr), fmt.Sprintf("lock|%s|W;W;W", wr))
		if run.Thorough() {
			items = append(items, fmt.Sprintf("lock|%s|W,S;S,W;W", wr), fmt.Sprintf("lock|%s|W,W;S,S;W,S", wr), fmt.Sprintf("lock|%s|W;S;W;S", wr))
		}
	}
	var sum mc.Summary
	func() {
		defer func() {
			if p := recover(); p != nil {
				if te, ok := p.(mc.ToolErr); ok {
					ev.ToolError("%s", te.Msg)
				}
				panic(p)
			}
		}()
		sum = mc.Run(items, mc.Options{})
	}()
	for _, v := range sum.Violations {
		run.Report("lock-exclusion:"+strings.Split(v.Item, "|")[1], v.Detail, v)
	}
	run.Assume = []string{
		"sink outcomes are drawn from {full, len-1, 0} x {nil, error}; payload alphabets as listed in rule",
		"Lock exclusion: unbounded exploration of all interleavings at synchronisation points of 2-3 threads",
	}
	run.Finish(map[string]any{
		"states":                        len(d1) + len(d3) + len(sum.Outcomes),
		"transitions":                   int64(e1+e2+e3) + sum.Steps,
		"traces_validated_against_impl": int64(e1+e2+e3) + sum.Execs,
		"evaluations":                   int64(e1+e2+e3) + sum.Execs,
		"distinct_nontrivial":           len(d1) + len(d3) + len(sum.Outcomes),
		"rule":                          "writers: every string of <=4 units over {a,space,LF,TAB,CR} plus 64KiB payloads on every zap writer, fresh and in sequence; relays: every (count,error,sync error) outcome; multi: every outcome vector in {full,short,zero}x{nil,err} for k<=maxK sinks on Write and every failure mask on Sync, via NewMultiWriteSyncer and CombineWriteSyncers, the failing sinks returning distinct error values, one shared error value, or (k<=4) errors that wrap one another, and (k in 3..5) with part of the sinks nested in an inner multi-syncer; lock: all interleavings. distinct = distinct (writer class, outcome) / outcome vectors / end observations",
		"samples": []any{
			map[string]any{"writer": "std-log bridge NewStdLog", "payload": " a \n"},
			map[string]any{"multi_outcomes": "(0,false)(10,false)", "expect_count": 0},
			map[string]any{"lock_item": items[0]},
		},
		"exhaustive":           sum.Exhaustive,
		"writer_evaluations":   e1,
		"relay_evaluations":    e2,
		"multi_evaluations":    e3,
		"multi_max_sinks":      maxK,
		"lock_drivers":         len(items),
		"lock_schedules":       sum.Execs,
		"lock_preemptionbound": "unbounded",
	})
}

// sameSyncer: identity of two WriteSyncer values (a multi-syncer is a slice, which == cannot compare).
func sameSyncer(a, b zapcore.WriteSyncer) bool {
	va, vb := reflect.ValueOf(a), reflect.ValueOf(b)
	if va.Kind() == reflect.Slice || vb.Kind() == reflect.Slice {
		return va.Kind() == vb.Kind() && va.Type() == vb.Type() && va.Len() == vb.Len() && va.Pointer() == vb.Pointer()
	}
	return a == b
}

// flushWriter is an io.Writer with a Flush method and no Sync (a bufio- or gzip-like writer).
type flushWriter struct {
	scripted
	flushes int
}

func (f *flushWriter) Flush() error { f.flushes++; return errors.New("flush error") }
