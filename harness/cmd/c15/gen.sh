#!/bin/bash
# usage: gen.sh <workdir>
# Generates zz_generated_sites.go (one call site per logging front-end method of
# the zap tree under test) next to the C15 harness. Offline; stdlib only.
set -eu
HERE=$(cd "$(dirname "$0")" && pwd)
WORK=${1:-/tmp}
REPO=${VERIF_REPO:-/repo}
export GOFLAGS=-mod=mod GOPROXY=off GOSUMDB=off GOTOOLCHAIN=local GOWORK=off
cd "$HERE/gen"
# the generator imports only the standard library: build it as a single file, outside module resolution
go build -o "$WORK/c15gen" main.go
"$WORK/c15gen" -repo "$REPO" -out "$WORK/zz_generated_sites.go"
for f in "$HERE"/zz_generated_*.go; do
  [ "$f" = "$HERE/zz_generated_sites.go" ] || rm -f "$f"
done
mv -f "$WORK/zz_generated_sites.go" "$HERE/zz_generated_sites.go"
