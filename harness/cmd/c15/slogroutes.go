package main

import (
	"context"
	"fmt"
	"log/slog"
	"runtime"
	"time"

	"go.uber.org/zap"
	"go.uber.org/zap/exp/zapslog"
	"go.uber.org/zap/zaptest/observer"
	"verif/harness/internal/ev"
)

// Records that reach the zapslog handler by a route other than a direct
// slog.Logger method: through a middleware slog.Handler that delegates to it,
// and hand-made records (slog.NewRecord with a pc taken by the caller, the
// documented wrapper pattern). "The slog handler uses the call site slog
// recorded": with no caller skip configured the caller must be the frame of
// record.PC whatever the stack between the call site and Handle looks like.

type mwHandler struct{ slog.Handler }

func (m mwHandler) Handle(ctx context.Context, r slog.Record) error { return m.Handler.Handle(ctx, r) }
func (m mwHandler) WithAttrs(a []slog.Attr) slog.Handler            { return mwHandler{m.Handler.WithAttrs(a)} }
func (m mwHandler) WithGroup(n string) slog.Handler                 { return mwHandler{m.Handler.WithGroup(n)} }

type mw2Handler struct{ slog.Handler }

//go:noinline
func (m mw2Handler) Handle(ctx context.Context, r slog.Record) error { return m.deeper(ctx, r) }

//go:noinline
func (m mw2Handler) deeper(ctx context.Context, r slog.Record) error { return m.Handler.Handle(ctx, r) }

type srHere struct {
	file string
	line int
	fn   string
}

// srHereNow describes the source line FOLLOWING its call (gofmt puts every
// statement on its own line: the logging call is the next statement).
//
//go:noinline
func srHereNow() srHere {
	pc, file, line, _ := runtime.Caller(1)
	return srHere{file, line + 1, runtime.FuncForPC(pc).Name()}
}

func slogRoutes(run *ev.Run) (evals int64) {
	core, logs := observer.New(zap.DebugLevel)
	check := func(route string, want srHere, lvl slog.Level) {
		evals++
		es := logs.TakeAll()
		if len(es) != 1 {
			run.Report("caller:zapslog:"+route+":entry-count", fmt.Sprintf("%s: %d entries recorded for one record", route, len(es)), route)
			return
		}
		c := es[0].Caller
		if !c.Defined || c.File != want.file || c.Line != want.line || c.Function != want.fn {
			run.Report("caller:zapslog:"+route+":not-the-recorded-call-site",
				fmt.Sprintf("zapslog.NewHandler(WithCaller(true)) record reaching Handle via %s at slog level %d: Entry.Caller = %s %s:%d (defined=%v); the call site slog recorded is %s %s:%d",
					route, lvl, c.Function, c.File, c.Line, c.Defined, want.fn, want.file, want.line), route)
		}
	}
	ctx := context.Background()
	for _, lvl := range []slog.Level{slog.LevelDebug, slog.LevelInfo, slog.LevelWarn, slog.LevelError, slog.LevelError + 4} {
		for _, stack := range []bool{false, true} {
			opts := []zapslog.HandlerOption{zapslog.WithCaller(true)}
			if stack {
				opts = append(opts, zapslog.AddStacktraceAt(slog.LevelDebug))
			}
			h := zapslog.NewHandler(core, opts...)
			// (1) middleware handlers of depth 1 and 2 under slog.Logger methods
			var w srHere
			l1 := slog.New(mwHandler{h})
			w = srHereNow()
			l1.Log(ctx, lvl, "m")
			check("middleware", w, lvl)
			l2 := slog.New(mw2Handler{mwHandler{h}})
			w = srHereNow()
			l2.Log(ctx, lvl, "m", "k", 1)
			check("middleware-depth-3", w, lvl)
			l3 := slog.New(mwHandler{h}).With("a", 1).WithGroup("g")
			w = srHereNow()
			l3.LogAttrs(ctx, lvl, "m", slog.Int("k", 1))
			check("middleware-derived", w, lvl)
			// (2) hand-made records: the wrapper takes the pc itself
			var pcs [1]uintptr
			w = srHereNow()
			runtime.Callers(1, pcs[:])
			r := slog.NewRecord(time.Unix(1, 0), lvl, "m", pcs[0])
			_ = h.Handle(ctx, r)
			check("hand-made-record", w, lvl)
			func() { // one more frame between the recorded site and Handle
				_ = h.WithGroup("g").Handle(ctx, r)
			}()
			check("hand-made-record-from-closure", w, lvl)
		}
	}
	return evals
}
