// Command c15 decides property C15 (caller and stack annotations identify the
// user's call site) by bounded-exhaustive enumeration on the real zap code.
//
// Call sites are GENERATED (gen.sh -> zz_generated_sites.go): one function per
// logging method of *zap.Logger / *zap.SugaredLogger (method list read from the
// zap tree under test), per print method of *log.Logger / package log, per
// logging method of *slog.Logger. Every site is one source line
//
//	here(c.r); c.<logger>.<Method>(...)
//
// where here() stores the harness's own runtime.Callers view of that line.
// Oracle: Entry.Caller == frame number <configured skip> of that view
// (function, file, line; frame 0 is additionally checked against the line
// number the generator wrote down), Entry.Stack == the view from that frame on
// minus the final runtime frame, stack present iff the threshold enables the
// level.
package main

import (
	"context"
	"fmt"
	"log"
	"log/slog"
	"os"
	"path/filepath"
	"reflect"
	"runtime"
	"sort"
	"strconv"
	"strings"
	"sync"
	"time"
	"unsafe"

	"go.uber.org/zap"
	"go.uber.org/zap/exp/zapslog"
	"go.uber.org/zap/zapcore"
	"verif/harness/internal/ev"
	"verif/harness/internal/par"
)

// ---------------------------------------------------------------------------
// call sites, frames

type feKind int

const (
	feLogger feKind = iota
	feSugar
	feStd
	feStdPkg
	feSlog
	feField
)

type site struct {
	fe        feKind
	recv      string
	method    string
	hasLvl    bool
	level     zapcore.Level
	slogLevel slog.Level
	isCheck   bool
	stdPanics bool
	fn        func(*call)
	line      int // 0: not generated, no static expectation
	function  string
	inl       []frame // frames between the logging call and the recording function (inlinable helpers), innermost first
}

func (s *site) id() string { return s.recv + "." + s.method }

type frame struct {
	Fn   string
	File string
	Line int
}

func (f frame) String() string { return f.Fn + " " + f.File + ":" + strconv.Itoa(f.Line) }

type rec struct {
	buf [9000]uintptr
	n   int
}

// here records the harness's own view of the stack at the calling line.
//
//go:noinline
func here(r *rec) { r.n = runtime.Callers(2, r.buf[:]) }

func (r *rec) frames() []frame {
	if r.n == 0 {
		return nil
	}
	out := make([]frame, 0, r.n)
	fs := runtime.CallersFrames(r.buf[:r.n])
	for {
		f, more := fs.Next()
		out = append(out, frame{f.Function, f.File, f.Line})
		if !more {
			break
		}
	}
	return out
}

// call carries everything a generated site needs.
type call struct {
	st       *site
	l        *zap.Logger
	s        *zap.SugaredLogger
	std      *log.Logger
	sl       *slog.Logger
	lvl      zapcore.Level
	slvl     slog.Level
	ctx      context.Context
	fskip    int // for the StackSkip field site
	r        *rec
	panicked any
}

// wrapper chain: run -> deepA/deepB (n frames, alternating) -> pad6 .. pad1 -> wrap3 -> wrap2 -> wrap1 -> site.
// The ten innermost frames are ten different functions, so that a caller that is
// off by a few frames is a different function, not just a different line.

//go:noinline
func wrap1(c *call) { c.st.fn(c) }

//go:noinline
func wrap2(c *call) { wrap1(c) }

//go:noinline
func wrap3(c *call) { wrap2(c) }

//go:noinline
func pad1(c *call) { wrap3(c) }

//go:noinline
func pad2(c *call) { pad1(c) }

//go:noinline
func pad3(c *call) { pad2(c) }

//go:noinline
func pad4(c *call) { pad3(c) }

//go:noinline
func pad5(c *call) { pad4(c) }

//go:noinline
func pad6(c *call) { pad5(c) }

//go:noinline
func deepA(n int, c *call) {
	if n <= 0 {
		pad6(c)
		return
	}
	deepB(n-1, c)
}

//go:noinline
func deepB(n int, c *call) {
	if n <= 0 {
		pad6(c)
		return
	}
	deepA(n-1, c)
}

//go:noinline
func (c *call) run(n int) {
	c.panicked = nil
	defer func() { c.panicked = recover() }()
	deepA(n, c)
}

// runDirect makes the site the second frame of a new goroutine: site, closure, runtime.goexit.
func (c *call) runDirect() {
	c.panicked = nil
	var wg sync.WaitGroup
	wg.Add(1)
	go func() {
		defer wg.Done()
		defer func() { c.panicked = recover() }()
		c.st.fn(c)
	}()
	wg.Wait()
}

// hand-written sites (not per-method): calibration and the stack fields

//go:noinline
func siteCalib(c *call) { here(c.r) }

//go:noinline
func siteFieldStack(c *call) { here(c.r); c.l.Info("m", zap.Stack("st")) }

//go:noinline
func siteFieldStackSkip(c *call) { here(c.r); c.l.Info("m", zap.StackSkip("st", c.fskip)) }

var calibSite = &site{fe: feField, recv: "harness", method: "calib", fn: siteCalib}
var fieldSites = []*site{
	{fe: feField, recv: "zap", method: "Stack", level: zapcore.InfoLevel, fn: siteFieldStack},
	{fe: feField, recv: "zap", method: "StackSkip", level: zapcore.InfoLevel, fn: siteFieldStackSkip},
}

// ---------------------------------------------------------------------------
// capturing core

type sink struct {
	ents   []zapcore.Entry
	fields [][]zapcore.Field
}

func (s *sink) reset() { s.ents = s.ents[:0]; s.fields = s.fields[:0] }

type capCore struct{ s *sink }

func (c capCore) Enabled(zapcore.Level) bool        { return true }
func (c capCore) With([]zapcore.Field) zapcore.Core { return c }
func (c capCore) Sync() error                       { return nil }
func (c capCore) Check(e zapcore.Entry, ce *zapcore.CheckedEntry) *zapcore.CheckedEntry {
	return ce.AddCore(e, c)
}
func (c capCore) Write(e zapcore.Entry, f []zapcore.Field) error {
	c.s.ents = append(c.s.ents, e)
	c.s.fields = append(c.s.fields, f)
	return nil
}

// ---------------------------------------------------------------------------
// conversion chains

type op byte

const (
	opSugar op = iota
	opDesugar
	opWith
	opWithLazy
	opNamed
	opWithOptions
	opSkip1
	opSkipM1
	nOps
)

var opNames = [...]string{"Sugar", "Desugar", "With", "WithLazy", "Named", "WithOptions()", "WithOptions(AddCallerSkip(1))", "WithOptions(AddCallerSkip(-1))"}

type chain struct {
	ops   []op
	sugar bool // kind of the resulting logger
	skips int  // number of opSkip1
}

func (ch chain) String() string {
	if len(ch.ops) == 0 {
		return "[]"
	}
	var s []string
	for _, o := range ch.ops {
		s = append(s, opNames[o])
	}
	return "[" + strings.Join(s, " ") + "]"
}

// allChains lists every kind-correct op sequence of length <= maxLen, shortest first.
func allChains(maxLen int) []chain {
	out := []chain{{}}
	cur := []chain{{}}
	for l := 1; l <= maxLen; l++ {
		var next []chain
		for _, c := range cur {
			for o := op(0); o < nOps; o++ {
				if (o == opSugar && c.sugar) || (o == opDesugar && !c.sugar) {
					continue
				}
				n := chain{ops: append(append([]op{}, c.ops...), o), sugar: c.sugar, skips: c.skips}
				switch o {
				case opSugar:
					n.sugar = true
				case opDesugar:
					n.sugar = false
				case opSkip1:
					n.skips++
				case opSkipM1:
					n.skips--
				}
				next = append(next, n)
			}
		}
		// chains are extended from every prefix (the running total may dip below
		// zero: caller skips are additive in any order), but only chains whose
		// final total is >= 0 are used (the annotated frame must be a harness frame)
		for _, n := range next {
			if n.skips >= 0 {
				out = append(out, n)
			}
		}
		cur = next
	}
	return out
}

// stage is a logger met on the way through a chain (the base and every intermediate result) with the
// caller skip added up to there.
type stage struct {
	l     *zap.Logger
	s     *zap.SugaredLogger
	skips int
}

func (ch chain) apply(l *zap.Logger) (*zap.Logger, *zap.SugaredLogger) {
	fl, fs, _ := ch.applyAll(l)
	return fl, fs
}

// applyAll also returns every logger the chain passed through before its last step.
func (ch chain) applyAll(l *zap.Logger) (*zap.Logger, *zap.SugaredLogger, []stage) {
	var s *zap.SugaredLogger
	var stages []stage
	skips := 0
	for _, o := range ch.ops {
		stages = append(stages, stage{l, s, skips})
		switch o {
		case opSkip1:
			skips++
		case opSkipM1:
			skips--
		}
		switch o {
		case opSugar:
			s, l = l.Sugar(), nil
		case opDesugar:
			l, s = s.Desugar(), nil
		case opWith:
			if s != nil {
				s = s.With("k", 1)
			} else {
				l = l.With(zap.Int("k", 1))
			}
		case opWithLazy:
			if s != nil {
				s = s.WithLazy("k", 1)
			} else {
				l = l.WithLazy(zap.Int("k", 1))
			}
		case opNamed:
			if s != nil {
				s = s.Named("n")
			} else {
				l = l.Named("n")
			}
		case opWithOptions:
			if s != nil {
				s = s.WithOptions()
			} else {
				l = l.WithOptions()
			}
		case opSkip1:
			if s != nil {
				s = s.WithOptions(zap.AddCallerSkip(1))
			} else {
				l = l.WithOptions(zap.AddCallerSkip(1))
			}
		case opSkipM1:
			if s != nil {
				s = s.WithOptions(zap.AddCallerSkip(-1))
			} else {
				l = l.WithOptions(zap.AddCallerSkip(-1))
			}
		}
	}
	return l, s, stages
}

// ---------------------------------------------------------------------------
// failures, workers

type failure struct {
	kind   string // caller | stack | presence | panic | entries | path
	recv   string
	method string
	desc   string
	what   string
	replay map[string]any
}

type worker struct {
	sk       *sink
	r        *rec
	fails    []failure
	seen     map[string]bool
	classes  map[string]struct{}
	evals    int64
	samples  []any
	wantSamp int
	cache    map[string]*view
}

// view is the resolved form of one recorded pc list (memoised per worker: the
// same pcs always resolve to the same frames).
type view struct {
	frames []frame
	stacks map[int]string
}

func (w *worker) view() *view {
	if w.r.n == 0 {
		return &view{}
	}
	b := unsafe.Slice((*byte)(unsafe.Pointer(&w.r.buf[0])), w.r.n*int(unsafe.Sizeof(uintptr(0))))
	if v, ok := w.cache[string(b)]; ok {
		return v
	}
	v := &view{frames: w.r.frames(), stacks: map[int]string{}}
	if len(w.cache) < 4000 {
		w.cache[string(b)] = v
	}
	return v
}

// stackFrom is the expected trace text: the view from frame k on, minus the final runtime frame.
func (v *view) stackFrom(k int) string {
	if s, ok := v.stacks[k]; ok {
		return s
	}
	s := fmtStack(v.frames[k : len(v.frames)-1])
	v.stacks[k] = s
	return s
}

func newWorker() *worker {
	return &worker{sk: &sink{}, r: &rec{}, seen: map[string]bool{}, classes: map[string]struct{}{}, cache: map[string]*view{}}
}

func (w *worker) fail(f failure) {
	k := f.kind + "|" + f.recv + "|" + f.method + "|" + f.desc
	if w.seen[k] {
		return
	}
	w.seen[k] = true
	w.fails = append(w.fails, f)
}

var allLevels = []zapcore.Level{zapcore.DebugLevel, zapcore.InfoLevel, zapcore.WarnLevel, zapcore.ErrorLevel, zapcore.DPanicLevel, zapcore.PanicLevel, zapcore.FatalLevel}

func fmtStack(fr []frame) string {
	var b strings.Builder
	for i, f := range fr {
		if i > 0 {
			b.WriteByte('\n')
		}
		b.WriteString(f.Fn)
		b.WriteString("\n\t")
		b.WriteString(f.File)
		b.WriteByte(':')
		b.WriteString(strconv.Itoa(f.Line))
	}
	return b.String()
}

func parseStack(s string) []frame {
	if s == "" {
		return nil
	}
	lines := strings.Split(s, "\n")
	var out []frame
	for i := 0; i+1 < len(lines); i += 2 {
		fl := strings.TrimPrefix(lines[i+1], "\t")
		f := frame{Fn: lines[i]}
		if j := strings.LastIndexByte(fl, ':'); j >= 0 {
			f.File = fl[:j]
			f.Line, _ = strconv.Atoi(fl[j+1:])
		} else {
			f.File = fl
		}
		out = append(out, f)
	}
	if len(lines)%2 == 1 {
		out = append(out, frame{Fn: lines[len(lines)-1], File: "<odd line>"})
	}
	return out
}

func indexOf(fr []frame, f frame) int {
	for i := range fr {
		if fr[i] == f {
			return i
		}
	}
	return -1
}

func isPrefix(a, b []frame) bool { // a is a prefix of b
	if len(a) > len(b) {
		return false
	}
	for i := range a {
		if a[i] != b[i] {
			return false
		}
	}
	return true
}

// classifyStack names how an observed stack differs from the view frames[k:len-1].
func classifyStack(got string, frames []frame, k int) string {
	want := frames[k : len(frames)-1]
	g := parseStack(got)
	if len(g) == 0 {
		return "~empty-text"
	}
	if j := indexOf(frames, g[0]); j > k {
		return "starts-too-far-out"
	} else if j != k {
		return "starts-too-deep" // at a frame below the expected one (not in the view: inside the logging machinery)
	}
	// tail defects do not depend on the method: they are keyed by front end and depth class only
	cls := "frames<64"
	if len(frames)-k >= 64 {
		cls = "frames>=64"
	}
	if len(g) < len(want) && isPrefix(g, want) {
		return "~incomplete-tail:" + cls
	}
	if len(g) > len(want) && isPrefix(want, g) {
		return "~extra-tail-frames:" + cls
	}
	return "~frames-differ:" + cls
}

func trunc(s string, n int) string {
	if len(s) > n {
		return s[:n] + fmt.Sprintf("...(%d bytes)", len(s))
	}
	return s
}

// caseCfg is the oracle's input for one executed call.
type caseCfg struct {
	phase     string
	st        *site
	desc      string // configuration in words (chain, options)
	skip      int    // configured caller skip: expected frame index
	stackSkip int    // frame index the stack must start at (== skip except where stated)
	wantCall  bool   // caller annotation enabled
	wantStack bool
	lvlName   string
	depth     int    // frames zap has to capture (0 = natural)
	stackCfg  string // threshold description
	rel       string // level relative to threshold, for presence keys
	fieldSkip int    // >=0: check the "st" field as a stack starting at this frame
	slogSkipK int    // >0: zapslog.WithCallerSkip(k) configured (caller expectation keyed separately)
	wantPanic bool
	replay    map[string]any
}

// check compares what zap recorded for the call just made with the view in w.r.
func (w *worker) check(c *call, cfg *caseCfg) {
	w.evals++
	st := cfg.st
	vw := w.view()
	if len(st.inl) > 0 && len(vw.frames) > 0 {
		// the recording function is the helper's caller; the helper frames lie in the same file
		fr := make([]frame, 0, len(st.inl)+len(vw.frames))
		for _, f := range st.inl {
			fr = append(fr, frame{f.Fn, vw.frames[0].File, f.Line})
		}
		vw = &view{frames: append(fr, vw.frames...), stacks: map[int]string{}}
	}
	frames := vw.frames
	base := func() map[string]any {
		m := map[string]any{"phase": cfg.phase, "site": st.id(), "config": cfg.desc, "level": cfg.lvlName, "caller_skip": cfg.skip, "stack": cfg.stackCfg, "captured_depth": cfg.depth}
		for k, v := range cfg.replay {
			m[k] = v
		}
		return m
	}
	if len(frames) < 2 {
		ev.ToolError("site %s did not record its own frames", st.id())
	}
	if st.line != 0 {
		f0 := frames[len(st.inl)]
		if f0.Fn != st.function || f0.Line != st.line || filepath.Base(f0.File) != genFileBase {
			ev.ToolError("harness self-check: site %s recorded %v, generator wrote %s:%d %s", st.id(), f0, genFileBase, st.line, st.function)
		}
	}
	if c.panicked != nil && !cfg.wantPanic {
		w.fail(failure{"panic", st.recv, st.method, "unexpected-panic", fmt.Sprintf("%s (%s, level %s): the call panicked: %v", st.id(), cfg.desc, cfg.lvlName, c.panicked), base()})
		return
	}
	if len(w.sk.ents) != 1 {
		w.fail(failure{"entries", st.recv, st.method, fmt.Sprintf("entries=%d", len(w.sk.ents)), fmt.Sprintf("%s (%s, level %s): %d entries were written, want 1", st.id(), cfg.desc, cfg.lvlName, len(w.sk.ents)), base()})
		return
	}
	if cfg.skip > len(frames)-2 || cfg.stackSkip > len(frames)-2 {
		ev.ToolError("case %s %s: skip %d leaves no user frame (have %d frames)", st.id(), cfg.desc, cfg.skip, len(frames))
	}
	if cfg.depth > 0 {
		ds := cfg.stackSkip
		if cfg.fieldSkip >= 0 {
			ds = cfg.fieldSkip
		}
		if len(frames)-ds != cfg.depth {
			ev.ToolError("harness self-check: case %s %s was to leave %d frames to capture, the view has %d-%d", st.id(), cfg.desc, cfg.depth, len(frames), ds)
		}
	}
	e := w.sk.ents[0]
	w.classes[fmt.Sprintf("%s|%s|%s|k%d|%s|%v|d%d", cfg.phase, st.id(), cfg.lvlName, cfg.skip, cfg.stackCfg, cfg.wantCall, cfg.depth)] = struct{}{}

	// caller
	callerOff, callerGot := false, frame{}
	if cfg.wantCall {
		want := frames[cfg.skip]
		got := frame{e.Caller.Function, e.Caller.File, e.Caller.Line}
		switch {
		case !e.Caller.Defined:
			w.fail(failure{"caller", st.recv, st.method, "undefined", fmt.Sprintf("%s (%s, level %s): caller annotation enabled but Entry.Caller is undefined", st.id(), cfg.desc, cfg.lvlName), base()})
		case got != want:
			// every frame outward of the call site is in the view, so a frame that is not in it lies on the callee side
			d, how := "skips-too-few", "a frame inside the logging machinery below the call site"
			if j := indexOf(frames, got); j >= 0 {
				how = fmt.Sprintf("%+d frame(s) from the expected one", j-cfg.skip)
				if j > cfg.skip {
					d = "skips-too-many"
				}
				if cfg.slogSkipK > 0 && j == 0 {
					d = "WithCallerSkip-not-applied-to-caller"
				}
			}
			callerOff = true
			callerGot = got
			m := base()
			m["observed_caller"] = got.String()
			m["expected_caller"] = want.String()
			w.fail(failure{"caller", st.recv, st.method, d, fmt.Sprintf("%s (%s, level %s, caller skip %d): Entry.Caller = %v; the call site %d frame(s) out is %v (%s)", st.id(), cfg.desc, cfg.lvlName, cfg.skip, got, cfg.skip, want, how), m})
		default:
			if fp, tp := e.Caller.FullPath(), e.Caller.TrimmedPath(); fp != want.File+":"+strconv.Itoa(want.Line) || tp != refTrim(want.File, want.Line) || e.Caller.String() != fp {
				w.fail(failure{"path", "EntryCaller", "paths", "observed-caller", fmt.Sprintf("caller %v: FullPath %q TrimmedPath %q String %q", got, fp, tp, e.Caller.String()), base()})
			}
		}
	} else if e.Caller.Defined {
		w.fail(failure{"caller", st.recv, st.method, "defined-when-disabled", fmt.Sprintf("%s (%s): caller annotation disabled but Entry.Caller = %v", st.id(), cfg.desc, e.Caller), base()})
	}

	// stack
	switch {
	case cfg.wantStack && e.Stack == "":
		w.fail(failure{"presence", st.recv, st.method, "absent-when-enabled:" + cfg.rel, fmt.Sprintf("%s (%s, level %s, stack %s): no stack trace attached", st.id(), cfg.desc, cfg.lvlName, cfg.stackCfg), base()})
	case !cfg.wantStack && e.Stack != "":
		w.fail(failure{"presence", st.recv, st.method, "present-when-disabled:" + cfg.rel, fmt.Sprintf("%s (%s, level %s, stack %s): a stack trace was attached: %s", st.id(), cfg.desc, cfg.lvlName, cfg.stackCfg, trunc(e.Stack, 200)), base()})
	case cfg.wantStack:
		want := vw.stackFrom(cfg.stackSkip)
		if e.Stack == want {
			break
		}
		if g := parseStack(e.Stack); callerOff && cfg.skip == cfg.stackSkip && len(g) > 0 && g[0] == callerGot && shiftedOnly(g, frames) {
			// the trace starts at the frame reported as caller and is otherwise complete: the same
			// misplacement, already reported above
		} else {
			d := classifyStack(e.Stack, frames, cfg.stackSkip)
			m := base()
			m["observed_stack"] = trunc(e.Stack, 3000)
			m["expected_stack"] = trunc(want, 3000)
			w.fail(failure{"stack", st.recv, st.method, d, fmt.Sprintf("%s (%s, level %s, caller skip %d, %d frames to capture): Entry.Stack has %d frames starting at %q; the call chain from the call site %d frame(s) out has %d frames starting at %q (final runtime frame excluded)",
				st.id(), cfg.desc, cfg.lvlName, cfg.stackSkip, len(frames)-cfg.stackSkip, len(parseStack(e.Stack)), firstLine(e.Stack), cfg.stackSkip, len(frames)-1-cfg.stackSkip, frames[cfg.stackSkip].Fn), m})
		}
	}

	// stack field
	if cfg.fieldSkip >= 0 {
		var val string
		found := false
		for _, f := range w.sk.fields[0] {
			if f.Key == "st" {
				val, found = f.String, true
			}
		}
		want := vw.stackFrom(cfg.fieldSkip)
		if !found {
			w.fail(failure{"stack", st.recv, st.method, "field-missing", fmt.Sprintf("%s: no \"st\" field on the entry", st.id()), base()})
		} else if val != want {
			d := classifyStack(val, frames, cfg.fieldSkip)
			m := base()
			m["observed_stack"] = trunc(val, 3000)
			m["expected_stack"] = trunc(want, 3000)
			w.fail(failure{"stack", st.recv, st.method, d, fmt.Sprintf("%s skip %d (%d frames to capture): field value has %d frames starting at %q; the call chain has %d starting at %q", st.id(), cfg.fieldSkip, len(frames)-cfg.fieldSkip, len(parseStack(val)), firstLine(val), len(frames)-1-cfg.fieldSkip, frames[cfg.fieldSkip].Fn), m})
		}
	}

	if len(w.samples) < w.wantSamp && cfg.wantCall {
		w.samples = append(w.samples, map[string]any{"phase": cfg.phase, "site": st.id(), "config": cfg.desc, "level": cfg.lvlName, "caller_skip": cfg.skip, "expected_caller": frames[cfg.skip].String(), "frames_in_view": len(frames), "stack": cfg.stackCfg})
	}
}

// shiftedOnly: g is the complete chain, merely starting at another frame.
func shiftedOnly(g, frames []frame) bool {
	for len(g) > 0 && indexOf(frames, g[0]) < 0 {
		g = g[1:] // callee-side frames
	}
	if len(g) == 0 {
		return false
	}
	j := indexOf(frames, g[0])
	rest := frames[j : len(frames)-1]
	return len(rest) == len(g) && isPrefix(g, rest)
}

func firstLine(s string) string {
	if i := strings.IndexByte(s, '\n'); i >= 0 {
		return s[:i]
	}
	return s
}

// refTrim is the documented TrimmedPath: "package/file:line ... preserving only
// the leaf directory name and file name".
func refTrim(file string, line int) string {
	parts := strings.Split(file, "/")
	if len(parts) > 2 {
		parts = parts[len(parts)-2:]
	}
	return strings.Join(parts, "/") + ":" + strconv.Itoa(line)
}

// ---------------------------------------------------------------------------
// site tables

var (
	loggerSites, sugarSites, stdSites, stdPkgSites, slogSites []*site
)

func zapSitesFor(sugar bool, lvl zapcore.Level) []*site {
	src := loggerSites
	if sugar {
		src = sugarSites
	}
	var out []*site
	for _, s := range src {
		if s.hasLvl || s.level == lvl {
			out = append(out, s)
		}
	}
	return out
}

func levelsOf(s *site) []zapcore.Level {
	if s.hasLvl {
		return allLevels
	}
	return []zapcore.Level{s.level}
}

// completeness: the generated table against the compiled method sets.
func checkTables() {
	have := map[string]bool{}
	for _, s := range genSites {
		have[s.id()] = true
		switch s.fe {
		case feLogger:
			loggerSites = append(loggerSites, s)
		case feSugar:
			sugarSites = append(sugarSites, s)
		case feStd:
			stdSites = append(stdSites, s)
		case feStdPkg:
			stdPkgSites = append(stdPkgSites, s)
		case feSlog:
			slogSites = append(slogSites, s)
		}
	}
	ce := reflect.TypeOf((*zapcore.CheckedEntry)(nil))
	for name, t := range map[string]reflect.Type{"Logger": reflect.TypeOf((*zap.Logger)(nil)), "SugaredLogger": reflect.TypeOf((*zap.SugaredLogger)(nil))} {
		n := 0
		for i := 0; i < t.NumMethod(); i++ {
			m := t.Method(i)
			logging := m.Type.NumOut() == 0 || (m.Type.NumOut() == 1 && m.Type.Out(0) == ce)
			if logging {
				n++
			}
			if logging != have[name+"."+m.Name] {
				ev.ToolError("generated call-site table out of date: %s.%s logging=%v in the compiled package, generated=%v (re-run gen.sh)", name, m.Name, logging, have[name+"."+m.Name])
			}
		}
		cnt := len(loggerSites)
		if name == "SugaredLogger" {
			cnt = len(sugarSites)
		}
		if n != cnt {
			ev.ToolError("generated call-site table out of date: %d logging methods on %s, %d sites", n, name, cnt)
		}
	}
	t := reflect.TypeOf((*slog.Logger)(nil))
	n := 0
	for i := 0; i < t.NumMethod(); i++ {
		if t.Method(i).Type.NumOut() == 0 {
			n++
			if !have["slog.Logger."+t.Method(i).Name] {
				ev.ToolError("no generated site for slog.Logger.%s", t.Method(i).Name)
			}
		}
	}
	if n != len(slogSites) || len(stdSites) == 0 || len(stdPkgSites) == 0 || len(loggerSites) == 0 || len(sugarSites) == 0 {
		ev.ToolError("generated call-site table incomplete")
	}
}

// ---------------------------------------------------------------------------
// building loggers

type stackThr struct {
	name string
	opt  zap.Option // nil: AddStacktrace not given
	en   func(zapcore.Level) bool
}

func levelThresholds() []stackThr {
	out := []stackThr{{name: "default(no AddStacktrace)", en: func(zapcore.Level) bool { return false }}}
	for _, t := range allLevels {
		t := t
		out = append(out, stackThr{name: "AddStacktrace(" + t.String() + ")", opt: zap.AddStacktrace(t), en: func(l zapcore.Level) bool { return l >= t }})
	}
	return out
}

func subsetThresholds() []stackThr {
	var out []stackThr
	for mask := 0; mask < 128; mask++ {
		mask := mask
		en := func(l zapcore.Level) bool {
			return l >= zapcore.DebugLevel && l <= zapcore.FatalLevel && mask&(1<<uint(l-zapcore.DebugLevel)) != 0
		}
		out = append(out, stackThr{name: fmt.Sprintf("AddStacktrace(LevelEnablerFunc mask %07b)", mask), opt: zap.AddStacktrace(zap.LevelEnablerFunc(en)), en: en})
	}
	return out
}

func relOf(t stackThr, lvl zapcore.Level, tl int) string {
	if tl < 0 {
		return "custom-or-default-enabler"
	}
	switch {
	case lvl < allLevels[tl]:
		return "level<threshold"
	case lvl == allLevels[tl]:
		return "level==threshold"
	}
	return "level>threshold"
}

func baseLogger(sk *sink, addCaller bool, k int, thr *stackThr) *zap.Logger {
	opts := []zap.Option{zap.WithFatalHook(zapcore.WriteThenPanic)}
	if addCaller {
		opts = append(opts, zap.AddCaller())
	}
	if k > 0 {
		opts = append(opts, zap.AddCallerSkip(k))
	}
	if thr != nil && thr.opt != nil {
		opts = append(opts, thr.opt)
	}
	return zap.New(capCore{sk}, opts...)
}

// infoSite is the generated call site of the Info method among the given sites.
func infoSite(ss []*site) *site {
	for _, s := range ss {
		if s.method == "Info" {
			return s
		}
	}
	ev.ToolError("no generated site for Info")
	return nil
}

func zapPanics(l zapcore.Level) bool { return l == zapcore.PanicLevel || l == zapcore.FatalLevel }

// ---------------------------------------------------------------------------

func main() {
	run := ev.Start("C15", "exploration")
	checkTables()
	thorough := run.Thorough()

	var mu sync.Mutex
	shardFails := map[string][]failure{} // phase/shard-ordered key -> failures
	var order []string
	classes := map[string]struct{}{}
	var evals int64
	var samples []any
	phaseEvals := map[string]int64{}
	collect := func(phase string, shard int, w *worker) {
		mu.Lock()
		defer mu.Unlock()
		k := fmt.Sprintf("%s/%08d", phase, shard)
		shardFails[k] = w.fails
		order = append(order, k)
		for c := range w.classes {
			classes[c] = struct{}{}
		}
		evals += w.evals
		phaseEvals[phase] += w.evals
		samples = append(samples, w.samples...)
	}

	tPhase := time.Now()
	lap := func(name string) {
		if os.Getenv("C15_TIMING") != "" {
			fmt.Fprintf(os.Stderr, "phase %s: %.2fs\n", name, time.Since(tPhase).Seconds())
		}
		tPhase = time.Now()
	}

	everyThr := levelThresholds()
	thrAll := &everyThr[1] // AddStacktrace(Debug): every level gets a stack

	// ---- phase 0 (sequential, first): fresh pooled storage at the growth boundaries
	{
		w := newWorker()
		cc := &call{st: calibSite, r: w.r}
		cc.run(0) // natural frame count of this launcher: site + wrappers + runner + main + runtime frames
		t0 := w.r.n
		depths := []int{63, 64, 65, 127, 128, 129, 255, 256, 257, 511, 512, 513, 1023, 1024, 1025, 2047, 2048, 2049, 4097, 8200} // storage grows from the default slab in one capture
		pick := func(ss []*site, m string) *site {
			for _, s := range ss {
				if s.method == m {
					return s
				}
			}
			ev.ToolError("no generated site for method %s", m)
			return nil
		}
		thrErr := &everyThr[4] // AddStacktrace(Error)
		for _, D := range depths {
			for k := 0; k <= 1; k++ {
				var sites []*site
				sites = append(sites, zapSitesFor(false, zapcore.ErrorLevel)...)
				sites = append(sites, zapSitesFor(true, zapcore.ErrorLevel)...)
				sites = append(sites, fieldSites...)
				sites = append(sites, pick(stdSites, "Print"), pick(slogSites, "Error"), pick(slogSites, "Log"))
				for _, st := range sites {
					c := &call{st: st, r: w.r, lvl: zapcore.ErrorLevel, ctx: context.Background(), slvl: slog.LevelError}
					cfg := &caseCfg{phase: "fresh-pool", st: st, skip: k, stackSkip: k, wantCall: true, wantStack: true, lvlName: "error", depth: D, stackCfg: thrErr.name, rel: "level==threshold", fieldSkip: -1,
						desc: fmt.Sprintf("AddCaller, AddCallerSkip(%d), %s, pooled storage emptied by two GC cycles", k, thrErr.name)}
					n := D + k - t0
					base := baseLogger(w.sk, true, k, thrErr)
					switch st.fe {
					case feLogger:
						c.l = base
					case feSugar:
						c.s = base.Sugar()
					case feStd:
						c.std, _ = zap.NewStdLogAt(base, zapcore.ErrorLevel)
						cfg.wantPanic = st.stdPanics
					case feSlog:
						c.sl = slog.New(zapslog.NewHandler(capCore{w.sk}, append(skipOpts(k), zapslog.WithCaller(true), zapslog.AddStacktraceAt(slog.LevelError))...))
						cfg.slogSkipK = k
					case feField:
						// entry itself: Info level, no entry stack; the field carries the stack
						c.l = baseLogger(w.sk, true, 0, thrErr)
						c.lvl = zapcore.InfoLevel
						cfg.skip, cfg.stackSkip, cfg.wantStack, cfg.lvlName, cfg.rel = 0, 0, false, "info", "level<threshold"
						if st.method == "StackSkip" {
							c.fskip, cfg.fieldSkip = k, k
						} else {
							cfg.fieldSkip = 0
							n = D - t0
						}
					}
					if n < 0 {
						continue
					}
					w.sk.reset()
					runtime.GC()
					runtime.GC()
					c.run(n)
					w.check(c, cfg)
				}
			}
		}
		w.wantSamp = 0
		collect("0-fresh-pool", 0, w)
	}

	lap("0")
	// ---- phase A: conversion chains x every zap method x base skip x stack off/on
	maxLen := 4
	if thorough {
		maxLen = 5
	}
	chains := allChains(maxLen)
	par.For(len(chains), func(ci int) {
		w := newWorker()
		if ci%400 == 1 {
			w.wantSamp = 1
		}
		ch := chains[ci]
		for k := 0; k <= 3; k++ {
			for sm := 0; sm < 2; sm++ {
				var thr *stackThr
				scfg := "off"
				if sm == 1 {
					thr, scfg = thrAll, thrAll.name
				}
				l, s, stages := ch.applyAll(baseLogger(w.sk, true, k, thr))
				total := k + ch.skips
				sites := loggerSites
				if ch.sugar {
					sites = sugarSites
				}
				for _, st := range sites {
					for _, lvl := range levelsOf(st) {
						c := &call{st: st, l: l, s: s, lvl: lvl, r: w.r}
						w.sk.reset()
						c.run(0)
						w.check(c, &caseCfg{phase: "chains", st: st, skip: total, stackSkip: total, wantCall: true, wantStack: sm == 1, lvlName: lvl.String(), stackCfg: scfg, rel: "level>=threshold", fieldSkip: -1, wantPanic: zapPanics(lvl),
							desc:   fmt.Sprintf("New(AddCaller, AddCallerSkip(%d)) then %v", k, ch),
							replay: map[string]any{"chain": ch.String(), "base_skip": k}})
					}
				}
				// every logger the chain passed through is used again AFTER the whole chain was derived and used:
				// deriving from a logger (Desugar, Sugar, With ...) must leave its own caller skip alone
				for si, sg := range stages {
					if k+sg.skips < 0 {
						continue
					}
					var st *site
					if sg.s != nil {
						st = infoSite(sugarSites)
					} else {
						st = infoSite(loggerSites)
					}
					c := &call{st: st, l: sg.l, s: sg.s, lvl: zapcore.InfoLevel, r: w.r}
					w.sk.reset()
					c.run(0)
					w.check(c, &caseCfg{phase: "chains-intermediate", st: st, skip: k + sg.skips, stackSkip: k + sg.skips, wantCall: true, wantStack: sm == 1, lvlName: "info", stackCfg: scfg, rel: "level>=threshold", fieldSkip: -1,
						desc:   fmt.Sprintf("New(AddCaller, AddCallerSkip(%d)) then %v; the logger reached after %d of its steps, used after the whole chain was derived and used", k, ch, si),
						replay: map[string]any{"chain": ch.String(), "base_skip": k, "stage": si}})
				}
			}
		}
		collect("A-chains", ci, w)
	})

	lap("A")
	// ---- phase A2: call sites in functions small enough to be inlined (family I: the call site
	// itself; family M: the frame one out of the call site), every front-end method, caller skip 0..2
	{
		w := newWorker()
		w.wantSamp = 2
		inlined := 0
		for _, st := range genInlSites {
			for k := 0; k <= 2; k++ {
				for sm := 0; sm < 2; sm++ {
					var thr *stackThr
					scfg := "off"
					if sm == 1 {
						thr, scfg = thrAll, thrAll.name
					}
					base := baseLogger(w.sk, true, k, thr)
					lvls := []zapcore.Level{zapcore.InfoLevel}
					if st.fe == feLogger || st.fe == feSugar {
						lvls = levelsOf(st)
					}
					for _, lvl := range lvls {
						c := &call{st: st, r: w.r, lvl: lvl, ctx: context.Background(), slvl: slog.LevelInfo}
						cfg := &caseCfg{phase: "inlined-sites", st: st, skip: k, stackSkip: k, wantCall: true, wantStack: sm == 1, lvlName: lvl.String(), stackCfg: scfg, rel: "level>=threshold", fieldSkip: -1,
							desc:   fmt.Sprintf("New(AddCaller, AddCallerSkip(%d)), call site reached through %d inlinable helper frame(s)", k, len(st.inl)),
							replay: map[string]any{"helpers": fmt.Sprint(st.inl), "base_skip": k}}
						switch st.fe {
						case feLogger:
							c.l = base
							cfg.wantPanic = zapPanics(lvl)
						case feSugar:
							c.s = base.Sugar()
							cfg.wantPanic = zapPanics(lvl)
						case feStd:
							c.std, _ = zap.NewStdLogAt(base, zapcore.InfoLevel)
							cfg.wantPanic = st.stdPanics
						case feStdPkg:
							continue // redirects the process-global logger: covered by its own phase
						case feSlog:
							opts := append([]zapslog.HandlerOption{zapslog.WithCaller(true)}, skipOpts(k)...)
							if sm == 1 {
								opts = append(opts, zapslog.AddStacktraceAt(slog.Level(-100)))
							} else {
								opts = append(opts, zapslog.AddStacktraceAt(slog.Level(100))) // the handler's default is Error
							}
							c.sl = slog.New(zapslog.NewHandler(capCore{w.sk}, opts...))
							cfg.slogSkipK = k
							if st.hasLvl {
								cfg.lvlName = "INFO"
							} else {
								c.slvl = st.slogLevel
								cfg.lvlName = st.slogLevel.String()
							}
						}
						w.sk.reset()
						c.run(0)
						if len(w.sk.ents) == 1 && k < len(st.inl) {
							if fr, _ := runtime.CallersFrames([]uintptr{w.sk.ents[0].Caller.PC + 1}).Next(); fr.Func == nil && fr.Function != "" {
								inlined++
							}
						}
						w.check(c, cfg)
					}
				}
			}
		}
		if inlined == 0 {
			ev.ToolError("phase A2: the compiler inlined none of the %d helper call sites (built with -gcflags=-l?)", len(genInlSites))
		}
		inlinedCallers = inlined
		collect("A2-inlined-sites", 0, w)
	}

	lap("A2")
	// ---- phase A3: loggers whose lineage starts at a no-op logger (zap.NewNop(), zap.New(nil), the default
	// zap.L()) and that are switched on afterwards with WrapCore: same expectations as for zap.New - a stack
	// exactly where a configured AddStacktrace threshold enables the level (none configured: never), the caller
	// exactly when AddCaller was given
	{
		w := newWorker()
		w.wantSamp = 1
		type nopBase struct {
			name string
			mk   func() *zap.Logger
		}
		bases := []nopBase{
			{"zap.NewNop()", zap.NewNop},
			{"zap.New(nil)", func() *zap.Logger { return zap.New(nil) }},
			{"zap.L() (the default global)", zap.L},
		}
		for _, b := range bases {
			for ti := range everyThr {
				thr := &everyThr[ti]
				for _, withCaller := range []bool{false, true} {
					opts := []zap.Option{zap.WrapCore(func(zapcore.Core) zapcore.Core { return capCore{w.sk} }), zap.WithFatalHook(zapcore.WriteThenPanic)}
					if withCaller {
						opts = append(opts, zap.AddCaller())
					}
					if thr.opt != nil {
						opts = append(opts, thr.opt)
					}
					l := b.mk().WithOptions(opts...)
					for _, variant := range []string{"", "With+Named child", "Sugar"} {
						lg := l
						var sg *zap.SugaredLogger
						sites := loggerSites
						switch variant {
						case "With+Named child":
							lg = l.With(zap.Int("k", 1)).Named("n")
						case "Sugar":
							sg = l.Sugar()
							sites = sugarSites
						}
						for _, st := range sites {
							for _, lvl := range levelsOf(st) {
								c := &call{st: st, l: lg, s: sg, lvl: lvl, r: w.r}
								w.sk.reset()
								c.run(0)
								rel := "level<threshold"
								if thr.en(lvl) {
									rel = "level>=threshold"
								}
								w.check(c, &caseCfg{phase: "nop-lineage", st: st, skip: 0, stackSkip: 0, wantCall: withCaller, wantStack: thr.en(lvl), lvlName: lvl.String(), stackCfg: thr.name, rel: rel, fieldSkip: -1, wantPanic: zapPanics(lvl),
									desc:   fmt.Sprintf("%s.WithOptions(WrapCore(...), AddCaller=%v, %s) %s", b.name, withCaller, thr.name, variant),
									replay: map[string]any{"base": b.name, "variant": variant}})
							}
						}
					}
				}
			}
		}
		collect("A3-nop-lineage", 0, w)
	}

	lap("A3")
	// ---- phase A4: loggers built by zap.Config: caller annotation and stack threshold are what the
	// configuration says, for every combination of its switches
	{
		w := newWorker()
		w.wantSamp = 1
		for _, baseName := range []string{"NewProductionConfig", "NewDevelopmentConfig"} {
			for mask := 0; mask < 8; mask++ {
				dev, disCaller, disStack := mask&1 != 0, mask&2 != 0, mask&4 != 0
				zc := zap.NewProductionConfig()
				if baseName == "NewDevelopmentConfig" {
					zc = zap.NewDevelopmentConfig()
				}
				zc.Development, zc.DisableCaller, zc.DisableStacktrace = dev, disCaller, disStack
				zc.OutputPaths, zc.ErrorOutputPaths, zc.Sampling = nil, nil, nil
				l, err := zc.Build(zap.WrapCore(func(zapcore.Core) zapcore.Core { return capCore{w.sk} }), zap.WithFatalHook(zapcore.WriteThenPanic))
				if err != nil {
					ev.ToolError("Config.Build: %v", err)
				}
				thr := zapcore.ErrorLevel
				if dev {
					thr = zapcore.WarnLevel
				}
				scfg := fmt.Sprintf("Config: stack traces at %v and above", thr)
				if disStack {
					scfg = "Config: DisableStacktrace"
				}
				for _, sugar := range []bool{false, true} {
					sites := loggerSites
					if sugar {
						sites = sugarSites
					}
					for _, st := range sites {
						for _, lvl := range levelsOf(st) {
							c := &call{st: st, lvl: lvl, r: w.r}
							if sugar {
								c.s = l.Sugar()
							} else {
								c.l = l
							}
							rel := "level<threshold"
							if lvl >= thr {
								rel = "level>=threshold"
							}
							w.sk.reset()
							c.run(0)
							w.check(c, &caseCfg{phase: "config", st: st, skip: 0, stackSkip: 0, wantCall: !disCaller, wantStack: !disStack && lvl >= thr, lvlName: lvl.String(), stackCfg: scfg, rel: rel, fieldSkip: -1,
								wantPanic: zapPanics(lvl) || (dev && lvl == zapcore.DPanicLevel),
								desc:      fmt.Sprintf("%s with Development=%v DisableCaller=%v DisableStacktrace=%v, Build()", baseName, dev, disCaller, disStack),
								replay:    map[string]any{"config": baseName, "development": dev, "disable_caller": disCaller, "disable_stacktrace": disStack}})
						}
					}
				}
			}
		}
		collect("A4-config", 0, w)
	}

	lap("A4")
	// ---- phase B: stack depth x threshold x level x method x skip x caller on/off
	type dcase struct {
		D      int
		direct bool
		thr    int
	}
	depthList := []int{0, 62, 63, 64, 65, 66, 126, 127, 128, 129, 130, 200, 254, 255, 256, 257, 258, 300}
	if thorough {
		depthList = []int{0}
		for d := 17; d <= 300; d++ {
			depthList = append(depthList, d)
		}
		depthList = append(depthList, 510, 511, 512, 513, 514, 700)
	}
	var dcases []dcase
	for ti := range everyThr {
		dcases = append(dcases, dcase{direct: true, thr: ti})
		for _, d := range depthList {
			dcases = append(dcases, dcase{D: d, thr: ti})
		}
	}
	slogLevels := []slog.Level{-8, slog.LevelDebug, -1, slog.LevelInfo, 1, slog.LevelWarn, 5, slog.LevelError, 12}
	par.For(len(dcases), func(di int) {
		w := newWorker()
		if di%37 == 5 {
			w.wantSamp = 1
		}
		dc := dcases[di]
		thr := &everyThr[dc.thr]
		launch := func(c *call, n int) {
			w.sk.reset()
			if dc.direct {
				c.runDirect()
			} else {
				c.run(n)
			}
		}
		launch(&call{st: calibSite, r: w.r}, 0) // natural frame count through this launcher
		t0 := w.r.n
		for k := 0; k <= 3; k++ {
			if dc.direct && k > 1 {
				continue // only site and goroutine closure are user frames
			}
			n := 0
			D := t0 - k // natural
			if dc.D > 0 {
				n = dc.D + k - t0
				D = dc.D
				if n < 0 {
					continue
				}
			}
			for _, addCaller := range []bool{true, false} {
				base := baseLogger(w.sk, addCaller, k, thr)
				sug := base.Sugar()
				for _, lvl := range allLevels {
					mk := func(st *site) *caseCfg {
						return &caseCfg{phase: "depth", st: st, skip: k, stackSkip: k, wantCall: addCaller, wantStack: thr.en(lvl), lvlName: lvl.String(), depth: D, stackCfg: thr.name, rel: relOf(*thr, lvl, dc.thr-1), fieldSkip: -1, wantPanic: zapPanics(lvl),
							desc:   fmt.Sprintf("New(AddCaller=%v, AddCallerSkip(%d), %s), direct-goroutine=%v", addCaller, k, thr.name, dc.direct),
							replay: map[string]any{"recursion": n}}
					}
					for _, st := range zapSitesFor(false, lvl) {
						c := &call{st: st, l: base, lvl: lvl, r: w.r}
						launch(c, n)
						w.check(c, mk(st))
					}
					for _, st := range zapSitesFor(true, lvl) {
						c := &call{st: st, s: sug, lvl: lvl, r: w.r}
						launch(c, n)
						w.check(c, mk(st))
					}
					// std-log bridge at this level (one print method per level here; all of them in phase C)
					std, err := zap.NewStdLogAt(base, lvl)
					if err != nil {
						ev.ToolError("NewStdLogAt(%v): %v", lvl, err)
					}
					for _, st := range stdSites {
						c := &call{st: st, std: std, r: w.r}
						launch(c, n)
						cfg := mk(st)
						cfg.wantPanic = cfg.wantPanic || st.stdPanics
						cfg.desc = "NewStdLogAt(" + lvl.String() + ") of " + cfg.desc
						w.check(c, cfg)
					}
				}
				// stack fields (entry at Info)
				if addCaller {
					for _, st := range fieldSites {
						fk := 0
						if st.method == "StackSkip" {
							fk = k
						} else if k > 0 {
							continue
						}
						fl := baseLogger(w.sk, true, 0, thr)
						c := &call{st: st, l: fl, fskip: fk, r: w.r}
						nn := n - k + fk
						if dc.direct {
							nn = 0
						}
						launch(c, nn)
						dd := D
						if dc.D == 0 {
							dd = t0 - fk
						}
						w.check(c, &caseCfg{phase: "depth", st: st, skip: 0, stackSkip: 0, wantCall: true, wantStack: thr.en(zapcore.InfoLevel), lvlName: "info", depth: dd, stackCfg: thr.name, rel: relOf(*thr, zapcore.InfoLevel, dc.thr-1), fieldSkip: fk,
							desc: fmt.Sprintf("zap.%s field skip %d on New(AddCaller, %s), direct-goroutine=%v", st.method, fk, thr.name, dc.direct)})
					}
				}
			}
			// slog handler: the default threshold plus two of the nine slog levels per shard (all nine over the 8 shards of a depth)
			slogThr := []slogThrT{{"default(Error)", nil, slog.LevelError}}
			for _, ix := range []int{dc.thr % len(slogLevels), (dc.thr + 4) % len(slogLevels)} {
				tl := slogLevels[ix]
				slogThr = append(slogThr, slogThrT{fmt.Sprintf("AddStacktraceAt(%d)", int(tl)), zapslog.AddStacktraceAt(tl), tl})
			}
			for _, sthr := range slogThr {
				for _, withCaller := range []bool{true, false} {
					opts := []zapslog.HandlerOption{zapslog.WithCaller(withCaller)}
					if sthr.opt != nil {
						opts = append(opts, sthr.opt)
					}
					if k > 0 {
						opts = append(opts, skipOpts(k)...)
					}
					sl := slog.New(zapslog.NewHandler(capCore{w.sk}, opts...))
					for _, st := range slogSites {
						lv := []slog.Level{st.slogLevel}
						if st.hasLvl {
							lv = slogLevels
						}
						for _, sv := range lv {
							c := &call{st: st, sl: sl, slvl: sv, ctx: context.Background(), r: w.r}
							launch(c, n)
							rel := "level<threshold"
							if sv == sthr.lvl {
								rel = "level==threshold"
							} else if sv > sthr.lvl {
								rel = "level>threshold"
							}
							w.check(c, &caseCfg{phase: "depth", st: st, skip: k, stackSkip: k, wantCall: withCaller, wantStack: sv >= sthr.lvl, lvlName: fmt.Sprintf("slog(%d)", int(sv)), depth: D, stackCfg: "zapslog " + sthr.name, rel: rel, fieldSkip: -1, slogSkipK: k,
								desc: fmt.Sprintf("zapslog.NewHandler(WithCaller(%v), WithCallerSkip(%d), %s), direct-goroutine=%v", withCaller, k, sthr.name, dc.direct)})
						}
					}
				}
			}
		}
		collect("B-depth", di, w)
	})

	lap("B")
	// ---- phase B2: every subset of levels as the stack enabler (natural depth)
	subs := subsetThresholds()
	par.For(len(subs), func(si int) {
		w := newWorker()
		thr := &subs[si]
		for k := 0; k <= 1; k++ {
			for _, addCaller := range []bool{true, false} {
				base := baseLogger(w.sk, addCaller, k, thr)
				sug := base.Sugar()
				for _, lvl := range allLevels {
					for _, sugar := range []bool{false, true} {
						for _, st := range zapSitesFor(sugar, lvl) {
							c := &call{st: st, l: base, s: sug, lvl: lvl, r: w.r}
							w.sk.reset()
							c.run(0)
							w.check(c, &caseCfg{phase: "enabler-subsets", st: st, skip: k, stackSkip: k, wantCall: addCaller, wantStack: thr.en(lvl), lvlName: lvl.String(), stackCfg: thr.name, rel: "custom-or-default-enabler", fieldSkip: -1, wantPanic: zapPanics(lvl),
								desc: fmt.Sprintf("New(AddCaller=%v, AddCallerSkip(%d), %s)", addCaller, k, thr.name)})
						}
					}
				}
			}
		}
		collect("B2-subsets", si, w)
	})

	lap("B2")
	// ---- phase C: std-log bridge and globals over conversion chains
	stdLen := 3
	if thorough {
		stdLen = 4
	}
	var lchains []chain
	for _, ch := range allChains(stdLen) {
		if !ch.sugar {
			lchains = append(lchains, ch)
		}
	}
	// C1 (parallel): NewStdLog / NewStdLogAt
	par.For(len(lchains), func(ci int) {
		w := newWorker()
		if ci%50 == 3 {
			w.wantSamp = 1
		}
		ch := lchains[ci]
		for k := 0; k <= 3; k++ {
			for sm := 0; sm < 2; sm++ {
				var thr *stackThr
				scfg := "off"
				if sm == 1 {
					thr, scfg = thrAll, thrAll.name
				}
				l, _ := ch.apply(baseLogger(w.sk, true, k, thr))
				total := k + ch.skips
				for li := -1; li < len(allLevels); li++ {
					var std *log.Logger
					lvl := zapcore.InfoLevel
					ctor := "NewStdLog"
					if li < 0 {
						std = zap.NewStdLog(l)
					} else {
						lvl = allLevels[li]
						var err error
						if std, err = zap.NewStdLogAt(l, lvl); err != nil {
							ev.ToolError("NewStdLogAt(%v): %v", lvl, err)
						}
						ctor = "NewStdLogAt(" + lvl.String() + ")"
					}
					for _, st := range stdSites {
						c := &call{st: st, std: std, r: w.r}
						w.sk.reset()
						c.run(0)
						w.check(c, &caseCfg{phase: "stdlog", st: st, skip: total, stackSkip: total, wantCall: true, wantStack: sm == 1, lvlName: lvl.String(), stackCfg: scfg, rel: "level>=threshold", fieldSkip: -1, wantPanic: zapPanics(lvl) || st.stdPanics,
							desc:   fmt.Sprintf("%s of New(AddCaller, AddCallerSkip(%d)) then %v", ctor, k, ch),
							replay: map[string]any{"chain": ch.String(), "base_skip": k, "constructor": ctor}})
					}
				}
			}
		}
		collect("C1-stdlog", ci, w)
	})
	lap("C1")
	// C2 (sequential: process-global state): RedirectStdLog / RedirectStdLogAt / ReplaceGlobals
	{
		w := newWorker()
		w.wantSamp = 2
		for _, ch := range lchains {
			for k := 0; k <= 3; k++ {
				for sm := 0; sm < 2; sm++ {
					var thr *stackThr
					scfg := "off"
					if sm == 1 {
						thr, scfg = thrAll, thrAll.name
					}
					l, _ := ch.apply(baseLogger(w.sk, true, k, thr))
					total := k + ch.skips
					for li := -1; li < len(allLevels); li++ {
						lvl := zapcore.InfoLevel
						ctor := "RedirectStdLog"
						var undo func()
						if li < 0 {
							undo = zap.RedirectStdLog(l)
						} else {
							lvl = allLevels[li]
							var err error
							if undo, err = zap.RedirectStdLogAt(l, lvl); err != nil {
								ev.ToolError("RedirectStdLogAt(%v): %v", lvl, err)
							}
							ctor = "RedirectStdLogAt(" + lvl.String() + ")"
						}
						for _, st := range stdPkgSites {
							c := &call{st: st, r: w.r}
							w.sk.reset()
							c.run(0)
							w.check(c, &caseCfg{phase: "stdlog-global", st: st, skip: total, stackSkip: total, wantCall: true, wantStack: sm == 1, lvlName: lvl.String(), stackCfg: scfg, rel: "level>=threshold", fieldSkip: -1, wantPanic: zapPanics(lvl) || st.stdPanics,
								desc:   fmt.Sprintf("%s of New(AddCaller, AddCallerSkip(%d)) then %v", ctor, k, ch),
								replay: map[string]any{"chain": ch.String(), "base_skip": k, "constructor": ctor}})
						}
						undo()
					}
					// the global logger pair
					restore := zap.ReplaceGlobals(l)
					gl, gs := zap.L(), zap.S()
					for _, sugar := range []bool{false, true} {
						sites := loggerSites
						if sugar {
							sites = sugarSites
						}
						for _, st := range sites {
							for _, lvl := range levelsOf(st) {
								c := &call{st: st, l: gl, s: gs, lvl: lvl, r: w.r}
								w.sk.reset()
								c.run(0)
								w.check(c, &caseCfg{phase: "globals", st: st, skip: total, stackSkip: total, wantCall: true, wantStack: sm == 1, lvlName: lvl.String(), stackCfg: scfg, rel: "level>=threshold", fieldSkip: -1, wantPanic: zapPanics(lvl),
									desc:   fmt.Sprintf("zap.L()/zap.S() after ReplaceGlobals(New(AddCaller, AddCallerSkip(%d)) then %v)", k, ch),
									replay: map[string]any{"chain": ch.String(), "base_skip": k}})
							}
						}
					}
					restore()
				}
			}
		}
		log.SetOutput(os.Stderr)
		collect("C2-global", 0, w)
	}

	lap("C2")
	// ---- phase D: slog derived loggers (With / WithGroup chains)
	slogLen := 3
	if thorough {
		slogLen = 5
	}
	var schains [][]byte
	{
		cur := [][]byte{{}}
		schains = append(schains, []byte{})
		for l := 1; l <= slogLen; l++ {
			var next [][]byte
			for _, c := range cur {
				for _, o := range []byte{'W', 'G'} {
					next = append(next, append(append([]byte{}, c...), o))
				}
			}
			schains = append(schains, next...)
			cur = next
		}
	}
	par.For(len(schains), func(ci int) {
		w := newWorker()
		if ci == 4 {
			w.wantSamp = 1
		}
		sc := schains[ci]
		var names []string
		for _, o := range sc {
			if o == 'W' {
				names = append(names, "With")
			} else {
				names = append(names, "WithGroup")
			}
		}
		for k := 0; k <= 3; k++ {
			for ti := -1; ti < len(slogLevels); ti++ {
				opts := []zapslog.HandlerOption{zapslog.WithCaller(true)}
				tl, tname := slog.LevelError, "default(Error)"
				if ti >= 0 {
					tl = slogLevels[ti]
					tname = fmt.Sprintf("AddStacktraceAt(%d)", int(tl))
					opts = append(opts, zapslog.AddStacktraceAt(tl))
				}
				if k > 0 {
					opts = append(opts, skipOpts(k)...)
				}
				sl := slog.New(zapslog.NewHandler(capCore{w.sk}, opts...))
				for _, o := range sc {
					if o == 'W' {
						sl = sl.With("k", 1)
					} else {
						sl = sl.WithGroup("g")
					}
				}
				for _, st := range slogSites {
					lv := []slog.Level{st.slogLevel}
					if st.hasLvl {
						lv = slogLevels
					}
					for _, sv := range lv {
						c := &call{st: st, sl: sl, slvl: sv, ctx: context.Background(), r: w.r}
						w.sk.reset()
						c.run(0)
						rel := "level<threshold"
						if sv == tl {
							rel = "level==threshold"
						} else if sv > tl {
							rel = "level>threshold"
						}
						w.check(c, &caseCfg{phase: "slog", st: st, skip: k, stackSkip: k, wantCall: true, wantStack: sv >= tl, lvlName: fmt.Sprintf("slog(%d)", int(sv)), stackCfg: "zapslog " + tname, rel: rel, fieldSkip: -1, slogSkipK: k,
							desc: fmt.Sprintf("slog.New(zapslog.NewHandler(WithCaller(true), WithCallerSkip(%d), %s)) then %v", k, tname, names)})
					}
				}
			}
		}
		collect("D-slog", ci, w)
	})

	lap("D")
	// ---- phase E: path trimming and the caller encoders on a path alphabet
	{
		w := newWorker()
		segs := []string{"", "a", "pkg", "f.go", "x y"}
		files := []string{""}
		cur := []string{""}
		first := true
		for l := 1; l <= 5; l++ {
			var next []string
			for _, p := range cur {
				for _, s := range segs {
					if first {
						next = append(next, s)
					} else {
						next = append(next, p+"/"+s)
					}
				}
			}
			first = false
			files = append(files, next...)
			cur = next
		}
		for _, f := range files {
			for _, line := range []int{0, 1, 42, 1234567} {
				for _, def := range []bool{true, false} {
					w.evals++
					ec := zapcore.EntryCaller{Defined: def, File: f, Line: line}
					wantFull, wantTrim := f+":"+strconv.Itoa(line), refTrim(f, line)
					if !def {
						wantFull, wantTrim = "undefined", "undefined"
					}
					var a1, a2 strEnc
					zapcore.FullCallerEncoder(ec, &a1)
					zapcore.ShortCallerEncoder(ec, &a2)
					got := []string{ec.FullPath(), ec.String(), ec.TrimmedPath(), strings.Join(a1.s, "|"), strings.Join(a2.s, "|")}
					want := []string{wantFull, wantFull, wantTrim, wantFull, wantTrim}
					names := []string{"FullPath", "String", "TrimmedPath", "FullCallerEncoder", "ShortCallerEncoder"}
					for i := range got {
						if got[i] != want[i] {
							seps := strings.Count(f, "/")
							if seps > 3 {
								seps = 3
							}
							w.fail(failure{"path", "EntryCaller", names[i], fmt.Sprintf("separators=%d,defined=%v", seps, def), fmt.Sprintf("EntryCaller{Defined:%v File:%q Line:%d}.%s = %q, want %q", def, f, line, names[i], got[i], want[i]), map[string]any{"file": f, "line": line, "defined": def}})
						}
					}
					w.classes[fmt.Sprintf("path|%s|%d|%v", f, line, def)] = struct{}{}
				}
			}
		}
		collect("E-paths", 0, w)
	}

	lap("E")
	// ---- report, deterministically ordered and grouped by receiver where a whole family fails alike
	sort.Strings(order)
	var all []failure
	for _, k := range order {
		all = append(all, shardFails[k]...)
	}
	methodsOf := map[string]int{"Logger": len(loggerSites), "SugaredLogger": len(sugarSites), "log.Logger": len(stdSites), "log": len(stdPkgSites), "slog.Logger": len(slogSites), "zap": len(fieldSites)}
	group := map[string]map[string]bool{}
	for _, f := range all {
		g := f.kind + "|" + f.recv + "|" + f.desc
		if group[g] == nil {
			group[g] = map[string]bool{}
		}
		group[g][f.method] = true
	}
	for _, f := range all {
		g := f.kind + "|" + f.recv + "|" + f.desc
		key := fmt.Sprintf("%s:%s.%s:%s", f.kind, f.recv, f.method, f.desc)
		if strings.HasPrefix(f.desc, "~") {
			key = fmt.Sprintf("%s:%s:%s", f.kind, f.recv, f.desc[1:])
		} else if n := methodsOf[f.recv]; n > 1 && len(group[g]) == n {
			key = fmt.Sprintf("%s:%s.*:%s", f.kind, f.recv, f.desc)
		} else if len(group[g]) > 1 {
			var ms []string
			for m := range group[g] {
				ms = append(ms, m)
			}
			sort.Strings(ms)
			key = fmt.Sprintf("%s:%s.{%s}:%s", f.kind, f.recv, strings.Join(ms, ","), f.desc)
		}
		run.Report(key, f.what, f.replay)
	}

	sort.Slice(samples, func(i, j int) bool { return fmt.Sprint(samples[i]) < fmt.Sprint(samples[j]) })
	if len(samples) > 12 {
		samples = samples[:12]
	}
	run.Assume = []string{
		"ground truth for a call site is the harness's own runtime.Callers view taken on the same source line (frame 0 cross-checked against the generator's static file:line:function); function, file and line are compared, not the PC",
		"configured skips always land on a harness frame: a skip that reaches runtime.goexit/runtime.main or runs past the stack is outside the alphabet (zap documents only an error message for it), as are NET negative caller skips (individual negative AddCallerSkip values are used: skips are additive)",
		"a captured depth of 1 (only runtime.goexit) is therefore left out; the smallest depth is 2 (goroutine closure + runtime.goexit)",
		"*log.Logger / package log Fatal, Fatalf, Fatalln are left out (they end in the standard library's own os.Exit), Output as well (it takes its own calldepth, about which zap documents nothing); package-level slog functions are left out (slog.SetDefault rewires package log)",
		"zap Fatal-level calls run with WithFatalHook(WriteThenPanic) and are recovered outside the wrapper chain",
		"for the zapslog handler the caller expectation with WithCallerSkip(k>0) follows the option's documentation (caller shifted k frames, same frame as the stack trace); with k=0 it is the call site slog recorded",
		"zapslog records that reach Handle through a middleware slog.Handler or as hand-made records (slog.NewRecord with the caller's own pc) must show the recorded call site when no caller skip is configured",
		"pooled pc storage: phase 0 empties sync.Pool with two GC cycles before each call so that the 64-entry slab grows at 64/128/256 frames; in the parallel phases the slab may already be large - the oracle is the same either way",
	}
	phaseEvals["slog-other-routes"] = slogRoutes(run)
	evals += phaseEvals["slog-other-routes"]
	pe := map[string]any{}
	for k, v := range phaseEvals {
		pe[k] = v
	}
	run.Finish(map[string]any{
		"evaluations":         evals,
		"distinct_nontrivial": len(classes),
		"rule": fmt.Sprintf("every kind-correct chain of length <=%d over {Sugar, Desugar, With, WithLazy, Named, WithOptions(), WithOptions(AddCallerSkip(1)), WithOptions(AddCallerSkip(-1)) [running total may be negative, final total >= 0]} x every generated *Logger / *SugaredLogger logging method (level-parameter methods at all 7 levels, Check+Write) x base AddCallerSkip 0..3 x stack off/on, and every logger a chain passed through used once more after the whole chain was derived and used; "+
			"captured depth %s (+ goroutine-entry sites) x 8 level thresholds x 7 levels x every method x skip 0..3 x AddCaller on/off, incl. std-log bridge, zap.Stack/StackSkip fields and zapslog with 9 slog levels; all 128 level subsets as stack enabler; "+
			"every generated method on loggers whose lineage starts at NewNop() / New(nil) / the default L() and that are switched on with WrapCore (8 thresholds x caller on/off x plain, With+Named child, Sugar); every generated method again from call sites reached through one or two inlinable helper functions (the reported frame is an inlined frame), skip 0..2, stack off/on; NewStdLog/NewStdLogAt/RedirectStdLog/RedirectStdLogAt (7 levels) x every print method and zap.L()/zap.S() over chains of length <=%d; slog With/WithGroup chains <=%d x 10 thresholds; path alphabet for TrimmedPath. "+
			"loggers built by zap.Config.Build: {NewProductionConfig, NewDevelopmentConfig} x Development x DisableCaller x DisableStacktrace x every *Logger / *SugaredLogger method and level (stack threshold Error, Warn in development); a zapslog caller skip of k >= 2 is configured as WithCallerSkip(1) + WithCallerSkip(k-1); "+
			"distinct = distinct (phase, method, level, configured skip, stack configuration, caller on/off, captured depth) tuples and distinct path inputs; every one executes a real log call whose entry is compared",
			maxLen, depthDesc(depthList), stdLen, slogLen),
		"samples":                samples,
		"exhaustive":             true,
		"chains":                 len(chains),
		"generated_sites":        map[string]int{"Logger": len(loggerSites), "SugaredLogger": len(sugarSites), "log.Logger": len(stdSites), "log (package)": len(stdPkgSites), "slog.Logger": len(slogSites)},
		"non_logging_methods":    genOtherMethods,
		"std_methods_skipped":    genStdSkipped,
		"evaluations_by_phase":   pe,
		"depths":                 depthDesc(depthList),
		"inlinable_helper_sites": map[string]int{"generated": len(genInlSites), "calls_whose_reported_frame_was_an_inlined_frame": inlinedCallers},
	})
}

var inlinedCallers int

func depthDesc(d []int) string {
	if len(d) > 30 {
		return fmt.Sprintf("natural, %d..%d step 1, %v", d[1], 300, d[len(d)-6:])
	}
	return "natural(0) and " + fmt.Sprint(d[1:])
}

type slogThrT struct {
	name string
	opt  zapslog.HandlerOption
	lvl  slog.Level
}

// strEnc collects what a CallerEncoder appends.
type strEnc struct {
	zapcore.PrimitiveArrayEncoder
	s []string
}

func (e *strEnc) AppendString(v string) { e.s = append(e.s, v) }

// skipOpts configures a caller skip of k the way stacked wrappers do: every layer adds its own
// share (the option is documented to INCREASE the skip), so k >= 2 arrives as 1 + (k-1).
func skipOpts(k int) []zapslog.HandlerOption {
	if k < 2 {
		return []zapslog.HandlerOption{zapslog.WithCallerSkip(k)}
	}
	return []zapslog.HandlerOption{zapslog.WithCallerSkip(1), zapslog.WithCallerSkip(k - 1)}
}
