// Command gen writes zz_generated_sites.go for the C15 check: one call site
// per logging front-end method, each of the form
//
//	func site_X(c *call) { here(c.r); c.<logger>.<Method>(args) }
//
// on ONE source line, so that the harness's own runtime.Callers view taken by
// here() names the same file:line:function that zap has to report.
//
// The method lists are not written down here: *zap.Logger / *zap.SugaredLogger
// methods are read from the zap source tree given with -repo (go/parser), the
// *log.Logger and *slog.Logger methods by reflection on the toolchain's
// stdlib, the package-level log functions from GOROOT/src/log/log.go.
// A method whose parameter list this generator cannot fill in is an error
// (exit 1), never silently skipped.
package main

import (
	"bytes"
	"flag"
	"fmt"
	"go/ast"
	"go/parser"
	"go/token"
	"go/types"
	"log"
	"log/slog"
	"os"
	"path/filepath"
	"reflect"
	"runtime"
	"sort"
	"strings"
)

var levelNames = []string{"DPanic", "Debug", "Info", "Warn", "Error", "Panic", "Fatal"} // DPanic first: longest prefix wins over "Debug"? (no overlap, but keep explicit)

func levelOf(name string) string {
	best := ""
	for _, l := range levelNames {
		if strings.HasPrefix(name, l) && len(l) > len(best) {
			best = l
		}
	}
	return best
}

type site struct {
	fe       string // feLogger, feSugar, feStd, feStdPkg, feSlog
	recv     string
	method   string
	fn       string
	body     string
	hasLvl   bool
	level    string // zapcore level name for fixed-level methods ("" if hasLvl or not applicable)
	slogLvl  string // slog level name for fixed-level slog methods
	isCheck  bool
	panics   bool // std-log Panic*: the stdlib itself panics after printing
	line     int
	variadic string
}

func die(format string, a ...any) {
	fmt.Fprintf(os.Stderr, "c15 gen: "+format+"\n", a...)
	os.Exit(1)
}

func main() {
	repo := flag.String("repo", "/repo", "zap source tree")
	out := flag.String("out", "", "output file")
	flag.Parse()
	if *out == "" {
		die("-out required")
	}

	var sites []*site
	other := map[string][]string{}

	// ---- zap: *Logger and *SugaredLogger from the source tree
	fset := token.NewFileSet()
	pkgs, err := parser.ParseDir(fset, *repo, func(fi os.FileInfo) bool { return !strings.HasSuffix(fi.Name(), "_test.go") }, 0)
	if err != nil {
		die("parse %s: %v", *repo, err)
	}
	zp := pkgs["zap"]
	if zp == nil {
		die("package zap not found in %s", *repo)
	}
	var files []string
	for f := range zp.Files {
		files = append(files, f)
	}
	sort.Strings(files)
	type meth struct {
		recv string
		fd   *ast.FuncDecl
	}
	var meths []meth
	for _, fname := range files {
		for _, d := range zp.Files[fname].Decls {
			fd, ok := d.(*ast.FuncDecl)
			if !ok || fd.Recv == nil || len(fd.Recv.List) != 1 || !fd.Name.IsExported() {
				continue
			}
			st, ok := fd.Recv.List[0].Type.(*ast.StarExpr)
			if !ok {
				continue
			}
			id, ok := st.X.(*ast.Ident)
			if !ok || (id.Name != "Logger" && id.Name != "SugaredLogger") {
				continue
			}
			meths = append(meths, meth{id.Name, fd})
		}
	}
	sort.Slice(meths, func(i, j int) bool {
		if meths[i].recv != meths[j].recv {
			return meths[i].recv < meths[j].recv
		}
		return meths[i].fd.Name.Name < meths[j].fd.Name.Name
	})
	for _, m := range meths {
		name := m.fd.Name.Name
		ft := m.fd.Type
		nres := 0
		resType := ""
		if ft.Results != nil {
			for _, r := range ft.Results.List {
				n := len(r.Names)
				if n == 0 {
					n = 1
				}
				nres += n
				resType = types.ExprString(r.Type)
			}
		}
		isCheck := nres == 1 && resType == "*zapcore.CheckedEntry"
		if nres != 0 && !isCheck {
			other[m.recv] = append(other[m.recv], name)
			continue
		}
		s := &site{recv: m.recv, method: name, isCheck: isCheck}
		target := "c.l"
		s.fe = "feLogger"
		if m.recv == "SugaredLogger" {
			target = "c.s"
			s.fe = "feSugar"
		}
		var args []string
		seenString := false
		for _, p := range ft.Params.List {
			n := len(p.Names)
			if n == 0 {
				n = 1
			}
			ts := types.ExprString(p.Type)
			for i := 0; i < n; i++ {
				switch ts {
				case "zapcore.Level":
					s.hasLvl = true
					args = append(args, "c.lvl")
				case "string":
					seenString = true
					args = append(args, `"m"`)
				case "...Field", "...zapcore.Field":
					s.variadic = "fields"
				case "...interface{}", "...any":
					s.variadic = "args"
					if !seenString {
						args = append(args, `"m"`) // print-style: the message is the argument
					}
				default:
					die("%s.%s: cannot fill parameter of type %s", m.recv, name, ts)
				}
			}
		}
		if !s.hasLvl {
			s.level = levelOf(name)
			if s.level == "" {
				die("%s.%s: logging method without a level parameter and without a level in its name", m.recv, name)
			}
		}
		callx := fmt.Sprintf("%s.%s(%s)", target, name, strings.Join(args, ", "))
		if isCheck {
			s.body = fmt.Sprintf("here(c.r); if ce := %s; ce != nil { ce.Write() }", callx)
		} else {
			s.body = fmt.Sprintf("here(c.r); %s", callx)
		}
		s.fn = fmt.Sprintf("site_%s_%s", m.recv, name)
		sites = append(sites, s)
	}
	for k := range other {
		sort.Strings(other[k])
	}

	// ---- std log: *log.Logger methods by reflection
	stdArgs := func(owner, name string, t reflect.Type, first int) (string, bool) {
		var args []string
		for i := first; i < t.NumIn(); i++ {
			in := t.In(i)
			switch {
			case t.IsVariadic() && i == t.NumIn()-1:
				if in.Elem().Kind() != reflect.Interface {
					return "", false
				}
				if i == first {
					args = append(args, `"m"`)
				}
			case in.Kind() == reflect.String:
				args = append(args, `"m"`)
			case in.Kind() == reflect.Int:
				args = append(args, "2")
			default:
				return "", false
			}
		}
		return strings.Join(args, ", "), true
	}
	isPrint := func(name string) bool {
		return strings.HasPrefix(name, "Print") || strings.HasPrefix(name, "Panic")
	}
	stdSkipped := map[string]bool{}
	lt := reflect.TypeOf((*log.Logger)(nil))
	for i := 0; i < lt.NumMethod(); i++ {
		m := lt.Method(i)
		switch {
		case isPrint(m.Name):
			a, ok := stdArgs("log.Logger", m.Name, m.Type, 1)
			if !ok {
				die("log.Logger.%s: cannot fill parameters of %v", m.Name, m.Type)
			}
			pre := ""
			if m.Type.NumOut() == 1 {
				pre = "_ = "
			}
			sites = append(sites, &site{fe: "feStd", recv: "log.Logger", method: m.Name, fn: "site_StdLogger_" + m.Name,
				body: fmt.Sprintf("here(c.r); %sc.std.%s(%s)", pre, m.Name, a), panics: strings.HasPrefix(m.Name, "Panic")})
		case strings.HasPrefix(m.Name, "Fatal"):
			stdSkipped["log.Logger."+m.Name+" (ends in the stdlib's own os.Exit)"] = true
		case m.Name == "Output":
			stdSkipped["log.Logger.Output (takes its own calldepth; zap documents nothing about it)"] = true
		case strings.HasPrefix(m.Name, "Set") || m.Name == "Flags" || m.Name == "Prefix" || m.Name == "Writer":
			// not output methods
		default:
			die("log.Logger.%s: unknown method family (toolchain changed?)", m.Name)
		}
	}
	// package-level log functions from GOROOT/src/log/log.go
	lf := filepath.Join(runtime.GOROOT(), "src", "log", "log.go")
	lfset := token.NewFileSet()
	lfile, err := parser.ParseFile(lfset, lf, nil, 0)
	if err != nil {
		die("parse %s: %v", lf, err)
	}
	for _, d := range lfile.Decls {
		fd, ok := d.(*ast.FuncDecl)
		if !ok || fd.Recv != nil || !fd.Name.IsExported() || !isPrint(fd.Name.Name) {
			continue
		}
		var args []string
		for pi, p := range fd.Type.Params.List {
			ts := types.ExprString(p.Type)
			n := len(p.Names)
			for i := 0; i < n; i++ {
				switch ts {
				case "string":
					args = append(args, `"m"`)
				case "int":
					args = append(args, "2")
				case "...any", "...interface{}":
					if pi == 0 {
						args = append(args, `"m"`)
					}
				default:
					die("log.%s: cannot fill parameter of type %s", fd.Name.Name, ts)
				}
			}
		}
		pre := ""
		if fd.Type.Results != nil && len(fd.Type.Results.List) == 1 {
			pre = "_ = "
		}
		sites = append(sites, &site{fe: "feStdPkg", recv: "log", method: fd.Name.Name, fn: "site_StdPkg_" + fd.Name.Name,
			body: fmt.Sprintf("here(c.r); %slog.%s(%s)", pre, fd.Name.Name, strings.Join(args, ", ")), panics: strings.HasPrefix(fd.Name.Name, "Panic")})
	}

	// ---- slog: *slog.Logger methods by reflection
	slogLevels := []string{"Debug", "Info", "Warn", "Error"}
	st := reflect.TypeOf((*slog.Logger)(nil))
	for i := 0; i < st.NumMethod(); i++ {
		m := st.Method(i)
		if m.Type.NumOut() != 0 {
			other["slog.Logger"] = append(other["slog.Logger"], m.Name)
			continue
		}
		s := &site{fe: "feSlog", recv: "slog.Logger", method: m.Name, fn: "site_Slog_" + m.Name}
		var args []string
		for j := 1; j < m.Type.NumIn(); j++ {
			in := m.Type.In(j)
			switch {
			case m.Type.IsVariadic() && j == m.Type.NumIn()-1:
				// no attrs
			case in.String() == "context.Context":
				args = append(args, "c.ctx")
			case in.String() == "slog.Level":
				s.hasLvl = true
				args = append(args, "c.slvl")
			case in.Kind() == reflect.String:
				args = append(args, `"m"`)
			default:
				die("slog.Logger.%s: cannot fill parameter of type %v", m.Name, in)
			}
		}
		if !s.hasLvl {
			for _, l := range slogLevels {
				if strings.HasPrefix(m.Name, l) {
					s.slogLvl = l
				}
			}
			if s.slogLvl == "" {
				die("slog.Logger.%s: no level parameter and no level in the name", m.Name)
			}
		}
		s.body = fmt.Sprintf("here(c.r); c.sl.%s(%s)", m.Name, strings.Join(args, ", "))
		sites = append(sites, s)
	}

	// ---- emit
	var b bytes.Buffer
	line := 0
	w := func(format string, a ...any) {
		s := fmt.Sprintf(format, a...)
		b.WriteString(s)
		line += strings.Count(s, "\n")
	}
	w("// Code generated by verif/harness/cmd/c15/gen from %s; DO NOT EDIT.\n\n", *repo)
	w("package main\n\n")
	w("import (\n\t\"log\"\n\t\"log/slog\"\n\n\t\"go.uber.org/zap/zapcore\"\n)\n\n")
	w("const genFileBase = %q\n\n", filepath.Base(*out))
	w("var _ = log.Print\nvar _ = slog.LevelInfo\n\n")
	for _, s := range sites {
		w("//go:noinline\n")
		s.line = line + 1
		w("func %s(c *call) { %s }\n\n", s.fn, s.body)
	}
	// inlinable twins: the logging call sits in a function small enough for the compiler to inline
	// (family I: the call site itself is an inlined frame; family M: the frame one out of the call
	// site is an inlined frame). The expected frames are the same whether or not the compiler inlines.
	type inl struct {
		s      *site
		fn     string
		line   int
		f0, f1 string
		l0, l1 int
	}
	var inls []inl
	for _, s := range sites {
		body := strings.TrimPrefix(s.body, "here(c.r); ")
		x := inl{s: s}
		x.f0 = "i" + s.fn
		x.l0 = line + 1
		w("func %s(c *call) { %s }\n\n", x.f0, body)
		w("//go:noinline\n")
		x.fn, x.line = "o"+s.fn, line+1
		w("func %s(c *call) { here(c.r); %s(c) }\n\n", x.fn, x.f0)
		inls = append(inls, x)
		y := inl{s: s}
		w("//go:noinline\n")
		y.f0, y.l0 = "n"+s.fn, line+1
		w("func %s(c *call) { %s }\n\n", y.f0, body)
		y.f1, y.l1 = "m"+s.fn, line+1
		w("func %s(c *call) { %s(c) }\n\n", y.f1, y.f0)
		w("//go:noinline\n")
		y.fn, y.line = "q"+s.fn, line+1
		w("func %s(c *call) { here(c.r); %s(c) }\n\n", y.fn, y.f1)
		inls = append(inls, y)
	}
	emitSite := func(s *site, fn string, ln int, extra string) {
		lvl := "0"
		if s.level != "" {
			lvl = "zapcore." + s.level + "Level"
		}
		sl := "0"
		if s.slogLvl != "" {
			sl = "slog.Level" + s.slogLvl
		}
		w("\t{fe: %s, recv: %q, method: %q, hasLvl: %v, level: %s, slogLevel: %s, isCheck: %v, stdPanics: %v, fn: %s, line: %d, function: %q%s},\n",
			s.fe, s.recv, s.method, s.hasLvl, lvl, sl, s.isCheck, s.panics, fn, ln, "main."+fn, extra)
	}
	w("var genInlSites = []*site{\n")
	for _, x := range inls {
		extra := fmt.Sprintf(", inl: []frame{{Fn: %q, Line: %d}", "main."+x.f0, x.l0)
		if x.f1 != "" {
			extra += fmt.Sprintf(", {Fn: %q, Line: %d}", "main."+x.f1, x.l1)
		}
		emitSite(x.s, x.fn, x.line, extra+"}")
	}
	w("}\n\n")
	w("var genSites = []*site{\n")
	for _, s := range sites {
		lvl := "0"
		if s.level != "" {
			lvl = "zapcore." + s.level + "Level"
		}
		sl := "0"
		if s.slogLvl != "" {
			sl = "slog.Level" + s.slogLvl
		}
		w("\t{fe: %s, recv: %q, method: %q, hasLvl: %v, level: %s, slogLevel: %s, isCheck: %v, stdPanics: %v, fn: %s, line: %d, function: %q},\n",
			s.fe, s.recv, s.method, s.hasLvl, lvl, sl, s.isCheck, s.panics, s.fn, s.line, "main."+s.fn)
	}
	w("}\n\n")
	w("// methods found that are not logging methods (have results other than *zapcore.CheckedEntry)\n")
	w("var genOtherMethods = map[string][]string{\n")
	var ks []string
	for k := range other {
		ks = append(ks, k)
	}
	sort.Strings(ks)
	for _, k := range ks {
		w("\t%q: {", k)
		for i, n := range other[k] {
			if i > 0 {
				w(", ")
			}
			w("%q", n)
		}
		w("},\n")
	}
	w("}\n\n")
	var sk []string
	for k := range stdSkipped {
		sk = append(sk, k)
	}
	sort.Strings(sk)
	w("// std-log methods left out\nvar genStdSkipped = %#v\n\nvar _ = zapcore.InfoLevel\n", sk)

	if err := os.WriteFile(*out, b.Bytes(), 0o644); err != nil {
		die("%v", err)
	}
}
