// Command c07 decides property C07 (logger context is exact and isolated
// across derived loggers): every derivation program up to a depth over an
// explicit symbol set, under twelve core families and several use orders, is run
// on the real zap code and every emitted entry is compared with a reference
// model (concatenation of the field lists on the derivation path, dot-join of
// the non-empty names).
package main

import (
	"encoding/json"
	"fmt"
	"hash/fnv"
	"os"
	"runtime/debug"
	"runtime/pprof"
	"strconv"
	"strings"
	"sync"

	"verif/harness/internal/ev"
	"verif/harness/internal/par"
)

// space is one completely enumerated set of programs: every sequence of
// exactly `depth` steps, each step = (parent among the nodes created so far,
// symbol from syms), from a plain or a sugared root.
type space struct {
	depth       int
	syms        []symbol
	symLabel    string
	rootSugared bool
	// need: of the sequences over syms only those that use at least one symbol of
	// this class are run (the others belong to the spaces without those symbols):
	// "sep" = a name carrying the separator, "slice" = a no-op-field argument or a reused slice,
	// "fail" = an argument with a failing marshaler
	need string
}

func (s space) wanted(steps []step) bool {
	for _, st := range steps {
		if (s.need == "sep" && isSepName(st.sym)) || (s.need == "slice" && isSliceSym(st.sym)) || (s.need == "fail" && isFailSym(st.sym)) || (s.need == "refl" && isReflSym(st.sym)) {
			return true
		}
	}
	return s.need == ""
}

func (s space) size() int64 {
	n := int64(1)
	for i := 1; i <= s.depth; i++ {
		n *= int64(i) * int64(len(s.syms))
	}
	return n
}

func (s space) String() string {
	r := "plain"
	if s.rootSugared {
		r = "sugared"
	}
	if s.need == "sep" {
		return fmt.Sprintf("depth=%d x %d symbols (%s) x %s root: those of the %d sequences that contain >=1 name with a '.'", s.depth, len(s.syms), s.symLabel, r, s.size())
	}
	if s.need == "refl" {
		return fmt.Sprintf("depth=%d x %d symbols (%s) x %s root: those of the %d sequences that contain >=1 *Refl symbol", s.depth, len(s.syms), s.symLabel, r, s.size())
	}
	if s.need == "fail" {
		return fmt.Sprintf("depth=%d x %d symbols (%s) x %s root: those of the %d sequences that contain >=1 *NSFail/*ArrFail symbol", s.depth, len(s.syms), s.symLabel, r, s.size())
	}
	if s.need == "slice" {
		return fmt.Sprintf("depth=%d x %d symbols (%s) x %s root: those of the %d sequences that contain >=1 *Skip/*NilErr/Again* symbol", s.depth, len(s.syms), s.symLabel, r, s.size())
	}
	return fmt.Sprintf("depth=%d x %d symbols (%s) x %s root: %d programs", s.depth, len(s.syms), s.symLabel, r, s.size())
}

// program decodes index idx of the space (mixed radix: parent of step i has i choices).
func (s space) program(idx int64) []step {
	st := make([]step, s.depth)
	for i := 1; i <= s.depth; i++ {
		p := int(idx % int64(i))
		idx /= int64(i)
		y := int(idx % int64(len(s.syms)))
		idx /= int64(len(s.syms))
		st[i-1] = step{parent: p, sym: s.syms[y]}
	}
	return st
}

// ---------------------------------------------------------------------------
// use orders

type sched struct {
	name   string
	events []event
}

func permutations(n int) [][]int {
	var out [][]int
	var rec func(cur []int, used []bool)
	rec = func(cur []int, used []bool) {
		if len(cur) == n {
			out = append(out, append([]int(nil), cur...))
			return
		}
		for i := 0; i < n; i++ {
			if !used[i] {
				used[i] = true
				rec(append(cur, i), used)
				used[i] = false
			}
		}
	}
	rec(nil, make([]bool, n))
	return out
}

// schedByName builds a use order. Every node logs three times; whether a log
// call carries call-site fields alternates per node (first use with fields ->
// field-less -> with fields, or the opposite), so for every node a field-less
// log is followed by a log with fields and vice versa. Which nodes start
// field-less depends on the order: F all with fields, R all field-less, E
// even nodes field-less (so children are derived right after a field-less log
// and after a log with fields), L odd nodes field-less, perm: by position.
//
// A name with the suffix ":2r" stops after the second round (used for the
// deepest space of a tier).
func schedByName(steps []step, fullName string) (sched, bool) {
	name, rounds := fullName, 3
	if strings.HasSuffix(name, ":2r") {
		name, rounds = name[:len(name)-3], 2
	}
	n := len(steps) + 1
	var ev []event
	firstCS := make([]bool, n)
	deriveAll := func() {
		for i := 1; i < n; i++ {
			ev = append(ev, event{derive: true, node: i})
		}
	}
	first := func(j int, cs bool) {
		firstCS[j] = cs
		ev = append(ev, event{node: j, round: 1, cs: cs})
	}
	later := func(reverse bool) {
		for round := 2; round <= rounds; round++ {
			for k := 0; k < n; k++ {
				j := k
				if reverse {
					j = n - 1 - k
				}
				ev = append(ev, event{node: j, round: round, cs: firstCS[j] == (round == 3)})
			}
		}
	}
	switch {
	case name == "F": // derive everything, then use in creation order
		deriveAll()
		for j := 0; j < n; j++ {
			first(j, true)
		}
		later(false)
	case name == "R": // derive everything, then use in reverse order
		deriveAll()
		for j := n - 1; j >= 0; j-- {
			first(j, false)
		}
		later(true)
	case name == "E": // every node is used before anything is derived from it
		first(0, false)
		for i := 1; i < n; i++ {
			ev = append(ev, event{derive: true, node: i})
			first(i, i%2 == 1)
		}
		later(false)
	case name == "L": // a parent is first used right after its first child was derived: later children come after the first use
		logged := make([]bool, n)
		for i := 1; i < n; i++ {
			ev = append(ev, event{derive: true, node: i})
			if p := steps[i-1].parent; !logged[p] {
				logged[p] = true
				first(p, p%2 == 0)
			}
		}
		for j := 0; j < n; j++ {
			if !logged[j] {
				first(j, j%2 == 0)
			}
		}
		later(true)
	case strings.HasPrefix(name, "perm:"):
		deriveAll()
		seen := make([]bool, n)
		parts := strings.Split(name[5:], ",")
		if len(parts) != n {
			return sched{}, false
		}
		for pos, p := range parts {
			j, err := strconv.Atoi(p)
			if err != nil || j < 0 || j >= n || seen[j] {
				return sched{}, false
			}
			seen[j] = true
			first(j, pos%2 == 0)
		}
		later(false)
	default:
		return sched{}, false
	}
	return sched{fullName, ev}, true
}

var permNames = func() [4][]string {
	var out [4][]string
	for n := 1; n <= 3; n++ {
		for _, p := range permutations(n) {
			var s []string
			for _, x := range p {
				s = append(s, strconv.Itoa(x))
			}
			out[n] = append(out[n], "perm:"+strings.Join(s, ","))
		}
	}
	return out
}()

func scheduleNames(nodes int) []string {
	switch {
	case nodes == 1:
		return permNames[1]
	case nodes <= 3:
		return append(append([]string(nil), permNames[nodes]...), "E", "L")
	}
	return []string{"F", "R", "E", "L"}
}

// ---------------------------------------------------------------------------

var stopProf = func() {}

func symList(ss []symbol) string {
	var n []string
	for _, s := range ss {
		n = append(n, s.name)
	}
	return strings.Join(n, ",")
}

func hash64(s string) uint64 {
	h := fnv.New64a()
	h.Write([]byte(s))
	return h.Sum64()
}

func replayMode(run *ev.Run, path string) {
	b, err := os.ReadFile(path)
	if err != nil {
		ev.ToolError("replay: %v", err)
	}
	var doc struct {
		Case struct {
			Family      string `json:"family"`
			RootSugared bool   `json:"root_sugared"`
			Steps       []struct {
				Parent int    `json:"parent"`
				Sym    string `json:"sym"`
			} `json:"steps"`
			Variant string `json:"variant"`
		} `json:"case"`
	}
	if err := json.Unmarshal(b, &doc); err != nil {
		ev.ToolError("replay: %v", err)
	}
	fam := -1
	for i, n := range famNames {
		if n == doc.Case.Family {
			fam = i
		}
	}
	if fam < 0 {
		ev.ToolError("replay: unknown family %q", doc.Case.Family)
	}
	var steps []step
	for i, s := range doc.Case.Steps {
		sym, ok := symByName(s.Sym)
		if !ok || s.Parent < 0 || s.Parent > i {
			ev.ToolError("replay: bad step %d", i)
		}
		steps = append(steps, step{s.Parent, sym})
	}
	sc, ok := schedByName(steps, doc.Case.Variant)
	if !ok {
		ev.ToolError("replay: bad variant %q", doc.Case.Variant)
	}
	r := &runner{}
	c := caseDesc{fam: fam, rootSugared: doc.Case.RootSugared, steps: steps, variant: sc.name, events: sc.events}
	f := r.exec(c)
	for _, sf := range r.soft {
		run.Report(sf.key, sf.what, c.replay())
	}
	if f != nil {
		run.Report(f.key, f.what, c.replay())
	} else if len(r.soft) == 0 {
		fmt.Println("replay: the recorded case now satisfies the reference model")
	}
	run.Finish(map[string]any{
		"states": len(steps) + 1, "transitions": r.derives + r.logCalls, "traces_validated_against_impl": r.casesRun,
		"evaluations": r.casesRun, "distinct_nontrivial": 1, "rule": "replay of one recorded case", "samples": []any{c.replay()}, "exhaustive": false,
	})
}

func main() {
	run := ev.Start("C07", "model_checking")
	if pf := os.Getenv("C07_PROF"); pf != "" {
		f, err := os.Create(pf)
		if err == nil {
			_ = pprof.StartCPUProfile(f)
			stopProf = pprof.StopCPUProfile
		}
	}
	if rp := os.Getenv("VERIF_REPLAY"); rp != "" {
		replayMode(run, rp)
	}

	// the live heap is tiny and the garbage rate is high (every derivation on an
	// IO core takes a 1 KiB buffer out of zap's pool for good): collect less often
	debug.SetGCPercent(800)
	reduced8 := pick("With1", "With3", "WithNS", "WithSkip", "LazyMut", "Named(a)", "Fields3", "Toggle")
	reduced10 := pick("With1", "With3", "WithNS", "WithMut", "WithSkip", "LazyMut", "Named(a)", "Named()", "Fields3", "Toggle")
	reduced6 := pick("With1", "With3", "LazyMut", "Named(a)", "FieldsNS", "Toggle")
	var spaces []space
	for _, sug := range []bool{false, true} {
		for d := 0; d <= 3; d++ {
			spaces = append(spaces, space{d, fullSyms, "full", sug, ""})
		}
	}
	// names with the separator at the start / end / alone / inside: depth 1..3 from both roots (thorough: also depth 4 from the plain root)
	nameSyms := append(pick("Named(a)", "Named()", "With1", "Toggle"), sepNameSyms...)
	nameDepth := 3
	if run.Thorough() {
		nameDepth = 4
	}
	for _, sug := range []bool{false, true} {
		for d := 1; d <= nameDepth; d++ {
			if d == 4 && sug {
				continue // depth 4 from the plain root only
			}
			spaces = append(spaces, space{d, nameSyms, "names: " + symList(nameSyms), sug, "sep"})
		}
	}
	// arguments with a no-op field that is not last (zap.Skip(), NamedError(k,nil)) and derivations that hand
	// zap the same slice object again: depth 1..3 from a plain root, depth 1..2 from a sugared root (thorough: 1..3 both)
	sliceSet := append(pick("With1", "LazyMut", "Toggle"), sliceSyms...)
	for _, sug := range []bool{false, true} {
		for d := 1; d <= 3; d++ {
			if d == 3 && sug && !run.Thorough() {
				continue
			}
			spaces = append(spaces, space{d, sliceSet, "slices: " + symList(sliceSet), sug, "slice"})
		}
	}
	// arguments with a failing marshaler behind an open namespace / between ordinary fields:
	// depth 1..3 from a plain root, depth 1..2 from a sugared root (thorough: 1..3 both)
	failSet := append(pick("With1", "WithNS", "Toggle"), failSyms...)
	for _, sug := range []bool{false, true} {
		for d := 1; d <= 3; d++ {
			if d == 3 && sug && !run.Thorough() {
				continue
			}
			spaces = append(spaces, space{d, failSet, "failing: " + symList(failSet), sug, "fail"})
		}
	}
	// arguments with a reflected value (alone / inside a namespace): depth 1..3 from a plain root,
	// depth 1..2 from a sugared root (thorough: 1..3 both)
	reflSet := append(pick("With1", "WithNS", "Toggle"), reflSyms...)
	for _, sug := range []bool{false, true} {
		for d := 1; d <= 3; d++ {
			if d == 3 && sug && !run.Thorough() {
				continue
			}
			spaces = append(spaces, space{d, reflSet, "reflected: " + symList(reflSet), sug, "refl"})
		}
	}
	if !run.Thorough() {
		spaces = append(spaces, space{4, reduced8, "reduced-8: " + symList(reduced8), false, ""})
	} else {
		spaces = append(spaces, space{4, reduced10, "reduced-10: " + symList(reduced10), false, ""})
		spaces = append(spaces, space{4, reduced10, "reduced-10: " + symList(reduced10), true, ""})
		spaces = append(spaces, space{5, reduced6, "reduced-6: " + symList(reduced6), false, ""})
	}

	// the two dynamic-level families and tee(json,json) run on the depth<=3 spaces (quick tier: tee(json,json) narrower, see below)
	dynMaxDepth := 3
	// every node logs three times; the deepest space of a tier (quick: depth 4, thorough: depth 5) stops after the second round
	threeRoundDepth := 3
	if run.Thorough() {
		threeRoundDepth = 4
	}
	type item struct {
		sp     int
		lo, hi int64
	}
	const chunk = 128
	var items []item
	for si, sp := range spaces {
		for lo := int64(0); lo < sp.size(); lo += chunk {
			hi := lo + chunk
			if hi > sp.size() {
				hi = sp.size()
			}
			items = append(items, item{si, lo, hi})
		}
	}

	var mu sync.Mutex
	states := map[uint64]struct{}{}
	var programs, nontrivial, cases, derives, logCalls, fast, decoded int64
	var samples []any
	perSpace := make([]int64, len(spaces))

	par.For(len(items), func(ii int) {
		it := items[ii]
		sp := spaces[it.sp]
		r := &runner{alwaysDecode: sp.depth <= 2}
		local := map[uint64]struct{}{}
		var nprog, nnon int64
		var sample any
		for idx := it.lo; idx < it.hi; idx++ {
			steps := sp.program(idx)
			if !sp.wanted(steps) {
				continue
			}
			nprog++
			// reference node states of this program: (root kind, symbols along the path)
			sigs := make([]string, len(steps)+1)
			sigs[0] = "P"
			if sp.rootSugared {
				sigs[0] = "S"
			}
			local[hash64(sigs[0])] = struct{}{}
			ctx := 0
			lastField := "-"
			for i, s := range steps {
				sigs[i+1] = sigs[s.parent] + "/" + s.sym.name
				if s.sym.arg == argAgain {
					sigs[i+1] += "=" + lastField
				} else if s.sym.op == opWith || s.sym.op == opWithLazy || s.sym.op == opFieldsOpt {
					lastField = s.sym.name
				}
				local[hash64(sigs[i+1])] = struct{}{}
				if s.sym.op == opWith || s.sym.op == opWithLazy || s.sym.op == opFieldsOpt {
					ctx++
				}
			}
			if len(steps) >= 2 && ctx >= 1 {
				nnon++
			}
			names := scheduleNames(len(steps) + 1)
			if sp.depth > threeRoundDepth {
				names = append([]string(nil), names...)
				for k := range names {
					names[k] += ":2r"
				}
			}
			scheds := make([]sched, len(names))
			for k, sn := range names {
				scheds[k], _ = schedByName(steps, sn)
			}
			for fam := 0; fam < nFam; fam++ {
				if fam >= famJSONDyn && sp.depth > dynMaxDepth {
					continue
				}
				if (fam == famTeeJJ || fam == famTeeJC) && !run.Thorough() && sp.need != "slice" && sp.need != "fail" && sp.need != "refl" && sp.depth > 2 {
					continue // quick tier: tee(json,json) on the slices and failing spaces and on depth<=2 of the others
				}
				for k, sn := range names {
					sc := scheds[k]
					c := caseDesc{fam: fam, rootSugared: sp.rootSugared, steps: steps, variant: sc.name, events: sc.events}
					f := r.exec(c)
					for _, sf := range r.soft {
						run.Report(sf.key, sf.what, c.replay())
					}
					if f != nil {
						run.Report(f.key, f.what, c.replay())
					}
					if sample == nil && idx == it.lo && fam == famTee && sn == names[len(names)-1] {
						sample = c.replay()
					}
				}
			}
		}
		mu.Lock()
		for k := range local {
			states[k] = struct{}{}
		}
		programs += nprog
		nontrivial += nnon
		perSpace[it.sp] += nprog
		cases += r.casesRun
		derives += r.derives
		logCalls += r.logCalls
		fast += r.fast
		decoded += r.slow
		if sample != nil && (ii == 0 || ii == len(items)/2 || ii == len(items)-1 || ii == len(items)/5) {
			samples = append(samples, sample)
		}
		mu.Unlock()
	})

	stopProf()
	var spaceDesc []string
	for i, sp := range spaces {
		spaceDesc = append(spaceDesc, fmt.Sprintf("%s (run: %d)", sp, perSpace[i]))
	}
	var symNames []string
	for _, s := range fullSyms {
		symNames = append(symNames, s.name)
	}
	for _, s := range append(append(append(append([]symbol(nil), sepNameSyms...), sliceSyms...), failSyms...), reflSyms...) {
		symNames = append(symNames, s.name+" (own space)")
	}
	run.Assume = []string{
		"dynamic-level families: one AtomicLevel under the json core / under both tee branches is set to FatalLevel+1 (nothing enabled) immediately before every derive event and to Debug immediately before every log event; the oracle is exactly that of the json / tee(json,observer) family",
		"field arguments: With1 = one Int64; With3 = Int64,String,Int64; WithNS = Namespace + Int64; WithMut = Object(mutable marshaler) + Int64; *Skip = zap.Skip(),Int64,Int64; *NilErr = Int64,zap.NamedError(k,nil),String (both no-op fields render nothing in json/console, an observer context keeps them as given; sugared calls pass them as typed Fields); Again* = With/WithLazy/WithOptions(Fields) called with the very slice object that was handed to the latest earlier field step (a fresh [Int64] if there is none) - the fields are the same, their marshalers are evaluated anew for the step; keys are unique per step except under Again*;",
		"failing marshalers: *NSFail = Namespace, Object(o, marshaler that adds k=1 and then returns the error 'boom'), Int64; *ArrFail = Int64, Array(a, marshaler that appends 1 and then returns 'boom'), String. Reference (documented in Field.AddTo / the encoders): the value as far as it got, properly closed ({\"k\":1} / [1]), followed by \"<key>Error\":\"boom\", all inside the namespaces open at that point; the namespace stays open for the fields that follow and for descendants; an observer context keeps the Field as given",
		"reflected values: *Refl = Reflect(v, struct{N int; S string}), Int64; *NSRefl = Namespace, Reflect(v, struct) (sugared: key/value pair, zap.Any picks Reflect); reference = the JSON object {\"N\":..,\"S\":..} under its key; an observer context keeps the Field as given. Call-site fields of a log call that carries fields: round 1 = [Int64 c, String d], rounds 2 and 3 = [Reflect c, String d] (not in the two-round deepest space of a tier), so on every three-round space every node logs at least once with a reflected call-site field",
		"caller's-slice oracle: every []Field / []interface{} handed to With, WithLazy, WithOptions(Fields(...)), Info and Infow is compared after the call with what the caller put in (Field by Field: Key, Type, Integer, String, Interface identity; spare capacity still zero), and the derivation slices again at the end of the program (lazy cores retain them)",
		"caller re-uses its slices: after every eager derivation (With, WithOptions(Fields), sugared With) and every log call has returned and the slice was found unmodified, the harness overwrites every element of that argument slice in place with a POISON field, as a caller re-using a scratch slice does; the reference is unchanged (a logger's context is what was passed at the time of the call), so any POISON in a line or an observer context is reported as caller-slice-aliased. Slices handed to WithLazy are left alone (its contract is to keep the fields); an Again* step gets the original contents restored into the same slice object before the call. tee(json,observer)@AtomicLevel has no pre-derived root context (the observer branch starts empty)",
		"tee(json,json): both sinks are checked against the same reference; a marshaler is evaluated by each branch, so no evaluation count is demanded there",
		"(continued) names from {\"\",\"a\",\"b\"} plus, in the 'names' spaces, {\".a\",\"a.\",\".\",\"a.b\"}; sugared With/WithLazy receive key/value pairs (the namespace as a typed Field)",
		"every entry is logged at Info (enabled in every family); the sampler's budget (first=2^30 per tick) is never exhausted",
		"evaluation time/count of marshalers is demanded only where every serialising core is a byte encoder (json, console, sampler, hooked, increase-level, lazy): With = once, at derivation; WithLazy = once, at the first log through the logger or a descendant or the first With/WithOptions(Fields) chained on it. The observer keeps the Field unevaluated: there only field identity (Field.Equals + same marshaler pointer) is compared; in tee(json,observer) the JSON branch's value is compared but not the call count",
		"Named, Sugar, Desugar and WithLazy on a lazy logger are not a 'use' (documented: evaluated only if chained with With or written to)",
		"use orders: every permutation of first uses for <=3 nodes, else forward (F) and reverse (R) after all derivations; E = each node used before anything is derived from it; L = parent first used after its first child and before later children; every node then logs a second and a third time (deepest space of the tier - quick: depth 4, thorough: depth 5 -: a second time only - there F gives with-fields->field-less, R field-less->with-fields, E/L both by node parity); per node the calls alternate between carrying call-site fields and being field-less (F starts with fields, R field-less, E/L/perm mixed by node index/position), so both successions field-less->with-fields and with-fields->field-less occur for every node, and in E children are derived right after a parent's field-less log (even parents) and after a log with fields (odd parents)",
	}
	run.Finish(map[string]any{
		"states":                             len(states),
		"transitions":                        derives + logCalls,
		"traces_validated_against_impl":      cases,
		"evaluations":                        cases,
		"distinct_nontrivial":                nontrivial,
		"rule":                               "a program = root kind + sequence of (parent index among nodes so far, symbol); symbols = {With,WithLazy,WithOptions(Fields)} x {1 field, 3 fields, Namespace+field, mutable marshaler+field, Skip+2 fields, field+nil-error+field, Namespace+failing Object+field, field+failing Array+field, reflected struct+field, Namespace+reflected struct, the previous step's slice object again}, Named x {'','a','b','.a','a.','.','a.b'}, Sugar/Desugar; every program of each listed space is run under the core families (8 static ones on every space; the 2 dynamic-level ones up to dynamic_level_families_up_to_depth; tee(json,json) likewise in the thorough tier, and tee(json,console) likewise; in the quick tier these two run on the 'slices', 'failing' and 'reflected' spaces and on depth<=2 of the other spaces) x the use orders; states = distinct reference node states (root kind + symbols along the derivation path, i.e. field path and name); distinct_nontrivial = distinct programs with >=2 steps of which >=1 adds context; evaluations = (program, family, use order) cases executed",
		"samples":                            samples,
		"exhaustive":                         true,
		"programs":                           programs,
		"spaces":                             spaceDesc,
		"symbols_full":                       symNames,
		"core_families":                      famNames[:],
		"dynamic_level_families_up_to_depth": dynMaxDepth,
		"three_log_rounds_up_to_depth":       threeRoundDepth,
		"derivation_steps_executed":          derives,
		"log_calls_executed":                 logCalls,
		"lines_equal_to_reference_rendering": fast,
		"lines_decoded_and_tree_compared":    decoded,
	})
}
