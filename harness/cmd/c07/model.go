package main

import (
	"errors"
	"fmt"
	"strconv"
	"strings"

	"go.uber.org/zap"
	"go.uber.org/zap/zapcore"
	"go.uber.org/zap/zaptest/observer"
	"verif/harness/internal/jsonx"
)

// ---------------------------------------------------------------------------
// alphabet

type opKind int

const (
	opWith      opKind = iota // Logger.With / SugaredLogger.With
	opWithLazy                // Logger.WithLazy / SugaredLogger.WithLazy
	opFieldsOpt               // (Sugared)Logger.WithOptions(zap.Fields(...))
	opNamed                   // (Sugared)Logger.Named
	opToggle                  // Logger.Sugar / SugaredLogger.Desugar
)

type argKind int

const (
	argF1      argKind = iota // one Int field
	argF3                     // Int, String, Int
	argNS                     // Namespace + Int
	argMut                    // Object(mutable marshaler) + Int
	argSkip                   // zap.Skip(), Int, Int: a no-op field that is not last
	argNilErr                 // Int, zap.NamedError(k, nil) (= no-op), String
	argNSFail                 // Namespace, Object(marshaler that adds one member and then fails), Int
	argArrFail                // Int, Array(marshaler that appends one element and then fails), String
	argRefl                   // Reflect(struct{N int; S string}), Int
	argNSRefl                 // Namespace, Reflect(struct)
	argAgain                  // the very slice object handed to the latest earlier With/WithLazy/WithOptions(Fields) step (a fresh [Int] if none)
	argNone
)

type symbol struct {
	name string
	op   opKind
	arg  argKind
	nm   string // for opNamed
}

func (s symbol) opName() string {
	switch s.op {
	case opWith:
		return "With"
	case opWithLazy:
		return "WithLazy"
	case opFieldsOpt:
		return "WithOptions(Fields)"
	case opNamed:
		return "Named"
	}
	return "Sugar/Desugar"
}

// the full symbol set: every field op x every argument, every name, the kind toggle
var fullSyms = []symbol{
	{"With1", opWith, argF1, ""},
	{"With3", opWith, argF3, ""},
	{"WithNS", opWith, argNS, ""},
	{"WithMut", opWith, argMut, ""},
	{"Lazy1", opWithLazy, argF1, ""},
	{"Lazy3", opWithLazy, argF3, ""},
	{"LazyNS", opWithLazy, argNS, ""},
	{"LazyMut", opWithLazy, argMut, ""},
	{"Fields1", opFieldsOpt, argF1, ""},
	{"Fields3", opFieldsOpt, argF3, ""},
	{"FieldsNS", opFieldsOpt, argNS, ""},
	{"FieldsMut", opFieldsOpt, argMut, ""},
	{"Named(a)", opNamed, argNone, "a"},
	{"Named(b)", opNamed, argNone, "b"},
	{"Named()", opNamed, argNone, ""},
	{"Toggle", opToggle, argNone, ""},
}

// name segments that contain the separator: at the start, at the end, alone, inside.
// The reference is the same verbatim dot-join of the non-empty segments.
var sepNameSyms = []symbol{
	{"Named(.a)", opNamed, argNone, ".a"},
	{"Named(a.)", opNamed, argNone, "a."},
	{"Named(.)", opNamed, argNone, "."},
	{"Named(a.b)", opNamed, argNone, "a.b"},
}

// no-op fields inside the argument, and derivations that reuse the caller's slice object
var sliceSyms = []symbol{
	{"WithSkip", opWith, argSkip, ""},
	{"WithNilErr", opWith, argNilErr, ""},
	{"LazySkip", opWithLazy, argSkip, ""},
	{"LazyNilErr", opWithLazy, argNilErr, ""},
	{"FieldsSkip", opFieldsOpt, argSkip, ""},
	{"FieldsNilErr", opFieldsOpt, argNilErr, ""},
	{"AgainWith", opWith, argAgain, ""},
	{"AgainLazy", opWithLazy, argAgain, ""},
	{"AgainFields", opFieldsOpt, argAgain, ""},
}

// a field whose marshaler fails (documented: the partial value is kept and "<key>Error" is added)
var failSyms = []symbol{
	{"WithNSFail", opWith, argNSFail, ""},
	{"WithArrFail", opWith, argArrFail, ""},
	{"LazyNSFail", opWithLazy, argNSFail, ""},
	{"LazyArrFail", opWithLazy, argArrFail, ""},
	{"FieldsNSFail", opFieldsOpt, argNSFail, ""},
	{"FieldsArrFail", opFieldsOpt, argArrFail, ""},
}

func isFailSym(s symbol) bool { return s.arg == argNSFail || s.arg == argArrFail }

// a field that goes through the reflection encoder
var reflSyms = []symbol{
	{"WithRefl", opWith, argRefl, ""},
	{"WithNSRefl", opWith, argNSRefl, ""},
	{"LazyRefl", opWithLazy, argRefl, ""},
	{"LazyNSRefl", opWithLazy, argNSRefl, ""},
	{"FieldsRefl", opFieldsOpt, argRefl, ""},
	{"FieldsNSRefl", opFieldsOpt, argNSRefl, ""},
}

func isReflSym(s symbol) bool { return s.arg == argRefl || s.arg == argNSRefl }

// reflVal is serialised by the encoder's reflection fallback (encoding/json).
type reflVal struct {
	N int
	S string
}

func isSliceSym(s symbol) bool { return s.arg == argSkip || s.arg == argNilErr || s.arg == argAgain }

func isSepName(s symbol) bool { return s.op == opNamed && strings.Contains(s.nm, ".") }

func symByName(n string) (symbol, bool) {
	for _, s := range sepNameSyms {
		if s.name == n {
			return s, true
		}
	}
	for _, s := range sliceSyms {
		if s.name == n {
			return s, true
		}
	}
	for _, s := range failSyms {
		if s.name == n {
			return s, true
		}
	}
	for _, s := range reflSyms {
		if s.name == n {
			return s, true
		}
	}
	for _, s := range fullSyms {
		if s.name == n {
			return s, true
		}
	}
	return symbol{}, false
}

func pick(names ...string) []symbol {
	var out []symbol
	for _, n := range names {
		s, ok := symByName(n)
		if !ok {
			panic("unknown symbol " + n)
		}
		out = append(out, s)
	}
	return out
}

type step struct {
	parent int
	sym    symbol
}

// ---------------------------------------------------------------------------
// fields

// mut is the mutable marshaler: it serialises whatever val holds at the moment
// MarshalLogObject runs, and counts the calls.
type mut struct {
	id    int
	val   int
	calls int
	want  int // reference model: evaluations due so far (one per derivation step that carries it, once that step is evaluated)
}

// evalRec is the reference model's record of one derivation step's evaluation of a marshaler.
type evalRec struct {
	at   int // the event at which the documentation says it is evaluated (-1: not yet)
	lazy bool
}

func (m *mut) MarshalLogObject(enc zapcore.ObjectEncoder) error {
	m.calls++
	enc.AddInt("id", m.id)
	enc.AddInt("v", m.val)
	return nil
}

var errBoom = errors.New("boom")

// failObj adds one member and then reports an error; failArr appends one element and then reports an error.
type failObj struct{}

func (failObj) MarshalLogObject(enc zapcore.ObjectEncoder) error {
	enc.AddInt("k", 1)
	return errBoom
}

type failArr struct{}

func (failArr) MarshalLogArray(enc zapcore.ArrayEncoder) error {
	enc.AppendInt(1)
	return errBoom
}

const (
	kInt = iota
	kStr
	kNS
	kMut
	kObjFail // Object with a failing marshaler: {"k":1} and "<key>Error":"boom"
	kArrFail // Array with a failing marshaler: [1] and "<key>Error":"boom"
	kRefl    // Reflect(key, reflVal{N: i, S: s}): {"N":i,"S":"s"}
	kSkip    // a no-op field (zap.Skip() / NamedError(k, nil)): renders nothing, an observer keeps it as given
)

// fspec is the reference model's view of one field.
type fspec struct {
	kind int
	key  string
	i    int64
	s    string
	m    *mut
	e    *evalRec
	step int // node that added it (0 root core, -1 call site)
}

func (f fspec) field() zap.Field {
	switch f.kind {
	case kInt:
		return zap.Int64(f.key, f.i)
	case kStr:
		return zap.String(f.key, f.s)
	case kNS:
		return zap.Namespace(f.key)
	case kRefl:
		return zap.Reflect(f.key, reflVal{int(f.i), f.s})
	case kObjFail:
		return zap.Object(f.key, failObj{})
	case kArrFail:
		return zap.Array(f.key, failArr{})
	case kSkip:
		if f.s == "nilerr" {
			return zap.NamedError(f.key, nil)
		}
		return zap.Skip()
	}
	return zap.Object(f.key, f.m)
}

func toFields(fs []fspec, spare int) []zap.Field {
	out := make([]zap.Field, 0, len(fs)+spare)
	for _, f := range fs {
		out = append(out, f.field())
	}
	return out
}

// toSugar renders the fields the loosely typed way: key/value pairs, and a
// strongly typed Field for the namespace (which has no pair form).
func toSugar(fs []fspec) []interface{} {
	var out []interface{}
	for _, f := range fs {
		switch f.kind {
		case kInt:
			out = append(out, f.key, f.i)
		case kStr:
			out = append(out, f.key, f.s)
		case kNS:
			out = append(out, zap.Namespace(f.key))
		case kMut:
			out = append(out, f.key, f.m)
		case kRefl:
			out = append(out, f.key, reflVal{int(f.i), f.s})
		case kObjFail:
			out = append(out, f.key, failObj{})
		case kArrFail:
			out = append(out, f.key, failArr{})
		case kSkip:
			out = append(out, f.field())
		}
	}
	return out
}

func (r *runner) argFields(i int, a argKind, lazy bool) []fspec {
	p := "f" + strconv.Itoa(i)
	switch a {
	case argF1:
		return []fspec{{kind: kInt, key: p + "a", i: int64(100*i + 1), step: i}}
	case argF3:
		return []fspec{
			{kind: kInt, key: p + "a", i: int64(100*i + 1), step: i},
			{kind: kStr, key: p + "b", s: "s" + strconv.Itoa(i), step: i},
			{kind: kInt, key: p + "c", i: int64(100*i + 3), step: i},
		}
	case argNS:
		return []fspec{
			{kind: kNS, key: "n" + strconv.Itoa(i), step: i},
			{kind: kInt, key: p + "a", i: int64(100*i + 1), step: i},
		}
	case argMut:
		m := &mut{id: i}
		r.muts = append(r.muts, m)
		return []fspec{
			{kind: kMut, key: "o" + strconv.Itoa(i), m: m, e: &evalRec{at: -1, lazy: lazy}, step: i},
			{kind: kInt, key: p + "a", i: int64(100*i + 1), step: i},
		}
	case argRefl:
		return []fspec{
			{kind: kRefl, key: "v" + strconv.Itoa(i), i: int64(10*i + 7), s: "r" + strconv.Itoa(i), step: i},
			{kind: kInt, key: p + "a", i: int64(100*i + 1), step: i},
		}
	case argNSRefl:
		return []fspec{
			{kind: kNS, key: "n" + strconv.Itoa(i), step: i},
			{kind: kRefl, key: "v" + strconv.Itoa(i), i: int64(10*i + 7), s: "r" + strconv.Itoa(i), step: i},
		}
	case argNSFail:
		return []fspec{
			{kind: kNS, key: "n" + strconv.Itoa(i), step: i},
			{kind: kObjFail, key: "o" + strconv.Itoa(i), step: i},
			{kind: kInt, key: p + "a", i: int64(100*i + 1), step: i},
		}
	case argArrFail:
		return []fspec{
			{kind: kInt, key: p + "a", i: int64(100*i + 1), step: i},
			{kind: kArrFail, key: "a" + strconv.Itoa(i), step: i},
			{kind: kStr, key: p + "b", s: "s" + strconv.Itoa(i), step: i},
		}
	case argSkip:
		return []fspec{
			{kind: kSkip, s: "skip", step: i},
			{kind: kInt, key: p + "a", i: int64(100*i + 1), step: i},
			{kind: kInt, key: p + "b", i: int64(100*i + 2), step: i},
		}
	case argNilErr:
		return []fspec{
			{kind: kInt, key: p + "a", i: int64(100*i + 1), step: i},
			{kind: kSkip, key: p + "e", s: "nilerr", step: i},
			{kind: kStr, key: p + "b", s: "s" + strconv.Itoa(i), step: i},
		}
	}
	return nil
}

// ---------------------------------------------------------------------------
// core families

const (
	famJSON = iota
	famConsole
	famTee
	famSampler
	famHooked
	famLevel
	famLazy
	famObserver
	famJSONDyn // json core on an AtomicLevel that is above Fatal during every derivation
	famTeeDyn  // tee(json, observer), both on the same such AtomicLevel
	famTeeJJ   // tee(json, json): two sinks, both checked
	famTeeJC   // tee(json, console): two sinks, both checked
	nFam
)

var famNames = [nFam]string{"json", "console", "tee(json,observer)", "sampler(json)", "hooked(json)", "increase-level(json)", "lazy(json)", "observer", "json@AtomicLevel(off while deriving)", "tee(json,observer)@AtomicLevel(off while deriving)", "tee(json,json)", "tee(json,console)"}

const (
	fmtJSON = iota
	fmtConsole
)

type sink struct {
	format int
	n      int    // writes since the last take
	last   []byte // the last write
	all    []byte // all writes since the last take
}

func (s *sink) Write(p []byte) (int, error) {
	s.n++
	s.last = append(s.last[:0], p...)
	s.all = append(s.all, p...)
	return len(p), nil
}

func (s *sink) take() (int, []byte, []byte) {
	n, last, all := s.n, s.last, s.all
	s.n, s.all = 0, s.all[:0]
	return n, last, all
}
func (s *sink) Sync() error { return nil }

var encCfg = zapcore.EncoderConfig{MessageKey: "msg", NameKey: "logger"}

type fixture struct {
	fam        int
	core       zapcore.Core
	sinks      []*sink
	logs       *observer.ObservedLogs
	rootFields []fspec
	hookCalls  int
	hookMsg    string
	hookName   string
	kept       []keptEntry
	lvl        *zap.AtomicLevel // dynamic level: nothing enabled during derive events, Debug during log events
	evalDemand bool             // every serialising core is a byte encoder: evaluation counts are demanded
}

func (r *runner) newFixture(fam int) *fixture {
	fx := &fixture{fam: fam, evalDemand: true}
	jsonCore := func() zapcore.Core {
		s := &sink{format: fmtJSON}
		fx.sinks = append(fx.sinks, s)
		return zapcore.NewCore(zapcore.NewJSONEncoder(encCfg), s, zapcore.DebugLevel)
	}
	// three pre-derived single-field contexts: an observer context of length 3 / capacity 4
	pre := func(c zapcore.Core) zapcore.Core {
		for k := 0; k < 3; k++ {
			f := fspec{kind: kInt, key: "r" + strconv.Itoa(k), i: int64(k + 1), step: 0}
			fx.rootFields = append(fx.rootFields, f)
			c = c.With([]zapcore.Field{f.field()})
		}
		return c
	}
	switch fam {
	case famJSON:
		fx.core = jsonCore()
	case famConsole:
		s := &sink{format: fmtConsole}
		fx.sinks = append(fx.sinks, s)
		fx.core = zapcore.NewCore(zapcore.NewConsoleEncoder(encCfg), s, zapcore.DebugLevel)
	case famTee:
		oc, logs := observer.New(zapcore.DebugLevel)
		fx.logs = logs
		fx.core = pre(zapcore.NewTee(jsonCore(), oc))
		fx.evalDemand = false
	case famSampler:
		// the sampler's counter table is 450 KiB: one sampler per runner (a chunk
		// of programs), its budget (2^30 per message and tick, tick = 2^62 ns) is never reached
		if r.samplerFx == nil {
			fx.core = zapcore.NewSamplerWithOptions(jsonCore(), 1<<62, 1<<30, 0)
			r.samplerFx = fx
		}
		r.samplerFx.sinks[0].take()
		return r.samplerFx
	case famHooked:
		fx.core = zapcore.RegisterHooks(jsonCore(), func(e zapcore.Entry) error {
			fx.hookCalls++
			fx.hookMsg = e.Message
			fx.hookName = e.LoggerName
			return nil
		})
	case famLevel:
		c, err := zapcore.NewIncreaseLevelCore(jsonCore(), zapcore.InfoLevel)
		if err != nil {
			panic(err)
		}
		fx.core = c
	case famLazy:
		m := &mut{id: 0}
		r.muts = append(r.muts, m)
		fx.rootFields = []fspec{{kind: kInt, key: "r0", i: 7, step: 0}, {kind: kMut, key: "ro", m: m, e: &evalRec{at: -1, lazy: true}, step: 0}}
		fx.core = zapcore.NewLazyWith(jsonCore(), toFields(fx.rootFields, 0))
	case famJSONDyn:
		al := zap.NewAtomicLevelAt(zapcore.DebugLevel)
		fx.lvl = &al
		s := &sink{format: fmtJSON}
		fx.sinks = append(fx.sinks, s)
		fx.core = zapcore.NewCore(zapcore.NewJSONEncoder(encCfg), s, al)
	case famTeeDyn:
		al := zap.NewAtomicLevelAt(zapcore.DebugLevel)
		fx.lvl = &al
		s := &sink{format: fmtJSON}
		fx.sinks = append(fx.sinks, s)
		oc, logs := observer.New(al)
		fx.logs = logs
		// no pre-derived context here: the observer branch starts with an empty context
		fx.core = zapcore.NewTee(zapcore.NewCore(zapcore.NewJSONEncoder(encCfg), s, al), oc)
		fx.evalDemand = false
	case famTeeJJ:
		// every branch evaluates a marshaler for itself: no count is demanded
		fx.core = pre(zapcore.NewTee(jsonCore(), jsonCore()))
		fx.evalDemand = false
	case famTeeJC:
		cs := &sink{format: fmtConsole}
		jc := jsonCore()
		fx.sinks = append(fx.sinks, cs)
		fx.core = pre(zapcore.NewTee(jc, zapcore.NewCore(zapcore.NewConsoleEncoder(encCfg), cs, zapcore.DebugLevel)))
		fx.evalDemand = false
	case famObserver:
		oc, logs := observer.New(zapcore.DebugLevel)
		fx.logs = logs
		fx.core = pre(oc)
		fx.evalDemand = false
	}
	return fx
}

// ---------------------------------------------------------------------------
// reference model + execution on the real code

type mnode struct {
	parent  int
	sugared bool
	fields  []fspec  // fields added along the derivation path, in order (without the root core's)
	names   []string // non-empty name segments along the path
	plain   *zap.Logger
	sugar   *zap.SugaredLogger
	op      string
}

type event struct {
	derive bool
	node   int
	round  int
	cs     bool // the log call carries call-site fields
}

type caseDesc struct {
	fam         int
	rootSugared bool
	steps       []step
	variant     string
	events      []event
}

func (c caseDesc) progString() string {
	var sb strings.Builder
	if c.rootSugared {
		sb.WriteString("root=zap.New(core).Sugar()")
	} else {
		sb.WriteString("root=zap.New(core)")
	}
	for i, s := range c.steps {
		fmt.Fprintf(&sb, "; n%d=n%d.%s", i+1, s.parent, s.sym.name)
	}
	return sb.String()
}

func (c caseDesc) eventString() string {
	var parts []string
	for _, e := range c.events {
		if e.derive {
			parts = append(parts, fmt.Sprintf("derive n%d", e.node))
		} else {
			f := "(no fields)"
			if e.cs {
				f = "(c,d)"
			}
			parts = append(parts, fmt.Sprintf("log%d%s n%d", e.round, f, e.node))
		}
	}
	return strings.Join(parts, ", ")
}

func (c caseDesc) replay() map[string]any {
	var st []map[string]any
	for _, s := range c.steps {
		st = append(st, map[string]any{"parent": s.parent, "sym": s.sym.name})
	}
	return map[string]any{
		"family": famNames[c.fam], "root_sugared": c.rootSugared, "steps": st, "variant": c.variant,
		"program": c.progString(), "events": c.eventString(),
	}
}

type failure struct {
	key  string
	what string
}

type runner struct {
	muts       []*mut
	derives    int64
	logCalls   int64
	casesRun   int64
	exp        []byte
	fast, slow int64
	samplerFx  *fixture
	all        []fspec
	args       []*argRec
	soft       []*failure // violations that do not end the case (a modified argument slice)
	// alwaysDecode turns the byte-equality shortcut off
	alwaysDecode bool
}

// touch evaluates (in the model) every not yet evaluated marshaler in fs at event ev.
func touch(fs []fspec, ev int) {
	for _, f := range fs {
		if f.kind == kMut && f.e.at < 0 {
			f.e.at = ev
			f.m.want++
		}
	}
}

func (r *runner) exec(c caseDesc) (fail *failure) {
	r.muts = r.muts[:0]
	r.args = r.args[:0]
	r.soft = r.soft[:0]
	sliceReported := false
	var lastArg *argRec
	r.casesRun++
	fx := r.newFixture(c.fam)
	famName := famNames[c.fam]
	curOp := "root"
	defer func() {
		if p := recover(); p != nil {
			fail = &failure{key: famName + ":panic:" + curOp, what: fmt.Sprintf("panic: %v", p)}
		}
		if fail != nil {
			fail.what = fmt.Sprintf("[%s] %s | schedule %s: %s | %s", famName, c.progString(), c.variant, c.eventString(), fail.what)
		}
	}()

	nodes := make([]mnode, 1, len(c.steps)+1)
	root := zap.New(fx.core)
	nodes[0] = mnode{parent: -1, op: "root"}
	if c.rootSugared {
		nodes[0].sugared = true
		nodes[0].sugar = root.Sugar()
	} else {
		nodes[0].plain = root
	}
	expectedLogs := 0

	for evNo, e := range c.events {
		// the harness changes every marshaler's state before every event: a
		// marshaler evaluated during event k serialises v=k.
		for _, m := range r.muts {
			m.val = evNo
		}
		if fx.lvl != nil {
			// the level at derivation time must not influence what a logger emits later
			if e.derive {
				fx.lvl.SetLevel(zapcore.FatalLevel + 1)
			} else {
				fx.lvl.SetLevel(zapcore.DebugLevel)
			}
		}
		if e.derive {
			i := e.node
			if i != len(nodes) {
				panic("harness: derivation out of order")
			}
			st := c.steps[i-1]
			p := nodes[st.parent]
			curOp = st.sym.opName()
			if p.sugared && st.sym.op != opToggle {
				curOp = "Sugared." + curOp
			}
			n := mnode{parent: st.parent, sugared: p.sugared, names: p.names, op: curOp}
			n.fields = append([]fspec(nil), p.fields...)
			var add []fspec
			var rec *argRec
			switch st.sym.op {
			case opWith, opWithLazy, opFieldsOpt:
				lazy := st.sym.op == opWithLazy
				if st.sym.arg == argAgain && lastArg != nil {
					// the same slice object again: the same fields, evaluated anew for this step
					rec = lastArg
					add = append([]fspec(nil), rec.specs...)
					for k := range add {
						add[k].step = i
						if add[k].kind == kMut {
							add[k].e = &evalRec{at: -1, lazy: lazy}
						}
					}
				} else {
					a := st.sym.arg
					if a == argAgain {
						a = argF1
					}
					add = r.argFields(i, a, lazy)
					rec = &argRec{specs: add}
					r.args = append(r.args, rec)
				}
				lastArg = rec
				for _, m := range r.muts {
					m.val = evNo
				}
				if st.sym.op != opWithLazy {
					// documented: "evaluated upon invocation of With"; chaining With on a lazy logger is its first use
					touch(fx.rootFields, evNo)
					touch(p.fields, evNo)
					touch(add, evNo)
				}
				n.fields = append(n.fields, add...)
			case opNamed:
				if st.sym.nm != "" {
					n.names = append(append([]string(nil), p.names...), st.sym.nm)
				}
			case opToggle:
				n.sugared = !p.sugared
			}
			// the real call
			if rec != nil {
				rec.restore()
			}
			r.derives++
			switch st.sym.op {
			case opWith:
				if p.sugared {
					n.sugar = p.sugar.With(rec.sugar()...)
				} else {
					n.plain = p.plain.With(rec.fields()...)
				}
			case opWithLazy:
				if p.sugared {
					n.sugar = p.sugar.WithLazy(rec.sugar()...)
				} else {
					n.plain = p.plain.WithLazy(rec.fields()...)
				}
			case opFieldsOpt:
				if p.sugared {
					n.sugar = p.sugar.WithOptions(zap.Fields(rec.fields()...))
				} else {
					n.plain = p.plain.WithOptions(zap.Fields(rec.fields()...))
				}
			case opNamed:
				if p.sugared {
					n.sugar = p.sugar.Named(st.sym.nm)
				} else {
					n.plain = p.plain.Named(st.sym.nm)
				}
			case opToggle:
				if p.sugared {
					n.plain = p.sugar.Desugar()
				} else {
					n.sugar = p.plain.Sugar()
				}
			}
			nodes = append(nodes, n)
			if rec != nil {
				if d := rec.changed(); d != "" && !sliceReported {
					// reported, but the case goes on: what the loggers emit afterwards is checked as well
					sliceReported = true
					r.soft = append(r.soft, &failure{key: famName + ":caller-slice-modified:" + curOp, what: fmt.Sprintf("[%s] %s | schedule %s | derive n%d (%s) changed the argument slice it was handed: %s", famName, c.progString(), c.variant, i, curOp, d)})
				}
				// the caller re-uses its scratch slice after an eager derivation has returned (WithLazy's
				// contract is to keep the fields for later: a slice a lazy logger holds is left alone)
				if st.sym.op == opWithLazy {
					rec.lazyHeld = true
				} else if !rec.lazyHeld {
					rec.poison()
				}
			}
			continue
		}

		// a log call
		n := nodes[e.node]
		curOp = "log:" + n.op
		msg := "m" + strconv.Itoa(evNo)
		var cs []fspec
		if e.cs {
			cs = []fspec{{kind: kInt, key: "c", i: int64(evNo), step: -1}, {kind: kStr, key: "d", s: "x", step: -1}}
			if e.round >= 2 && !strings.HasSuffix(c.variant, ":2r") {
				// later rounds: the call-site field c goes through the reflection encoder
				cs[0] = fspec{kind: kRefl, key: "c", i: int64(evNo), s: "cs", step: -1}
			}
		}
		touch(fx.rootFields, evNo)
		touch(n.fields, evNo)
		r.logCalls++
		expectedLogs++
		csRec := argRec{specs: cs}
		if n.sugared {
			n.sugar.Infow(msg, csRec.sugar()...)
		} else {
			n.plain.Info(msg, csRec.fields()...)
		}
		if d := csRec.changed(); d == "" {
			csRec.poison() // the caller re-uses the call-site slice as well
		} else {
			return &failure{key: famName + ":caller-slice-modified:" + curOp, what: fmt.Sprintf("log%d on n%d changed the call-site argument slice: %s", e.round, e.node, d)}
		}
		all := append(r.all[:0], fx.rootFields...)
		all = append(all, n.fields...)
		all = append(all, cs...)
		r.all = all
		name := strings.Join(n.names, ".")
		if f := r.verify(fx, e, n, name, msg, all); f != nil {
			return f
		}
		if c.fam == famHooked {
			if fx.hookCalls != expectedLogs || fx.hookMsg != msg || fx.hookName != name {
				return &failure{key: famName + ":hook-lost:" + n.op, what: fmt.Sprintf("after log%d on n%d: hook ran %d times in total (want %d), last entry (%q, logger %q), want (%q, logger %q)", e.round, e.node, fx.hookCalls, expectedLogs, fx.hookMsg, fx.hookName, msg, name)}
			}
		}
	}

	// slices retained by a logger (lazy cores keep them) must still be what the caller passed
	for _, rec := range r.args {
		if d := rec.changed(); d != "" && !sliceReported {
			return &failure{key: famName + ":caller-slice-modified-later", what: fmt.Sprintf("an argument slice was intact when its derivation returned but differs at the end of the program: %s", d)}
		}
	}
	for _, k := range fx.kept {
		if !ctxEqual(k.ctx, k.want) {
			gl, wl, class := ctxDiff(k.ctx, k.want)
			return &failure{key: fmt.Sprintf("%s:obs-entry-changed-later:%s", famName, class), what: fmt.Sprintf("the entry observed at %s was correct when it was logged but reads %v at the end of the program, reference %v", k.where, gl, wl)}
		}
	}
	// evaluation counts: every marshaler has been used by now (every node logged)
	if fx.evalDemand {
		for _, m := range r.muts {
			if m.calls != m.want {
				kind := "With"
				for _, n := range nodes {
					for _, f := range n.fields {
						if f.m == m && f.e.lazy {
							kind = "WithLazy"
						}
					}
				}
				for _, f := range fx.rootFields {
					if f.m == m {
						kind = "WithLazy"
					}
				}
				return &failure{key: fmt.Sprintf("%s:eval-count:%s", famName, kind), what: fmt.Sprintf("the marshaler first added by step %d (%s) was evaluated %d times over the whole program, documented: %d (once per derivation step that carries it - With: upon invocation; WithLazy: at first use)", m.id, kind, m.calls, m.want)}
			}
		}
	}
	// the level-increased wrapper must survive derivation: Debug stays dropped on every node
	if c.fam == famLevel {
		for i, n := range nodes {
			curOp = "debug:" + n.op
			r.logCalls++
			if n.sugared {
				n.sugar.Debugw("dbg")
			} else {
				n.plain.Debug("dbg")
			}
			if cnt, _, _ := fx.sinks[0].take(); cnt != 0 {
				return &failure{key: famName + ":level-filter-lost:" + n.op, what: fmt.Sprintf("n%d emitted a Debug entry although the core was built with NewIncreaseLevelCore(core, Info)", i)}
			}
		}
	}
	return nil
}

func (r *runner) verify(fx *fixture, e event, n mnode, name, msg string, all []fspec) *failure {
	famName := famNames[fx.fam]
	where := lazyWhere{e, n.op}
	for _, s := range fx.sinks {
		cnt, line, allw := s.take()
		if cnt != 1 {
			return &failure{key: fmt.Sprintf("%s:line-count:%s", famName, n.op), what: fmt.Sprintf("%s wrote %d lines, want 1: %q", where, cnt, allw)}
		}
		// fast path: the line is byte-identical to the compact rendering of the
		// reference tree (then it certainly decodes to it); otherwise decode and compare trees.
		r.exp = renderExpected(r.exp[:0], s.format, name, msg, all)
		if !r.alwaysDecode && string(r.exp) == string(line) {
			r.fast++
			continue
		}
		r.slow++
		if len(line) == 0 || line[len(line)-1] != '\n' {
			return &failure{key: famName + ":line-ending", what: fmt.Sprintf("%s: line does not end in LF: %q", where, line)}
		}
		line = line[:len(line)-1]
		want := jsonx.O()
		var got *jsonx.Node
		if s.format == fmtJSON {
			if name != "" {
				want.Add("logger", jsonx.S(name))
			}
			want.Add("msg", jsonx.S(msg))
			fieldsTree(want, all)
			g, err := jsonx.Parse(line)
			if err != nil {
				return &failure{key: famName + ":malformed:" + n.op, what: fmt.Sprintf("%s: line is not JSON (%v): %q", where, err, line)}
			}
			got = g
			if got.Kind != jsonx.Obj {
				return &failure{key: famName + ":malformed:" + n.op, what: fmt.Sprintf("%s: line is not a JSON object: %q", where, line)}
			}
			gn, gm := "", ""
			if x := got.Get("logger"); x != nil {
				gn = x.Text
			}
			if x := got.Get("msg"); x != nil {
				gm = x.Text
			}
			if gn != name {
				return &failure{key: famName + ":name:" + n.op, what: fmt.Sprintf("%s: logger name %q, want %q (dot-join of the non-empty names on the path): %q", where, gn, name, line)}
			}
			if gm != msg {
				return &failure{key: famName + ":wrong-entry:" + n.op, what: fmt.Sprintf("%s: message %q, want %q: %q", where, gm, msg, line)}
			}
		} else {
			parts := strings.Split(string(line), "\t")
			gn := ""
			if len(parts) > 0 && !strings.HasPrefix(parts[0], "m") {
				gn = parts[0]
				parts = parts[1:]
			}
			if gn != name {
				return &failure{key: famName + ":name:" + n.op, what: fmt.Sprintf("%s: logger name %q, want %q: %q", where, gn, name, line)}
			}
			if len(parts) == 0 || parts[0] != msg {
				return &failure{key: famName + ":wrong-entry:" + n.op, what: fmt.Sprintf("%s: message column wrong, want %q: %q", where, msg, line)}
			}
			parts = parts[1:]
			fieldsTree(want, all)
			switch {
			case len(parts) == 0:
				got = jsonx.O()
			case len(parts) == 1:
				g, err := jsonx.Parse([]byte(parts[0]))
				if err != nil || g.Kind != jsonx.Obj {
					return &failure{key: famName + ":malformed:" + n.op, what: fmt.Sprintf("%s: context column is not a JSON object (%v): %q", where, err, line)}
				}
				got = g
			default:
				return &failure{key: famName + ":malformed:" + n.op, what: fmt.Sprintf("%s: %d columns after the message: %q", where, len(parts), line)}
			}
		}
		if d := jsonx.Diff(got, want, nil); d != "" {
			class := classify(flatten(nil, "", got), flatten(nil, "", want), all)
			return &failure{key: fmt.Sprintf("%s:%s:%s", famName, class, n.op), what: fmt.Sprintf("%s: emitted context differs from the derivation path: %s; line %q, reference %s", where, d, line, want)}
		}
	}
	if fx.logs != nil {
		ents := fx.logs.TakeAll()
		if len(ents) != 1 {
			return &failure{key: fmt.Sprintf("%s:entry-count:%s", famName, n.op), what: fmt.Sprintf("%s: observer recorded %d entries, want 1", where, len(ents))}
		}
		ent := ents[0]
		if ent.LoggerName != name {
			return &failure{key: famName + ":obs-name:" + n.op, what: fmt.Sprintf("%s: observed LoggerName %q, want %q", where, ent.LoggerName, name)}
		}
		if ent.Message != msg || ent.Level != zapcore.InfoLevel {
			return &failure{key: famName + ":obs-wrong-entry:" + n.op, what: fmt.Sprintf("%s: observed (%v, %q), want (info, %q)", where, ent.Level, ent.Message, msg)}
		}
		if !ctxEqual(ent.Context, all) {
			gl, wl, class := ctxDiff(ent.Context, all)
			return &failure{key: fmt.Sprintf("%s:obs-%s:%s", famName, class, n.op), what: fmt.Sprintf("%s: observed context %v, reference %v", where, gl, wl)}
		}
		// an entry already handed to the observer must not change when other loggers are derived or used later
		fx.kept = append(fx.kept, keptEntry{ent.Context, append([]fspec(nil), all...), where})
	}
	return nil
}

// argRec is one argument slice handed to zap: the typed and/or the loosely
// typed rendering of specs, created on first need and then reused as the very
// same object by the Again* steps.
type argRec struct {
	specs    []fspec
	f        []zap.Field
	s        []interface{}
	poisoned bool // the caller has overwritten the slices after the call returned
	lazyHeld bool // handed to a WithLazy step: never overwritten
}

var poisonField = zap.String("POISON", "caller reused its slice")

// poison overwrites every element in place, as a caller re-using its scratch slice would.
func (a *argRec) poison() {
	for k := range a.f {
		a.f[k] = poisonField
	}
	for k := range a.s {
		a.s[k] = "POISON"
	}
	a.poisoned = true
}

// restore puts the original contents back into the same slice objects (before they are handed out again).
func (a *argRec) restore() {
	if !a.poisoned {
		return
	}
	for k := range a.f {
		a.f[k] = a.specs[k].field()
	}
	if a.s != nil {
		copy(a.s, toSugar(a.specs))
	}
	a.poisoned = false
}

func (a *argRec) fields() []zap.Field {
	if a.f == nil && len(a.specs) > 0 {
		a.f = toFields(a.specs, 2)
	}
	return a.f
}

func (a *argRec) sugar() []interface{} {
	if a.s == nil && len(a.specs) > 0 {
		a.s = toSugar(a.specs)
	}
	return a.s
}

// changed compares the slices with what the caller put into them (Key, Type,
// Integer, String and Interface identity of every Field; every element of the
// loosely typed slice; the spare capacity must still be zero).
func (a *argRec) changed() string {
	if a.poisoned {
		// compare with what the caller last put there
		for k := range a.f {
			if a.f[k] != poisonField {
				return fmt.Sprintf("[]Field element %d (overwritten by the caller after the call) is now %s", k, fieldString(a.f[k]))
			}
		}
		for k := range a.s {
			if a.s[k] != "POISON" {
				return fmt.Sprintf("[]interface{} element %d (overwritten by the caller after the call) changed", k)
			}
		}
		return ""
	}
	if a.f != nil {
		if len(a.f) != len(a.specs) {
			return "length changed"
		}
		for k, sp := range a.specs {
			if w := sp.field(); a.f[k] != w {
				return fmt.Sprintf("[]Field element %d is now %s, the caller passed %s", k, fieldString(a.f[k]), fieldString(w))
			}
		}
		for k, x := range a.f[len(a.f):cap(a.f)] {
			if x != (zap.Field{}) {
				return fmt.Sprintf("spare capacity element %d of the []Field was written: %s", k, fieldString(x))
			}
		}
	}
	if a.s != nil {
		k := 0
		for _, sp := range a.specs {
			ok := true
			if sp.kind == kNS || sp.kind == kSkip {
				ok = k < len(a.s)
				if ok {
					g, isF := a.s[k].(zap.Field)
					ok = isF && g == sp.field()
				}
				k++
			} else {
				ok = k+1 < len(a.s)
				if ok {
					key, isS := a.s[k].(string)
					ok = isS && key == sp.key
					switch v := a.s[k+1].(type) {
					case int64:
						ok = ok && sp.kind == kInt && v == sp.i
					case string:
						ok = ok && sp.kind == kStr && v == sp.s
					case *mut:
						ok = ok && sp.kind == kMut && v == sp.m
					case reflVal:
						ok = ok && sp.kind == kRefl && v == reflVal{int(sp.i), sp.s}
					case failObj:
						ok = ok && sp.kind == kObjFail
					case failArr:
						ok = ok && sp.kind == kArrFail
					default:
						ok = false
					}
				}
				k += 2
			}
			if !ok {
				return fmt.Sprintf("the []interface{} differs from what the caller passed at the element(s) of field %q: now %v", sp.key, a.s)
			}
		}
		if k != len(a.s) {
			return "length of the []interface{} changed"
		}
	}
	return ""
}

type keptEntry struct {
	ctx   []zapcore.Field
	want  []fspec
	where lazyWhere
}

func ctxEqual(ctx []zapcore.Field, all []fspec) bool {
	if len(ctx) != len(all) {
		return false
	}
	for k := range all {
		w := all[k].field()
		g := ctx[k]
		if !g.Equals(w) || (w.Type == zapcore.ObjectMarshalerType && g.Interface != w.Interface) {
			return false
		}
	}
	return true
}

func ctxDiff(ctx []zapcore.Field, all []fspec) (gl, wl []string, class string) {
	for _, g := range ctx {
		gl = append(gl, fieldString(g))
	}
	for _, w := range all {
		wl = append(wl, fieldString(w.field()))
	}
	return gl, wl, classify(gl, wl, all)
}

type lazyWhere struct {
	e  event
	op string
}

func (w lazyWhere) String() string {
	return fmt.Sprintf("log%d on n%d (%s)", w.e.round, w.e.node, w.op)
}

// renderExpected writes the reference entry the way zap's encoders happen to
// lay it out (compact JSON; the console encoder puts a space after ':' and ',').
// It is only a shortcut for equality: any line that differs from it is decoded.
func renderExpected(b []byte, format int, name, msg string, fs []fspec) []byte {
	colon, comma := ":", ","
	vis := 0
	for _, f := range fs {
		if f.kind != kSkip {
			vis++
		}
	}
	if format == fmtConsole {
		colon, comma = ": ", ", "
		if name != "" {
			b = append(b, name...)
			b = append(b, '\t')
		}
		b = append(b, msg...)
		if vis == 0 {
			return append(b, '\n')
		}
		b = append(b, "\t{"...)
	} else {
		b = append(b, '{')
		if name != "" {
			b = append(b, `"logger":"`...)
			b = append(b, name...)
			b = append(b, `",`...)
		}
		b = append(b, `"msg":"`...)
		b = append(b, msg...)
		b = append(b, '"')
		if vis > 0 {
			b = append(b, ',')
		}
	}
	open := 0
	first := true
	for _, f := range fs {
		if f.kind == kSkip {
			continue
		}
		if !first {
			b = append(b, comma...)
		}
		first = false
		b = append(b, '"')
		b = append(b, f.key...)
		b = append(b, '"')
		b = append(b, colon...)
		switch f.kind {
		case kInt:
			b = strconv.AppendInt(b, f.i, 10)
		case kStr:
			b = append(b, '"')
			b = append(b, f.s...)
			b = append(b, '"')
		case kNS:
			b = append(b, '{')
			open++
			first = true
		case kMut:
			b = append(b, `{"id"`...)
			b = append(b, colon...)
			b = strconv.AppendInt(b, int64(f.m.id), 10)
			b = append(b, comma...)
			b = append(b, `"v"`...)
			b = append(b, colon...)
			b = strconv.AppendInt(b, int64(f.e.at), 10)
			b = append(b, '}')
		case kRefl:
			// the reflected value is written as encoding/json produced it: compact also on the console
			b = append(b, `{"N":`...)
			b = strconv.AppendInt(b, f.i, 10)
			b = append(b, `,"S":"`...)
			b = append(b, f.s...)
			b = append(b, `"}`...)
		case kObjFail, kArrFail:
			if f.kind == kObjFail {
				b = append(b, `{"k"`...)
				b = append(b, colon...)
				b = append(b, "1}"...)
			} else {
				b = append(b, "[1]"...)
			}
			b = append(b, comma...)
			b = append(b, '"')
			b = append(b, f.key...)
			b = append(b, `Error"`...)
			b = append(b, colon...)
			b = append(b, `"boom"`...)
		}
	}
	for ; open > 0; open-- {
		b = append(b, '}')
	}
	return append(b, "}\n"...)
}

func fieldString(f zapcore.Field) string {
	switch f.Type {
	case zapcore.Int64Type:
		return fmt.Sprintf("%s=%d", f.Key, f.Integer)
	case zapcore.StringType:
		return fmt.Sprintf("%s=%q", f.Key, f.String)
	case zapcore.NamespaceType:
		return f.Key + "={"
	case zapcore.SkipType:
		return f.Key + "=<skip>"
	case zapcore.ArrayMarshalerType:
		return f.Key + "=failing-array"
	case zapcore.ReflectType:
		return fmt.Sprintf("%s=reflect%v", f.Key, f.Interface)
	case zapcore.ObjectMarshalerType:
		if m, ok := f.Interface.(*mut); ok {
			return fmt.Sprintf("%s=obj#%d", f.Key, m.id)
		}
		if _, ok := f.Interface.(failObj); ok {
			return f.Key + "=failing-object"
		}
	}
	return fmt.Sprintf("%s=?%v", f.Key, f)
}

// fieldsTree appends the expected ordered key/value tree of a field list: a
// namespace nests everything that follows it.
func fieldsTree(dst *jsonx.Node, fs []fspec) {
	cur := dst
	for _, f := range fs {
		switch f.kind {
		case kInt:
			cur.Add(f.key, jsonx.N(strconv.FormatInt(f.i, 10)))
		case kStr:
			cur.Add(f.key, jsonx.S(f.s))
		case kNS:
			c := jsonx.O()
			cur.Add(f.key, c)
			cur = c
		case kMut:
			o := jsonx.O()
			o.Add("id", jsonx.N(strconv.Itoa(f.m.id)))
			o.Add("v", jsonx.N(strconv.Itoa(f.e.at)))
			cur.Add(f.key, o)
		case kRefl:
			cur.Add(f.key, jsonx.O().Add("N", jsonx.N(strconv.FormatInt(f.i, 10))).Add("S", jsonx.S(f.s)))
		case kObjFail:
			cur.Add(f.key, jsonx.O().Add("k", jsonx.N("1")))
			cur.Add(f.key+"Error", jsonx.S("boom"))
		case kArrFail:
			cur.Add(f.key, jsonx.A(jsonx.N("1")))
			cur.Add(f.key+"Error", jsonx.S("boom"))
		}
	}
}

// flatten lists "path=value" for every leaf and "path={" for every object, in order.
func flatten(dst []string, prefix string, n *jsonx.Node) []string {
	for _, m := range n.Members {
		p := m.Key
		if prefix != "" {
			p = prefix + "." + m.Key
		}
		if prefix == "" && (m.Key == "msg" || m.Key == "logger") {
			continue
		}
		if m.Val.Kind == jsonx.Obj {
			dst = append(dst, p+"={")
			dst = flatten(dst, p, m.Val)
		} else {
			dst = append(dst, p+"="+m.Val.String())
		}
	}
	return dst
}

func lastKey(item string) string {
	k := item[:strings.IndexByte(item, '=')]
	if j := strings.LastIndexByte(k, '.'); j >= 0 {
		k = k[j+1:]
	}
	return k
}

// classify names the kind of difference between two flattened contexts.
func classify(got, want []string, all []fspec) string {
	for _, g := range got {
		if strings.Contains(g, "POISON") {
			return "caller-slice-aliased"
		}
	}
	wantKeys := map[string]int{}
	for _, w := range want {
		wantKeys[lastKey(w)]++
	}
	gotKeys := map[string]int{}
	for _, g := range got {
		gotKeys[lastKey(g)]++
	}
	extra, missing := false, false
	for k, c := range gotKeys {
		if c > wantKeys[k] {
			extra = true
		}
	}
	for k, c := range wantKeys {
		if c > gotKeys[k] {
			missing = true
		}
	}
	switch {
	case extra && missing:
		return "context-foreign-and-missing-fields"
	case extra:
		return "context-foreign-fields"
	case missing:
		return "context-missing-fields"
	}
	// same keys: a value or the order/nesting
	gs := map[string]bool{}
	for _, g := range got {
		gs[g] = true
	}
	valueOnly := false
	for _, w := range want {
		if !gs[w] {
			k := lastKey(w)
			if k == "v" {
				// marshaler state
				for _, f := range all {
					if f.kind == kMut && strings.Contains(w, f.key+".v=") {
						if f.e.lazy {
							return "lazy-evaluated-at-wrong-time"
						}
						return "with-evaluated-at-wrong-time"
					}
				}
			}
			valueOnly = true
		}
	}
	if valueOnly {
		return "context-order-or-value"
	}
	return "context-order"
}
