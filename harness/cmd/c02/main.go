// Command c02 decides property C02: every emitted JSON line, decoded with an
// order- and duplicate-preserving decoder, equals the independently computed
// expected tree (metadata under the configured keys with the omission rules,
// then context fields, then call-site fields, exact values, right nesting), and
// the nesting equals what zapcore.MapObjectEncoder records for the same fields.
package main

import (
	"go.uber.org/zap/zapcore"
	"verif/harness/internal/encx"
	"verif/harness/internal/ev"
)

func main() {
	run := ev.Start("C02", "exploration")
	d := encx.NewDriver(run, "c02")
	d.Tree = true
	nodes, strLen := 4, 2
	levels := []zapcore.Level{zapcore.InfoLevel, zapcore.Level(42), zapcore.Level(-128)}
	if run.Thorough() {
		nodes, strLen = 5, 3
		levels = append(levels, zapcore.DebugLevel, zapcore.WarnLevel, zapcore.ErrorLevel, zapcore.DPanicLevel, zapcore.PanicLevel, zapcore.FatalLevel, zapcore.Level(127), zapcore.Level(6), zapcore.Level(-2))
	}
	d.F1(nodes)
	d.ReflectSeqs(nodes)
	strMax := 300
	if run.Thorough() {
		strMax = 1100
	}
	d.StringLengths(strMax)
	nsMax := 70
	if run.Thorough() {
		nsMax = 300
	}
	d.NamespaceDepths(nsMax)
	d.F2(strLen)
	d.F3(levels, true)
	all := make([]zapcore.Level, 0, 256)
	for l := -128; l <= 127; l++ {
		all = append(all, zapcore.Level(l))
	}
	d.Levels(all)
	callerUnits := 5
	if run.Thorough() {
		callerUnits = 6
	}
	d.Callers(callerUnits)
	durMs := 3500
	if run.Thorough() {
		durMs = 100000
	}
	d.Durations(durMs)
	d.Times()
	d.Numbers()
	run.Assume = []string{
		"value alphabets are boundary alphabets (min/max of every width, NaN/Inf/-0/subnormal floats, hostile and invalid-UTF-8 strings, times inside the int64-nanosecond range, every built-in duration/time/level/caller/name encoder); all 256 level values",
		"configurations restricted to those whose encoded value the statement defines: built-in sub-encoders or a nil level encoder, distinct keys (nil/no-op time, duration, name encoders have fall-backs and are exercised for validity under C01)",
		"expected trees are built by a reference encoder written from the documentation; floats compared by bit pattern after strconv.ParseFloat, integers textually",
	}
	cov := d.Coverage("one evaluation = one log line produced by the real encoder, decoded and compared member by member with the reference tree (and with MapObjectEncoder for fault-free trees without duplicate keys); distinct = distinct output byte strings")
	cov["max_tree_nodes"] = nodes
	cov["max_string_units"] = strLen
	run.Finish(cov)
}
