package main

// The spy: a hand-written zapcore.ObjectEncoder / zapcore.ArrayEncoder that
// records every call with its exact argument. Each call is stored as a
// canonical line `"key"=<class>:<value>` whose value part is bit-exact
// (floats and complex numbers by IEEE bit pattern, times by instant + zone
// name + offset + location name, byte slices by content, reflected values by
// a deep structural rendering including the dynamic type).
//
// Integer methods are folded into the classes "int" (AddInt, AddInt8..64)
// and "uint" (AddUint, AddUint8..64, AddUintptr) rendered in decimal: the
// property asks for the value without truncation or sign change, not for a
// particular method width, so Int32 arriving through AddInt64 is accepted
// while uint32 arriving as a negative int, or an int32 cut to 16 bits, is not.

import (
	"encoding/hex"
	"fmt"
	"math"
	"reflect"
	"sort"
	"strconv"
	"strings"
	"time"

	"go.uber.org/zap/zapcore"
)

func vInt(v int64) string   { return "int:" + strconv.FormatInt(v, 10) }
func vUint(v uint64) string { return "uint:" + strconv.FormatUint(v, 10) }
func vF64(v float64) string { return fmt.Sprintf("f64:%016x", math.Float64bits(v)) }
func vF32(v float32) string { return fmt.Sprintf("f32:%08x", math.Float32bits(v)) }
func vC128(v complex128) string {
	return fmt.Sprintf("c128:%016x,%016x", math.Float64bits(real(v)), math.Float64bits(imag(v)))
}
func vC64(v complex64) string {
	return fmt.Sprintf("c64:%08x,%08x", math.Float32bits(real(v)), math.Float32bits(imag(v)))
}
func vBool(v bool) string         { return "bool:" + strconv.FormatBool(v) }
func vStr(v string) string        { return "str:" + strconv.Quote(v) }
func vBin(v []byte) string        { return "bin:" + hex.EncodeToString(v) }
func vBStr(v []byte) string       { return "bstr:" + hex.EncodeToString(v) }
func vDur(v time.Duration) string { return "dur:" + strconv.FormatInt(int64(v), 10) }
func vTime(t time.Time) string {
	name, off := t.Zone()
	return fmt.Sprintf("time:%d.%09d/%s/%d/%s", t.Unix(), t.Nanosecond(), name, off, t.Location().String())
}
func vRefl(v any) string { return "refl:" + deepRender(v) }

const vNamespace = "namespace"

func vArr(id string, elems []string) string {
	return "arr<" + id + ">[" + strings.Join(elems, ",") + "]"
}
func vObj(id string, lines []string) string {
	return "obj<" + id + ">{" + strings.Join(lines, ";") + "}"
}
func kv(key, v string) string { return strconv.Quote(key) + "=" + v }

// harness-defined marshalers identify themselves so that the spy can tell
// that the marshaler it was handed is the one the constructor was given.
type ider interface{ vid() string }

func idOf(v any) string {
	if x, ok := v.(ider); ok {
		rv := reflect.ValueOf(v)
		if rv.Kind() == reflect.Ptr && rv.IsNil() {
			return "nilptr"
		}
		return x.vid()
	}
	return ""
}

type spyObj struct {
	lines []string
	calls int
}

var _ zapcore.ObjectEncoder = (*spyObj)(nil)

func (s *spyObj) add(k, v string) { s.calls++; s.lines = append(s.lines, kv(k, v)) }

func (s *spyObj) AddArray(k string, m zapcore.ArrayMarshaler) error {
	sub := &spyArr{}
	err := m.MarshalLogArray(sub)
	s.calls += sub.calls
	s.add(k, vArr(idOf(m), sub.elems))
	return err
}
func (s *spyObj) AddObject(k string, m zapcore.ObjectMarshaler) error {
	sub := &spyObj{}
	err := m.MarshalLogObject(sub)
	s.calls += sub.calls
	s.add(k, vObj(idOf(m), sub.lines))
	return err
}
func (s *spyObj) AddBinary(k string, v []byte)          { s.add(k, vBin(v)) }
func (s *spyObj) AddByteString(k string, v []byte)      { s.add(k, vBStr(v)) }
func (s *spyObj) AddBool(k string, v bool)              { s.add(k, vBool(v)) }
func (s *spyObj) AddComplex128(k string, v complex128)  { s.add(k, vC128(v)) }
func (s *spyObj) AddComplex64(k string, v complex64)    { s.add(k, vC64(v)) }
func (s *spyObj) AddDuration(k string, v time.Duration) { s.add(k, vDur(v)) }
func (s *spyObj) AddFloat64(k string, v float64)        { s.add(k, vF64(v)) }
func (s *spyObj) AddFloat32(k string, v float32)        { s.add(k, vF32(v)) }
func (s *spyObj) AddInt(k string, v int)                { s.add(k, vInt(int64(v))) }
func (s *spyObj) AddInt64(k string, v int64)            { s.add(k, vInt(v)) }
func (s *spyObj) AddInt32(k string, v int32)            { s.add(k, vInt(int64(v))) }
func (s *spyObj) AddInt16(k string, v int16)            { s.add(k, vInt(int64(v))) }
func (s *spyObj) AddInt8(k string, v int8)              { s.add(k, vInt(int64(v))) }
func (s *spyObj) AddString(k, v string)                 { s.add(k, vStr(v)) }
func (s *spyObj) AddTime(k string, v time.Time)         { s.add(k, vTime(v)) }
func (s *spyObj) AddUint(k string, v uint)              { s.add(k, vUint(uint64(v))) }
func (s *spyObj) AddUint64(k string, v uint64)          { s.add(k, vUint(v)) }
func (s *spyObj) AddUint32(k string, v uint32)          { s.add(k, vUint(uint64(v))) }
func (s *spyObj) AddUint16(k string, v uint16)          { s.add(k, vUint(uint64(v))) }
func (s *spyObj) AddUint8(k string, v uint8)            { s.add(k, vUint(uint64(v))) }
func (s *spyObj) AddUintptr(k string, v uintptr)        { s.add(k, vUint(uint64(v))) }
func (s *spyObj) AddReflected(k string, v interface{}) error {
	s.add(k, vRefl(v))
	return nil
}
func (s *spyObj) OpenNamespace(k string) { s.add(k, vNamespace) }

type spyArr struct {
	elems []string
	calls int
}

var _ zapcore.ArrayEncoder = (*spyArr)(nil)

func (s *spyArr) add(v string) { s.calls++; s.elems = append(s.elems, v) }

func (s *spyArr) AppendBool(v bool)             { s.add(vBool(v)) }
func (s *spyArr) AppendByteString(v []byte)     { s.add(vBStr(v)) }
func (s *spyArr) AppendComplex128(v complex128) { s.add(vC128(v)) }
func (s *spyArr) AppendComplex64(v complex64)   { s.add(vC64(v)) }
func (s *spyArr) AppendFloat64(v float64)       { s.add(vF64(v)) }
func (s *spyArr) AppendFloat32(v float32)       { s.add(vF32(v)) }
func (s *spyArr) AppendInt(v int)               { s.add(vInt(int64(v))) }
func (s *spyArr) AppendInt64(v int64)           { s.add(vInt(v)) }
func (s *spyArr) AppendInt32(v int32)           { s.add(vInt(int64(v))) }
func (s *spyArr) AppendInt16(v int16)           { s.add(vInt(int64(v))) }
func (s *spyArr) AppendInt8(v int8)             { s.add(vInt(int64(v))) }
func (s *spyArr) AppendString(v string)         { s.add(vStr(v)) }
func (s *spyArr) AppendUint(v uint)             { s.add(vUint(uint64(v))) }
func (s *spyArr) AppendUint64(v uint64)         { s.add(vUint(v)) }
func (s *spyArr) AppendUint32(v uint32)         { s.add(vUint(uint64(v))) }
func (s *spyArr) AppendUint16(v uint16)         { s.add(vUint(uint64(v))) }
func (s *spyArr) AppendUint8(v uint8)           { s.add(vUint(uint64(v))) }
func (s *spyArr) AppendUintptr(v uintptr)       { s.add(vUint(uint64(v))) }
func (s *spyArr) AppendDuration(v time.Duration) {
	s.add(vDur(v))
}
func (s *spyArr) AppendTime(v time.Time) { s.add(vTime(v)) }
func (s *spyArr) AppendArray(m zapcore.ArrayMarshaler) error {
	sub := &spyArr{}
	err := m.MarshalLogArray(sub)
	s.calls += sub.calls
	s.add(vArr(idOf(m), sub.elems))
	return err
}
func (s *spyArr) AppendObject(m zapcore.ObjectMarshaler) error {
	sub := &spyObj{}
	err := m.MarshalLogObject(sub)
	s.calls += sub.calls
	s.add(vObj(idOf(m), sub.lines))
	return err
}
func (s *spyArr) AppendReflected(v interface{}) error {
	s.add(vRefl(v))
	return nil
}

// observe runs f.AddTo on a fresh spy.
func observe(f zapcore.Field) (lines []string, calls int, pan any) {
	s := &spyObj{}
	defer func() {
		if p := recover(); p != nil {
			lines, calls, pan = s.lines, s.calls, p
		}
	}()
	f.AddTo(s)
	return s.lines, s.calls, nil
}

// ---------------------------------------------------------------------------
// deep, bit-exact rendering of a reflected value (dynamic type included;
// nil slices/maps distinguished from empty ones; pointers, channels and funcs
// by identity).

func deepRender(v any) string {
	if v == nil {
		return "nil"
	}
	var b strings.Builder
	rv := reflect.ValueOf(v)
	b.WriteString(rv.Type().String())
	b.WriteByte(':')
	renderVal(&b, rv, 0)
	return b.String()
}

func renderVal(b *strings.Builder, rv reflect.Value, depth int) {
	if depth > 6 {
		b.WriteString("...")
		return
	}
	switch rv.Kind() {
	case reflect.Bool:
		b.WriteString(strconv.FormatBool(rv.Bool()))
	case reflect.Int, reflect.Int8, reflect.Int16, reflect.Int32, reflect.Int64:
		b.WriteString(strconv.FormatInt(rv.Int(), 10))
	case reflect.Uint, reflect.Uint8, reflect.Uint16, reflect.Uint32, reflect.Uint64, reflect.Uintptr:
		b.WriteString(strconv.FormatUint(rv.Uint(), 10))
	case reflect.Float32, reflect.Float64:
		fmt.Fprintf(b, "%016x", math.Float64bits(rv.Float()))
	case reflect.Complex64, reflect.Complex128:
		c := rv.Complex()
		fmt.Fprintf(b, "%016x,%016x", math.Float64bits(real(c)), math.Float64bits(imag(c)))
	case reflect.String:
		b.WriteString(strconv.Quote(rv.String()))
	case reflect.Chan, reflect.Func, reflect.UnsafePointer:
		if rv.IsNil() {
			b.WriteString("nil")
		} else {
			fmt.Fprintf(b, "@%x", rv.Pointer())
		}
	case reflect.Ptr:
		if rv.IsNil() {
			b.WriteString("nil")
		} else {
			fmt.Fprintf(b, "@%x->", rv.Pointer())
			renderVal(b, rv.Elem(), depth+1)
		}
	case reflect.Interface:
		if rv.IsNil() {
			b.WriteString("nil")
		} else {
			b.WriteString(rv.Elem().Type().String())
			b.WriteByte(':')
			renderVal(b, rv.Elem(), depth+1)
		}
	case reflect.Slice:
		if rv.IsNil() {
			b.WriteString("nil")
			return
		}
		fallthrough
	case reflect.Array:
		b.WriteByte('[')
		for i := 0; i < rv.Len(); i++ {
			if i > 0 {
				b.WriteByte(',')
			}
			renderVal(b, rv.Index(i), depth+1)
		}
		b.WriteByte(']')
	case reflect.Map:
		if rv.IsNil() {
			b.WriteString("nil")
			return
		}
		var ents []string
		it := rv.MapRange()
		for it.Next() {
			var e strings.Builder
			renderVal(&e, it.Key(), depth+1)
			e.WriteString("=>")
			renderVal(&e, it.Value(), depth+1)
			ents = append(ents, e.String())
		}
		sort.Strings(ents)
		b.WriteString("map{" + strings.Join(ents, ",") + "}")
	case reflect.Struct:
		b.WriteByte('{')
		for i := 0; i < rv.NumField(); i++ {
			if i > 0 {
				b.WriteByte(',')
			}
			b.WriteString(rv.Type().Field(i).Name)
			b.WriteByte('=')
			renderVal(b, rv.Field(i), depth+1)
		}
		b.WriteByte('}')
	default:
		b.WriteString("?" + rv.Kind().String())
	}
}
