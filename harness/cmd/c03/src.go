package main

// Reads the constructor list and the type list of zap.Any's switch from the
// CURRENT source of the tree under test (VERIF_REPO, default /repo).

import (
	"bytes"
	"go/ast"
	"go/parser"
	"go/printer"
	"go/token"
	"os"
	"path/filepath"
	"sort"

	"verif/harness/internal/ev"
)

func repoRoot() string {
	if r := os.Getenv("VERIF_REPO"); r != "" {
		return r
	}
	return "/repo"
}

type srcCtor struct {
	Name string `json:"name"` // qualified: zap.Int64, zapfield.Str
	File string `json:"file"`
	Sig  string `json:"sig"`
}

var ctorFiles = []struct{ rel, pkg string }{
	{"field.go", "zap"},
	{"array.go", "zap"},
	{"error.go", "zap"},
	{"exp/zapfield/zapfield.go", "zapfield"},
}

func exprStr(fset *token.FileSet, n ast.Node) string {
	var b bytes.Buffer
	_ = printer.Fprint(&b, fset, n)
	return b.String()
}

// sourceConstructors lists every exported package-level func returning
// exactly one Field / zap.Field / zapcore.Field in the four anchored files,
// plus the case types of the type switch inside zap.Any.
func sourceConstructors() (ctors []srcCtor, anyTypes []string) {
	root := repoRoot()
	fset := token.NewFileSet()
	for _, cf := range ctorFiles {
		path := filepath.Join(root, cf.rel)
		f, err := parser.ParseFile(fset, path, nil, parser.SkipObjectResolution)
		if err != nil {
			ev.ToolError("cannot parse %s: %v", path, err)
		}
		for _, d := range f.Decls {
			fn, ok := d.(*ast.FuncDecl)
			if !ok || fn.Recv != nil || !fn.Name.IsExported() {
				continue
			}
			res := fn.Type.Results
			if res == nil || len(res.List) != 1 || len(res.List[0].Names) > 1 {
				continue
			}
			switch exprStr(fset, res.List[0].Type) {
			case "Field", "zap.Field", "zapcore.Field":
			default:
				continue
			}
			sig := *fn
			sig.Body, sig.Doc = nil, nil
			ctors = append(ctors, srcCtor{Name: cf.pkg + "." + fn.Name.Name, File: cf.rel, Sig: exprStr(fset, &sig)})
			if cf.pkg == "zap" && fn.Name.Name == "Any" && fn.Body != nil {
				ast.Inspect(fn.Body, func(n ast.Node) bool {
					ts, ok := n.(*ast.TypeSwitchStmt)
					if !ok {
						return true
					}
					for _, st := range ts.Body.List {
						cc := st.(*ast.CaseClause)
						for _, e := range cc.List {
							anyTypes = append(anyTypes, exprStr(fset, e))
						}
					}
					return false
				})
			}
		}
	}
	sort.Slice(ctors, func(i, j int) bool { return ctors[i].Name < ctors[j].Name })
	if len(ctors) == 0 {
		ev.ToolError("no constructors found under %s", root)
	}
	return ctors, anyTypes
}
