package main

// The driver table: constructor name -> value alphabet + how to call it + the
// spy trace the documentation promises. Rows are only RUN for constructors
// that the source scan (src.go) finds in the current tree.

import (
	"errors"
	"fmt"
	"math"
	"strconv"
	"strings"
	"time"

	"go.uber.org/zap"
	"go.uber.org/zap/exp/zapfield"
	"go.uber.org/zap/zapcore"
)

type kase struct {
	in  string // input rendering (replay)
	cls string // input class (names the defect class in finding keys)
	mk  func(key string) zap.Field
	mk2 func(key string) zap.Field // same call on an equal but separately built input (nil: mk again)
	// expected spy trace; or verify for traces that are not a function of the input alone (Stack)
	want      func(key string) []string
	verify    func(key string, lines []string) string
	anyV      func() any // value handed to zap.Any (nil: constructor is not an Any target)
	nodisc    bool       // do not demand Equals==false against fields with a different trace (+0/-0, NaN, stacks)
	norebuild bool       // do not demand Equals==true against the field rebuilt from a separately built input
}

type row struct {
	name      string // qualified constructor name as found in the source
	anyType   string // the case type in zap.Any's switch this row answers for ("" none)
	n         int
	at        func(i int) kase
	eqIdx     []int // cases that join the Equals alphabet
	keyless   bool  // constructor takes no key
	allKeys   bool  // case 0 is additionally run under every key of S*
	anyQuickN int   // quick tier: only the first anyQuickN cases are crossed with Any (0: all)
}

func firstN(n, k int) []int {
	var out []int
	for i := 0; i < n && i < k; i++ {
		out = append(out, i)
	}
	return out
}

type sc[T any] struct {
	rend   func(T) string
	cls    func(T) string
	nodisc func(T) bool // nil: never
	nan    func(T) bool // nil: never; value is not == itself
}

func (o sc[T]) nd(v T) bool    { return o.nodisc != nil && o.nodisc(v) }
func (o sc[T]) isNaN(v T) bool { return o.nan != nil && o.nan(v) }

func scalarRow[T any](name, anyType string, ctor func(string, T) zap.Field, vals []T, o sc[T]) row {
	return row{name: name, anyType: anyType, n: len(vals), eqIdx: firstN(len(vals), 5), at: func(i int) kase {
		v := vals[i]
		k := kase{in: o.rend(v), cls: o.cls(v), nodisc: o.nd(v),
			mk:   func(key string) zap.Field { return ctor(key, v) },
			want: func(key string) []string { return []string{kv(key, o.rend(v))} }}
		if anyType != "" {
			k.anyV = func() any { return v }
		}
		return k
	}}
}

func pointerRow[T any](name, anyType string, ctor func(string, *T) zap.Field, vals []T, o sc[T]) row {
	return row{name: name, anyType: anyType, n: len(vals) + 1, eqIdx: firstN(len(vals)+1, 4), at: func(i int) kase {
		if i == 0 {
			k := kase{in: "nil", cls: "nil",
				mk:   func(key string) zap.Field { return ctor(key, nil) },
				want: func(key string) []string { return []string{kv(key, vRefl(nil))} }}
			if anyType != "" {
				k.anyV = func() any { return (*T)(nil) }
			}
			return k
		}
		v := vals[i-1]
		k := kase{in: "&" + o.rend(v), cls: o.cls(v), nodisc: o.nd(v),
			mk:   func(key string) zap.Field { p := new(T); *p = v; return ctor(key, p) },
			want: func(key string) []string { return []string{kv(key, o.rend(v))} }}
		if anyType != "" {
			k.anyV = func() any { p := new(T); *p = v; return p }
		}
		return k
	}}
}

// sliceRow layout: 0 nil, 1 empty, 2..4 aliasing sub-slices of one array,
// then every 2- and 3-tuple over base, then every single-element slice.
func sliceRow[T any](name, anyType string, ctor func(string, []T) zap.Field, singles, base []T, o sc[T]) row {
	b := len(base)
	if b < 4 {
		panic("sliceRow: base needs >= 4 elements: " + name)
	}
	const fixed = 5
	n2, n3 := b*b, b*b*b
	build := func(i int) (vals []T, cls string) {
		switch {
		case i == 0:
			return nil, "nil"
		case i == 1:
			return []T{}, "empty"
		case i == 2:
			arr := []T{base[0], base[1], base[2], base[3]}
			return arr[0:2], "aliased-low"
		case i == 3:
			arr := []T{base[0], base[1], base[2], base[3]}
			_ = ctor("other", arr[0:2]) // a sibling field over the same array
			return arr[1:3], "aliased-high"
		case i == 4:
			arr := []T{base[0], base[1], base[2], base[3]}
			return arr[1:3:3], "aliased-capped"
		case i < fixed+n2:
			j := i - fixed
			return []T{base[j/b], base[j%b]}, "len2"
		case i < fixed+n2+n3:
			j := i - fixed - n2
			return []T{base[j/(b*b)], base[(j/b)%b], base[j%b]}, "len3"
		}
		return []T{singles[i-fixed-n2-n3]}, "len1"
	}
	eq := []int{0, 1, 2, 3, fixed + 1, fixed + n2 + n3}
	for j, v := range singles {
		if o.isNaN(v) {
			eq = append(eq, fixed+n2+n3+j)
			break
		}
	}
	return row{name: name, anyType: anyType, n: fixed + n2 + n3 + len(singles), eqIdx: eq, at: func(i int) kase {
		vals, cls := build(i)
		var parts []string
		k := kase{cls: cls}
		for _, v := range vals {
			parts = append(parts, o.rend(v))
			if o.nd(v) {
				k.nodisc = true
			}
			if o.isNaN(v) {
				k.norebuild = true // NaN elements: separately built inputs are not == element-wise
				k.cls = cls + "-NaN"
			}
		}
		k.in = fmt.Sprintf("%s[%s]", cls, strings.Join(parts, ","))
		k.mk = func(key string) zap.Field { return ctor(key, vals) }
		k.mk2 = func(key string) zap.Field {
			if vals == nil {
				return ctor(key, nil)
			}
			return ctor(key, append([]T{}, vals...))
		}
		k.want = func(key string) []string { return []string{kv(key, vArr("", parts))} }
		if anyType != "" {
			k.anyV = func() any { return vals }
		}
		return k
	}}
}

func listRow(name, anyType string, cases []kase, eqIdx []int) row {
	if eqIdx == nil {
		eqIdx = firstN(len(cases), len(cases))
	}
	return row{name: name, anyType: anyType, n: len(cases), eqIdx: eqIdx, at: func(i int) kase { return cases[i] }}
}

// --- classes ---------------------------------------------------------------

func intCls(v int64) string {
	switch {
	case v == 0:
		return "zero"
	case v < 0:
		return "negative"
	}
	return "positive"
}

func uintCls(bits int) func(uint64) string {
	return func(v uint64) string {
		switch {
		case v == 0:
			return "zero"
		case v>>(bits-1) != 0:
			return "top-bit-set"
		}
		return "positive"
	}
}

func f64Cls(v float64) string {
	switch {
	case v != v:
		return "NaN"
	case math.IsInf(v, 0):
		return "inf"
	case v == 0 && math.Signbit(v):
		return "negative-zero"
	case v == 0:
		return "zero"
	case math.Abs(v) < 0x1p-1022:
		return "subnormal"
	}
	return "finite"
}

func strCls(s string) string {
	switch {
	case s == "":
		return "empty"
	case strings.ToValidUTF8(s, "") != s:
		return "invalid-utf8"
	}
	for i := 0; i < len(s); i++ {
		if s[i] >= 0x80 || s[i] < 0x20 || s[i] == '"' || s[i] == '\\' || s[i] == 0x7f {
			return "special-chars"
		}
	}
	return "plain"
}

// --- table -----------------------------------------------------------------

func buildTable(thorough bool) []row {
	var rows []row

	// tuple base for the numeric slice rows: the first nb boundary values
	nb := 5
	if thorough {
		nb = 9
	}

	// bool
	bo := sc[bool]{rend: vBool, cls: func(v bool) string { return fmt.Sprint(v) }}
	rows = append(rows,
		scalarRow("zap.Bool", "bool", zap.Bool, []bool{false, true}, bo),
		pointerRow("zap.Boolp", "*bool", zap.Boolp, []bool{false, true}, bo),
		sliceRow("zap.Bools", "[]bool", zap.Bools, []bool{false, true}, []bool{false, true, true, false}, bo),
	)

	// signed / unsigned integers
	p64, p32 := patterns(64), patterns(32)
	f16, nb16 := full(16)
	f8, nb8 := full(8)
	_ = nb8
	addInt := func(scalar, ptr, slice row, nBoundary int) {
		if nBoundary > 0 {
			// 16-bit domains: in the quick tier only the boundary patterns are crossed with zap.Any
			// (slices: the single-element slices are the tail of the row)
			scalar.anyQuickN, ptr.anyQuickN = nBoundary, nBoundary+1
			slice.anyQuickN = slice.n - (len(f16) - nBoundary)
		}
		rows = append(rows, scalar, ptr, slice)
	}
	{
		o := sc[int]{rend: func(v int) string { return vInt(int64(v)) }, cls: func(v int) string { return intCls(int64(v)) }}
		vs := conv(p64, func(u uint64) int { return int(u) })
		addInt(scalarRow("zap.Int", "int", zap.Int, vs, o), pointerRow("zap.Intp", "*int", zap.Intp, vs, o), sliceRow("zap.Ints", "[]int", zap.Ints, vs, vs[:nb], o), 0)
	}
	{
		o := sc[int64]{rend: vInt, cls: intCls}
		vs := conv(p64, func(u uint64) int64 { return int64(u) })
		r := scalarRow("zap.Int64", "int64", zap.Int64, vs, o)
		r.allKeys = true
		addInt(r, pointerRow("zap.Int64p", "*int64", zap.Int64p, vs, o), sliceRow("zap.Int64s", "[]int64", zap.Int64s, vs, vs[:nb], o), 0)
	}
	{
		o := sc[int32]{rend: func(v int32) string { return vInt(int64(v)) }, cls: func(v int32) string { return intCls(int64(v)) }}
		vs := conv(p32, func(u uint64) int32 { return int32(uint32(u)) })
		addInt(scalarRow("zap.Int32", "int32", zap.Int32, vs, o), pointerRow("zap.Int32p", "*int32", zap.Int32p, vs, o), sliceRow("zap.Int32s", "[]int32", zap.Int32s, vs, vs[:nb], o), 0)
	}
	{
		o := sc[int16]{rend: func(v int16) string { return vInt(int64(v)) }, cls: func(v int16) string { return intCls(int64(v)) }}
		vs := conv(f16, func(u uint64) int16 { return int16(uint16(u)) })
		addInt(scalarRow("zap.Int16", "int16", zap.Int16, vs, o), pointerRow("zap.Int16p", "*int16", zap.Int16p, vs, o), sliceRow("zap.Int16s", "[]int16", zap.Int16s, vs, vs[:nb], o), nb16)
	}
	{
		o := sc[int8]{rend: func(v int8) string { return vInt(int64(v)) }, cls: func(v int8) string { return intCls(int64(v)) }}
		vs := conv(f8, func(u uint64) int8 { return int8(uint8(u)) })
		addInt(scalarRow("zap.Int8", "int8", zap.Int8, vs, o), pointerRow("zap.Int8p", "*int8", zap.Int8p, vs, o), sliceRow("zap.Int8s", "[]int8", zap.Int8s, vs, vs[:nb], o), 0)
	}
	{
		o := sc[uint]{rend: func(v uint) string { return vUint(uint64(v)) }, cls: func(v uint) string { return uintCls(64)(uint64(v)) }}
		vs := conv(p64, func(u uint64) uint { return uint(u) })
		addInt(scalarRow("zap.Uint", "uint", zap.Uint, vs, o), pointerRow("zap.Uintp", "*uint", zap.Uintp, vs, o), sliceRow("zap.Uints", "[]uint", zap.Uints, vs, vs[:nb], o), 0)
	}
	{
		o := sc[uint64]{rend: vUint, cls: uintCls(64)}
		addInt(scalarRow("zap.Uint64", "uint64", zap.Uint64, p64, o), pointerRow("zap.Uint64p", "*uint64", zap.Uint64p, p64, o), sliceRow("zap.Uint64s", "[]uint64", zap.Uint64s, p64, p64[:nb], o), 0)
	}
	{
		o := sc[uint32]{rend: func(v uint32) string { return vUint(uint64(v)) }, cls: func(v uint32) string { return uintCls(32)(uint64(v)) }}
		vs := conv(p32, func(u uint64) uint32 { return uint32(u) })
		addInt(scalarRow("zap.Uint32", "uint32", zap.Uint32, vs, o), pointerRow("zap.Uint32p", "*uint32", zap.Uint32p, vs, o), sliceRow("zap.Uint32s", "[]uint32", zap.Uint32s, vs, vs[:nb], o), 0)
	}
	{
		o := sc[uint16]{rend: func(v uint16) string { return vUint(uint64(v)) }, cls: func(v uint16) string { return uintCls(16)(uint64(v)) }}
		vs := conv(f16, func(u uint64) uint16 { return uint16(u) })
		addInt(scalarRow("zap.Uint16", "uint16", zap.Uint16, vs, o), pointerRow("zap.Uint16p", "*uint16", zap.Uint16p, vs, o), sliceRow("zap.Uint16s", "[]uint16", zap.Uint16s, vs, vs[:nb], o), nb16)
	}
	{
		o := sc[uint8]{rend: func(v uint8) string { return vUint(uint64(v)) }, cls: func(v uint8) string { return uintCls(8)(uint64(v)) }}
		vs := conv(f8, func(u uint64) uint8 { return uint8(u) })
		// zap.Any treats []byte (= []uint8) as a binary blob, so Uint8s is not an Any target
		addInt(scalarRow("zap.Uint8", "uint8", zap.Uint8, vs, o), pointerRow("zap.Uint8p", "*uint8", zap.Uint8p, vs, o), sliceRow("zap.Uint8s", "", zap.Uint8s, vs, vs[:nb], o), 0)
	}
	{
		o := sc[uintptr]{rend: func(v uintptr) string { return vUint(uint64(v)) }, cls: func(v uintptr) string { return uintCls(64)(uint64(v)) }}
		vs := conv(p64, func(u uint64) uintptr { return uintptr(u) })
		addInt(scalarRow("zap.Uintptr", "uintptr", zap.Uintptr, vs, o), pointerRow("zap.Uintptrp", "*uintptr", zap.Uintptrp, vs, o), sliceRow("zap.Uintptrs", "[]uintptr", zap.Uintptrs, vs, vs[:nb], o), 0)
	}

	// floats: the Equals alphabet takes +0, -0, 1, -1 and the first NaNs
	{
		o := sc[float64]{rend: vF64, cls: f64Cls, nodisc: func(v float64) bool { return v == 0 || v != v }, nan: func(v float64) bool { return v != v }}
		vs := float64s()
		s, p := scalarRow("zap.Float64", "float64", zap.Float64, vs, o), pointerRow("zap.Float64p", "*float64", zap.Float64p, vs, o)
		s.eqIdx, p.eqIdx = firstN(len(vs), 8), firstN(len(vs), 7)
		rows = append(rows, s, p, sliceRow("zap.Float64s", "[]float64", zap.Float64s, vs, vs[:nb], o))
	}
	{
		o := sc[float32]{rend: vF32, cls: func(v float32) string {
			if v != 0 && v == v && !math.IsInf(float64(v), 0) && math.Abs(float64(v)) < 0x1p-126 {
				return "subnormal"
			}
			return f64Cls(float64(v))
		}, nodisc: func(v float32) bool { return v == 0 || v != v }, nan: func(v float32) bool { return v != v }}
		vs := float32s()
		s, p := scalarRow("zap.Float32", "float32", zap.Float32, vs, o), pointerRow("zap.Float32p", "*float32", zap.Float32p, vs, o)
		s.eqIdx, p.eqIdx = firstN(len(vs), 8), firstN(len(vs), 7)
		rows = append(rows, s, p, sliceRow("zap.Float32s", "[]float32", zap.Float32s, vs, vs[:nb], o))
	}
	// complex: grid index = re*12+im over complexParts (0:+0 1:-0 2:1 3:-1 ... 9:NaN 10:NaN')
	cEq := []int{0, 12, 26, 27, 108, 9, 117, 120}
	{
		cls := func(v complex128) string {
			re, im := real(v), imag(v)
			switch {
			case re != re || im != im:
				return "NaN"
			case math.IsInf(re, 0) || math.IsInf(im, 0):
				return "inf"
			case re == 0 && im == 0:
				return "zero"
			}
			return "finite"
		}
		o := sc[complex128]{rend: vC128, cls: cls, nodisc: func(v complex128) bool { return v != v || real(v) == 0 || imag(v) == 0 }, nan: func(v complex128) bool { return v != v }}
		vs := complex128s()
		s, p := scalarRow("zap.Complex128", "complex128", zap.Complex128, vs, o), pointerRow("zap.Complex128p", "*complex128", zap.Complex128p, vs, o)
		s.eqIdx = cEq
		p.eqIdx = []int{0, 1, 27, 109}
		rows = append(rows, s, p, sliceRow("zap.Complex128s", "[]complex128", zap.Complex128s, vs, []complex128{vs[0], vs[26], vs[27], vs[108], vs[12]}, o))
	}
	{
		cls := func(v complex64) string {
			re, im := float64(real(v)), float64(imag(v))
			switch {
			case re != re || im != im:
				return "NaN"
			case math.IsInf(re, 0) || math.IsInf(im, 0):
				return "inf"
			case re == 0 && im == 0:
				return "zero"
			}
			return "finite"
		}
		o := sc[complex64]{rend: vC64, cls: cls, nodisc: func(v complex64) bool { return v != v || real(v) == 0 || imag(v) == 0 }, nan: func(v complex64) bool { return v != v }}
		vs := complex64s()
		s, p := scalarRow("zap.Complex64", "complex64", zap.Complex64, vs, o), pointerRow("zap.Complex64p", "*complex64", zap.Complex64p, vs, o)
		s.eqIdx = cEq
		p.eqIdx = []int{0, 1, 27, 109}
		rows = append(rows, s, p, sliceRow("zap.Complex64s", "[]complex64", zap.Complex64s, vs, []complex64{vs[0], vs[26], vs[27], vs[108], vs[12]}, o))
	}

	// durations
	{
		o := sc[time.Duration]{rend: vDur, cls: func(v time.Duration) string { return intCls(int64(v)) }}
		vs := conv(p64, func(u uint64) time.Duration { return time.Duration(u) })
		rows = append(rows, scalarRow("zap.Duration", "time.Duration", zap.Duration, vs, o), pointerRow("zap.Durationp", "*time.Duration", zap.Durationp, vs, o),
			sliceRow("zap.Durations", "[]time.Duration", zap.Durations, vs, vs[:nb], o))
	}

	// strings
	ss := sStar(3)
	if thorough {
		ss = sStar(4)
	}
	{
		o := sc[string]{rend: vStr, cls: strCls}
		r := scalarRow("zap.String", "string", zap.String, ss, o)
		r.allKeys = true
		rows = append(rows, r, pointerRow("zap.Stringp", "*string", zap.Stringp, ss, o),
			sliceRow("zap.Strings", "[]string", zap.Strings, ss, []string{"", "a", "\"", "\xff", "\u00e9"}, o))
		r1 := scalarRow("zapfield.Str", "", func(k string, v string) zap.Field { return zapfield.Str(k, v) }, ss, o)
		r1.allKeys = true
		rows = append(rows, r1)
		// the same constructor instantiated with named key and value types
		named := scalarRow("zapfield.Str", "", func(k string, v string) zap.Field { return zapfield.Str(myKey(k), myVal(v)) }, ss, o)
		named.allKeys = true
		named.eqIdx = nil
		rows = append(rows, named)
		rows = append(rows,
			sliceRow("zapfield.Strs", "", func(k string, v []string) zap.Field { return zapfield.Strs(k, v) }, ss, []string{"", "a", "\"", "\xff", "\u00e9"}, o),
			func() row {
				r := sliceRow("zapfield.Strs", "", func(k string, v []string) zap.Field {
					if v == nil {
						return zapfield.Strs(myKey(k), myVals(nil))
					}
					mv := make(myVals, len(v))
					for i := range v {
						mv[i] = myVal(v[i])
					}
					return zapfield.Strs(myKey(k), mv)
				}, ss[:300], []string{"", "a", "\"", "\xff", "\u00e9"}, o)
				r.eqIdx = nil
				return r
			}(),
		)
	}

	// byte slices
	{
		var bs [][]byte
		bs = append(bs, nil, []byte{})
		for b := 0; b < 256; b++ {
			bs = append(bs, []byte{byte(b)})
		}
		for _, s := range ss[1:] {
			if len(s) > 1 {
				bs = append(bs, []byte(s))
			}
		}
		blob := make([]byte, 1024)
		for i := range blob {
			blob[i] = byte(i * 7)
		}
		bs = append(bs, blob)
		bcls := func(b []byte) string {
			switch {
			case b == nil:
				return "nil"
			case len(b) == 0:
				return "empty"
			}
			return strCls(string(b))
		}
		bytesRow := func(name, anyType string, ctor func(string, []byte) zap.Field, rend func([]byte) string) row {
			return row{name: name, anyType: anyType, n: len(bs), eqIdx: []int{0, 1, 2, 99, 300}, at: func(i int) kase {
				v := bs[i]
				k := kase{in: rend(v), cls: bcls(v),
					mk: func(key string) zap.Field { return ctor(key, v) },
					mk2: func(key string) zap.Field {
						if v == nil {
							return ctor(key, nil)
						}
						return ctor(key, append([]byte{}, v...))
					},
					want: func(key string) []string { return []string{kv(key, rend(v))} }}
				if anyType != "" {
					k.anyV = func() any { return v }
				}
				return k
			}}
		}
		rows = append(rows, bytesRow("zap.Binary", "[]byte", zap.Binary, vBin), bytesRow("zap.ByteString", "", zap.ByteString, vBStr))
		o := sc[[]byte]{rend: vBStr, cls: bcls}
		rows = append(rows, sliceRow("zap.ByteStrings", "", zap.ByteStrings, bs[:300], [][]byte{nil, {}, []byte("a"), {0xff, 0}, []byte("\u00e9")}, o))
	}

	// times
	{
		tv := timeValues()
		idx := map[string]int{}
		for i, t := range tv {
			idx[t.desc] = i
		}
		cases := make([]kase, len(tv))
		pcases := []kase{{in: "nil", cls: "nil",
			mk:   func(key string) zap.Field { return zap.Timep(key, nil) },
			want: func(key string) []string { return []string{kv(key, vRefl(nil))} },
			anyV: func() any { return (*time.Time)(nil) }}}
		for i, t := range tv {
			t := t
			exp := vTime(t.t) // rendered from the original before the constructor sees it
			cases[i] = kase{in: t.desc + " " + exp, cls: t.cls,
				mk:   func(key string) zap.Field { return zap.Time(key, t.t) },
				want: func(key string) []string { return []string{kv(key, exp)} },
				anyV: func() any { return t.t }}
			pcases = append(pcases, kase{in: "&" + t.desc + " " + exp, cls: t.cls,
				mk:   func(key string) zap.Field { p := t.t; return zap.Timep(key, &p) },
				want: func(key string) []string { return []string{kv(key, exp)} },
				anyV: func() any { p := t.t; return &p }})
		}
		pick := func(names ...string) []int {
			var out []int
			for _, n := range names {
				i, ok := idx[n]
				if !ok {
					panic("time value " + n)
				}
				out = append(out, i)
			}
			return out
		}
		eq := pick("unix-0@UTC", "unix-0@nil-location", "unix-0@Local", "unix-0@FixedZone+", "unix-0@loaded-NewYork", "unix+1ns@UTC", "zero-time@UTC", "time.Time{}",
			"minTimeInt64@UTC", "minTimeInt64-1ns@UTC", "maxTimeInt64@FixedZone-", "maxTimeInt64+1ns@FixedZone-", "far-future@loaded-Kolkata", "year-9999@UTC")
		rows = append(rows, listRow("zap.Time", "time.Time", cases, eq), listRow("zap.Timep", "*time.Time", pcases, []int{0, 1, 2, 3}))
		o := sc[time.Time]{rend: vTime, cls: func(time.Time) string { return "time" }}
		var singles []time.Time
		for _, t := range tv {
			singles = append(singles, t.t)
		}
		b := pick("unix-0@UTC", "minTimeInt64-1ns@FixedZone+", "maxTimeInt64@loaded-NewYork", "time.Time{}", "far-future@Local")
		rows = append(rows, sliceRow("zap.Times", "[]time.Time", zap.Times, singles, []time.Time{tv[b[0]].t, tv[b[1]].t, tv[b[2]].t, tv[b[3]].t, tv[b[4]].t}, o))
	}

	rows = append(rows, structuralRows()...)
	return rows
}

// ---------------------------------------------------------------------------
// rows that are not plain value carriers

//go:noinline
func stackHere(key string) zap.Field { return zap.Stack(key) }

//go:noinline
func stackInner(key string, skip int) zap.Field { return zap.StackSkip(key, skip) }

//go:noinline
func stackOuter(key string, skip int) zap.Field { return stackInner(key, skip) }

func verifyStack(first string, notFirst ...string) func(string, []string) string {
	return func(key string, lines []string) string {
		if len(lines) != 1 {
			return fmt.Sprintf("expected exactly one AddString call, got %d calls", len(lines))
		}
		pre := kv(key, "str:")
		if !strings.HasPrefix(lines[0], pre) {
			return "expected an AddString call under the given key, got " + trunc(lines[0], 200)
		}
		var s string
		if _, err := fmt.Sscanf(lines[0][len(pre):], "%q", &s); err != nil {
			return "unreadable stack string"
		}
		top := strings.SplitN(s, "\n", 2)[0]
		if first != "" && top != first {
			return fmt.Sprintf("stack trace starts at frame %q, expected %q", top, first)
		}
		for _, nf := range notFirst {
			if top == nf || top == "" {
				return fmt.Sprintf("stack trace starts at frame %q which should have been skipped", top)
			}
		}
		return ""
	}
}

type fieldSym struct {
	desc  string
	f     func() zap.Field
	lines []string
}

func dictSyms() []fieldSym {
	return []fieldSym{
		{"Int64(a,1)", func() zap.Field { return zap.Int64("a", 1) }, []string{kv("a", vInt(1))}},
		{"String(b,x)", func() zap.Field { return zap.String("b", "x") }, []string{kv("b", vStr("x"))}},
		{"Skip()", func() zap.Field { return zap.Skip() }, nil},
		{"Namespace(ns)", func() zap.Field { return zap.Namespace("ns") }, []string{kv("ns", vNamespace)}},
		{"Intp(p,nil)", func() zap.Field { return zap.Intp("p", nil) }, []string{kv("p", vRefl(nil))}},
		{"Dict(d,Bool(c,true))", func() zap.Field { return zap.Dict("d", zap.Bool("c", true)) }, []string{kv("d", vObj("", []string{kv("c", vBool(true))}))}},
		{"Float64(f,NaN)", func() zap.Field { return zap.Float64("f", math.NaN()) }, []string{kv("f", vF64(math.NaN()))}},
	}
}

// every list of <= 3 symbols
func dictLists() [][]fieldSym {
	syms := dictSyms()
	out := [][]fieldSym{nil}
	cur := [][]fieldSym{nil}
	for l := 1; l <= 3; l++ {
		var next [][]fieldSym
		for _, p := range cur {
			for _, s := range syms {
				next = append(next, append(append([]fieldSym{}, p...), s))
			}
		}
		out = append(out, next...)
		cur = next
	}
	return out
}

type objSym struct {
	desc, cls string
	m         func() zapcore.ObjectMarshaler // same marshaler value every call
	m2        func() zapcore.ObjectMarshaler // separately built equal marshaler (nil: same)
	lines     []string
	id        string
	nan       bool
}

func objSyms() []objSym {
	po := &ptrObj{"p1", 7}
	po2 := &ptrObj{"p2", -7}
	mo := mapObj{"x": 1, "y": -2}
	fields := []zap.Field{zap.Int64("a", 1), zap.String("b", "x")}
	return []objSym{
		{desc: "*ptrObj{p1,7}", cls: "pointer", m: func() zapcore.ObjectMarshaler { return po }, lines: ptrObjLines("p1", 7), id: "ptrObj#p1"},
		{desc: "*ptrObj{p2,-7}", cls: "pointer", m: func() zapcore.ObjectMarshaler { return po2 }, lines: ptrObjLines("p2", -7), id: "ptrObj#p2"},
		{desc: "valObj{v1,3}", cls: "struct", m: func() zapcore.ObjectMarshaler { return valObj{"v1", 3} }, lines: ptrObjLines("v1", 3), id: "valObj#v1"},
		{desc: "sliceObj{1,2}", cls: "uncomparable", m: func() zapcore.ObjectMarshaler { return sliceObj{1, 2} }, lines: sliceObjLines([]int64{1, 2}), id: "sliceObj[1 2]"},
		{desc: "sliceObj(nil)", cls: "uncomparable", m: func() zapcore.ObjectMarshaler { return sliceObj(nil) }, lines: nil, id: "sliceObj[]"},
		{desc: "mapObj{x:1,y:-2}", cls: "uncomparable", m: func() zapcore.ObjectMarshaler { return mo }, m2: func() zapcore.ObjectMarshaler { return mapObj{"x": 1, "y": -2} }, lines: mapObjLines(mo), id: "mapObj[x y]"},
		{desc: "structSliceObj{[5]}", cls: "uncomparable", m: func() zapcore.ObjectMarshaler { return structSliceObj{[]int64{5}} }, lines: sliceObjLines([]int64{5}), id: "structSliceObj[5]"},
		{desc: "zap.DictObject(Int64(a,1),String(b,x))", cls: "uncomparable", m: func() zapcore.ObjectMarshaler { return zap.DictObject(fields...) },
			m2: func() zapcore.ObjectMarshaler { return zap.DictObject(zap.Int64("a", 1), zap.String("b", "x")) }, lines: []string{kv("a", vInt(1)), kv("b", vStr("x"))}},
		{desc: "floatObj{1.5}", cls: "struct", m: func() zapcore.ObjectMarshaler { return floatObj{1.5} }, lines: []string{kv("x", vF64(1.5))}, id: "floatObj"},
		{desc: "floatObj{NaN}", cls: "NaN", m: func() zapcore.ObjectMarshaler { return floatObj{math.NaN()} }, lines: []string{kv("x", vF64(math.NaN()))}, id: "floatObj", nan: true},
	}
}

func structuralRows() []row {
	var rows []row

	// Skip, Namespace
	rows = append(rows, func() row {
		r := listRow("zap.Skip", "", []kase{{in: "()", cls: "skip", mk: func(string) zap.Field { return zap.Skip() }, want: func(string) []string { return nil }}}, nil)
		r.keyless = true
		return r
	}())
	rows = append(rows, func() row {
		r := listRow("zap.Namespace", "", []kase{{in: "()", cls: "namespace", mk: func(k string) zap.Field { return zap.Namespace(k) }, want: func(k string) []string { return []string{kv(k, vNamespace)} }}}, nil)
		r.allKeys = true
		return r
	}())

	// Stack, StackSkip
	rows = append(rows,
		listRow("zap.Stack", "", []kase{{in: "called from main.stackHere", cls: "stack", nodisc: true, norebuild: true, mk: stackHere, verify: verifyStack("main.stackHere")}}, nil),
		listRow("zap.StackSkip", "", []kase{
			{in: "skip=0 from main.stackInner<-main.stackOuter", cls: "skip0", nodisc: true, norebuild: true, mk: func(k string) zap.Field { return stackOuter(k, 0) }, verify: verifyStack("main.stackInner")},
			{in: "skip=1 from main.stackInner<-main.stackOuter", cls: "skip1", nodisc: true, norebuild: true, mk: func(k string) zap.Field { return stackOuter(k, 1) }, verify: verifyStack("main.stackOuter")},
			{in: "skip=2 from main.stackInner<-main.stackOuter", cls: "skip2", nodisc: true, norebuild: true, mk: func(k string) zap.Field { return stackOuter(k, 2) }, verify: verifyStack("", "main.stackInner", "main.stackOuter")},
		}, nil),
	)

	// Reflect, and zap.Any on values outside its switch: must arrive unchanged through AddReflected
	{
		x := 42
		px := &x
		ppx := &px
		mi := myInt(5)
		nan := math.NaN()
		fn := func() {}
		ch := make(chan int)
		sl := []int{1, 2, 3}
		type rv struct {
			desc, cls string
			v         any
			nodisc    bool
		}
		vals := []rv{
			{"nil", "nil", nil, false},
			{"myInt(5)", "named-int", myInt(5), false},
			{"myInt64(min)", "named-int", myInt64(math.MinInt64), false},
			{"myUint8(255)", "named-int", myUint8(255), false},
			{"myStr(x)", "named-string", myStr("x\xff"), false},
			{"myBool(true)", "named-bool", myBool(true), false},
			{"myFloat(1.5)", "named-float", myFloat(1.5), false},
			{"myFloat(NaN)", "NaN", myFloat(nan), true},
			{"myBytes{1,2}", "named-slice", myBytes{1, 2}, false},
			{"myInts(nil)", "named-slice", myInts(nil), false},
			{"myInts{}", "named-slice", myInts{}, true}, // nil vs empty: DeepEqual distinguishes, nothing demanded
			{"myStruct{1,b,2.5}", "struct", myStruct{1, "b", 2.5}, false},
			{"myStruct{c:NaN}", "NaN", myStruct{1, "b", nan}, true},
			{"&myStruct", "pointer", &myStruct{2, "c", 0}, false},
			{"*myInt", "pointer", &mi, false},
			{"**int", "pointer", ppx, false},
			{"map[string]int", "map", map[string]int{"a": 1, "b": 2}, false},
			{"map[int]string", "map", map[int]string{1: "a"}, false},
			{"[]any{1,a,nil}", "slice", []any{1, "a", nil}, false},
			{"[2]int", "array", [2]int{1, 2}, false},
			{"[1]float64{NaN}", "NaN", [1]float64{nan}, true},
			{"[][]byte", "slice", [][]byte{{1}, nil}, false},
			{"[]*int", "slice", []*int{px, nil}, false},
			{"[]myInt", "slice", []myInt{1, 2}, false},
			{"struct{}", "struct", struct{}{}, false},
			{"func", "func", fn, true},
			{"chan int", "chan", ch, false},
		}
		// values that ARE in Any's switch are legitimate inputs of Reflect too
		rvals := append([]rv{}, vals...)
		rvals = append(rvals,
			rv{"int(1)", "int", 1, false}, rv{"int64(max)", "int", int64(math.MaxInt64), false}, rv{"uint64(max)", "int", uint64(math.MaxUint64), false},
			rv{"string", "string", "s", false}, rv{"float64(NaN)", "NaN", nan, true}, rv{"float32(NaN)", "NaN", float32(nan), true}, rv{"complex(NaN)", "NaN", complex(nan, 0), true},
			rv{"float64(1.5)", "float", 1.5, false}, rv{"[]float64{NaN}", "slice-NaN", []float64{nan}, true}, rv{"[]int(shared)", "slice", sl, false}, rv{"time", "struct", time.Unix(5, 5).UTC(), false})
		mkCases := func(ctor func(string, any) zap.Field, list []rv) []kase {
			var cs []kase
			for _, v := range list {
				v := v
				exp := vRefl(v.v)
				cs = append(cs, kase{in: v.desc + " " + exp, cls: v.cls, nodisc: v.nodisc,
					mk:   func(key string) zap.Field { return ctor(key, v.v) },
					want: func(key string) []string { return []string{kv(key, exp)} }})
			}
			return cs
		}
		rows = append(rows,
			listRow("zap.Reflect", "", mkCases(func(k string, v any) zap.Field { return zap.Reflect(k, v) }, rvals), nil),
			listRow("zap.Any", "", mkCases(zap.Any, vals), nil))
	}

	// Stringer
	{
		ps := &ptrStringer{"ptr"}
		gs := &guardedStringer{"guard"}
		ms := mapStringer{"a": 1, "b": 2}
		type sv struct {
			desc, cls string
			v         func() fmt.Stringer
			v2        func() fmt.Stringer
			out       string
		}
		vals := []sv{
			{"*ptrStringer", "pointer", func() fmt.Stringer { return ps }, nil, "ptr"},
			{"valStringer", "struct", func() fmt.Stringer { return valStringer{"val\xff\""} }, nil, "val\xff\""},
			{"valStringer(empty)", "struct", func() fmt.Stringer { return valStringer{""} }, nil, ""},
			{"sliceStringer{a,b}", "uncomparable", func() fmt.Stringer { return sliceStringer{"a", "b"} }, nil, "a+b"},
			{"sliceStringer(nil)", "uncomparable", func() fmt.Stringer { return sliceStringer(nil) }, nil, ""},
			{"mapStringer", "uncomparable", func() fmt.Stringer { return ms }, func() fmt.Stringer { return mapStringer{"a": 1, "b": 2} }, "a:1,b:2"},
			{"structSliceStringer", "uncomparable", func() fmt.Stringer { return structSliceStringer{[]string{"x", "y"}} }, nil, "x/y"},
			{"*guardedStringer", "pointer", func() fmt.Stringer { return gs }, nil, "guard"},
			{"(*guardedStringer)(nil)", "nil-pointer", func() fmt.Stringer { return (*guardedStringer)(nil) }, nil, "guarded-nil"},
			{"(*ptrStringer)(nil)", "nil-pointer", func() fmt.Stringer { return (*ptrStringer)(nil) }, nil, "<nil>"}, // CHANGELOG #854
			{"valStringer(ip)", "struct", func() fmt.Stringer { return valStringer{"10.0.0.1"} }, nil, "10.0.0.1"},
		}
		var cs []kase
		for _, v := range vals {
			v := v
			k := kase{in: v.desc, cls: v.cls,
				mk:   func(key string) zap.Field { return zap.Stringer(key, v.v()) },
				want: func(key string) []string { return []string{kv(key, vStr(v.out))} },
				anyV: func() any { return v.v() }}
			if v.v2 != nil {
				k.mk2 = func(key string) zap.Field { return zap.Stringer(key, v.v2()) }
			}
			cs = append(cs, k)
		}
		rows = append(rows, listRow("zap.Stringer", "fmt.Stringer", cs, nil))
	}

	// Object, Inline
	{
		var oc, ic []kase
		for _, s := range objSyms() {
			s := s
			k := kase{in: s.desc, cls: s.cls, nodisc: s.nan,
				mk:   func(key string) zap.Field { return zap.Object(key, s.m()) },
				want: func(key string) []string { return []string{kv(key, vObj(s.id, s.lines))} },
				anyV: func() any { return s.m() }}
			i := kase{in: s.desc, cls: s.cls, nodisc: s.nan,
				mk:   func(string) zap.Field { return zap.Inline(s.m()) },
				want: func(string) []string { return s.lines }}
			if s.m2 != nil {
				k.mk2 = func(key string) zap.Field { return zap.Object(key, s.m2()) }
				i.mk2 = func(string) zap.Field { return zap.Inline(s.m2()) }
			}
			oc, ic = append(oc, k), append(ic, i)
		}
		rows = append(rows, listRow("zap.Object", "zapcore.ObjectMarshaler", oc, nil))
		r := listRow("zap.Inline", "", ic, nil)
		r.keyless = true
		rows = append(rows, r)
	}

	// Dict and zap.Any([]Field)
	{
		var cs []kase
		for _, l := range dictLists() {
			l := l
			var descs, lines []string
			nan := false
			for _, s := range l {
				descs = append(descs, s.desc)
				lines = append(lines, s.lines...)
				nan = nan || strings.Contains(s.desc, "NaN")
			}
			build := func() []zap.Field {
				var fs []zap.Field
				for _, s := range l {
					fs = append(fs, s.f())
				}
				return fs
			}
			cs = append(cs, kase{in: "(" + strings.Join(descs, ", ") + ")", cls: fmt.Sprintf("len%d", len(l)), nodisc: nan,
				mk:   func(key string) zap.Field { return zap.Dict(key, build()...) },
				want: func(key string) []string { return []string{kv(key, vObj("", lines))} },
				anyV: func() any { return build() }})
		}
		rows = append(rows, listRow("zap.Dict", "[]Field", cs, []int{0, 1, 2, 3, 8, 9, 60}))
	}

	// Array
	{
		pa := &ptrArr{"a1", []int64{1, -1}}
		type av struct {
			desc, cls, id string
			m             func() zapcore.ArrayMarshaler
			elems         []string
			nan           bool
		}
		vals := []av{
			{"*ptrArr{1,-1}", "pointer", "ptrArr#a1", func() zapcore.ArrayMarshaler { return pa }, intElems([]int64{1, -1}), false},
			{"valArr{3,4}", "struct", "valArr#v", func() zapcore.ArrayMarshaler { return valArr{"v", [2]int64{3, 4}} }, intElems([]int64{3, 4}), false},
			{"sliceArr{9}", "uncomparable", "sliceArr[9]", func() zapcore.ArrayMarshaler { return sliceArr{9} }, intElems([]int64{9}), false},
			{"sliceArr(nil)", "uncomparable", "sliceArr[]", func() zapcore.ArrayMarshaler { return sliceArr(nil) }, nil, false},
			{"floatArr{2.5}", "struct", "floatArr", func() zapcore.ArrayMarshaler { return floatArr{2.5} }, []string{vF64(2.5)}, false},
			{"floatArr{NaN}", "NaN", "floatArr", func() zapcore.ArrayMarshaler { return floatArr{math.NaN()} }, []string{vF64(math.NaN())}, true},
		}
		var cs []kase
		for _, v := range vals {
			v := v
			cs = append(cs, kase{in: v.desc, cls: v.cls, nodisc: v.nan,
				mk:   func(key string) zap.Field { return zap.Array(key, v.m()) },
				want: func(key string) []string { return []string{kv(key, vArr(v.id, v.elems))} },
				anyV: func() any { return v.m() }})
		}
		rows = append(rows, listRow("zap.Array", "zapcore.ArrayMarshaler", cs, nil))
	}

	// Objects, ObjectValues, Stringers (generic; several instantiations, all lists of <= 3 elements)
	{
		tuples := func(n int) [][]int { // all index lists of length <= 3 over n symbols
			out := [][]int{{}}
			cur := [][]int{{}}
			for l := 1; l <= 3; l++ {
				var next [][]int
				for _, p := range cur {
					for s := 0; s < n; s++ {
						next = append(next, append(append([]int{}, p...), s))
					}
				}
				out = append(out, next...)
				cur = next
			}
			return out
		}
		var oc, ovc, stc []kase
		add := func(dst *[]kase, inst string, n int, mk func(idx []int, isNil bool) (func(string) zap.Field, []string)) {
			f, _ := mk(nil, true)
			*dst = append(*dst, kase{in: inst + "(nil)", cls: "nil", mk: f, want: func(key string) []string { return []string{kv(key, vArr("", nil))} }})
			for _, t := range tuples(n) {
				t := t
				f, el := mk(t, false)
				*dst = append(*dst, kase{in: fmt.Sprintf("%s%v", inst, t), cls: fmt.Sprintf("len%d", len(t)), mk: f,
					want: func(key string) []string { return []string{kv(key, vArr("", el))} }})
			}
		}
		vo := []valObj{{"v1", 1}, {"v2", -2}, {"", 0}}
		add(&oc, "[]valObj", len(vo), func(idx []int, isNil bool) (func(string) zap.Field, []string) {
			var vs []valObj
			var el []string
			if !isNil {
				vs = []valObj{}
			}
			for _, i := range idx {
				vs = append(vs, vo[i])
				el = append(el, vObj(vo[i].vid(), ptrObjLines(vo[i].id, vo[i].n)))
			}
			return func(key string) zap.Field { return zap.Objects(key, vs) }, el
		})
		po := []*ptrObj{{"p1", 1}, {"p2", math.MaxInt64}}
		add(&oc, "[]*ptrObj", len(po), func(idx []int, isNil bool) (func(string) zap.Field, []string) {
			var vs []*ptrObj
			var el []string
			if !isNil {
				vs = []*ptrObj{}
			}
			for _, i := range idx {
				vs = append(vs, po[i])
				el = append(el, vObj(po[i].vid(), ptrObjLines(po[i].id, po[i].n)))
			}
			return func(key string) zap.Field { return zap.Objects(key, vs) }, el
		})
		so := []sliceObj{{1}, nil, {2, 3}}
		add(&oc, "[]sliceObj", len(so), func(idx []int, isNil bool) (func(string) zap.Field, []string) {
			var vs []sliceObj
			var el []string
			if !isNil {
				vs = []sliceObj{}
			}
			for _, i := range idx {
				vs = append(vs, so[i])
				el = append(el, vObj(so[i].vid(), sliceObjLines(so[i])))
			}
			return func(key string) zap.Field { return zap.Objects(key, vs) }, el
		})
		pv := []ptrObj{{"q1", 1}, {"q2", -9}, {"", math.MinInt64}}
		add(&ovc, "[]ptrObj", len(pv), func(idx []int, isNil bool) (func(string) zap.Field, []string) {
			var vs []ptrObj
			var el []string
			if !isNil {
				vs = []ptrObj{}
			}
			for _, i := range idx {
				vs = append(vs, pv[i])
				el = append(el, vObj((&pv[i]).vid(), ptrObjLines(pv[i].id, pv[i].n)))
			}
			return func(key string) zap.Field { return zap.ObjectValues(key, vs) }, el
		})
		add(&ovc, "[]selfObj", 3, func(idx []int, isNil bool) (func(string) zap.Field, []string) {
			var vs []selfObj
			var el []string
			if !isNil {
				vs = []selfObj{}
			}
			for _, i := range idx {
				vs = append(vs, selfObj{id: "s" + strconv.Itoa(i)})
			}
			for k := range vs {
				vs[k].self = &vs[k] // after the slice has its final backing array
				el = append(el, vObj((&vs[k]).vid(), []string{kv("id", vStr(vs[k].id)), kv("receiver_is_the_element", vBool(true))}))
			}
			return func(key string) zap.Field { return zap.ObjectValues(key, vs) }, el
		})
		vst := []valStringer{{"a"}, {""}, {"\xff\n"}}
		add(&stc, "[]valStringer", len(vst), func(idx []int, isNil bool) (func(string) zap.Field, []string) {
			var vs []valStringer
			var el []string
			if !isNil {
				vs = []valStringer{}
			}
			for _, i := range idx {
				vs = append(vs, vst[i])
				el = append(el, vStr(vst[i].s))
			}
			return func(key string) zap.Field { return zap.Stringers(key, vs) }, el
		})
		pst := []*ptrStringer{{"p"}, {"q\""}}
		add(&stc, "[]*ptrStringer", len(pst), func(idx []int, isNil bool) (func(string) zap.Field, []string) {
			var vs []*ptrStringer
			var el []string
			if !isNil {
				vs = []*ptrStringer{}
			}
			for _, i := range idx {
				vs = append(vs, pst[i])
				el = append(el, vStr(pst[i].s))
			}
			return func(key string) zap.Field { return zap.Stringers(key, vs) }, el
		})
		// a pointer Stringer whose String copes with a nil receiver: a nil element is an ordinary value (its String() output),
		// also behind the interface element type
		gst := []*guardedStringer{{"g"}, nil, {"h\n"}}
		gstr := func(g *guardedStringer) string { return g.String() }
		add(&stc, "[]*guardedStringer", len(gst), func(idx []int, isNil bool) (func(string) zap.Field, []string) {
			var vs []*guardedStringer
			var el []string
			if !isNil {
				vs = []*guardedStringer{}
			}
			for _, i := range idx {
				vs = append(vs, gst[i])
				el = append(el, vStr(gstr(gst[i])))
			}
			return func(key string) zap.Field { return zap.Stringers(key, vs) }, el
		})
		add(&stc, "[]fmt.Stringer", len(gst), func(idx []int, isNil bool) (func(string) zap.Field, []string) {
			var vs []fmt.Stringer
			var el []string
			if !isNil {
				vs = []fmt.Stringer{}
			}
			for _, i := range idx {
				vs = append(vs, gst[i])
				el = append(el, vStr(gstr(gst[i])))
			}
			return func(key string) zap.Field { return zap.Stringers(key, vs) }, el
		})
		sst := []sliceStringer{{"a", "b"}, nil}
		add(&stc, "[]sliceStringer", len(sst), func(idx []int, isNil bool) (func(string) zap.Field, []string) {
			var vs []sliceStringer
			var el []string
			if !isNil {
				vs = []sliceStringer{}
			}
			for _, i := range idx {
				vs = append(vs, sst[i])
				el = append(el, vStr(sst[i].String()))
			}
			return func(key string) zap.Field { return zap.Stringers(key, vs) }, el
		})
		rows = append(rows, listRow("zap.Objects", "", oc, []int{0, 1, 2, 5, 42, 43}), listRow("zap.ObjectValues", "", ovc, []int{0, 1, 2, 5}), listRow("zap.Stringers", "", stc, []int{0, 1, 2, 5, 42, 43}))
	}

	// errors
	{
		e1 := errors.New("boom")
		e2 := errors.New("")
		e3 := fmt.Errorf("wrap: %w", e1)
		pe := &ptrErr{"ptr-err\xff"}
		ge := &groupErr{"group", []error{e1, nil, e3}}
		type evl struct {
			desc, cls string
			e         error
			lines     func(key string) []string
		}
		plain := func(msg string) func(string) []string {
			return func(key string) []string { return []string{kv(key, vStr(msg))} }
		}
		errObjLine := func(msg string) string { return vObj("", []string{kv("error", vStr(msg))}) }
		vals := []evl{
			{"nil", "nil", nil, func(string) []string { return nil }},
			{"errors.New(boom)", "plain", e1, plain("boom")},
			{"errors.New(\"\")", "plain", e2, plain("")},
			{"fmt.Errorf(%w)", "wrapped", e3, plain("wrap: boom")},
			{"*ptrErr", "pointer", pe, plain("ptr-err\xff")},
			{"(*guardedErr)(nil)", "typed-nil", (*guardedErr)(nil), plain("guarded-nil-error")},
			{"(*ptrErr)(nil)", "typed-nil", (*ptrErr)(nil), plain("<nil>")}, // CHANGELOG #867
			{"sliceErr", "uncomparable", sliceErr{"x", "y"}, plain("x; y")},
			{"verboseErr(with verbose)", "formatter", verboseErr{"short", "short\nstack..."}, func(key string) []string {
				return []string{kv(key, vStr("short")), kv(key+"Verbose", vStr("short\nstack..."))}
			}},
			{"verboseErr(same)", "formatter", verboseErr{"only", ""}, plain("only")},
			// the verbose form differs from the message without being longer
			{"verboseErr(shorter verbose)", "formatter", verboseErr{"a long message", "E42"}, func(key string) []string {
				return []string{kv(key, vStr("a long message")), kv(key+"Verbose", vStr("E42"))}
			}},
			{"verboseErr(same length, different)", "formatter", verboseErr{"abcd", "abcX"}, func(key string) []string {
				return []string{kv(key, vStr("abcd")), kv(key+"Verbose", vStr("abcX"))}
			}},
			{"groupErr{boom,nil,wrap}", "error-group", ge, func(key string) []string {
				return []string{kv(key, vStr("group")), kv(key+"Causes", vArr("", []string{errObjLine("boom"), errObjLine("wrap: boom")}))}
			}},
			// groups of one entry, of only nil entries, of none: nil causes are skipped whatever the length
			{"groupErr{nil}", "error-group", &groupErr{"g1", []error{nil}}, func(key string) []string {
				return []string{kv(key, vStr("g1")), kv(key+"Causes", vArr("", nil))}
			}},
			{"groupErr{nil,nil}", "error-group", &groupErr{"g2", []error{nil, nil}}, func(key string) []string {
				return []string{kv(key, vStr("g2")), kv(key+"Causes", vArr("", nil))}
			}},
			{"groupErr{boom}", "error-group", &groupErr{"g3", []error{e1}}, func(key string) []string {
				return []string{kv(key, vStr("g3")), kv(key+"Causes", vArr("", []string{errObjLine("boom")}))}
			}},
			{"groupErr{}", "error-group", &groupErr{"g4", []error{}}, func(key string) []string {
				return []string{kv(key, vStr("g4")), kv(key+"Causes", vArr("", nil))}
			}},
		}
		var nc, ec []kase
		for _, v := range vals {
			v := v
			nk := kase{in: v.desc, cls: v.cls, mk: func(key string) zap.Field { return zap.NamedError(key, v.e) }, want: v.lines}
			if v.e != nil { // a nil interface is not an `error` case of the switch
				nk.anyV = func() any { return v.e }
			}
			nc = append(nc, nk)
			ec = append(ec, kase{in: v.desc, cls: v.cls, mk: func(string) zap.Field { return zap.Error(v.e) }, want: func(string) []string { return v.lines("error") }})
		}
		re := listRow("zap.Error", "", ec, nil)
		re.keyless = true
		rows = append(rows, listRow("zap.NamedError", "error", nc, nil), re)

		// Errors: all lists of <= 3 over {boom, nil, wrap, typed-nil(guarded), verbose, verbose-shorter}
		type es struct {
			desc string
			e    error
			el   []string // elements contributed (nil error: none)
		}
		syms := []es{
			{"boom", e1, []string{errObjLine("boom")}},
			{"nil", nil, nil},
			{"wrap", e3, []string{errObjLine("wrap: boom")}},
			{"guarded-typed-nil", (*guardedErr)(nil), []string{errObjLine("guarded-nil-error")}},
			{"verbose", verboseErr{"s", "s+"}, []string{vObj("", []string{kv("error", vStr("s")), kv("errorVerbose", vStr("s+"))})}},
			{"verbose-shorter", verboseErr{"long msg", "v"}, []string{vObj("", []string{kv("error", vStr("long msg")), kv("errorVerbose", vStr("v"))})}},
		}
		lists := [][]es{nil}
		cur := [][]es{nil}
		for l := 1; l <= 3; l++ {
			var next [][]es
			for _, p := range cur {
				for _, s := range syms {
					next = append(next, append(append([]es{}, p...), s))
				}
			}
			lists = append(lists, next...)
			cur = next
		}
		var cs []kase
		cs = append(cs, kase{in: "nil", cls: "nil", mk: func(key string) zap.Field { return zap.Errors(key, nil) },
			want: func(key string) []string { return []string{kv(key, vArr("", nil))} }, anyV: func() any { return []error(nil) }})
		for _, l := range lists {
			l := l
			errs := []error{}
			var descs, el []string
			cls := fmt.Sprintf("len%d", len(l))
			for _, s := range l {
				errs = append(errs, s.e)
				descs = append(descs, s.desc)
				el = append(el, s.el...)
				if s.e == nil {
					cls = fmt.Sprintf("len%d-with-nil-element", len(l))
				}
			}
			cs = append(cs, kase{in: "[" + strings.Join(descs, ",") + "]", cls: cls,
				mk:   func(key string) zap.Field { return zap.Errors(key, errs) },
				mk2:  func(key string) zap.Field { return zap.Errors(key, append([]error{}, errs...)) },
				want: func(key string) []string { return []string{kv(key, vArr("", el))} },
				anyV: func() any { return errs }})
		}
		rows = append(rows, listRow("zap.Errors", "[]error", cs, []int{0, 1, 2, 3, 7, 8}))
	}
	return rows
}

func trunc(s string, n int) string {
	if len(s) > n {
		return s[:n] + fmt.Sprintf("...(%d bytes)", len(s))
	}
	return s
}
