package main

// Harness-defined input types: Stringers, errors, Object/ArrayMarshalers with
// comparable (pointer, struct) and UNCOMPARABLE (slice, map, struct holding a
// slice) dynamic types, and named types that are outside zap.Any's switch.

import (
	"fmt"
	"sort"
	"strings"

	"go.uber.org/zap/zapcore"
)

// --- Stringers -------------------------------------------------------------

type ptrStringer struct{ s string }

func (p *ptrStringer) String() string { return p.s } // nil receiver: nil dereference

type guardedStringer struct{ s string }

func (p *guardedStringer) String() string {
	if p == nil {
		return "guarded-nil"
	}
	return p.s
}

type valStringer struct{ s string }

func (v valStringer) String() string { return v.s }

type sliceStringer []string // uncomparable

func (s sliceStringer) String() string { return strings.Join(s, "+") }

type mapStringer map[string]int // uncomparable

func (m mapStringer) String() string {
	var ks []string
	for k, v := range m {
		ks = append(ks, fmt.Sprintf("%s:%d", k, v))
	}
	sort.Strings(ks)
	return strings.Join(ks, ",")
}

type structSliceStringer struct{ parts []string } // uncomparable struct

func (s structSliceStringer) String() string { return strings.Join(s.parts, "/") }

// --- errors ----------------------------------------------------------------

type ptrErr struct{ msg string }

func (e *ptrErr) Error() string { return e.msg } // nil receiver: nil dereference

type guardedErr struct{ msg string }

func (e *guardedErr) Error() string {
	if e == nil {
		return "guarded-nil-error"
	}
	return e.msg
}

type sliceErr []string // uncomparable

func (e sliceErr) Error() string { return strings.Join(e, "; ") }

// verboseErr implements fmt.Formatter: %+v differs from Error() iff verbose != "".
type verboseErr struct{ msg, verbose string }

func (e verboseErr) Error() string { return e.msg }
func (e verboseErr) Format(s fmt.State, c rune) {
	if c == 'v' && s.Flag('+') && e.verbose != "" {
		fmt.Fprint(s, e.verbose)
		return
	}
	fmt.Fprint(s, e.msg)
}

// groupErr implements zapcore's errorGroup interface (not fmt.Formatter).
type groupErr struct {
	msg  string
	errs []error
}

func (e *groupErr) Error() string   { return e.msg }
func (e *groupErr) Errors() []error { return e.errs }

// --- marshalers ------------------------------------------------------------

type ptrObj struct {
	id string
	n  int64
}

func (o *ptrObj) vid() string { return "ptrObj#" + o.id }
func (o *ptrObj) MarshalLogObject(enc zapcore.ObjectEncoder) error {
	enc.AddString("id", o.id)
	enc.AddInt64("n", o.n)
	return nil
}
func ptrObjLines(id string, n int64) []string {
	return []string{kv("id", vStr(id)), kv("n", vInt(n))}
}

type valObj struct {
	id string
	n  int64
}

func (o valObj) vid() string { return "valObj#" + o.id }
func (o valObj) MarshalLogObject(enc zapcore.ObjectEncoder) error {
	enc.AddString("id", o.id)
	enc.AddInt64("n", o.n)
	return nil
}

type sliceObj []int64 // uncomparable

func (o sliceObj) vid() string { return fmt.Sprintf("sliceObj%v", []int64(o)) }
func (o sliceObj) MarshalLogObject(enc zapcore.ObjectEncoder) error {
	for i, v := range o {
		enc.AddInt64(fmt.Sprintf("e%d", i), v)
	}
	return nil
}
func sliceObjLines(o []int64) []string {
	var l []string
	for i, v := range o {
		l = append(l, kv(fmt.Sprintf("e%d", i), vInt(v)))
	}
	return l
}

type mapObj map[string]int64 // uncomparable

func (o mapObj) keys() []string {
	var ks []string
	for k := range o {
		ks = append(ks, k)
	}
	sort.Strings(ks)
	return ks
}
func (o mapObj) vid() string { return fmt.Sprintf("mapObj%v", o.keys()) }
func (o mapObj) MarshalLogObject(enc zapcore.ObjectEncoder) error {
	for _, k := range o.keys() {
		enc.AddInt64(k, o[k])
	}
	return nil
}
func mapObjLines(o mapObj) []string {
	var l []string
	for _, k := range o.keys() {
		l = append(l, kv(k, vInt(o[k])))
	}
	return l
}

type structSliceObj struct{ vals []int64 } // uncomparable struct

func (o structSliceObj) vid() string { return fmt.Sprintf("structSliceObj%v", o.vals) }
func (o structSliceObj) MarshalLogObject(enc zapcore.ObjectEncoder) error {
	return sliceObj(o.vals).MarshalLogObject(enc)
}

// floatObj holds a float by value (reflect.DeepEqual territory).
type floatObj struct{ x float64 }

func (o floatObj) vid() string { return "floatObj" }
func (o floatObj) MarshalLogObject(enc zapcore.ObjectEncoder) error {
	enc.AddFloat64("x", o.x)
	return nil
}

type ptrArr struct {
	id   string
	vals []int64
}

func (a *ptrArr) vid() string { return "ptrArr#" + a.id }
func (a *ptrArr) MarshalLogArray(enc zapcore.ArrayEncoder) error {
	for _, v := range a.vals {
		enc.AppendInt64(v)
	}
	return nil
}

type sliceArr []int64 // uncomparable

func (a sliceArr) vid() string { return fmt.Sprintf("sliceArr%v", []int64(a)) }
func (a sliceArr) MarshalLogArray(enc zapcore.ArrayEncoder) error {
	for _, v := range a {
		enc.AppendInt64(v)
	}
	return nil
}

type valArr struct {
	id string
	a  [2]int64
}

func (a valArr) vid() string { return "valArr#" + a.id }
func (a valArr) MarshalLogArray(enc zapcore.ArrayEncoder) error {
	enc.AppendInt64(a.a[0])
	enc.AppendInt64(a.a[1])
	return nil
}

type floatArr struct{ x float64 }

func (a floatArr) vid() string { return "floatArr" }
func (a floatArr) MarshalLogArray(enc zapcore.ArrayEncoder) error {
	enc.AppendFloat64(a.x)
	return nil
}

func intElems(vs []int64) []string {
	var l []string
	for _, v := range vs {
		l = append(l, vInt(v))
	}
	return l
}

// --- named types outside zap.Any's switch ---------------------------------

type (
	myInt    int
	myInt64  int64
	myUint8  uint8
	myStr    string
	myBool   bool
	myFloat  float64
	myBytes  []byte
	myInts   []int
	myStruct struct {
		A int
		B string
		c float64
	}
	myKey  string
	myVal  string
	myVals []myVal
)

// selfObj knows where it lives: its pointer-receiver marshaler reports whether the receiver is the very
// element the caller put into the slice (a copy handed to the encoder is a different value: receiver
// state such as counters, caches or a strings.Builder would be lost or panic).
type selfObj struct {
	id   string
	self *selfObj
}

func (o *selfObj) vid() string { return "selfObj#" + o.id }
func (o *selfObj) MarshalLogObject(enc zapcore.ObjectEncoder) error {
	enc.AddString("id", o.id)
	enc.AddBool("receiver_is_the_element", o == o.self)
	return nil
}
