// Command c03 decides property C03: every exported Field constructor of
// package zap and exp/zapfield (list read from the current source with
// go/parser) delivers exactly the value it was given to the encoder, zap.Any
// picks the same representation as the typed constructor for every type in its
// switch and reflection for everything else, and Field.Equals is reflexive,
// symmetric, panic free, true for fields rebuilt from equal inputs and false
// for fields that differ in type, key or delivered value.
//
// Observation: a hand-written spy zapcore.ObjectEncoder / ArrayEncoder (spy.go)
// that records every call Field.AddTo makes with its exact arguments.
package main

import (
	"fmt"
	"hash/fnv"
	"os"
	"sort"
	"strings"
	"sync"
	"time"

	"go.uber.org/zap"
	"go.uber.org/zap/zapcore"
	"verif/harness/internal/ev"
	"verif/harness/internal/par"
)

type stats struct {
	delivered int // constructor cases observed through the spy
	anyEvals  int // zap.Any cases observed through the spy
	spyCalls  int
	trivial   int // cases whose promised trace is empty (Skip, nil error, empty inline object)
	distinct  map[uint64]struct{}
}

func (s *stats) merge(o *stats) {
	s.delivered += o.delivered
	s.anyEvals += o.anyEvals
	s.spyCalls += o.spyCalls
	s.trivial += o.trivial
	for k := range o.distinct {
		s.distinct[k] = struct{}{}
	}
}

// collector keeps the findings of one shard so that they can be handed to
// ev.Report in enumeration order after the parallel phase (deterministic
// choice of the first case per key, exact failing-case counts).
type collector struct {
	order []string
	first map[string][2]any
	count map[string]int
}

func newCollector() *collector {
	return &collector{first: map[string][2]any{}, count: map[string]int{}}
}

func (c *collector) Report(key, what string, replay any) {
	if c.count[key] == 0 {
		c.order = append(c.order, key)
		c.first[key] = [2]any{what, replay}
	}
	c.count[key]++
}

func (c *collector) flush(run *ev.Run) {
	for _, k := range c.order {
		f := c.first[k]
		for i := 0; i < c.count[k]; i++ {
			run.Report(k, f[0].(string), f[1])
		}
	}
}

func try(f func()) (pan any) {
	defer func() {
		if p := recover(); p != nil {
			pan = p
		}
	}()
	f()
	return nil
}

func eqLines(a, b []string) bool {
	if len(a) != len(b) {
		return false
	}
	for i := range a {
		if a[i] != b[i] {
			return false
		}
	}
	return true
}

func show(l []string) string {
	if len(l) == 0 {
		return "(no encoder call)"
	}
	return trunc(strings.Join(l, " | "), 400)
}

func short(name string) string { return strings.TrimPrefix(name, "zap.") }

func hashCase(rowIdx int, in, key string, viaAny bool) uint64 {
	h := fnv.New64a()
	fmt.Fprintf(h, "%d\x00%s\x00%s\x00%v", rowIdx, in, key, viaAny)
	return h.Sum64()
}

// deliver runs one case: constructor -> AddTo(spy) -> compare with the promised
// trace; and, when the row answers for a type of Any's switch, the same through zap.Any.
func deliver(run *collector, st *stats, ri int, r *row, c *kase, key string, doAny bool) {
	replay := map[string]any{"constructor": r.name, "input": trunc(c.in, 300), "key": key}
	var f zap.Field
	if p := try(func() { f = c.mk(key) }); p != nil {
		run.Report("deliver:panic-in-constructor:"+r.name+":"+c.cls, fmt.Sprintf("%s(%q, %s) panicked: %v", r.name, key, trunc(c.in, 200), p), replay)
		return
	}
	lines, calls, pan := observe(f)
	st.delivered++
	st.spyCalls += calls
	st.distinct[hashCase(ri, c.in, key, false)] = struct{}{}
	if pan != nil {
		run.Report("deliver:panic-in-AddTo:"+r.name+":"+c.cls, fmt.Sprintf("%s(%q, %s).AddTo panicked: %v", r.name, key, trunc(c.in, 200), pan), replay)
		return
	}
	var want []string
	msg := ""
	if c.verify != nil {
		msg = c.verify(key, lines)
	} else {
		want = c.want(key)
		if len(want) == 0 {
			st.trivial++
		}
		if !eqLines(lines, want) {
			msg = fmt.Sprintf("encoder received %s; the value given requires %s", show(lines), show(want))
		}
	}
	if msg != "" {
		replay["received"], replay["expected"] = lines, want
		run.Report("deliver:"+r.name+":"+c.cls, fmt.Sprintf("%s(%q, %s): %s", r.name, key, trunc(c.in, 200), msg), replay)
	}
	if !doAny || c.anyV == nil || r.anyType == "" {
		return
	}
	v := c.anyV()
	var fa zap.Field
	if p := try(func() { fa = zap.Any(key, v) }); p != nil {
		run.Report("any:panic:"+r.anyType+":"+c.cls, fmt.Sprintf("zap.Any(%q, %T %s) panicked: %v", key, v, trunc(c.in, 200), p), replay)
		return
	}
	la, calls, pan := observe(fa)
	st.anyEvals++
	st.spyCalls += calls
	st.distinct[hashCase(ri, c.in, key, true)] = struct{}{}
	if pan != nil {
		run.Report("any:panic:"+r.anyType+":"+c.cls, fmt.Sprintf("zap.Any(%q, %T %s).AddTo panicked: %v", key, v, trunc(c.in, 200), pan), replay)
		return
	}
	if c.verify == nil && !eqLines(la, want) {
		replay["received"], replay["expected"] = la, want
		run.Report("any:"+r.anyType+":"+c.cls, fmt.Sprintf("zap.Any(%q, %T %s): encoder received %s; the value given requires %s", key, v, trunc(c.in, 200), show(la), show(want)), replay)
	}
	if fa.Type != f.Type || fa.Key != f.Key || fa.Integer != f.Integer || fa.String != f.String || !eqLines(la, lines) {
		replay["any_trace"], replay["typed_trace"] = la, lines
		run.Report("any-vs-typed:"+r.anyType+":"+c.cls, fmt.Sprintf("zap.Any(%q, %T %s) is represented as {Type:%s Integer:%d String:%q} -> %s but %s gives {Type:%s Integer:%d String:%q} -> %s",
			key, v, trunc(c.in, 200), typeLabel(fa.Type), fa.Integer, trunc(fa.String, 60), show(la), r.name, typeLabel(f.Type), f.Integer, trunc(f.String, 60), show(lines)), replay)
	}
}

var typeNames = map[zapcore.FieldType]string{
	zapcore.UnknownType: "Unknown", zapcore.ArrayMarshalerType: "Array", zapcore.ObjectMarshalerType: "Object", zapcore.BinaryType: "Binary",
	zapcore.BoolType: "Bool", zapcore.ByteStringType: "ByteString", zapcore.Complex128Type: "Complex128", zapcore.Complex64Type: "Complex64",
	zapcore.DurationType: "Duration", zapcore.Float64Type: "Float64", zapcore.Float32Type: "Float32", zapcore.Int64Type: "Int64",
	zapcore.Int32Type: "Int32", zapcore.Int16Type: "Int16", zapcore.Int8Type: "Int8", zapcore.StringType: "String", zapcore.TimeType: "Time",
	zapcore.TimeFullType: "TimeFull", zapcore.Uint64Type: "Uint64", zapcore.Uint32Type: "Uint32", zapcore.Uint16Type: "Uint16", zapcore.Uint8Type: "Uint8",
	zapcore.UintptrType: "Uintptr", zapcore.ReflectType: "Reflect", zapcore.NamespaceType: "Namespace", zapcore.StringerType: "Stringer",
	zapcore.ErrorType: "Error", zapcore.SkipType: "Skip", zapcore.InlineMarshalerType: "Inline",
}

func typeLabel(t zapcore.FieldType) string {
	if n, ok := typeNames[t]; ok {
		return n
	}
	return fmt.Sprintf("Type%d", t)
}

func main() {
	// time.Local must be a real zone with DST, independent of the host configuration
	os.Setenv("TZ", "Europe/Berlin")
	run := ev.Start("C03", "exploration")
	thorough := run.Thorough()

	ctors, anyTypes := sourceConstructors()
	inSource := map[string]bool{}
	for _, c := range ctors {
		inSource[c.Name] = true
	}
	table := buildTable(thorough)
	inTable := map[string]bool{}
	anyCovered := map[string]bool{}
	var active []row
	staleSet := map[string]bool{}
	for _, r := range table {
		inTable[r.name] = true
		if !inSource[r.name] {
			staleSet[r.name] = true
			continue
		}
		active = append(active, r)
		if r.anyType != "" {
			anyCovered[r.anyType] = true
		}
	}
	uncovered, uncoveredAny, stale := []string{}, []string{}, []string{}
	for _, c := range ctors {
		if !inTable[c.Name] {
			uncovered = append(uncovered, c.Name+"  // "+c.Sig)
		}
	}
	for _, t := range anyTypes {
		if !anyCovered[t] {
			uncoveredAny = append(uncoveredAny, t)
		}
	}
	for n := range staleSet {
		stale = append(stale, n)
	}
	sort.Strings(stale)

	// ---- part 1+2: delivery and Any agreement, sharded over all cores
	type shard struct{ row, lo, hi int }
	var shards []shard
	const chunk = 2048
	for ri, r := range active {
		for lo := 0; lo < r.n; lo += chunk {
			hi := lo + chunk
			if hi > r.n {
				hi = r.n
			}
			shards = append(shards, shard{ri, lo, hi})
		}
	}
	keysAll := sStar(3)
	total := &stats{distinct: map[uint64]struct{}{}}
	perRow := make([]int, len(active))
	var mu sync.Mutex
	shardFindings := make([]*collector, len(shards))
	par.For(len(shards), func(si int) {
		sh := shards[si]
		r := &active[sh.row]
		st := &stats{distinct: map[uint64]struct{}{}}
		run := newCollector()
		shardFindings[si] = run
		for i := sh.lo; i < sh.hi; i++ {
			c := r.at(i)
			doAny := thorough || r.anyQuickN == 0 || i < r.anyQuickN
			deliver(run, st, sh.row, r, &c, "k", doAny)
			if r.keyless {
				continue
			}
			if i < 2 {
				for _, k := range keySet[1:] {
					deliver(run, st, sh.row, r, &c, k, doAny)
				}
			}
			if i == 0 && r.allKeys {
				for _, k := range keysAll {
					deliver(run, st, sh.row, r, &c, k, doAny)
				}
			}
		}
		mu.Lock()
		total.merge(st)
		perRow[sh.row] += st.delivered + st.anyEvals
		mu.Unlock()
	})
	for _, c := range shardFindings {
		c.flush(run)
	}

	// ---- part 3: Equals on all ordered pairs of the Equals alphabet
	type entry struct {
		ctor, cls, in, key string
		keyless            bool
		f1, f2             zap.Field
		trace              string
		nodisc, norebuild  bool
	}
	var ents []entry
	for ri := range active {
		r := &active[ri]
		for n, idx := range r.eqIdx {
			if idx >= r.n {
				continue
			}
			c := r.at(idx)
			keys := []string{"k"}
			if n == 0 && !r.keyless {
				keys = append(keys, "k2")
			}
			for _, key := range keys {
				e := entry{ctor: r.name, cls: c.cls, in: c.in, key: key, keyless: r.keyless, nodisc: c.nodisc, norebuild: c.norebuild}
				mk2 := c.mk2
				if mk2 == nil {
					mk2 = c.mk
				}
				if p := try(func() { e.f1, e.f2 = c.mk(key), mk2(key) }); p != nil {
					continue // reported by part 1
				}
				lines, _, pan := observe(e.f1)
				if pan != nil {
					continue
				}
				e.trace = strings.Join(lines, " | ")
				ents = append(ents, e)
			}
		}
	}
	label := func(e *entry) string { return typeLabel(e.f1.Type) + "-" + e.cls }
	desc := func(e *entry) string {
		if e.keyless {
			return fmt.Sprintf("%s(%s)", e.ctor, trunc(e.in, 120))
		}
		return fmt.Sprintf("%s(%q, %s)", e.ctor, e.key, trunc(e.in, 120))
	}
	safeEq := func(a, b zap.Field) (res bool, pan any) {
		defer func() {
			if p := recover(); p != nil {
				pan = p
			}
		}()
		return a.Equals(b), nil
	}
	eqCalls := make([]int, len(ents))
	eqFindings := make([]*collector, len(ents))
	par.For(len(ents), func(i int) {
		a := &ents[i]
		run := newCollector()
		eqFindings[i] = run
		n := 0
		// reflexive / never panics
		refl, pan := safeEq(a.f1, a.f1)
		n++
		ok := true
		if pan != nil {
			ok = false
			run.Report("equals:panic:"+label(a), fmt.Sprintf("f := %s; f.Equals(f) panicked: %v", desc(a), pan), map[string]any{"a": desc(a), "b": desc(a)})
		} else if !refl {
			ok = false
			run.Report("equals:not-reflexive:"+label(a), fmt.Sprintf("f := %s; f.Equals(f) == false", desc(a)), map[string]any{"a": desc(a), "b": desc(a)})
		}
		// rebuilt from an equal, separately built input
		if ok && !a.norebuild {
			r1, p1 := safeEq(a.f1, a.f2)
			r2, p2 := safeEq(a.f2, a.f1)
			n += 2
			if p1 != nil || p2 != nil {
				run.Report("equals:panic:"+label(a), fmt.Sprintf("%s built twice from equal inputs: Equals panicked: %v %v", desc(a), p1, p2), map[string]any{"a": desc(a), "b": "rebuilt"})
			} else if !r1 || !r2 {
				run.Report("equals:rebuilt-unequal:"+label(a), fmt.Sprintf("%s built twice from equal inputs: a.Equals(b)=%v b.Equals(a)=%v", desc(a), r1, r2), map[string]any{"a": desc(a), "b": "rebuilt"})
			}
		}
		for j := range ents {
			if j == i {
				continue
			}
			b := &ents[j]
			rep := map[string]any{"a": desc(a), "b": desc(b)}
			ab, pab := safeEq(a.f1, b.f1)
			n++
			if pab != nil {
				run.Report("equals:panic:"+label(a), fmt.Sprintf("a := %s; b := %s; a.Equals(b) panicked: %v", desc(a), desc(b), pab), rep)
				continue
			}
			if j > i { // symmetry once per unordered pair (the reverse call is counted at j)
				ba, pba := safeEq(b.f1, a.f1)
				if pba == nil && ab != ba {
					run.Report("equals:asymmetric:"+label(a)+"/"+label(b), fmt.Sprintf("a := %s; b := %s; a.Equals(b)=%v but b.Equals(a)=%v", desc(a), desc(b), ab, ba), rep)
				}
			}
			differ := a.f1.Type != b.f1.Type || a.f1.Key != b.f1.Key || (!a.nodisc && !b.nodisc && a.trace != b.trace)
			if differ && ab {
				k := label(a)
				if label(b) != k {
					k += "/" + label(b)
				}
				run.Report("equals:distinct-fields-equal:"+k, fmt.Sprintf("a := %s -> %s; b := %s -> %s; a.Equals(b)=true although type, key or delivered value differ", desc(a), trunc(a.trace, 150), desc(b), trunc(b.trace, 150)), rep)
			}
		}
		eqCalls[i] = n
	})
	for _, c := range eqFindings {
		c.flush(run)
	}
	eqTotal := 0
	for _, n := range eqCalls {
		eqTotal += n
	}

	// ---- evidence
	rowCounts := map[string]int{}
	for i, r := range active {
		rowCounts[r.name] += perRow[i]
	}
	localEvals := localReassigned(run)
	covered := []string{}
	for n := range rowCounts {
		covered = append(covered, n)
	}
	sort.Strings(covered)
	names := []string{}
	for _, c := range ctors {
		names = append(names, c.Name)
	}
	localName, _ := time.Date(2021, 7, 1, 12, 0, 0, 0, time.Local).Zone()
	sampleOf := func(name string, i int) any {
		for ri := range active {
			if active[ri].name == name && i < active[ri].n {
				c := active[ri].at(i)
				s := map[string]any{"constructor": name, "input": trunc(c.in, 120)}
				if c.want != nil {
					s["promised_trace"] = c.want("k")
				}
				return s
			}
		}
		return map[string]any{"constructor": name, "absent": true}
	}
	run.Assume = []string{
		"value domains are alphabets: 8/16-bit integers and bool complete; 32/64-bit integers, floats, durations by every single-bit / all-ones-below-bit pattern and complements; complex numbers as a 12x12 grid; strings = every string of <=3 (thorough: <=4) units over 16 byte-units; times = 19 instants x 8 location kinds; slices nil/empty/aliasing sub-slices/all 2- and 3-tuples over 4-5 boundary elements/all single-element slices",
		"integer delivery is compared by signedness class and decimal value, not by method width (Int32 through AddInt64 is accepted, uint32 through a signed method or a truncated value is not); float/complex width is pinned",
		"time-valued constructors are also encoded after the program has assigned another zone to time.Local between construction and encoding (the field must have captured its value)",
		"left out (documentation silent): nil Object/Array marshalers, nil elements in Objects and nil elements in Stringers whose String method does not cope with a nil receiver (a nil pointer whose String copes with it is an ordinary value and is in the alphabet), Stringers or errors whose method panics on a non-nil receiver, values implementing more than one of ObjectMarshaler/ArrayMarshaler/error/Stringer handed to Any (precedence undocumented), StackSkip beyond the stack depth, Fields assembled by hand instead of through a constructor",
		"typed nil pointers whose Error/String method dereferences the receiver must arrive as \"<nil>\" (CHANGELOG #854, #867)",
		"Equals: 'equal inputs' means == / element-wise == inputs; fields rebuilt from separately allocated NaN-holding slices are not required to be equal, reflexivity (f.Equals(f)) is required for every field; Equals==false is required when type, key or delivered value differ, except between +0/-0 and NaN-holding values where Go's == and the bit pattern disagree",
		"the constructor list and Any's case list come from go/parser on " + repoRoot() + "; constructors without a driver row are listed under uncovered_constructors and are NOT checked",
	}
	run.Finish(map[string]any{
		"evaluations":                 total.delivered + total.anyEvals + eqTotal + localEvals,
		"time_local_reassigned_cases": localEvals,
		"distinct_nontrivial":         len(total.distinct) - total.trivial + len(ents)*len(ents),
		"rule":                        "part 1: every case of every driver row (constructor x input alphabet, first two cases under 8 keys, String/Int64/Namespace/Str under every S* key) -> Field.AddTo(spy) -> trace compared with the promised trace; part 2: the same input through zap.Any for every row that answers for a case type of Any's switch (trace vs promise, representation vs typed constructor), plus named types outside the switch -> AddReflected; part 3: Equals on every ordered pair of the Equals alphabet, f.Equals(f), and f vs the field rebuilt from an equal input. distinct = distinct (driver row, input, key, direct|via Any) tuples minus those whose promised trace is empty (Skip, nil error) + ordered pairs of distinct Equals-alphabet fields",
		"exhaustive":                  true,
		"repo":                        repoRoot(),
		"constructors_in_source":      len(ctors),
		"constructor_names":           names,
		"constructors_covered":        len(covered),
		"uncovered_constructors":      uncovered,
		"driver_rows_not_in_source":   stale,
		"any_switch_types":            len(anyTypes),
		"uncovered_any_types":         uncoveredAny,
		"delivery_cases":              total.delivered,
		"any_cases":                   total.anyEvals,
		"spy_calls":                   total.spyCalls,
		"trivial_cases":               total.trivial,
		"equals_alphabet":             len(ents),
		"equals_calls":                eqTotal,
		"cases_per_constructor":       rowCounts,
		"local_zone_in_july":          localName,
		"sixteen_bit_any_cross":       map[bool]string{true: "complete (65536 values x scalar, pointer, single-element slice)", false: "boundary patterns only"}[thorough],
		"samples": []any{
			sampleOf("zap.Uint32", 2), sampleOf("zap.Float32", 6), sampleOf("zap.Time", 65), sampleOf("zap.Timep", 0),
			sampleOf("zap.Int16s", 3), sampleOf("zap.NamedError", 10), sampleOf("zap.Stringer", 3), sampleOf("zap.Any", 7),
		},
	})
}

// localReassigned: a field captures its value when it is BUILT. Between construction and encoding the
// program assigns another zone to time.Local (legal: it is an exported variable); the time the encoder
// receives must still carry the zone it was given. Every time-valued constructor, times in time.Local
// and in other zones, three instants.
func localReassigned(run *ev.Run) (evals int) {
	saved := time.Local
	defer func() { time.Local = saved }()
	zoneA := time.FixedZone("ZA", 3600)
	zoneB := time.FixedZone("ZB", -2*3600)
	type tc struct {
		name string
		mk   func(t time.Time) zap.Field
		want func(t time.Time) []string
	}
	one := func(t time.Time) []string { return []string{kv("k", vTime(t))} }
	ctors := []tc{
		{"zap.Time", func(t time.Time) zap.Field { return zap.Time("k", t) }, one},
		{"zap.Timep", func(t time.Time) zap.Field { return zap.Timep("k", &t) }, one},
		{"zap.Any(time.Time)", func(t time.Time) zap.Field { return zap.Any("k", t) }, one},
		{"zap.Any(*time.Time)", func(t time.Time) zap.Field { return zap.Any("k", &t) }, one},
		{"zap.Times", func(t time.Time) zap.Field { return zap.Times("k", []time.Time{t, t.Add(time.Second)}) }, func(t time.Time) []string {
			return []string{kv("k", vArr("", []string{vTime(t), vTime(t.Add(time.Second))}))}
		}},
	}
	for _, c := range ctors {
		for _, unix := range []int64{0, 1700000000, -5} {
			for _, inLocal := range []bool{true, false} {
				evals++
				time.Local = zoneA
				t := time.Unix(unix, 7).In(time.UTC)
				if inLocal {
					t = time.Unix(unix, 7) // in time.Local, which is zone ZA at this moment
				}
				f := c.mk(t)
				want := c.want(t)
				time.Local = zoneB
				lines, _, pan := observe(f)
				time.Local = saved
				if pan != nil || strings.Join(lines, ";") != strings.Join(want, ";") {
					run.Report("deliver:"+c.name+":time.Local-reassigned-before-encoding", fmt.Sprintf("%s built from %v (time.Local = ZA +01:00 at that moment), encoded after the program set time.Local to ZB -02:00: encoder received %v (panic %v); the value given requires %v", c.name, t, lines, pan, want), map[string]any{"constructor": c.name, "unix": unix, "in_local": inLocal})
				}
			}
		}
	}
	return
}
