package main

// Value alphabets. Every list is deterministic, duplicate free and ordered
// simplest-first.

import (
	"math"
	"time"
	_ "time/tzdata" // loaded zones must not depend on the host

	"verif/harness/internal/ev"
)

func dedupe[T comparable](in []T) []T {
	seen := make(map[T]bool, len(in))
	out := in[:0:0]
	for _, v := range in {
		if !seen[v] {
			seen[v] = true
			out = append(out, v)
		}
	}
	return out
}

// patterns: 0, 1, all-ones, top bit, max-signed, then for every bit i the
// single bit, all-ones-below-bit and the complements of both.
func patterns(bits int) []uint64 {
	mask := ^uint64(0)
	if bits < 64 {
		mask = uint64(1)<<bits - 1
	}
	out := []uint64{0, 1, mask, uint64(1) << (bits - 1), uint64(1)<<(bits-1) - 1, 2, mask - 1}
	for i := 0; i < bits; i++ {
		p := uint64(1) << i
		out = append(out, p, p-1, ^p&mask, ^(p-1)&mask)
	}
	return dedupe(out)
}

// full enumerates a whole 8/16-bit domain, boundary patterns first; the
// second result is the number of leading boundary values.
func full(bits int) ([]uint64, int) {
	out := patterns(bits)
	nb := len(out)
	for v := uint64(0); v < uint64(1)<<bits; v++ {
		out = append(out, v)
	}
	return dedupe(out), nb
}

func conv[T any](in []uint64, f func(uint64) T) []T {
	out := make([]T, len(in))
	for i, v := range in {
		out[i] = f(v)
	}
	return out
}

func float64s() []float64 {
	bitsl := []uint64{
		0, 1 << 63, // +0, -0
		math.Float64bits(1), math.Float64bits(-1),
		0x7ff8000000000000, 0x7ff8000000000001, 0x7ff0000000000001, 0xfff8000000000000, 0x7fffffffffffffff, 0xfff0000000000001, // NaNs, distinct payloads
		0x7ff0000000000000, 0xfff0000000000000, // +-Inf
		1, 1<<63 | 1, 0x000fffffffffffff, 0x0010000000000000, // subnormals, smallest normal
		math.Float64bits(math.MaxFloat64), math.Float64bits(-math.MaxFloat64),
		math.Float64bits(0.1), math.Float64bits(1.0 / 3), math.Float64bits(1e21), math.Float64bits(1e-7),
		math.Float64bits(float64(1<<53 + 2)), math.Float64bits(math.Pi),
	}
	bitsl = append(bitsl, patterns(64)...)
	return conv(dedupe(bitsl), math.Float64frombits)
}

func float32s() []float32 {
	bitsl := []uint64{
		0, 1 << 31,
		uint64(math.Float32bits(1)), uint64(math.Float32bits(-1)),
		0x7fc00000, 0x7fc00001, 0x7f800001, 0xffc00000, 0x7fffffff, 0xff800001,
		0x7f800000, 0xff800000,
		1, 1<<31 | 1, 0x007fffff, 0x00800000,
		uint64(math.Float32bits(math.MaxFloat32)), uint64(math.Float32bits(-math.MaxFloat32)),
		uint64(math.Float32bits(0.1)), uint64(math.Float32bits(1.0 / 3)), uint64(math.Float32bits(16777216)), uint64(math.Float32bits(math.Pi)),
	}
	bitsl = append(bitsl, patterns(32)...)
	return conv(dedupe(bitsl), func(b uint64) float32 { return math.Float32frombits(uint32(b)) })
}

// twelve floats for the complex grids
func complexParts64() []float64 {
	return conv([]uint64{
		0, 1 << 63, math.Float64bits(1), math.Float64bits(-1), math.Float64bits(0.1),
		math.Float64bits(math.MaxFloat64), 1, 0x7ff0000000000000, 0xfff0000000000000,
		0x7ff8000000000000, 0x7ff8000000000123, math.Float64bits(1e-7),
	}, math.Float64frombits)
}

func complexParts32() []float32 {
	return conv([]uint64{
		0, 1 << 31, uint64(math.Float32bits(1)), uint64(math.Float32bits(-1)), uint64(math.Float32bits(0.1)),
		uint64(math.Float32bits(math.MaxFloat32)), 1, 0x7f800000, 0xff800000,
		0x7fc00000, 0x7fc00123, uint64(math.Float32bits(1e-7)),
	}, func(b uint64) float32 { return math.Float32frombits(uint32(b)) })
}

func complex128s() []complex128 {
	p := complexParts64()
	var out []complex128
	for _, re := range p {
		for _, im := range p {
			out = append(out, complex(re, im))
		}
	}
	return out
}

func complex64s() []complex64 {
	p := complexParts32()
	var out []complex64
	for _, re := range p {
		for _, im := range p {
			out = append(out, complex(re, im))
		}
	}
	return out
}

// ---------------------------------------------------------------------------
// strings: S* = every string of <= 3 units over 16 byte-units

var strUnits = []string{"a", "\"", "\\", "\n", "\t", "\x00", "\x1f", "\x7f", "\u00e9", "\u2028", "\U0001F600", "\ufffd", "\x80", "\xc3", "\xed\xa0\x80", "\xff"}

func sStar(maxLen int) []string {
	out := []string{""}
	cur := []string{""}
	for l := 1; l <= maxLen; l++ {
		var next []string
		for _, p := range cur {
			for _, u := range strUnits {
				next = append(next, p+u)
			}
		}
		out = append(out, next...)
		cur = next
	}
	return out
}

// keys every keyed constructor is run under (first cases of each row)
var keySet = []string{"k", "", "a\"b\\c", "\u00e9\u2028", "\xff\x80", "k k\n", string(make([]byte, 3)), "a-very-long-key-0123456789-0123456789-0123456789-0123456789-0123456789-0123456789-0123456789-0123456789-0123456789-0123456789-0123456789-0123456789-0123456789-0123456789-0123456789-0123456789-0123456789-0123456789-0123456789-0123456789-0123456789-0123456789-0123456789-0123456789"}

// ---------------------------------------------------------------------------
// times

type tval struct {
	t    time.Time
	desc string
	cls  string // <range>/<location kind>
}

func timeValues() []tval {
	minT := time.Unix(0, math.MinInt64)
	maxT := time.Unix(0, math.MaxInt64)
	ny, err := time.LoadLocation("America/New_York")
	if err != nil {
		ev.ToolError("LoadLocation: %v", err)
	}
	kol, err := time.LoadLocation("Asia/Kolkata")
	if err != nil {
		ev.ToolError("LoadLocation: %v", err)
	}
	type inst struct {
		t    time.Time
		desc string
		rng  string
	}
	insts := []inst{
		{time.Unix(0, 0), "unix-0", "in-range"},
		{time.Time{}, "zero-time", "below-min"},
		{time.Unix(0, 1), "unix+1ns", "in-range"},
		{time.Unix(0, -1), "unix-1ns", "in-range"},
		{time.Unix(1700000000, 123456789), "2023", "in-range"},
		{time.Date(2021, 3, 14, 6, 59, 59, 999999999, time.UTC), "us-dst-edge", "in-range"},
		{minT, "minTimeInt64", "boundary-min"},
		{minT.Add(1), "minTimeInt64+1ns", "boundary-min"},
		{minT.Add(-1), "minTimeInt64-1ns", "below-min"},
		{maxT, "maxTimeInt64", "boundary-max"},
		{maxT.Add(-1), "maxTimeInt64-1ns", "boundary-max"},
		{maxT.Add(1), "maxTimeInt64+1ns", "above-max"},
		{time.Date(1, 1, 1, 0, 0, 0, 1, time.UTC), "year-1+1ns", "below-min"},
		{time.Date(9999, 12, 31, 23, 59, 59, 999999999, time.UTC), "year-9999", "above-max"},
		{time.Date(10000, 1, 1, 0, 0, 0, 0, time.UTC), "year-10000", "above-max"},
		{time.Date(-5000, 6, 1, 0, 0, 0, 5, time.UTC), "year--5000", "below-min"},
		{time.Unix(1<<55, 999999999), "far-future", "above-max"},
		{time.Date(2038, 1, 19, 3, 14, 8, 0, time.UTC), "2038", "in-range"},
		{time.Date(1969, 12, 31, 23, 59, 59, 999999999, time.UTC), "1969", "in-range"},
	}
	type lk struct {
		kind string
		in   func(time.Time) time.Time
	}
	locs := []lk{
		{"UTC", func(t time.Time) time.Time { return t.In(time.UTC) }},
		{"nil-location", func(t time.Time) time.Time { return t.UTC() }}, // UTC() stores a nil *Location
		{"Local", func(t time.Time) time.Time { return t.In(time.Local) }},
		{"FixedZone+", func(t time.Time) time.Time { return t.In(time.FixedZone("EAST", 5*3600+1800)) }},
		{"FixedZone-", func(t time.Time) time.Time { return t.In(time.FixedZone("WEST", -8*3600)) }},
		{"FixedZone-unnamed", func(t time.Time) time.Time { return t.In(time.FixedZone("", 0)) }},
		{"loaded-NewYork", func(t time.Time) time.Time { return t.In(ny) }},
		{"loaded-Kolkata", func(t time.Time) time.Time { return t.In(kol) }},
	}
	var out []tval
	for _, i := range insts {
		for _, l := range locs {
			out = append(out, tval{l.in(i.t), i.desc + "@" + l.kind, i.rng + "/" + l.kind})
		}
	}
	// the genuine zero value (not converted)
	out = append(out, tval{time.Time{}, "time.Time{}", "below-min/zero-value"})
	return out
}
