// Command c01 decides property C01: every output of the JSON encoder over the
// enumerated field trees, contexts, strings, configurations and entries is
// exactly one RFC 8259 object on one line followed by the configured line ending.
package main

import (
	"go.uber.org/zap/zapcore"
	"verif/harness/internal/encx"
	"verif/harness/internal/ev"
)

func main() {
	run := ev.Start("C01", "exploration")
	d := encx.NewDriver(run, "c01")
	nodes, strLen := 4, 2
	levels := []zapcore.Level{zapcore.InfoLevel, zapcore.Level(42), zapcore.Level(-128)}
	if run.Thorough() {
		nodes, strLen = 5, 3
		levels = nil
		for l := -128; l <= 127; l += 1 {
			if l >= -2 && l <= 6 || l%16 == 0 || l == 127 || l == -128 {
				levels = append(levels, zapcore.Level(l))
			}
		}
	}
	d.F1(nodes)
	d.ReflectSeqs(nodes)
	strMax := 300
	if run.Thorough() {
		strMax = 1100
	}
	d.StringLengths(strMax)
	nsMax := 70
	if run.Thorough() {
		nsMax = 300
	}
	d.NamespaceDepths(nsMax)
	d.F2(strLen)
	d.F3(levels, true)
	// all 256 level values on the default configuration
	all := make([]zapcore.Level, 0, 256)
	for l := -128; l <= 127; l++ {
		all = append(all, zapcore.Level(l))
	}
	d.Levels(all)
	callerUnits := 5
	if run.Thorough() {
		callerUnits = 6
	}
	d.Callers(callerUnits)
	durMs := 3500
	if run.Thorough() {
		durMs = 100000
	}
	d.Durations(durMs)
	d.Times()
	d.Numbers()
	run.Assume = []string{
		"field trees: every tree with <= the stated number of nodes over the reduced leaf set x object/inline/dict/array containers x every marshaler error position x every split into <=2 With segments and call-site fields; full leaf alphabet (boundary numerics, NaN/Inf, hostile strings, failing/panicking/nil values) in 10 context classes; every string of <= the stated number of units over a 16-unit alphabet as value and as key",
		"configurations: full product of per-part key presence x built-in / nil / no-op sub-encoders (13440) x 32 entry variants x line endings; user-supplied sub-encoders other than nil/no-op/built-in are outside the alphabet",
		"oracle: own RFC 8259 recogniser + encoding/json.Valid as second opinion",
	}
	cov := d.Coverage("one evaluation = one EncodeEntry / Core.Write on the real JSON encoder; distinct = distinct output byte strings (FNV-64 of the line)")
	cov["max_tree_nodes"] = nodes
	cov["max_string_units"] = strLen
	run.Finish(cov)
}
