package main

import (
	"bytes"
	"encoding/json"
	"errors"
	"fmt"
	"io"
	"log/slog"
	"strconv"
	"strings"
	"time"
)

// ---------------------------------------------------------------------------
// Ordered JSON tree

// val is one node of an ordered JSON tree: object members keep their order and
// duplicates, numbers keep their literal (floats are re-formatted canonically).
type val struct {
	k   byte // 'o' object, 'a' array, 's' string, 'n' number, 'b' bool, 'z' null
	s   string
	mem []member
	arr []*val
}

type member struct {
	key string
	v   *val
}

func obj(ms ...member) *val { return &val{k: 'o', mem: ms} }
func str(s string) *val     { return &val{k: 's', s: s} }
func num(s string) *val     { return &val{k: 'n', s: s} }

func quote(b *strings.Builder, s string) {
	for i := 0; i < len(s); i++ {
		if c := s[i]; c < 0x20 || c >= 0x7f || c == '"' || c == '\\' {
			b.WriteString(strconv.Quote(s))
			return
		}
	}
	b.WriteByte('"')
	b.WriteString(s)
	b.WriteByte('"')
}

func (v *val) write(b *strings.Builder) {
	switch v.k {
	case 'o':
		b.WriteByte('{')
		for i, m := range v.mem {
			if i > 0 {
				b.WriteByte(',')
			}
			quote(b, m.key)
			b.WriteByte(':')
			m.v.write(b)
		}
		b.WriteByte('}')
	case 'a':
		b.WriteByte('[')
		for i, e := range v.arr {
			if i > 0 {
				b.WriteByte(',')
			}
			e.write(b)
		}
		b.WriteByte(']')
	case 's':
		if strings.HasPrefix(v.s, "LogValue panicked") {
			// slog.Value.Resolve turns a panic inside LogValue into an error value whose text carries a stack
			quote(b, "LogValue panicked")
			return
		}
		quote(b, v.s)
	case 'z':
		b.WriteString("null")
	default:
		b.WriteString(v.s)
	}
}

// canon is an injective rendering of the tree; two trees are equal iff their canon strings are.
func (v *val) canon() string {
	var b strings.Builder
	v.write(&b)
	return b.String()
}

// decode reads exactly one JSON value from line with the token stream of
// encoding/json.Decoder, preserving member order and duplicate keys.
func decode(line []byte) (*val, error) {
	dec := json.NewDecoder(bytes.NewReader(line))
	dec.UseNumber()
	v, err := parseVal(dec)
	if err != nil {
		return nil, err
	}
	if _, err := dec.Token(); err != io.EOF {
		return nil, fmt.Errorf("trailing data after the JSON value (%v)", err)
	}
	return v, nil
}

func parseVal(dec *json.Decoder) (*val, error) {
	t, err := dec.Token()
	if err != nil {
		return nil, err
	}
	switch x := t.(type) {
	case json.Delim:
		switch x {
		case '{':
			o := &val{k: 'o'}
			for dec.More() {
				kt, err := dec.Token()
				if err != nil {
					return nil, err
				}
				key, ok := kt.(string)
				if !ok {
					return nil, fmt.Errorf("object key is %T", kt)
				}
				c, err := parseVal(dec)
				if err != nil {
					return nil, err
				}
				o.mem = append(o.mem, member{key, c})
			}
			if _, err := dec.Token(); err != nil {
				return nil, err
			}
			return o, nil
		case '[':
			a := &val{k: 'a'}
			for dec.More() {
				c, err := parseVal(dec)
				if err != nil {
					return nil, err
				}
				a.arr = append(a.arr, c)
			}
			if _, err := dec.Token(); err != nil {
				return nil, err
			}
			return a, nil
		}
		return nil, fmt.Errorf("unexpected delimiter %v", x)
	case string:
		return str(x), nil
	case json.Number:
		s := x.String()
		if strings.ContainsAny(s, ".eE") {
			f, err := strconv.ParseFloat(s, 64)
			if err != nil {
				return nil, err
			}
			s = strconv.FormatFloat(f, 'g', -1, 64)
		}
		return num(s), nil
	case bool:
		return &val{k: 'b', s: strconv.FormatBool(x)}, nil
	case nil:
		return &val{k: 'z'}, nil
	}
	return nil, fmt.Errorf("unexpected token %T", t)
}

// ---------------------------------------------------------------------------
// Attribute specifications: from one spec both the slog.Attr handed to the real
// code and the expected tree are built (independently of slog.Value).

type skind int

const (
	kEmpty skind = iota // slog.Attr{}
	kLeaf
	kGroup
	kLV
)

type spec struct {
	label string
	key   string
	kind  skind
	mk    func() slog.Value // leaf
	want  *val              // leaf
	kids  []*spec           // group
	inner *spec             // LogValuer: the attribute value it resolves to (inner.key unused)
	built slog.Attr
	rel   [6]bool // which named departures (devNames) can change this attribute's rendering
}

type valuer struct{ v slog.Value }

// panicValuer's LogValue panics: slog defines the resolved value (an error value saying so).
type panicValuer struct{}

func (panicValuer) LogValue() slog.Value { panic("log valuer exploded") }

func (l valuer) LogValue() slog.Value { return l.v }

func (s *spec) value() slog.Value {
	switch s.kind {
	case kLeaf:
		return s.mk()
	case kGroup:
		as := make([]slog.Attr, len(s.kids))
		for i, c := range s.kids {
			as[i] = c.attr()
		}
		return slog.GroupValue(as...)
	case kLV:
		return slog.AnyValue(valuer{s.inner.value()})
	}
	return slog.Value{}
}

func (s *spec) attr() slog.Attr { return slog.Attr{Key: s.key, Value: s.value()} }

func (s *spec) String() string { return s.label }

func leaf(label, key string, mk func() slog.Value, want *val) *spec {
	return &spec{label: label, key: key, kind: kLeaf, mk: mk, want: want}
}

func group(key string, kids ...*spec) *spec {
	var l []string
	for _, k := range kids {
		l = append(l, k.label)
	}
	return &spec{label: fmt.Sprintf("Group(%q,[%s])", key, strings.Join(l, " ")), key: key, kind: kGroup, kids: kids}
}

func lv(key string, inner *spec) *spec {
	in := inner.label
	if inner.kind == kGroup {
		in = "Group" + in[strings.Index(in, ",")+1:len(in)-1]
	}
	return &spec{label: fmt.Sprintf("LogValuer(%q->%s)", key, in), key: key, kind: kLV, inner: inner}
}

func intLeaf(key string, n int64) *spec {
	return leaf(fmt.Sprintf("Int64(%q,%d)", key, n), key, func() slog.Value { return slog.Int64Value(n) }, num(strconv.FormatInt(n, 10)))
}

type pt struct {
	A int
	B string
}

var fixedTime = time.Date(2024, 2, 3, 4, 5, 6, 789012345, time.UTC)

// alphabet is the attribute alphabet, simplest first.
type alphabet struct {
	all     []*spec
	byLabel map[string]*spec
	// named members
	scalar, scalar2, namedG, inlineG, emptyG, emptyA, onlyEmptyG, lvGroup, lvEmptyG *spec
}

func buildAlphabet() *alphabet {
	a := &alphabet{byLabel: map[string]*spec{}}
	add := func(s *spec) *spec {
		s.built = s.attr()
		for i := range devNames[1:] {
			var d dev
			devNames[i+1].set(&d, true)
			m0, c0 := render(s, dev{}, false)
			m1, c1 := render(s, d, false)
			s.rel[i+1] = c0 != c1 || obj(m0...).canon() != obj(m1...).canon()
		}
		a.all = append(a.all, s)
		a.byLabel[s.label] = s
		return s
	}
	a.scalar = add(intLeaf("i", -7))
	a.emptyA = add(&spec{label: "Attr{}", kind: kEmpty})
	a.emptyG = add(group("E"))
	a.namedG = add(group("G", intLeaf("x", 1), leaf(`String("y","z")`, "y", func() slog.Value { return slog.StringValue("z") }, str("z"))))
	a.inlineG = add(group("", intLeaf("p", 1), intLeaf("q", 2)))
	a.lvEmptyG = add(lv("lve", group("")))
	a.onlyEmptyG = add(group("O", &spec{label: "Attr{}", kind: kEmpty}))
	a.lvGroup = add(lv("lvg", group("", intLeaf("m", 1))))
	a.scalar2 = add(leaf(`String("s","v")`, "s", func() slog.Value { return slog.StringValue("v") }, str("v")))
	add(leaf(`Bool("b",true)`, "b", func() slog.Value { return slog.BoolValue(true) }, &val{k: 'b', s: "true"}))
	add(leaf(`Float64("f",1.5)`, "f", func() slog.Value { return slog.Float64Value(1.5) }, num("1.5")))
	add(leaf(`Uint64("u",MaxUint64)`, "u", func() slog.Value { return slog.Uint64Value(^uint64(0)) }, num("18446744073709551615")))
	add(leaf(`Duration("d",1.5s)`, "d", func() slog.Value { return slog.DurationValue(1500 * time.Millisecond) }, num("1500000000")))
	add(leaf(`Time("t",2024-02-03T04:05:06.789012345Z)`, "t", func() slog.Value { return slog.TimeValue(fixedTime) }, str("2024-02-03T04:05:06.789012345Z")))
	add(leaf(`Any("err",errors.New("boom"))`, "err", func() slog.Value { return slog.AnyValue(errors.New("boom")) }, str("boom")))
	add(leaf(`Any("ints",[]int{1,2})`, "ints", func() slog.Value { return slog.AnyValue([]int{1, 2}) }, &val{k: 'a', arr: []*val{num("1"), num("2")}}))
	add(leaf(`Any("st",struct{A:1,B:"x"})`, "st", func() slog.Value { return slog.AnyValue(pt{1, "x"}) }, obj(member{"A", num("1")}, member{"B", str("x")})))
	add(leaf(`Any("nil",nil)`, "nil", func() slog.Value { return slog.AnyValue(nil) }, &val{k: 'z'}))
	add(group("N", intLeaf("a", 1), group("M", intLeaf("b", 2), group("", intLeaf("c", 3)))))
	add(lv("lvs", intLeaf("", 9)))
	add(leaf(`Any("lvp",LogValuer that panics)`, "lvp", func() slog.Value { return slog.AnyValue(panicValuer{}) }, str("LogValue panicked")))
	add(group("GP", leaf(`Any("in",LogValuer that panics)`, "in", func() slog.Value { return slog.AnyValue(panicValuer{}) }, str("LogValue panicked"))))
	add(lv("lvl", lv("", intLeaf("", 8))))
	add(lv("", group("", intLeaf("r", 1))))
	add(group("H", lv("he", group("")), intLeaf("k", 1)))
	add(group("", &spec{label: "Attr{}", kind: kEmpty}))
	add(group("X", group("", &spec{label: "Attr{}", kind: kEmpty})))
	// an empty KEY with a non-zero value is not an empty attribute (only key AND value zero is)
	add(intLeaf("", 5))
	add(leaf(`Any("",errors.New("boom"))`, "", func() slog.Value { return slog.AnyValue(errors.New("boom")) }, str("boom")))
	add(leaf(`Any("",struct{A:1,B:"x"})`, "", func() slog.Value { return slog.AnyValue(pt{1, "x"}) }, obj(member{"A", num("1")}, member{"B", str("x")})))
	add(group("K", leaf(`Any("",errors.New("in"))`, "", func() slog.Value { return slog.AnyValue(errors.New("in")) }, str("in"))))
	// groups whose ONLY member is a LogValuer that resolves to a group without content
	add(group("P", lv("pe", group(""))))
	add(group("Q", lv("qe", group("", &spec{label: "Attr{}", kind: kEmpty}, &spec{label: "Attr{}", kind: kEmpty}))))
	// zero VALUES under a key are not empty attributes: the zero time.Time, a zero duration, an empty string
	zt := func(k string) *spec {
		return leaf(fmt.Sprintf(`Time(%q,time.Time{})`, k), k, func() slog.Value { return slog.TimeValue(time.Time{}) }, str("0001-01-01T00:00:00Z"))
	}
	add(zt("zt"))
	// values of the numeric extremes INSIDE groups (group members take their own path to the encoder)
	add(group("UG", leaf(`Uint64("u",MaxUint64)`, "u", func() slog.Value { return slog.Uint64Value(^uint64(0)) }, num("18446744073709551615")),
		leaf(`Int64("i",MinInt64)`, "i", func() slog.Value { return slog.Int64Value(-1 << 63) }, num("-9223372036854775808"))))
	add(group("", leaf(`Uint64("iu",MaxInt64+1)`, "iu", func() slog.Value { return slog.Uint64Value(1 << 63) }, num("9223372036854775808"))))
	add(group("ZG", zt("at")))
	add(leaf(`Duration("zd",0)`, "zd", func() slog.Value { return slog.DurationValue(0) }, num("0")))
	add(group("ZS", leaf(`String("es","")`, "es", func() slog.Value { return slog.StringValue("") }, str(""))))
	return a
}

// ---------------------------------------------------------------------------
// Derivation programs

type op struct {
	isGroup bool
	name    string
	attrs   []*spec
}

func (o op) String() string {
	if o.isGroup {
		return fmt.Sprintf("WithGroup(%q)", o.name)
	}
	var l []string
	for _, a := range o.attrs {
		l = append(l, a.label)
	}
	return "WithAttrs([" + strings.Join(l, ", ") + "])"
}

func (o op) apply(h slog.Handler) slog.Handler {
	if o.isGroup {
		return h.WithGroup(o.name)
	}
	as := make([]slog.Attr, len(o.attrs))
	for i, a := range o.attrs {
		as[i] = a.built
	}
	return h.WithAttrs(as)
}

func progString(p []op) string {
	if len(p) == 0 {
		return "root"
	}
	var l []string
	for _, o := range p {
		l = append(l, o.String())
	}
	return strings.Join(l, ".")
}

func recString(r []*spec) string {
	var l []string
	for _, a := range r {
		l = append(l, a.label)
	}
	return "Record[" + strings.Join(l, ", ") + "]"
}

// ---------------------------------------------------------------------------
// Reference model of the slog.Handler contract.
//
// With the zero dev this is the contract. The dev flags switch on individual,
// named departures from it; they are used ONLY to name the defect class of a
// case that already failed against the contract (never to accept an output).

type dev struct {
	wgEmpty     bool // WithGroup("") opens a group with an empty key
	egDirect    bool // Group(k) without attrs, handed to WithAttrs, is emitted as k:{}
	egLV        bool // a LogValuer resolving to a group without attrs is emitted as k:{}
	egVanish    bool // a named group whose attrs all vanish (empty attrs ...) is emitted as k:{}
	egNested    bool // a content-less named group inside another group is emitted as k:{}
	inlineOpens bool // a content-less inline group makes pending WithGroup groups appear

	// slogLVQuirk is not a zap departure: go1.23's slog.JSONHandler counts a
	// LogValuer that resolves to a group without attrs as "something was
	// appended" although it writes nothing, so an enclosing group or pending
	// WithGroup groups appear as {}. Cases on which this changes the result are
	// left out of the alphabet (the two references would disagree).
	slogLVQuirk bool
}

var devNames = []struct {
	key string
	set func(*dev, bool)
}{
	{"withgroup-empty-name:opens-namespace-with-empty-key", func(d *dev, b bool) { d.wgEmpty = b }},
	{"empty-group:emitted-as-empty-object:group-without-attrs-via-WithAttrs", func(d *dev, b bool) { d.egDirect = b }},
	{"empty-group:emitted-as-empty-object:LogValuer-resolving-to-empty-group", func(d *dev, b bool) { d.egLV = b }},
	{"empty-group:emitted-as-empty-object:group-of-only-empty-attrs", func(d *dev, b bool) { d.egVanish = b }},
	{"empty-group:emitted-as-empty-object:content-less-group-nested-in-group", func(d *dev, b bool) { d.egNested = b }},
	{"content-less-inline-group:opens-pending-withgroup-namespaces", func(d *dev, b bool) { d.inlineOpens = b }},
}

// render returns the members an attribute contributes and whether it counts as content.
func render(a *spec, d dev, nested bool) ([]member, bool) {
	key := a.key
	viaLV := false
	for a.kind == kLV {
		a = a.inner
		viaLV = true
	}
	switch a.kind {
	case kEmpty:
		if key == "" {
			return nil, false
		}
		return []member{{key, &val{k: 'z'}}}, true
	case kLeaf:
		return []member{{key, a.want}}, true
	}
	var inner []member
	innerContent := false
	for _, c := range a.kids {
		m, ct := render(c, d, true)
		inner = append(inner, m...)
		innerContent = innerContent || ct
	}
	if key == "" {
		if len(inner) > 0 {
			return inner, true
		}
		return nil, innerContent || (d.inlineOpens && !nested)
	}
	if len(inner) > 0 || innerContent {
		return []member{{key, obj(inner...)}}, true
	}
	if d.slogLVQuirk && viaLV && len(a.kids) == 0 {
		return nil, true
	}
	var emit bool
	switch {
	case nested:
		emit = d.egNested
	case len(a.kids) == 0 && viaLV:
		emit = d.egLV
	case len(a.kids) == 0:
		emit = d.egDirect
	default:
		emit = d.egVanish
	}
	if emit {
		return []member{{key, obj()}}, true
	}
	return nil, false
}

// refState is the reference handler state: the tree built so far, the deepest
// open object, and the WithGroup names not yet materialised.
type refState struct {
	root    *val
	cur     *val
	pending []string
}

func (s *refState) add(attrs []*spec, d dev) {
	for _, a := range attrs {
		ms, content := render(a, d, false)
		if !content {
			continue
		}
		for _, g := range s.pending {
			n := obj()
			s.cur.mem = append(s.cur.mem, member{g, n})
			s.cur = n
		}
		s.pending = nil
		s.cur.mem = append(s.cur.mem, ms...)
	}
}

// reference returns the attribute tree of the entry for prog followed by a
// record carrying rec, and a rendering of the handler state before the record.
func reference(prog []op, rec []*spec, d dev) (tree *val, state string) {
	s := &refState{root: obj()}
	s.cur = s.root
	for _, o := range prog {
		if o.isGroup {
			if o.name != "" || d.wgEmpty {
				s.pending = append(s.pending, o.name)
			}
			continue
		}
		s.add(o.attrs, d)
	}
	state = s.root.canon() + "|" + strings.Join(s.pending, "\x00") + "|" + strconv.Itoa(len(s.pending))
	// slog.Record.AddAttrs itself drops groups without attrs before any handler sees them
	seen := rec[:0:0]
	for _, a := range rec {
		if a.kind == kGroup && len(a.kids) == 0 {
			continue
		}
		seen = append(seen, a)
	}
	s.add(seen, d)
	return s.root, state
}

// explain names the departures from the contract that reproduce got, or nil.
// Departures that cannot change this trace (their trigger does not occur in
// it) are never switched on, the others are removed greedily while the output
// is still reproduced.
func explain(prog []op, rec []*spec, got string) []string {
	var rel [6]bool
	mark := func(as []*spec) {
		for _, a := range as {
			for i := range rel {
				rel[i] = rel[i] || a.rel[i]
			}
		}
	}
	for _, o := range prog {
		if o.isGroup {
			rel[0] = rel[0] || o.name == ""
		} else {
			mark(o.attrs)
		}
	}
	mark(rec)
	var d dev
	for i, n := range devNames {
		n.set(&d, rel[i])
	}
	if t, _ := reference(prog, rec, d); t.canon() != got {
		return nil
	}
	var keys []string
	for i, n := range devNames {
		if !rel[i] {
			continue
		}
		n.set(&d, false)
		if t, _ := reference(prog, rec, d); t.canon() != got {
			n.set(&d, true)
			keys = append(keys, n.key)
		}
	}
	return keys
}

// firstDiff describes the first place where got departs from want.
func firstDiff(want, got *val, depth int) string {
	if want.k != got.k {
		return fmt.Sprintf("type-differs:depth=%d", depth)
	}
	switch want.k {
	case 'o':
		for i := 0; i < len(want.mem) || i < len(got.mem); i++ {
			switch {
			case i >= len(got.mem):
				return fmt.Sprintf("missing-member:key=%q:depth=%d", want.mem[i].key, depth)
			case i >= len(want.mem):
				return fmt.Sprintf("extra-member:key=%q:depth=%d", got.mem[i].key, depth)
			case want.mem[i].key != got.mem[i].key:
				for _, m := range got.mem[i:] {
					if m.key == want.mem[i].key {
						return fmt.Sprintf("extra-member:key=%q:depth=%d", got.mem[i].key, depth)
					}
				}
				return fmt.Sprintf("missing-member:key=%q:depth=%d", want.mem[i].key, depth)
			}
			if want.mem[i].v.canon() != got.mem[i].v.canon() {
				return firstDiff(want.mem[i].v, got.mem[i].v, depth+1)
			}
		}
	case 'a':
		return fmt.Sprintf("array-differs:depth=%d", depth)
	}
	if want.s != got.s {
		return fmt.Sprintf("value-differs:kind=%c:depth=%d", want.k, depth)
	}
	return "equal"
}

// slogRollbackThenContent reports whether the attr list (or a group list inside
// it) holds a named group with attrs that all vanish, followed by an attribute
// with content. go1.23's slog.JSONHandler rolls the vanished group back
// without restoring its separator state and then writes malformed JSON, so
// such lists cannot be cross-validated and are left out of the alphabet.
func slogRollbackThenContent(list []*spec) bool {
	seen := false
	for _, a := range list {
		_, content := render(a, dev{slogLVQuirk: true}, false)
		if seen && content {
			return true
		}
		b := a
		for b.kind == kLV {
			b = b.inner
		}
		if b.kind == kGroup {
			if a.key != "" && len(b.kids) > 0 && !content {
				seen = true
			}
			if slogRollbackThenContent(b.kids) {
				return true
			}
		}
	}
	return false
}
