// Command c18 decides property C18 (zapslog.Handler reproduces slog's attribute
// and group semantics): every handler derivation program up to a length over
// {WithGroup(g|h|""), WithAttrs([]), WithAttrs([a...])}, with a second child
// derived from every handler on the path (both orders, every handler emitting
// before and after the others are derived and used), times every record over an
// attribute alphabet, at every level of a level alphabet. The zap JSON line is
// decoded with an order-preserving decoder and compared with a reference model
// of the slog.Handler contract; the reference itself is compared with
// slog.NewJSONHandler on every case (a disagreement there is a tool error).
package main

import (
	"bytes"
	"context"
	"encoding/json"
	"fmt"
	"log/slog"
	"math"
	"os"
	"runtime/debug"
	"sort"
	"strings"
	"sync"
	"sync/atomic"
	"time"

	"go.uber.org/zap"
	"go.uber.org/zap/exp/zapslog"
	"go.uber.org/zap/zapcore"
	"verif/harness/internal/ev"
	"verif/harness/internal/par"
)

var (
	run  *ev.Run
	ctx  = context.Background()
	alph *alphabet

	nCases, nTraces, nReemit, nTransitions, nSlogValidated, nFailing, nExcluded, nExcludedRB atomic.Int64

	setMu    sync.Mutex
	stateSet = map[uint64]struct{}{}
	outSet   = map[uint64]struct{}{}
)

func fnv(s string, h uint64) uint64 {
	if h == 0 {
		h = 14695981039346656037
	}
	for i := 0; i < len(s); i++ {
		h ^= uint64(s[i])
		h *= 1099511628211
	}
	return h
}

// ---------------------------------------------------------------------------
// rig: one zap JSON core + zapslog root and one slog JSON root, per worker

type rig struct {
	zbuf  *bytes.Buffer
	zroot slog.Handler
	sbuf  *bytes.Buffer
	sroot slog.Handler

	states map[uint64]struct{}
	outs   map[uint64]struct{}

	dec   map[string]decoded
	job   int
	seq   int64
	found map[string]*finding
	samp  map[string][]*finding

	cases, traces, reemit, transitions, slogValidated, failing, excluded, excludedRB int64
}

func encoderConfig() zapcore.EncoderConfig {
	return zapcore.EncoderConfig{
		MessageKey:     "msg",
		LevelKey:       "level",
		LineEnding:     "\n",
		EncodeLevel:    zapcore.LowercaseLevelEncoder,
		EncodeTime:     zapcore.RFC3339NanoTimeEncoder,
		EncodeDuration: zapcore.NanosDurationEncoder,
	}
}

func newRig() *rig {
	r := &rig{zbuf: &bytes.Buffer{}, sbuf: &bytes.Buffer{}, states: map[uint64]struct{}{}, outs: map[uint64]struct{}{}, dec: map[string]decoded{}, found: map[string]*finding{}, samp: map[string][]*finding{}}
	core := zapcore.NewCore(zapcore.NewJSONEncoder(encoderConfig()), zapcore.AddSync(r.zbuf), zapcore.DebugLevel)
	r.zroot = zapslog.NewHandler(core, zapslog.AddStacktraceAt(slog.Level(math.MaxInt)))
	r.sroot = slog.NewJSONHandler(r.sbuf, &slog.HandlerOptions{Level: slog.Level(math.MinInt)})
	return r
}

func (r *rig) flush() {
	nCases.Add(r.cases)
	nTraces.Add(r.traces)
	nReemit.Add(r.reemit)
	nTransitions.Add(r.transitions)
	nSlogValidated.Add(r.slogValidated)
	nFailing.Add(r.failing)
	nExcluded.Add(r.excluded)
	r.excluded = 0
	nExcludedRB.Add(r.excludedRB)
	r.excludedRB = 0
	r.cases, r.traces, r.reemit, r.transitions, r.slogValidated, r.failing = 0, 0, 0, 0, 0, 0
	setMu.Lock()
	for k := range r.states {
		stateSet[k] = struct{}{}
	}
	for k := range r.outs {
		outSet[k] = struct{}{}
	}
	setMu.Unlock()
}

// finding is the first (in enumeration order) failing case of one key, or a sample.
type finding struct {
	ord   int64
	key   string
	what  string
	ci    caseInfo
	count int64
}

var (
	findMu   sync.Mutex
	findings = map[string]*finding{}
	sampAll  = map[string][]*finding{}
)

// hit counts one more failing case for key and reports whether this rig already holds its first case.
func (r *rig) hit(key string) bool {
	if f := r.found[key]; f != nil {
		f.count++
		return true
	}
	return false
}

func (r *rig) ord() int64 { r.seq++; return int64(r.job)<<32 | r.seq }

func (r *rig) report(key, what string, ci caseInfo) {
	if r.hit(key) {
		return
	}
	r.found[key] = &finding{ord: r.ord(), key: key, what: what, ci: ci, count: 1}
}

// merge folds the rig's findings and samples into the global tables (smallest enumeration ordinal wins).
func (r *rig) merge() {
	findMu.Lock()
	defer findMu.Unlock()
	for k, f := range r.found {
		g := findings[k]
		switch {
		case g == nil:
			findings[k] = f
		case f.ord < g.ord:
			f.count += g.count
			findings[k] = f
		default:
			g.count += f.count
		}
	}
	for p, fs := range r.samp {
		sampAll[p] = append(sampAll[p], fs...)
	}
	r.found, r.samp = map[string]*finding{}, map[string][]*finding{}
}

// entry is one decoded log line split into envelope and attribute tree.
type entry struct {
	raw   string
	level string
	msg   string
	canon string // injective rendering of the attribute tree (all members after level and msg)
}

// tree decodes the attribute tree again (only needed to describe a difference).
func (e *entry) tree() *val {
	v, err := decode([]byte(e.raw))
	if err != nil || v.k != 'o' || len(v.mem) < 2 {
		return obj()
	}
	if v.mem[0].key == "time" {
		v.mem = v.mem[1:]
	}
	return obj(v.mem[2:]...)
}

// split decodes one JSON line whose first two members are level and msg.
func split(raw string) (*entry, string) {
	if raw == "" {
		return nil, "no entry was written"
	}
	if !strings.HasSuffix(raw, "\n") || strings.Count(raw, "\n") != 1 {
		return nil, "output is not exactly one line"
	}
	v, err := decode([]byte(raw))
	if err != nil {
		return nil, "output is not one JSON value: " + err.Error()
	}
	if v.k == 'o' && len(v.mem) > 0 && v.mem[0].key == "time" {
		v.mem = v.mem[1:] // slog.Logger stamps the record; zap's encoder config has no time key
	}
	if v.k != 'o' || len(v.mem) < 2 || v.mem[0].key != "level" || v.mem[1].key != "msg" || v.mem[0].v.k != 's' || v.mem[1].v.k != 's' {
		return nil, "line does not start with the level and msg members"
	}
	return &entry{raw: raw, level: v.mem[0].v.s, msg: v.mem[1].v.s, canon: obj(v.mem[2:]...).canon()}, ""
}

// splitCached is split memoised on the exact line (decoding is a pure function of the bytes).
func (r *rig) splitCached(raw string) (*entry, string) {
	if c, ok := r.dec[raw]; ok {
		return c.e, c.msg
	}
	e, msg := split(raw)
	if len(r.dec) >= 1<<14 {
		r.dec = map[string]decoded{}
	}
	r.dec[raw] = decoded{e, msg}
	return e, msg
}

type decoded struct {
	e   *entry
	msg string
}

func mkRecord(level slog.Level, rec []*spec) slog.Record {
	r := slog.NewRecord(time.Time{}, level, "m", 0)
	as := make([]slog.Attr, len(rec))
	for i, a := range rec {
		as[i] = a.built
	}
	r.AddAttrs(as...)
	return r
}

func (r *rig) zapEmit(h slog.Handler, rec slog.Record) (*entry, string) {
	r.zbuf.Reset()
	err := h.Handle(ctx, rec)
	r.transitions++
	if err != nil {
		return nil, "Handle returned " + err.Error()
	}
	return r.splitCached(r.zbuf.String())
}

// validateReference compares the reference tree with slog's own JSON handler.
func (r *rig) validateReference(prog []op, rec []*spec, wantCanon string) {
	// slog's own pipeline: the slog.Logger front end over slog.NewJSONHandler
	// (in go1.23 it is Logger.WithGroup/With that make an empty name / an empty
	// list a no-op; JSONHandler relies on that).
	lg := slog.New(r.sroot)
	for _, o := range prog {
		if o.isGroup {
			lg = lg.WithGroup(o.name)
			continue
		}
		args := make([]any, len(o.attrs))
		for i, a := range o.attrs {
			args[i] = a.attr() // fresh values: never the attributes handed to zap (which must not be modified by it, but might be)
		}
		lg = lg.With(args...)
	}
	as := make([]slog.Attr, len(rec))
	for i, a := range rec {
		as[i] = a.attr()
	}
	r.sbuf.Reset()
	lg.LogAttrs(ctx, slog.LevelInfo, "m", as...)
	raw := r.sbuf.String()
	if i := strings.Index(raw, `,"level":`); i > 0 && strings.HasPrefix(raw, `{"time":"`) {
		raw = "{" + raw[i+1:] // drop the time stamp slog.Logger puts first, so identical lines memoise
	}
	e, msg := r.splitCached(raw)
	if msg != "" {
		ev.ToolError("slog.JSONHandler output on %s %s: %s: %q", progString(prog), recString(rec), msg, r.sbuf.String())
	}
	if got := e.canon; got != wantCanon {
		ev.ToolError("reference model and slog.NewJSONHandler disagree on %s %s: reference %s, slog %s (narrow the alphabet or correct the reference)", progString(prog), recString(rec), wantCanon, got)
	}
	r.slogValidated++
}

type caseInfo struct {
	Part  string   `json:"part"`
	Prog  []string `json:"prog"`
	Rec   []string `json:"rec"`
	Sib   string   `json:"sibling,omitempty"`
	Order string   `json:"order,omitempty"`
	Note  string   `json:"note,omitempty"`
}

func info(part string, prog []op, rec []*spec) caseInfo {
	c := caseInfo{Part: part, Prog: []string{}, Rec: []string{}}
	for _, o := range prog {
		c.Prog = append(c.Prog, o.String())
	}
	for _, a := range rec {
		c.Rec = append(c.Rec, a.label)
	}
	return c
}

// check emits rec through h (derived by prog) and compares with the reference. It returns the raw line.
func (r *rig) check(h slog.Handler, prog []op, rec []*spec, ci caseInfo) string {
	want, state := reference(prog, rec, dev{})
	wc := want.canon()
	rb := slogRollbackThenContent(rec)
	for _, o := range prog {
		rb = rb || (len(o.attrs) > 1 && slogRollbackThenContent(o.attrs))
	}
	if rb {
		r.excludedRB++
		r.zbuf.Reset()
		_ = h.Handle(ctx, mkRecord(slog.LevelInfo, rec))
		r.transitions++
		return r.zbuf.String()
	}
	if q, _ := reference(prog, rec, dev{slogLVQuirk: true}); q.canon() != wc {
		// outside the alphabet: the two references are known to disagree here (see dev.slogLVQuirk)
		r.excluded++
		r.zbuf.Reset()
		_ = h.Handle(ctx, mkRecord(slog.LevelInfo, rec))
		r.transitions++
		return r.zbuf.String()
	}
	r.validateReference(prog, rec, wc)
	sh := fnv(state, 0)
	r.states[sh] = struct{}{}
	if len(prog) > 0 || len(rec) > 0 {
		r.outs[fnv(wc, fnv("#", sh))] = struct{}{}
	}
	r.traces++
	e, msg := r.zapEmit(h, mkRecord(slog.LevelInfo, rec))
	if msg != "" {
		r.failing++
		r.report("output:"+strings.SplitN(msg, ":", 2)[0], fmt.Sprintf("%s then %s: %s (raw %q)", progString(prog), recString(rec), msg, r.zbuf.String()), ci)
		return r.zbuf.String()
	}
	if e.level != "info" || e.msg != "m" {
		r.failing++
		r.report("envelope:level-or-message", fmt.Sprintf("%s then %s: level %q msg %q, want info/m", progString(prog), recString(rec), e.level, e.msg), ci)
	}
	gc := e.canon
	if gc == wc {
		return e.raw
	}
	r.failing++
	keys := explain(prog, rec, gc)
	if keys == nil {
		keys = []string{"unexplained:" + firstDiff(want, e.tree(), 0)}
	}
	for _, k := range keys {
		if !r.hit(k) {
			r.report(k, fmt.Sprintf("%s then %s: zap wrote attributes %s, the slog.Handler contract (and slog.Logger over slog.NewJSONHandler) give %s", progString(prog), recString(rec), gc, wc), ci)
		}
	}
	return e.raw
}

// recheck emits again through a handler that emitted before and demands the identical line.
func (r *rig) recheck(h slog.Handler, before string, role string, prog []op, sib op, rec []*spec, ci caseInfo) {
	r.reemit++
	r.zbuf.Reset()
	err := h.Handle(ctx, mkRecord(slog.LevelInfo, rec))
	r.transitions++
	after := r.zbuf.String()
	if err == nil && after == before {
		return
	}
	r.failing++
	diff := "output-differs"
	if b, m1 := split(before); m1 == "" {
		if a, m2 := split(after); m2 == "" {
			diff = firstDiff(b.tree(), a.tree(), 0)
		}
	}
	kind := "WithAttrs"
	if sib.isGroup {
		kind = "WithGroup"
	}
	r.report(fmt.Sprintf("isolation:%s-output-changed-after-later-derivations:second-child-by-%s:%s", role, kind, diff),
		fmt.Sprintf("handler %s (%s) wrote %q for %s before the other handlers were derived/used and %q afterwards (err=%v); second children derived with %s", progString(prog), role, before, recString(rec), after, err, sib), ci)
}

func (r *rig) guard(ci caseInfo, f func()) {
	defer func() {
		if p := recover(); p != nil {
			r.failing++
			s := fmt.Sprint(p)
			if len(s) > 80 {
				s = s[:80]
			}
			r.report("panic:"+s, fmt.Sprintf("panic %v in case %+v", p, ci), ci)
		}
	}()
	f()
}

// linear: derive prog, emit once at the final handler.
func (r *rig) linear(part string, prog []op, rec []*spec) {
	ci := info(part, prog, rec)
	r.cases++
	r.guard(ci, func() {
		h := r.zroot
		for _, o := range prog {
			h = o.apply(h)
			r.transitions++
		}
		raw := r.check(h, prog, rec, ci)
		r.sample(part, ci, raw)
	})
}

// branch: every handler on the path gets a second child derived with sib; all emit before and after.
func (r *rig) branch(part string, prog []op, sib op, rec []*spec, orderB bool) {
	ci := info(part, prog, rec)
	ci.Sib = sib.String()
	ci.Order = "A(main path first, then second children)"
	if orderB {
		ci.Order = "B(second child before the main child at every handler)"
	}
	r.cases++
	r.guard(ci, func() {
		n := len(prog)
		hs := make([]slog.Handler, n+1)
		cs := make([]slog.Handler, n+1)
		rawH := make([]string, n+1)
		rawC := make([]string, n+1)
		sibProg := func(i int) []op { return append(append([]op{}, prog[:i]...), sib) }
		hs[0] = r.zroot
		if !orderB {
			for i := 0; i < n; i++ {
				hs[i+1] = prog[i].apply(hs[i])
			}
			for i := 0; i <= n; i++ {
				rawH[i] = r.check(hs[i], prog[:i], rec, ci)
			}
			for i := 0; i <= n; i++ {
				cs[i] = sib.apply(hs[i])
				rawC[i] = r.check(cs[i], sibProg(i), rec, ci)
			}
		} else {
			for i := 0; i <= n; i++ {
				rawH[i] = r.check(hs[i], prog[:i], rec, ci)
				cs[i] = sib.apply(hs[i])
				rawC[i] = r.check(cs[i], sibProg(i), rec, ci)
				if i < n {
					hs[i+1] = prog[i].apply(hs[i])
				}
			}
		}
		r.transitions += int64(2*n + 1)
		for i := 0; i <= n; i++ {
			role := "parent"
			if i == n {
				role = "last-child"
			}
			r.recheck(hs[i], rawH[i], role, prog[:i], sib, rec, ci)
		}
		for i := 0; i <= n; i++ {
			r.recheck(cs[i], rawC[i], "second-child", sibProg(i), sib, rec, ci)
		}
		r.sample(part, ci, rawH[n])
	})
}

func (r *rig) sample(part string, ci caseInfo, raw string) {
	// keep the first two cases per part (in enumeration order) with >=2 ops, a record attr and nesting in the output
	if len(ci.Rec) == 0 || len(ci.Prog) < 2 || len(r.samp[part]) >= 2 || !strings.Contains(raw, ":{") {
		return
	}
	r.samp[part] = append(r.samp[part], &finding{ord: r.ord(), ci: ci, what: strings.TrimSpace(raw)})
}

// ---------------------------------------------------------------------------
// enumeration

func pow(a, n int) int {
	p := 1
	for i := 0; i < n; i++ {
		p *= a
	}
	return p
}

// nth returns program number idx of length n over table (most significant op first).
func nth(table []op, n, idx int) []op {
	p := make([]op, n)
	for i := n - 1; i >= 0; i-- {
		p[i] = table[idx%len(table)]
		idx /= len(table)
	}
	return p
}

type job struct {
	f func(r *rig)
}

func programJobs(table []op, minLen, maxLen, chunk int, f func(r *rig, prog []op)) []job {
	var js []job
	for n := minLen; n <= maxLen; n++ {
		total := pow(len(table), n)
		for lo := 0; lo < total; lo += chunk {
			n, lo := n, lo
			hi := lo + chunk
			if hi > total {
				hi = total
			}
			js = append(js, job{func(r *rig) {
				for i := lo; i < hi; i++ {
					f(r, nth(table, n, i))
				}
			}})
		}
	}
	return js
}

func wa(as ...*spec) op { return op{attrs: as} }
func wg(n string) op    { return op{isGroup: true, name: n} }

func main() {
	run = ev.Start("C18", "model_checking")
	debug.SetGCPercent(400) // allocation-heavy, tiny live heap
	alph = buildAlphabet()
	a := alph

	// operation alphabets, nested: small < mid < full
	opsSmall := []op{wg("g"), wa(a.scalar), wg("h"), wg(""), wa(), wa(a.emptyG), wa(a.emptyA), wa(a.inlineG)}
	opsMid := append(append([]op{}, opsSmall...),
		wa(a.namedG), wa(a.lvEmptyG), wa(a.onlyEmptyG), wa(a.lvGroup),
		wa(a.emptyA, a.scalar), wa(a.scalar, a.scalar2), wa(a.emptyG, a.scalar))
	opsFull := append([]op{}, opsMid...)
	for _, s := range a.all {
		dup := false
		for _, o := range opsMid {
			if !o.isGroup && len(o.attrs) == 1 && o.attrs[0] == s {
				dup = true
			}
		}
		if !dup {
			opsFull = append(opsFull, wa(s))
		}
	}
	opsFull = append(opsFull, wa(a.lvEmptyG, a.scalar))
	sibs := []op{wg("h"), wg("g"), wg(""), wa(a.scalar2), wa(a.emptyG)}

	// record alphabets
	contentlessInline := a.byLabel[`Group("",[Attr{}])`]
	recsMid := [][]*spec{{a.scalar}, {}, {a.emptyA}, {a.lvEmptyG}, {a.inlineG}, {a.namedG}, {a.emptyA, a.scalar}, {a.onlyEmptyG}, {a.lvEmptyG, a.scalar}, {contentlessInline}}
	recsBranch := [][]*spec{{a.scalar}, {}}
	recsFull := [][]*spec{{}}
	for _, x := range a.all {
		recsFull = append(recsFull, []*spec{x})
	}
	for _, x := range a.all {
		for _, y := range a.all {
			recsFull = append(recsFull, []*spec{x, y})
		}
	}

	if rp := os.Getenv("VERIF_REPLAY"); rp != "" {
		replay(rp, opsFull, sibs)
		return
	}

	wideLen, deepMidLen, deepFullLen, deepSmallLen, brMidLen, brSmallLen := 2, 4, 0, 0, 3, 4
	if run.Thorough() {
		wideLen, deepMidLen, deepFullLen, deepSmallLen, brMidLen, brSmallLen = 3, 4, 4, 6, 4, 6
	}

	var jobs []job
	// wide: short programs over the full op alphabet x every record of <=2 attrs over the full attribute alphabet
	jobs = append(jobs, programJobs(opsFull, 0, wideLen, 4, func(r *rig, p []op) {
		for _, rec := range recsFull {
			r.linear("wide", p, rec)
		}
	})...)
	// deep: long programs x the record classes
	deep := func(r *rig, p []op) {
		for _, rec := range recsMid {
			r.linear("deep", p, rec)
		}
	}
	jobs = append(jobs, programJobs(opsMid, 0, deepMidLen, 256, deep)...)
	if deepFullLen > 0 {
		jobs = append(jobs, programJobs(opsFull, 3, deepFullLen, 256, deep)...)
	}
	if deepSmallLen > deepMidLen {
		jobs = append(jobs, programJobs(opsSmall, deepMidLen+1, deepSmallLen, 256, deep)...)
	}
	// branching
	br := func(r *rig, p []op) {
		for _, s := range sibs {
			for _, rec := range recsBranch {
				r.branch("branch", p, s, rec, false)
				r.branch("branch", p, s, rec, true)
			}
		}
	}
	jobs = append(jobs, programJobs(opsMid, 0, brMidLen, 64, br)...)
	if brSmallLen > brMidLen {
		jobs = append(jobs, programJobs(opsSmall, brMidLen+1, min(brSmallLen, 5), 64, br)...)
	}
	if brSmallLen > 5 {
		// the longest programs: second children by WithGroup("h") / WithAttrs([s]) only, one record
		jobs = append(jobs, programJobs(opsSmall, 6, brSmallLen, 64, func(r *rig, p []op) {
			for _, s := range []op{sibs[0], sibs[3]} {
				r.branch("branch", p, s, recsBranch[0], false)
				r.branch("branch", p, s, recsBranch[0], true)
			}
		})...)
	}

	rigs := make(chan *rig, par.Workers()+1)
	for i := 0; i <= par.Workers(); i++ {
		rigs <- newRig()
	}
	par.For(len(jobs), func(i int) {
		r := <-rigs
		r.job, r.seq = i, 0
		jobs[i].f(r)
		if len(r.states)+len(r.outs) > 1<<16 {
			r.flush()
			r.states, r.outs = map[uint64]struct{}{}, map[uint64]struct{}{}
		}
		rigs <- r
	})
	close(rigs)
	for r := range rigs {
		r.flush()
		r.merge()
	}

	lr := newRig()
	lr.job = len(jobs)
	levelCases := lr.levels()
	lr.flush()
	lr.merge()

	// report in enumeration order, so that the recorded counterexample of a key is the same on every run
	var fl []*finding
	byKey := map[string]int64{}
	for _, f := range findings {
		fl = append(fl, f)
		byKey[f.key] = f.count
	}
	sort.Slice(fl, func(i, j int) bool { return fl[i].ord < fl[j].ord })
	for _, f := range fl {
		run.Report(f.key, f.what, f.ci)
	}
	var samples []any
	for _, p := range []string{"wide", "deep", "branch"} {
		fs := sampAll[p]
		sort.Slice(fs, func(i, j int) bool { return fs[i].ord < fs[j].ord })
		for i := 0; i < len(fs) && i < 2; i++ {
			samples = append(samples, map[string]any{"case": fs[i].ci, "zap_line": fs[i].what})
		}
	}
	run.Assume = []string{
		"attribute alphabet: " + labels(a.all),
		"attribute keys are non-empty except for inline groups and the empty Attr; no duplicate-key merging is demanded (slog does none); NaN/Inf floats, panicking LogValuers, ReplaceAttr, caller/stack/name options are outside this check",
		"typed values are rendered by a JSON core with RFC3339Nano times and nanosecond durations, the encodings slog.NewJSONHandler uses, so the two can be compared member by member",
		"left out (counted as excluded_slog_lv_quirk): traces in which a LogValuer resolving to a group WITHOUT attrs is the only content of an enclosing named group or of pending WithGroup groups - go1.23 slog.JSONHandler itself then writes an empty object, so the two references disagree; the same attribute is kept wherever it does not decide whether a group appears",
		"left out (counted as excluded_slog_rollback_sep): attr lists in which a named group whose attrs all vanish is FOLLOWED by an attribute with content in the same list - go1.23 slog.JSONHandler then writes malformed JSON (separator lost after its rollback), so the reference cannot be cross-validated there; such groups are kept as the last/only attribute of a list",
		"a group without attrs placed directly in a Record is dropped by slog.Record.AddAttrs itself and never reaches the handler",
		"levels: every integer in [-12,16], MinInt and MaxInt; cores with every minimum level Debug..Fatal and a core that enables nothing; tees of two members over {>=Debug..>=Error, nothing, ==Debug..==Error} in every ordered pair (a record must reach exactly the members that enable its mapped level); cores whose Check declines what Enabled lets through (two dropping samplers, a declining wrapper): what Check declines is not written; a core on an AtomicLevel that is changed after the handlers were built (every ordered pair of levels)",
	}
	run.Finish(map[string]any{
		"states":                        len(stateSet),
		"transitions":                   nTransitions.Load(),
		"traces_validated_against_impl": nTraces.Load() + levelCases,
		"evaluations":                   nCases.Load() + levelCases,
		"distinct_nontrivial":           len(outSet),
		"rule": fmt.Sprintf("wide: every program of <=%d ops over the %d-op full alphabet x every record of <=2 attrs over the %d-attr alphabet (%d records); deep: every program of <=%d ops over the %d-op mid alphabet%s x %d record classes; branch: every program of <=%d ops over the mid alphabet%s x 5 second-child ops x 2 records x 2 derivation orders, a second child derived from EVERY handler on the path, every handler emitting before and after all others are derived/used; levels: see assumptions. states = distinct reference handler states (tree built + pending groups); distinct_nontrivial = distinct (reference handler state, reference entry tree) pairs excluding root+empty record",
			wideLen, len(opsFull), len(a.all), len(recsFull), deepMidLen, len(opsMid), extra(deepFullLen, deepSmallLen, len(opsFull), len(opsSmall)), len(recsMid), brMidLen, extraB(brMidLen, brSmallLen, len(opsSmall))),
		"samples":                    samples,
		"exhaustive":                 true,
		"reference_vs_slog_json":     nSlogValidated.Load(),
		"reference_slog_disagree":    0,
		"isolation_reemissions":      nReemit.Load(),
		"failing_emissions":          nFailing.Load(),
		"failing_emissions_by_key":   byKey,
		"excluded_slog_lv_quirk":     nExcluded.Load(),
		"excluded_slog_rollback_sep": nExcludedRB.Load(),
		"level_cases":                levelCases,
		"max_program_length":         max(deepMidLen, deepSmallLen, brSmallLen),
		"max_branching_program_size": brSmallLen,
	})
}

func extra(fullLen, smallLen, nFull, nSmall int) string {
	s := ""
	if fullLen > 0 {
		s += fmt.Sprintf(", of 3..%d ops over the %d-op full alphabet", fullLen, nFull)
	}
	if smallLen > 0 {
		s += fmt.Sprintf(", of <=%d ops over the %d-op small alphabet", smallLen, nSmall)
	}
	return s
}

func extraB(mid, small, nSmall int) string {
	if small > mid {
		s := fmt.Sprintf(" and of %d..%d ops over the %d-op small alphabet", mid+1, min(small, 5), nSmall)
		if small > 5 {
			s += fmt.Sprintf(" (programs of 6..%d ops: 2 second-child ops x 1 record x 2 orders)", small)
		}
		return s
	}
	return ""
}

func labels(ss []*spec) string {
	var l []string
	for _, s := range ss {
		l = append(l, s.label)
	}
	return strings.Join(l, "; ")
}

// ---------------------------------------------------------------------------
// levels: Enabled/Handle act iff the core enables the mapped level; monotone map

func mapped(l slog.Level) zapcore.Level {
	switch {
	case l >= slog.LevelError:
		return zapcore.ErrorLevel
	case l >= slog.LevelWarn:
		return zapcore.WarnLevel
	case l >= slog.LevelInfo:
		return zapcore.InfoLevel
	}
	return zapcore.DebugLevel
}

func (r *rig) levels() int64 {
	var ls []slog.Level
	ls = append(ls, slog.Level(math.MinInt))
	for i := -12; i <= 16; i++ {
		ls = append(ls, slog.Level(i))
	}
	ls = append(ls, slog.Level(math.MaxInt))
	progs := [][]op{{}, {wg("g")}, {wa(alph.scalar)}, {wg("g"), wa(alph.scalar)}, {wa(alph.scalar), wg("h")}}
	mins := []zapcore.Level{zapcore.DebugLevel, zapcore.InfoLevel, zapcore.WarnLevel, zapcore.ErrorLevel, zapcore.DPanicLevel, zapcore.PanicLevel, zapcore.FatalLevel, zapcore.FatalLevel + 1}
	var n int64
	for _, min := range mins {
		for _, defaults := range []bool{true, false} {
			buf := &bytes.Buffer{}
			core := zapcore.NewCore(zapcore.NewJSONEncoder(encoderConfig()), zapcore.AddSync(buf), min)
			var root slog.Handler
			if defaults {
				root = zapslog.NewHandler(core)
			} else {
				root = zapslog.NewHandler(core, zapslog.WithName("n"), zapslog.WithCaller(true), zapslog.AddStacktraceAt(slog.LevelDebug))
			}
			for _, p := range progs {
				h := root
				for _, o := range p {
					h = o.apply(h)
				}
				prev := zapcore.Level(math.MinInt8)
				for _, l := range ls {
					n++
					ci := caseInfo{Part: "levels", Prog: info("", p, nil).Prog, Rec: []string{alph.scalar2.label}, Note: fmt.Sprintf("slog level %d, core minimum level %v, default options %v", int(l), min, defaults)}
					r.guard(ci, func() {
						zl := mapped(l)
						want := zl >= min
						if got := h.Enabled(ctx, l); got != want {
							r.report(fmt.Sprintf("level:Enabled-disagrees-with-core:mapped=%v", zl), fmt.Sprintf("%s.Enabled(%d) = %v on a core with minimum level %v; level %d maps to %v, so want %v", progString(p), int(l), got, min, int(l), zl, want), ci)
						}
						buf.Reset()
						err := h.Handle(ctx, mkRecord(l, []*spec{alph.scalar2}))
						r.transitions++
						raw := buf.String()
						if err != nil {
							r.report("level:Handle-error", fmt.Sprintf("%s.Handle at level %d returned %v", progString(p), int(l), err), ci)
							return
						}
						if !want {
							if raw != "" {
								r.report(fmt.Sprintf("level:handled-although-core-disables:mapped=%v", zl), fmt.Sprintf("%s.Handle at level %d wrote %q on a core with minimum level %v", progString(p), int(l), raw, min), ci)
							}
							return
						}
						e, msg := split(raw)
						if msg != "" {
							r.report(fmt.Sprintf("level:not-handled-although-core-enables:mapped=%v", zl), fmt.Sprintf("%s.Handle at level %d on a core with minimum level %v: %s (raw %q)", progString(p), int(l), min, msg, raw), ci)
							return
						}
						var got zapcore.Level
						if err := got.UnmarshalText([]byte(e.level)); err != nil {
							r.report("level:unparsable-level", fmt.Sprintf("level %q", e.level), ci)
							return
						}
						if got != zl {
							r.report(fmt.Sprintf("level:mapping:want=%v", zl), fmt.Sprintf("slog level %d was written at zap level %v, documented mapping gives %v", int(l), got, zl), ci)
						}
						if got < prev {
							r.report("level:mapping-not-monotone", fmt.Sprintf("slog level %d maps to %v, a lower slog level mapped to %v", int(l), got, prev), ci)
						}
						prev = got
					})
				}
			}
		}
	}
	return n + r.compositeLevels(ls, progs)
}

// compositeLevels: cores whose Check is more selective than their Enabled - tees of members with
// different minimum levels or level windows, a sampler that drops, a wrapper whose Check declines.
// A record must reach exactly the members that enable its mapped level, and what a dropping core
// declines must not be written.
func (r *rig) compositeLevels(ls []slog.Level, progs [][]op) int64 {
	type member struct {
		name string
		en   zapcore.LevelEnabler
	}
	var members []member
	for _, min := range []zapcore.Level{zapcore.DebugLevel, zapcore.InfoLevel, zapcore.WarnLevel, zapcore.ErrorLevel, zapcore.FatalLevel + 1} {
		members = append(members, member{fmt.Sprintf(">=%v", min), min})
	}
	for _, only := range []zapcore.Level{zapcore.DebugLevel, zapcore.InfoLevel, zapcore.WarnLevel, zapcore.ErrorLevel} {
		only := only
		members = append(members, member{fmt.Sprintf("==%v", only), zap.LevelEnablerFunc(func(l zapcore.Level) bool { return l == only })})
	}
	var n int64
	for ai, a := range members {
		for bi, b := range members {
			if ai == bi {
				continue
			}
			bufs := [2]*bytes.Buffer{{}, {}}
			core := zapcore.NewTee(
				zapcore.NewCore(zapcore.NewJSONEncoder(encoderConfig()), zapcore.AddSync(bufs[0]), a.en),
				zapcore.NewCore(zapcore.NewJSONEncoder(encoderConfig()), zapcore.AddSync(bufs[1]), b.en))
			root := slog.Handler(zapslog.NewHandler(core))
			for _, p := range progs {
				h := root
				for _, o := range p {
					h = o.apply(h)
				}
				for _, l := range ls {
					n++
					ci := caseInfo{Part: "levels", Prog: info("", p, nil).Prog, Rec: []string{alph.scalar2.label}, Note: fmt.Sprintf("slog level %d, tee of a core enabling %s and a core enabling %s", int(l), a.name, b.name)}
					r.guard(ci, func() {
						zl := mapped(l)
						wa, wb := a.en.Enabled(zl), b.en.Enabled(zl)
						if got := h.Enabled(ctx, l); got != (wa || wb) {
							r.report("level:Enabled-disagrees-with-core:composite", fmt.Sprintf("%s.Enabled(%d) = %v on a tee of cores enabling %s / %s; the level maps to %v", progString(p), int(l), got, a.name, b.name, zl), ci)
						}
						bufs[0].Reset()
						bufs[1].Reset()
						if err := h.Handle(ctx, mkRecord(l, []*spec{alph.scalar2})); err != nil {
							r.report("level:Handle-error", fmt.Sprintf("%s.Handle at level %d returned %v", progString(p), int(l), err), ci)
							return
						}
						r.transitions++
						for i, want := range []bool{wa, wb} {
							got := bufs[i].Len() > 0
							switch {
							case got && !want:
								r.report("level:handled-by-a-member-that-disables-the-level", fmt.Sprintf("%s.Handle at level %d (zap %v) on a tee of cores enabling %s / %s: member %d wrote %q", progString(p), int(l), zl, a.name, b.name, i, bufs[i].String()), ci)
							case !got && want:
								r.report("level:not-handled-by-a-member-that-enables-the-level", fmt.Sprintf("%s.Handle at level %d (zap %v) on a tee of cores enabling %s / %s: member %d wrote nothing", progString(p), int(l), zl, a.name, b.name, i), ci)
							}
						}
					})
				}
			}
		}
	}
	// a core on a shared AtomicLevel that changes AFTER the handler (and handlers derived from it) were built:
	// every ordered pair (level at construction, level at use)
	named := []zapcore.Level{zapcore.DebugLevel, zapcore.InfoLevel, zapcore.WarnLevel, zapcore.ErrorLevel, zapcore.FatalLevel + 1}
	for _, l0 := range named {
		for _, l1 := range named {
			al := zap.NewAtomicLevelAt(l0)
			buf := &bytes.Buffer{}
			root := slog.Handler(zapslog.NewHandler(zapcore.NewCore(zapcore.NewJSONEncoder(encoderConfig()), zapcore.AddSync(buf), al)))
			var hs []slog.Handler
			for _, p := range progs {
				h := root
				for _, o := range p {
					h = o.apply(h)
				}
				hs = append(hs, h)
			}
			al.SetLevel(l1)
			for pi, h := range hs {
				for _, l := range ls {
					n++
					ci := caseInfo{Part: "levels", Prog: info("", progs[pi], nil).Prog, Rec: []string{alph.scalar2.label}, Note: fmt.Sprintf("slog level %d, AtomicLevel %v when the handler was built, %v now", int(l), l0, l1)}
					r.guard(ci, func() {
						want := mapped(l) >= l1
						if got := h.Enabled(ctx, l); got != want {
							r.report("level:Enabled-disagrees-with-core:level-changed-after-construction", fmt.Sprintf("%s.Enabled(%d) = %v; the core's AtomicLevel was %v when the handler was built and is %v now, the level maps to %v", progString(progs[pi]), int(l), got, l0, l1, mapped(l)), ci)
						}
						buf.Reset()
						if err := h.Handle(ctx, mkRecord(l, []*spec{alph.scalar2})); err != nil {
							r.report("level:Handle-error", fmt.Sprintf("%s.Handle at level %d returned %v", progString(progs[pi]), int(l), err), ci)
							return
						}
						r.transitions++
						if got := buf.Len() > 0; got != want {
							r.report("level:Handle-disagrees-with-core:level-changed-after-construction", fmt.Sprintf("%s.Handle at level %d wrote=%v; AtomicLevel %v at construction, %v now", progString(progs[pi]), int(l), got, l0, l1), ci)
						}
					})
				}
			}
		}
	}
	// cores that decline in Check what Enabled lets through
	type dropper struct {
		name string
		mk   func(zapcore.Core) zapcore.Core
		keep func(i int) bool // is the i-th record (0-based) of one level+message written?
	}
	droppers := []dropper{
		{"sampler(first 1, thereafter 0, tick 1h)", func(c zapcore.Core) zapcore.Core { return zapcore.NewSamplerWithOptions(c, time.Hour, 1, 0) }, func(i int) bool { return i == 0 }},
		{"sampler(first 0, thereafter 2, tick 1h)", func(c zapcore.Core) zapcore.Core { return zapcore.NewSamplerWithOptions(c, time.Hour, 0, 2) }, func(i int) bool { return i%2 == 1 }},
		{"wrapper whose Check declines every entry", func(c zapcore.Core) zapcore.Core { return decliner{c} }, func(int) bool { return false }},
	}
	for _, d := range droppers {
		for _, p := range progs {
			buf := &bytes.Buffer{}
			h := slog.Handler(zapslog.NewHandler(d.mk(zapcore.NewCore(zapcore.NewJSONEncoder(encoderConfig()), zapcore.AddSync(buf), zapcore.DebugLevel))))
			for _, o := range p {
				h = o.apply(h)
			}
			for _, l := range []slog.Level{slog.LevelDebug, slog.LevelInfo, slog.LevelWarn, slog.LevelError} {
				for i := 0; i < 4; i++ {
					n++
					ci := caseInfo{Part: "levels", Prog: info("", p, nil).Prog, Rec: []string{alph.scalar2.label}, Note: fmt.Sprintf("slog level %d, record %d of this level, core: %s", int(l), i, d.name)}
					r.guard(ci, func() {
						buf.Reset()
						rec := mkRecord(l, []*spec{alph.scalar2})
						rec.Time = time.Unix(1700000000, 0)
						if err := h.Handle(ctx, rec); err != nil {
							r.report("level:Handle-error", fmt.Sprintf("%s.Handle returned %v", progString(p), err), ci)
							return
						}
						r.transitions++
						if got, want := buf.Len() > 0, d.keep(i); got != want {
							r.report("level:core-Check-decision-not-honoured", fmt.Sprintf("%s.Handle, record %d at level %d on %s: written=%v, the core's Check decides %v", progString(p), i, int(l), d.name, got, want), ci)
						}
					})
				}
			}
		}
	}
	return n
}

// decliner enables everything and declines every entry in Check (as a filtering core does).
type decliner struct{ zapcore.Core }

func (d decliner) Check(zapcore.Entry, *zapcore.CheckedEntry) *zapcore.CheckedEntry { return nil }
func (d decliner) With(f []zapcore.Field) zapcore.Core                              { return decliner{d.Core.With(f)} }

// ---------------------------------------------------------------------------
// replay of one recorded case

func replay(path string, opsFull, sibs []op) {
	b, err := os.ReadFile(path)
	if err != nil {
		ev.ToolError("replay: %v", err)
	}
	var f struct {
		Case caseInfo `json:"case"`
	}
	if err := json.Unmarshal(b, &f); err != nil {
		ev.ToolError("replay: %v", err)
	}
	byName := map[string]op{}
	for _, o := range append(append([]op{}, opsFull...), sibs...) {
		byName[o.String()] = o
	}
	var prog []op
	for _, s := range f.Case.Prog {
		o, ok := byName[s]
		if !ok {
			ev.ToolError("replay: unknown op %s", s)
		}
		prog = append(prog, o)
	}
	var rec []*spec
	for _, s := range f.Case.Rec {
		a, ok := alph.byLabel[s]
		if !ok {
			ev.ToolError("replay: unknown attr %s", s)
		}
		rec = append(rec, a)
	}
	r := newRig()
	switch {
	case f.Case.Part == "levels":
		r.levels()
	case f.Case.Sib != "":
		r.branch("branch", prog, byName[f.Case.Sib], rec, strings.HasPrefix(f.Case.Order, "B"))
	default:
		r.linear(f.Case.Part, prog, rec)
	}
	r.flush()
	r.merge()
	for _, f := range findings {
		run.Report(f.key, f.what, f.ci)
	}
	fmt.Printf("C18 replay: traces=%d violations=%d\n", nTraces.Load(), run.Violations())
	if run.Violations() > 0 {
		os.Exit(1)
	}
	os.Exit(0)
}
