// Command calib runs calibration drivers with known outcomes through the
// scheduler and explorer: seeded bugs must be found, their corrected forms
// must be silent, replay must be deterministic. Exit 0 = machinery behaves.
package main

import (
	"fmt"
	"os"
	"strings"

	"go.uber.org/zap/zzverif/vatomic"
	"go.uber.org/zap/zzverif/vsched"
	"go.uber.org/zap/zzverif/vsync"
	"verif/harness/internal/mc"
)

type drv struct {
	mk     func() mc.Exec
	b      mc.Bounds
	expect string // "" = no violation, else kind
}

func join2(f, g func()) {
	var wg vsync.WaitGroup
	wg.Add(2)
	vsched.Go(func() { defer wg.Done(); f() })
	vsched.Go(func() { defer wg.Done(); g() })
	wg.Wait()
}

var drivers = map[string]drv{
	"lostupdate": {expect: "oracle", b: mc.Bounds{Preempt: 2, Dev: 0}, mk: func() mc.Exec {
		var c vatomic.Int64
		inc := func() { v := c.Load(); c.Store(v + 1) }
		return mc.Exec{Body: func() { join2(inc, inc) }, Check: func(vsched.Result) (string, error) {
			if c.Load() != 2 {
				return "", fmt.Errorf("lost update: %d", c.Load())
			}
			return "2", nil
		}}
	}},
	"atomicadd": {expect: "", b: mc.Bounds{Preempt: -1, Dev: 0}, mk: func() mc.Exec {
		var c vatomic.Int64
		inc := func() { c.Add(1) }
		return mc.Exec{Body: func() { join2(inc, inc) }, Check: func(vsched.Result) (string, error) {
			if c.Load() != 2 {
				return "", fmt.Errorf("lost update: %d", c.Load())
			}
			return "2", nil
		}}
	}},
	"lockorder": {expect: "deadlock", b: mc.Bounds{Preempt: 2, Dev: 0}, mk: func() mc.Exec {
		var a, b vsync.Mutex
		return mc.Exec{Body: func() {
			join2(func() { a.Lock(); b.Lock(); b.Unlock(); a.Unlock() }, func() { b.Lock(); a.Lock(); a.Unlock(); b.Unlock() })
		}, Check: func(vsched.Result) (string, error) { return "ok", nil }}
	}},
	"rwrecursive": {expect: "deadlock", b: mc.Bounds{Preempt: 2, Dev: 0}, mk: func() mc.Exec {
		// recursive read-locking with a writer arriving in between: documented deadlock of sync.RWMutex
		var m vsync.RWMutex
		return mc.Exec{Body: func() {
			join2(func() { m.RLock(); m.RLock(); m.RUnlock(); m.RUnlock() }, func() { m.Lock(); m.Unlock() })
		}, Check: func(vsched.Result) (string, error) { return "ok", nil }}
	}},
	"rwok": {expect: "", b: mc.Bounds{Preempt: -1, Dev: 0}, mk: func() mc.Exec {
		var m vsync.RWMutex
		n := 0
		return mc.Exec{Body: func() {
			join2(func() { m.RLock(); _ = n; m.RUnlock(); m.Lock(); n++; m.Unlock() }, func() { m.Lock(); n++; m.Unlock(); m.RLock(); _ = n; m.RUnlock() })
		}, Check: func(vsched.Result) (string, error) {
			if n != 2 {
				return "", fmt.Errorf("n=%d", n)
			}
			return "ok", nil
		}}
	}},
	"lockok": {expect: "", b: mc.Bounds{Preempt: -1, Dev: 0}, mk: func() mc.Exec {
		var a, b vsync.Mutex
		n := 0
		return mc.Exec{Body: func() {
			join2(func() { a.Lock(); b.Lock(); n++; b.Unlock(); a.Unlock() }, func() { a.Lock(); b.Lock(); n++; b.Unlock(); a.Unlock() })
		}, Check: func(vsched.Result) (string, error) {
			if n != 2 {
				return "", fmt.Errorf("n=%d", n)
			}
			return "ok", nil
		}}
	}},
	"racycounter": {expect: "race", b: mc.Bounds{Preempt: 1, Dev: 0}, mk: func() mc.Exec {
		n := 0
		var x vatomic.Int32
		return mc.Exec{Body: func() {
			join2(func() { x.Load(); n++ }, func() { x.Load(); n++ })
		}, Check: func(vsched.Result) (string, error) { return fmt.Sprint(n), nil }}
	}},
	"lockedcounter": {expect: "", b: mc.Bounds{Preempt: 2, Dev: 0}, mk: func() mc.Exec {
		n := 0
		var m vsync.Mutex
		return mc.Exec{Body: func() {
			join2(func() { m.Lock(); n++; m.Unlock() }, func() { m.Lock(); n++; m.Unlock() })
		}, Check: func(vsched.Result) (string, error) { return fmt.Sprint(n), nil }}
	}},
	"poolhb": {expect: "", b: mc.Bounds{Preempt: 2, Dev: 1}, mk: func() mc.Exec {
		// object handed from one thread to another through the pool: no race
		p := &vsync.Pool{New: func() any { return new(int) }}
		return mc.Exec{Body: func() {
			vsched.PoolChoices = true
			join2(func() { x := p.Get().(*int); *x = 1; p.Put(x) }, func() { x := p.Get().(*int); *x = 2; p.Put(x) })
			vsched.PoolChoices = false
		}, Check: func(vsched.Result) (string, error) { return "ok", nil }}
	}},
	"chan": {expect: "", b: mc.Bounds{Preempt: -1, Dev: -1}, mk: func() mc.Exec {
		// flush-loop shape: select over a tick channel and a stop channel
		tick := make(chan int, 1)
		stop := make(chan struct{})
		done := make(chan struct{})
		got := 0
		return mc.Exec{Body: func() {
			vsched.Go(func() {
				defer vsched.Close(done)
				for {
					switch vsched.Select(false, vsched.RecvCase(tick), vsched.RecvCase(stop)) {
					case 0:
						got++
					case 1:
						return
					}
				}
			})
			vsched.TrySend(tick, 1)
			vsched.Close(stop)
			vsched.Recv(done)
		}, Check: func(vsched.Result) (string, error) { return fmt.Sprint(got), nil }}
	}},
	"leak": {expect: "leaked", b: mc.Bounds{Preempt: 1, Dev: 0}, mk: func() mc.Exec {
		stop := make(chan struct{})
		return mc.Exec{Body: func() {
			vsched.Go(func() { vsched.Recv(stop) })
		}, Check: func(vsched.Result) (string, error) { return "ok", nil }}
	}},
}

func main() {
	h := mc.StdHandler(func(item string) (func() mc.Exec, mc.Bounds, error) {
		d, ok := drivers[item]
		if !ok {
			return nil, mc.Bounds{}, fmt.Errorf("unknown driver %q", item)
		}
		return d.mk, d.b, nil
	})
	mc.MaybeWorker(h)
	race := len(os.Args) > 1 && os.Args[1] == "race"
	bad := 0
	for name, d := range drivers {
		if d.expect == "race" && !race {
			continue
		}
		func() {
			defer func() {
				if p := recover(); p != nil {
					fmt.Printf("calib %-14s TOOL-ERROR %v\n", name, p)
					bad++
				}
			}()
			sum := mc.Run([]string{name}, mc.Options{Workers: 1, Race: race})
			got := ""
			if len(sum.Violations) > 0 {
				got = sum.Violations[0].Kind
			}
			status := "ok"
			if got != d.expect {
				status = "MISMATCH"
				bad++
			}
			det := ""
			if len(sum.Violations) > 0 {
				det = strings.SplitN(sum.Violations[0].Detail, "\n", 2)[0]
			}
			fmt.Printf("calib %-14s expect=%-8q got=%-8q execs=%d outcomes=%d %s %s\n", name, d.expect, got, sum.Execs, len(sum.Outcomes), status, det)
		}()
	}
	if bad > 0 {
		fmt.Println("calibration FAILED")
		os.Exit(2)
	}
	fmt.Println("calibration ok")
}
