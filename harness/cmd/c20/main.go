// Command c20 decides property C20 (level names and the level HTTP endpoint
// set exactly the requested level).
//
// Text part: all 256 Level values and their text forms, every mixed-case
// spelling of every accepted name, every string at edit distance 1 (thorough:
// 2) over a 12-byte alphabet, non-ASCII runes that Unicode case mapping relates
// to ASCII letters, every byte string of length <= 3 and every 4-byte string
// over a 64-byte alphabet, through every parsing entry point of zap (text,
// flag, JSON, YAML, ParseLevel, ParseAtomicLevel) from every pre-set level,
// against the rule "accepted iff ASCII-lower(text) is a listed name or empty".
//
// Endpoint part: explicit-state search, state = AtomicLevel value, transitions
// = requests (method x content type x body x query) served through
// AtomicLevel.ServeHTTP with httptest; BFS with the full alphabet, and all
// length-2 (thorough: also length-3 over a sub-alphabet) sequences without
// state merging; live loggers on the same AtomicLevel log after each request.
package main

import (
	"encoding/hex"
	"encoding/json"
	"fmt"
	"os"
	"time"

	"go.uber.org/zap/zapcore"
	"verif/harness/internal/ev"
)

func replay(run *ev.Run, path string) {
	b, err := os.ReadFile(path)
	if err != nil {
		ev.ToolError("replay: %v", err)
	}
	var f struct {
		Case json.RawMessage `json:"case"`
	}
	if err := json.Unmarshal(b, &f); err != nil {
		ev.ToolError("replay: %v", err)
	}
	var k struct {
		Kind string `json:"kind"`
	}
	_ = json.Unmarshal(f.Case, &k)
	switch k.Kind {
	case "text":
		var tc struct {
			TextHex string `json:"text_hex"`
		}
		_ = json.Unmarshal(f.Case, &tc)
		t, err := hex.DecodeString(tc.TextHex)
		if err != nil {
			ev.ToolError("replay: %v", err)
		}
		c := &textChecker{run: run}
		c.check(t, append(append([]textAPI{}, fastAPIs...), slowAPIs...), "replay", false)
	case "http":
		var tc struct {
			Start    int `json:"start_level"`
			Requests []struct {
				Method string                `json:"method"`
				CT     string                `json:"content_type"`
				Body   struct{ Name string } `json:"body"`
				Query  struct{ Name string } `json:"query"`
				Stream bool                  `json:"stream"`
			} `json:"requests"`
		}
		if err := json.Unmarshal(f.Case, &tc); err != nil {
			ev.ToolError("replay: %v", err)
		}
		bodies := map[string]*bodyT{}
		for _, b := range fullBodies() {
			bodies[b.Name] = b
		}
		queries := map[string]*queryT{}
		for _, q := range fullQueries() {
			queries[q.Name] = q
		}
		c := &httpChecker{run: run}
		g := newRig(zapcore.Level(tc.Start))
		var seq []*request
		for _, r := range tc.Requests {
			bd, q := bodies[r.Body.Name], queries[r.Query.Name]
			if bd == nil || q == nil {
				ev.ToolError("replay: unknown body %q or query %q", r.Body.Name, r.Query.Name)
			}
			rq := &request{Method: r.Method, CT: r.CT, Body: bd, Query: q, Stream: r.Stream}
			seq = append(seq, rq)
			cur := append([]*request{}, seq...)
			if _, ok := c.step(g, rq, true, func() any { return traceCase{"http", tc.Start, cur} }); !ok {
				break
			}
		}
	default:
		fmt.Println("replay: this case kind is re-checked by the full run")
		return
	}
	if run.Violations() > 0 {
		fmt.Println("replay: reproduced")
		os.Exit(1)
	}
	fmt.Println("replay: not reproduced")
	os.Exit(0)
}

var t0 = time.Now()
var tLast = t0

func phase(name string) {
	fmt.Printf("  phase %-34s %6.1fs\n", name, time.Since(tLast).Seconds())
	tLast = time.Now()
}

func main() {
	run := ev.Start("C20", "model_checking")
	if rp := os.Getenv("VERIF_REPLAY"); rp != "" {
		replay(run, rp)
	}
	ts := textPart(run)
	hs := httpPart(run)
	phase("endpoint (rest)")

	run.Assume = []string{
		"text: acceptance rule is ASCII case-insensitivity (ParseLevel doc: 'lower-case or all-caps ASCII representation'); JSON null / YAML null into a Level are not level text and are left out",
		"text: JSON and YAML entry points are driven with texts that are valid UTF-8 (JSON) / printable (YAML, double-quoted scalar; plain scalar only for letter-only texts); the direct entry points get every byte string",
		"endpoint: states are the 7 valid levels; requests are built with httptest.NewRequest and served by AtomicLevel.ServeHTTP on an httptest.ResponseRecorder (no listener, no transport-level rewriting); every request with a body is sent twice - with a declared Content-Length, and streamed one byte at a time without one (ContentLength -1, a chunked upload) - and the same reference applies to both",
		"endpoint: left out - JSON keys differing from `level` only in case; a form body with an empty `level` combined with a valid `level` in the query; non-empty PUTs with an upper-case or multipart media type",
		"endpoint: where the documentation allows two readings both outcomes are accepted (but nothing else): duplicate `level` members/keys (first or last), bytes after the first JSON value (set or 400), malformed form level with a query level, `application/x-www-form-urlencoded; charset=...` (form or JSON decoding), and the documented example `PUT ?level=x` without content type and body (set, as the example says, or 400, as the JSON rule says)",
		"endpoint: error statuses are only required to be 4xx (the statement does not name 405/400); a 2xx body must be exactly {\"level\":\"<level in force>\"}",
	}
	samples := append(append([]any{}, ts.samples...), hs.samples...)
	run.Finish(map[string]any{
		"states":                        hs.states,
		"transitions":                   hs.transitions,
		"traces_validated_against_impl": hs.traces,
		"evaluations":                   ts.evals + hs.steps,
		"distinct_nontrivial":           ts.distinct + hs.distinct,
		"rule": "text: each text runs through Level.UnmarshalText, Level.Set, AtomicLevel.UnmarshalText (each from all 7 pre-set levels), ParseLevel, ParseAtomicLevel; the structured families (text forms of all 256 levels, all 2^n case variants of the 8 spellings, empty string, edit distance 1 [thorough: 2] over a 12-byte alphabet from lower/upper/capitalised names, Unicode case relatives of ASCII letters, printable ASCII of length <= 2) additionally through flag.FlagSet (both argument forms), zap.LevelFlag, JSON and YAML into Level / struct / AtomicLevel; plus every byte string of length <= 3 and every 4-byte string over an alphabet of all level-name letters in both cases + 8 other bytes [thorough: all 52 letters + 12 others] through the direct entry points (in these sweeps Level.UnmarshalText starts from all 7 pre-set levels, the other entry points from 1-2 rotating ones). " +
			"endpoint: BFS from NewAtomicLevel() over the full request alphabet (every request from every reached state, followed by an observing GET, with all 7 levels logged through a logger and a With-child on the same AtomicLevel); then every length-2 sequence over the pair alphabet (quick: the GET/PUT/POST x {no content type, JSON, form} part of the core alphabet; thorough: the whole core alphabet) from each of the 7 levels, each on a fresh AtomicLevel [thorough: and every length-3 sequence over the PUT/GET sub-alphabet]. " +
			"evaluations = parse calls + served requests. distinct_nontrivial = distinct structured texts + distinct (state, PUT request) pairs + distinct (state, other method) pairs of the BFS; the short-string sweeps are counted separately in short_strings / four_byte_strings",
		"samples":                   samples,
		"exhaustive":                true,
		"state_names":               hs.stateNames,
		"bfs_new_state_depth":       hs.depthClosed,
		"request_alphabet_full":     hs.alphabetFull,
		"request_alphabet_core":     hs.alphabetCore,
		"requests_left_out_full":    hs.skippedFull,
		"requests_left_out_core":    hs.skippedCore,
		"put_requests_must_set":     hs.mustSet,
		"put_requests_must_reject":  hs.mustReject,
		"put_requests_two_readings": hs.ambiguous,
		"bfs_edges_by_reference":    hs.statusCounts,
		"sequence_steps":            hs.steps,
		"length2_alphabet":          hs.pairAlphabet,
		"length3_alphabet":          hs.tripleAlphabet,
		"length3_sequences":         hs.triples,
		"text_parse_calls":          ts.evals,
		"structured_texts":          ts.distinct,
		"text_families":             ts.families,
		"short_strings":             ts.shortStrings,
		"four_byte_strings":         ts.fourByte,
		"four_byte_alphabet":        ts.fourByteAlphabet,
		"unicode_case_relatives":    ts.relatives,
	})
}
