package main

import (
	"encoding/json"
	"flag"
	"fmt"
	"io"
	"strings"
	"sync"
	"sync/atomic"
	"unicode"
	"unicode/utf8"

	"go.uber.org/zap"
	"go.uber.org/zap/zapcore"
	"gopkg.in/yaml.v3"
	"verif/harness/internal/ev"
	"verif/harness/internal/par"
)

// ---------------------------------------------------------------------------
// reference: the documented level names (doc of AtomicLevel.UnmarshalText and
// the constants in zapcore/level.go), the alias "warning", the empty string.

var valid = []zapcore.Level{-1, 0, 1, 2, 3, 4, 5}

var lowerName = map[zapcore.Level]string{-1: "debug", 0: "info", 1: "warn", 2: "error", 3: "dpanic", 4: "panic", 5: "fatal"}

var accept = map[string]zapcore.Level{
	"debug": -1, "info": 0, "": 0, "warn": 1, "warning": 1, "error": 2, "dpanic": 3, "panic": 4, "fatal": 5,
}

// spellings are the non-empty accepted lower-case spellings, in a fixed order.
var spellings = []string{"debug", "info", "warn", "warning", "error", "dpanic", "panic", "fatal"}

// refParse: text is accepted iff its ASCII-lower-cased form is a listed spelling.
func refParse(t []byte) (zapcore.Level, bool) {
	if len(t) > 7 {
		return 0, false
	}
	var buf [7]byte
	for i, c := range t {
		if 'A' <= c && c <= 'Z' {
			c += 'a' - 'A'
		}
		buf[i] = c
	}
	l, ok := accept[string(buf[:len(t)])]
	return l, ok
}

func isValidLevel(l zapcore.Level) bool { return l >= -1 && l <= 5 }

// ---------------------------------------------------------------------------
// the parsing entry points of zap

type textAPI struct {
	name      string
	hasTarget bool // a pre-existing target whose value must survive a rejection
	atomic    bool // goes through AtomicLevel (set below from the name)
	ok        func(t []byte) bool
	call      func(t []byte, preset zapcore.Level) (zapcore.Level, error)
}

func init() {
	for _, list := range [][]textAPI{fastAPIs, slowAPIs} {
		for i := range list {
			list[i].atomic = strings.Contains(list[i].name, "AtomicLevel")
		}
	}
}

func always([]byte) bool { return true }

func utf8OK(t []byte) bool { return utf8.Valid(t) }

// printable: safe to put between YAML double quotes using JSON escaping.
func printable(t []byte) bool {
	if !utf8.Valid(t) {
		return false
	}
	for _, r := range string(t) {
		if !unicode.IsPrint(r) || r == 0x2028 || r == 0x2029 {
			return false
		}
	}
	return true
}

func lettersOnly(t []byte) bool {
	if len(t) == 0 {
		return false
	}
	for _, c := range t {
		if !('a' <= c && c <= 'z' || 'A' <= c && c <= 'Z') {
			return false
		}
	}
	return true
}

func jq(t []byte) []byte {
	b, err := json.Marshal(string(t))
	if err != nil {
		ev.ToolError("json.Marshal(%q): %v", t, err)
	}
	return b
}

var fastAPIs = []textAPI{
	{name: "Level.UnmarshalText", hasTarget: true, ok: always, call: func(t []byte, p zapcore.Level) (zapcore.Level, error) {
		l := p
		err := l.UnmarshalText(t)
		return l, err
	}},
	{name: "Level.Set", hasTarget: true, ok: always, call: func(t []byte, p zapcore.Level) (zapcore.Level, error) {
		l := p
		err := l.Set(string(t))
		return l, err
	}},
	{name: "AtomicLevel.UnmarshalText", hasTarget: true, ok: always, call: func(t []byte, p zapcore.Level) (zapcore.Level, error) {
		a := zap.NewAtomicLevelAt(p)
		err := a.UnmarshalText(t)
		return a.Level(), err
	}},
	{name: "zapcore.ParseLevel", hasTarget: false, ok: always, call: func(t []byte, p zapcore.Level) (zapcore.Level, error) {
		return zapcore.ParseLevel(string(t))
	}},
	{name: "zap.ParseAtomicLevel", hasTarget: false, ok: always, call: func(t []byte, p zapcore.Level) (zapcore.Level, error) {
		a, err := zap.ParseAtomicLevel(string(t))
		return a.Level(), err
	}},
}

type jsonCfg struct {
	Level zapcore.Level `json:"level" yaml:"level"`
}
type atomCfg struct {
	Level zap.AtomicLevel `json:"level" yaml:"level"`
}

var slowAPIs = []textAPI{
	{name: "AtomicLevel(zero value).UnmarshalText", hasTarget: false, ok: always, call: func(t []byte, p zapcore.Level) (zapcore.Level, error) {
		var a zap.AtomicLevel
		err := a.UnmarshalText(t)
		return a.Level(), err
	}},
	{name: "flag.FlagSet(-level=TEXT)", hasTarget: true, ok: always, call: func(t []byte, p zapcore.Level) (zapcore.Level, error) {
		fs := flag.NewFlagSet("c20", flag.ContinueOnError)
		fs.SetOutput(io.Discard)
		l := p
		fs.Var(&l, "level", "")
		err := fs.Parse([]string{"-level=" + string(t)})
		if g, ok := fs.Lookup("level").Value.(flag.Getter); !ok || g.Get() != l {
			return l, fmt.Errorf("flag.Getter.Get does not return the level")
		}
		return l, err
	}},
	{name: "flag.FlagSet(-level TEXT)", hasTarget: true, ok: always, call: func(t []byte, p zapcore.Level) (zapcore.Level, error) {
		fs := flag.NewFlagSet("c20", flag.ContinueOnError)
		fs.SetOutput(io.Discard)
		l := p
		fs.Var(&l, "level", "")
		err := fs.Parse([]string{"-level", string(t)})
		return l, err
	}},
	{name: "json.Unmarshal(*Level)", hasTarget: true, ok: utf8OK, call: func(t []byte, p zapcore.Level) (zapcore.Level, error) {
		l := p
		err := json.Unmarshal(jq(t), &l)
		return l, err
	}},
	{name: "json.Unmarshal(struct{Level})", hasTarget: true, ok: utf8OK, call: func(t []byte, p zapcore.Level) (zapcore.Level, error) {
		c := jsonCfg{Level: p}
		err := json.Unmarshal([]byte(`{"level":`+string(jq(t))+`}`), &c)
		return c.Level, err
	}},
	{name: "json.Unmarshal(struct{AtomicLevel})", hasTarget: true, ok: utf8OK, call: func(t []byte, p zapcore.Level) (zapcore.Level, error) {
		c := atomCfg{Level: zap.NewAtomicLevelAt(p)}
		err := json.Unmarshal([]byte(`{"level":`+string(jq(t))+`}`), &c)
		return c.Level.Level(), err
	}},
	{name: "yaml.Unmarshal(*Level, quoted)", hasTarget: true, ok: printable, call: func(t []byte, p zapcore.Level) (zapcore.Level, error) {
		l := p
		err := yaml.Unmarshal(append(jq(t), '\n'), &l)
		return l, err
	}},
	{name: "yaml.Unmarshal(struct{Level}, quoted)", hasTarget: true, ok: printable, call: func(t []byte, p zapcore.Level) (zapcore.Level, error) {
		c := jsonCfg{Level: p}
		err := yaml.Unmarshal([]byte("level: "+string(jq(t))+"\n"), &c)
		return c.Level, err
	}},
	{name: "yaml.Unmarshal(struct{AtomicLevel}, quoted)", hasTarget: true, ok: printable, call: func(t []byte, p zapcore.Level) (zapcore.Level, error) {
		c := atomCfg{Level: zap.NewAtomicLevelAt(p)}
		err := yaml.Unmarshal([]byte("level: "+string(jq(t))+"\n"), &c)
		return c.Level.Level(), err
	}},
	{name: "yaml.Unmarshal(struct{Level}, plain scalar)", hasTarget: true, ok: lettersOnly, call: func(t []byte, p zapcore.Level) (zapcore.Level, error) {
		c := jsonCfg{Level: p}
		err := yaml.Unmarshal([]byte("level: "+string(t)+"\n"), &c)
		return c.Level, err
	}},
	{name: "yaml.Unmarshal(struct{AtomicLevel}, plain scalar)", hasTarget: true, ok: lettersOnly, call: func(t []byte, p zapcore.Level) (zapcore.Level, error) {
		c := atomCfg{Level: zap.NewAtomicLevelAt(p)}
		err := yaml.Unmarshal([]byte("level: "+string(t)+"\n"), &c)
		return c.Level.Level(), err
	}},
}

// textClass names the kind of text for the finding key.
func textClass(t []byte) string {
	if len(t) == 0 {
		return "empty"
	}
	if _, ok := refParse(t); ok {
		s := string(t)
		switch {
		case s == strings.ToLower(s):
			return "lower-case:" + s
		case s == strings.ToUpper(s):
			return "upper-case:" + strings.ToLower(s)
		}
		return "mixed-case:" + strings.ToLower(s)
	}
	nonASCII := []rune{}
	for _, r := range string(t) {
		if r >= 0x80 {
			nonASCII = append(nonASCII, r)
		}
	}
	if len(nonASCII) > 0 {
		if len(nonASCII) == 1 && nonASCII[0] != utf8.RuneError {
			return fmt.Sprintf("non-ascii:U+%04X", nonASCII[0])
		}
		return "non-ascii"
	}
	if _, ok := refParse([]byte(strings.Trim(string(t), " \t\r\n\x00\v\f"))); ok {
		return "valid-name-with-surrounding-whitespace-or-NUL"
	}
	if strings.HasPrefix(strings.ToLower(string(t)), "level(") {
		return "out-of-range-level-form"
	}
	if len(t) <= 3 {
		return "short-string"
	}
	return "near-miss-of-valid-name"
}

type textChecker struct {
	run   *ev.Run
	evals atomic.Int64
}

func safeCall(api *textAPI, t []byte, p zapcore.Level) (l zapcore.Level, err error, pan any) {
	defer func() {
		if r := recover(); r != nil {
			pan = r
		}
	}()
	l, err = api.call(t, p)
	return
}

// check runs text t through the given entry points from every pre-set level.
// light (used by the big sweeps): only Level.UnmarshalText starts from all 7
// pre-set levels; the other entry points start from one or two, chosen by the
// text so that all 7 occur evenly.
func (c *textChecker) check(t []byte, apis []textAPI, family string, light bool) int64 {
	want, ok := refParse(t)
	var n int64
	rot := 0
	for _, b := range t {
		rot += int(b)
	}
	var levelSyms [8]string // symptoms already seen through a *Level entry point for this text
	nSyms := 0
	for i := range apis {
		api := &apis[i]
		if !api.ok(t) {
			continue
		}
		presets := valid
		switch {
		case !api.hasTarget:
			presets = valid[1:2]
		case light && i > 0:
			k := (rot + i) % 7
			presets = valid[k : k+1]
			if api.atomic {
				presets = []zapcore.Level{valid[k], valid[(k+3)%7]}
			}
		}
		for _, p := range presets {
			got, err, pan := safeCall(api, t, p)
			n++
			var sym, what string
			switch {
			case pan != nil:
				sym, what = "panic", fmt.Sprintf("panicked: %v", pan)
			case ok && err != nil:
				sym, what = "rejected-valid", fmt.Sprintf("returned error %q; the text names level %v", err, want)
			case ok && got != want:
				sym, what = "wrong-level", fmt.Sprintf("produced level %v (%d); the text names level %v", got, got, want)
			case !ok && err == nil:
				sym, what = "accepted-invalid", fmt.Sprintf("accepted the text as level %v; it is not a (case-insensitive ASCII) level name and must be rejected", got)
			case !ok && api.hasTarget && got != p:
				sym, what = "target-modified-on-reject", fmt.Sprintf("rejected the text but changed the target from %v to %v (%d)", p, got, got)
			default:
				continue
			}
			// One key per (symptom, kind of text). All entry points funnel into Level.UnmarshalText; an
			// AtomicLevel entry point gets its own key only when the *Level entry points do not show
			// the same symptom on the same text (a defect of the AtomicLevel wrapper itself).
			scope := ""
			if api.atomic {
				scope = "AtomicLevel-only:"
				for _, s := range levelSyms[:nSyms] {
					if s == sym {
						scope = ""
					}
				}
			} else if nSyms < len(levelSyms) {
				levelSyms[nSyms] = sym
				nSyms++
			}
			key := fmt.Sprintf("text:%s%s:%s", scope, sym, textClass(t))
			c.run.Report(key, fmt.Sprintf("%s with text %q (target pre-set to %v) %s", api.name, t, p, what),
				map[string]any{"kind": "text", "text_hex": fmt.Sprintf("%x", t), "text": fmt.Sprintf("%q", t), "api": api.name, "preset": int(p), "family": family})
		}
	}
	c.evals.Add(n)
	return n
}

// ---------------------------------------------------------------------------
// structured families

func caseVariants(s string) []string {
	n := len(s)
	out := make([]string, 0, 1<<n)
	for m := 0; m < 1<<n; m++ {
		b := []byte(s)
		for i := 0; i < n; i++ {
			if m&(1<<i) != 0 {
				b[i] -= 'a' - 'A'
			}
		}
		out = append(out, string(b))
	}
	return out
}

var editAlphabet = []byte{'a', 'n', 'g', 'W', 'D', ' ', '\t', '\n', 0x00, '0', '_', 0xff}

// edits1 returns every string at edit distance exactly <= 1 (insert, delete, substitute) over alpha.
func edits1(s string, alpha []byte) []string {
	var out []string
	for i := 0; i <= len(s); i++ {
		for _, c := range alpha {
			out = append(out, s[:i]+string([]byte{c})+s[i:])
		}
	}
	for i := 0; i < len(s); i++ {
		out = append(out, s[:i]+s[i+1:])
		for _, c := range alpha {
			if c != s[i] {
				out = append(out, s[:i]+string([]byte{c})+s[i+1:])
			}
		}
	}
	return out
}

// caseRelatives finds every non-ASCII rune that Unicode case mapping or
// folding relates to an ASCII letter (these are the runes a Unicode-aware
// lower-casing would turn into an ASCII letter, or that fold with one).
func caseRelatives() map[rune][]rune {
	rel := map[rune][]rune{}
	for r := rune(0x80); r <= unicode.MaxRune; r++ {
		if r >= 0xD800 && r <= 0xDFFF {
			continue
		}
		seen := map[rune]bool{}
		add := func(x rune) {
			if x < 0x80 && (('a' <= x && x <= 'z') || ('A' <= x && x <= 'Z')) {
				seen[unicode.ToLower(x)] = true
			}
		}
		add(unicode.ToLower(r))
		add(unicode.ToUpper(r))
		add(unicode.ToTitle(r))
		for f := unicode.SimpleFold(r); f != r; f = unicode.SimpleFold(f) {
			add(f)
		}
		for a := range seen {
			rel[a] = append(rel[a], r)
		}
	}
	return rel
}

type textStats struct {
	evals, shortStrings, fourByte int64
	fourByteAlphabet              int
	distinct                      int
	families                      map[string]int
	samples                       []any
	relatives                     []string
}

func textPart(run *ev.Run) textStats {
	c := &textChecker{run: run}
	st := textStats{families: map[string]int{}}
	allAPIs := append(append([]textAPI{}, fastAPIs...), slowAPIs...)

	seen := map[string]bool{}
	type item struct{ text, family string }
	var items []item
	add := func(family, s string) {
		st.families[family]++
		if seen[s] {
			return
		}
		seen[s] = true
		items = append(items, item{s, family})
	}

	// (1) every level value: its text forms, round trip for the valid ones
	for v := -128; v <= 127; v++ {
		l := zapcore.Level(v)
		forms, msg := levelForms(l)
		if msg != "" {
			run.Report(fmt.Sprintf("roundtrip:%s", msg[:strings.Index(msg, ":")]), fmt.Sprintf("level %d: %s", v, msg), map[string]any{"kind": "level", "level": v})
		}
		for _, f := range forms {
			add("text-forms-of-all-256-levels", f)
			if !isValidLevel(l) {
				if _, ok := refParse([]byte(f)); ok {
					run.Report("roundtrip:out-of-range-level-prints-as-valid-name", fmt.Sprintf("level %d prints as %q, which is the name of a valid level", v, f), map[string]any{"kind": "level", "level": v})
				}
			}
		}
	}
	// (2) every mixed-case spelling of every accepted name, and the empty string
	add("empty-string", "")
	for _, s := range spellings {
		for _, cv := range caseVariants(s) {
			add("case-variants", cv)
		}
	}
	// (3) edit distance 1 from the lower-case, upper-case and capitalised names
	for _, s := range spellings {
		for _, base := range []string{s, strings.ToUpper(s), strings.ToUpper(s[:1]) + s[1:]} {
			for _, e := range edits1(base, editAlphabet) {
				add("edit-distance-1", e)
			}
		}
	}
	// (4) non-ASCII runes related to an ASCII letter by Unicode case mapping/folding
	rel := caseRelatives()
	for a, rs := range rel {
		for _, r := range rs {
			st.relatives = append(st.relatives, fmt.Sprintf("U+%04X~%c", r, a))
		}
	}
	sortStrings(st.relatives)
	for _, s := range spellings {
		for _, base := range []string{s, strings.ToUpper(s)} {
			for i := 0; i < len(s); i++ {
				for _, r := range rel[rune(s[i])] {
					add("unicode-case-relatives", base[:i]+string(r)+base[i+1:])
				}
			}
		}
	}
	// (5) every printable-ASCII string of length <= 2 (these also go through JSON, YAML and flag parsing)
	for a := 0x20; a < 0x7f; a++ {
		add("printable-ascii-length<=2", string([]byte{byte(a)}))
		for b := 0x20; b < 0x7f; b++ {
			add("printable-ascii-length<=2", string([]byte{byte(a), byte(b)}))
		}
	}
	// (6) edit distance 2 in the thorough tier
	if run.Thorough() {
		for _, s := range spellings {
			for _, base := range []string{s, strings.ToUpper(s)} {
				for _, e1 := range edits1(base, editAlphabet) {
					for _, e2 := range edits1(e1, editAlphabet) {
						add("edit-distance-2", e2)
					}
				}
			}
		}
	}
	st.distinct = len(items)
	par.For(len(items), func(i int) {
		c.check([]byte(items[i].text), allAPIs, items[i].family, false)
	})
	phase("text structured families")
	// zap.LevelFlag on the process-wide flag set (sequential: flag.CommandLine is not goroutine safe)
	for _, p := range valid[:1] {
		name := "c20-level"
		ptr := zap.LevelFlag(name, p, "")
		if *ptr != p {
			run.Report("text:LevelFlag:default-not-kept", fmt.Sprintf("LevelFlag default %v reads back as %v", p, *ptr), map[string]any{"kind": "levelflag"})
		}
		lf := []textAPI{{name: "zap.LevelFlag+flag.Set", hasTarget: true, ok: always, call: func(t []byte, preset zapcore.Level) (zapcore.Level, error) {
			*ptr = preset
			err := flag.Set(name, string(t))
			return *ptr, err
		}}}
		for _, it := range items {
			if it.family != "case-variants" && it.family != "empty-string" && it.family != "edit-distance-1" && it.family != "unicode-case-relatives" {
				continue
			}
			c.check([]byte(it.text), lf, it.family, false)
		}
	}
	// nil receiver: documented to return an error
	func() {
		defer func() {
			if r := recover(); r != nil {
				run.Report("text:nil-receiver:panic", fmt.Sprintf("(*Level)(nil).UnmarshalText panicked: %v", r), map[string]any{"kind": "nil-receiver"})
			}
		}()
		var np *zapcore.Level
		if err := np.UnmarshalText([]byte("info")); err == nil {
			run.Report("text:nil-receiver:no-error", "(*Level)(nil).UnmarshalText returned nil", map[string]any{"kind": "nil-receiver"})
		}
		c.evals.Add(1)
	}()

	phase("text LevelFlag")
	// (7) every byte string of length <= 3 through the five direct entry points
	var short atomic.Int64
	par.For(257, func(sh int) {
		var n int64
		if sh == 256 {
			c.check(nil, fastAPIs, "all-bytes-length<=3", true)
			n++
			for a := 0; a < 256; a++ {
				c.check([]byte{byte(a)}, fastAPIs, "all-bytes-length<=3", true)
				n++
				for b := 0; b < 256; b++ {
					c.check([]byte{byte(a), byte(b)}, fastAPIs, "all-bytes-length<=3", true)
					n++
				}
			}
			short.Add(n)
			return
		}
		buf := []byte{byte(sh), 0, 0}
		for b := 0; b < 256; b++ {
			for d := 0; d < 256; d++ {
				buf[1], buf[2] = byte(b), byte(d)
				c.check(buf, fastAPIs, "all-bytes-length<=3", true)
				n++
			}
		}
		short.Add(n)
	})
	st.shortStrings = short.Load()

	phase("text all strings <= 3 bytes")
	// (8) every 4-byte string over a 64-byte alphabet (all letters and 12 others): reaches the
	// 4-letter names in every spelling among all their same-length neighbours
	alpha4 := []byte("debuginfowarpctlDEBUGINFOWARPCTL") // the letters occurring in level names
	alpha4 = append(alpha4, ' ', '\n', 0x00, '0', '_', '(', 0xc4, 0xb0)
	if run.Thorough() {
		alpha4 = []byte("abcdefghijklmnopqrstuvwxyzABCDEFGHIJKLMNOPQRSTUVWXYZ")
		alpha4 = append(alpha4, ' ', '\n', '\t', 0x00, '0', '1', '-', '_', '(', ')', 0xc4, 0xb0)
	}
	st.fourByteAlphabet = len(alpha4)
	var four atomic.Int64
	var mu sync.Mutex
	accepted4 := map[string]bool{}
	par.For(len(alpha4)*len(alpha4), func(sh int) {
		buf := []byte{alpha4[sh/len(alpha4)], alpha4[sh%len(alpha4)], 0, 0}
		var n int64
		for _, x := range alpha4 {
			for _, y := range alpha4 {
				buf[2], buf[3] = x, y
				c.check(buf, fastAPIs, "4-bytes-over-alphabet", true)
				n++
				if _, ok := refParse(buf); ok {
					mu.Lock()
					accepted4[string(buf)] = true
					mu.Unlock()
				}
			}
		}
		four.Add(n)
	})
	st.fourByte = four.Load()
	if len(accepted4) != 32 {
		ev.ToolError("4-byte enumeration reached %d accepted spellings, expected 32 (info, warn in every case)", len(accepted4))
	}

	phase("text 4-byte strings")
	st.evals = c.evals.Load()
	st.samples = []any{
		map[string]any{"text": "WaRnInG", "expect": "warn via every entry point from every pre-set level"},
		map[string]any{"text": "info\\n", "expect": "rejected, target unchanged"},
		map[string]any{"text": "Level(9)", "expect": "rejected (text form of an out-of-range level)"},
	}
	return st
}

// levelForms returns the text forms zap produces for l and checks the round
// trip for valid levels. msg is "<symptom>: details" on failure.
func levelForms(l zapcore.Level) (forms []string, msg string) {
	defer func() {
		if r := recover(); r != nil {
			msg = fmt.Sprintf("panic: producing a text form panicked: %v", r)
		}
	}()
	s := l.String()
	cs := l.CapitalString()
	mt, err := l.MarshalText()
	if err != nil {
		return nil, fmt.Sprintf("marshal-error: MarshalText returned %v", err)
	}
	js, err := json.Marshal(l)
	if err != nil {
		return nil, fmt.Sprintf("marshal-error: json.Marshal returned %v", err)
	}
	ys, err := yaml.Marshal(l)
	if err != nil {
		return nil, fmt.Sprintf("marshal-error: yaml.Marshal returned %v", err)
	}
	a := zap.NewAtomicLevelAt(l)
	as := a.String()
	amt, err := a.MarshalText()
	if err != nil {
		return nil, fmt.Sprintf("marshal-error: AtomicLevel.MarshalText returned %v", err)
	}
	ajs, err := json.Marshal(atomCfg{Level: a})
	if err != nil {
		return nil, fmt.Sprintf("marshal-error: json.Marshal(AtomicLevel) returned %v", err)
	}
	ays, err := yaml.Marshal(atomCfg{Level: a})
	if err != nil {
		return nil, fmt.Sprintf("marshal-error: yaml.Marshal(AtomicLevel) returned %v", err)
	}
	forms = []string{s, cs, string(mt), as, string(amt), fmt.Sprintf("%d", int(l)), strings.ToLower(cs)}
	// the marshaled text belongs to the caller: using it as scratch space must not
	// change what the next marshal of the same level produces
	mtText, amtText := string(mt), string(amt)
	for _, b := range [][]byte{mt, amt} {
		for i := range b {
			b[i] = '#'
		}
		_ = append(b[:0], "error"...)
	}
	mt2, err2 := l.MarshalText()
	amt2, err3 := a.MarshalText()
	if err2 != nil || err3 != nil || string(mt2) != mtText || string(amt2) != amtText {
		return forms, fmt.Sprintf("marshal-result-shared: after the caller overwrote the slices MarshalText returned, marshaling again gives %q, %v and %q, %v (before: %q and %q)", mt2, err2, amt2, err3, mtText, amtText)
	}
	mt, amt = mt2, amt2
	if a.Level() != l {
		return forms, fmt.Sprintf("atomic-level-value: NewAtomicLevelAt(%d).Level() = %d", l, a.Level())
	}
	if l.Get() != l {
		return forms, fmt.Sprintf("flag-getter: Get() = %v", l.Get())
	}
	if !isValidLevel(l) {
		return forms, ""
	}
	name := lowerName[l]
	chk := func(what, got, want string) {
		if got != want && msg == "" {
			msg = fmt.Sprintf("wrong-name: %s = %q, documented name is %q", what, got, want)
		}
	}
	chk("String()", s, name)
	chk("CapitalString()", cs, strings.ToUpper(name))
	chk("MarshalText()", string(mt), name)
	chk("json.Marshal", string(js), `"`+name+`"`)
	chk("yaml.Marshal", string(ys), name+"\n")
	chk("AtomicLevel.String()", as, name)
	chk("AtomicLevel.MarshalText()", string(amt), name)
	chk("json.Marshal(struct{AtomicLevel})", string(ajs), `{"level":"`+name+`"}`)
	chk("yaml.Marshal(struct{AtomicLevel})", string(ays), "level: "+name+"\n")
	if msg != "" {
		return
	}
	// marshal -> unmarshal is the identity for every valid level
	var back jsonCfg
	back.Level = 42
	if err := json.Unmarshal(ajs, &back); err != nil || back.Level != l {
		return forms, fmt.Sprintf("json-roundtrip: %s decodes to %v, %v", ajs, back.Level, err)
	}
	back.Level = 42
	if err := yaml.Unmarshal(ays, &back); err != nil || back.Level != l {
		return forms, fmt.Sprintf("yaml-roundtrip: %q decodes to %v, %v", ays, back.Level, err)
	}
	var ab atomCfg
	if err := json.Unmarshal(ajs, &ab); err != nil || ab.Level.Level() != l {
		return forms, fmt.Sprintf("json-roundtrip: %s decodes into a zero AtomicLevel as %v, %v", ajs, ab.Level, err)
	}
	return forms, ""
}

func sortStrings(s []string) {
	for i := 1; i < len(s); i++ {
		for j := i; j > 0 && s[j] < s[j-1]; j-- {
			s[j], s[j-1] = s[j-1], s[j]
		}
	}
}
