package main

import (
	"encoding/json"
	"fmt"
	"io"
	"net/http/httptest"
	"strings"
	"sync/atomic"
	"testing/iotest"

	"go.uber.org/zap"
	"go.uber.org/zap/zapcore"
	"go.uber.org/zap/zaptest/observer"
	"verif/harness/internal/ev"
	"verif/harness/internal/par"
)

// ---------------------------------------------------------------------------
// request alphabet. Every body / query is generated together with its abstract
// meaning, so that the reference never parses bytes with the libraries zap uses.

type bodyT struct {
	Name string `json:"name"`
	Raw  string `json:"-"`
	// JSON reading
	jsonObj      bool     // first JSON value is a well-formed object
	jsonLevels   []string // string values of its "level" members, in order
	jsonNonStr   bool     // a "level" member that is not a string (number, null)
	jsonTrailing bool     // non-space bytes follow the first value
	// form reading
	formLevels    []string // decoded values of the "level" keys, in order
	formMalformed bool     // the level pair is not valid URL encoding
}

type queryT struct {
	Name   string `json:"name"`
	Raw    string `json:"raw"`
	levels []string
}

type request struct {
	Method string  `json:"method"`
	CT     string  `json:"content_type"`
	Body   *bodyT  `json:"body"`
	Query  *queryT `json:"query"`
	Stream bool    `json:"stream,omitempty"` // the body arrives without a declared length (chunked / streamed upload: ContentLength -1)
}

// streamed hides the reader's concrete type, so that the request carries no Content-Length.
type streamed struct{ r io.Reader }

func (s streamed) Read(p []byte) (int, error) { return s.r.Read(p) }

func (r *request) String() string {
	t := "/log/level"
	if r.Query.Raw != "" {
		t += "?" + r.Query.Raw
	}
	how := ""
	if r.Stream {
		how = " (sent without a declared length)"
	}
	body := r.Body.Raw
	if len(body) > 300 {
		body = fmt.Sprintf("%s...(%d bytes, %s)", body[:80], len(body), r.Body.Name)
	}
	return fmt.Sprintf("%s %s [Content-Type: %q] body %q%s", r.Method, t, r.CT, body, how)
}

const (
	ctForm        = "application/x-www-form-urlencoded"
	ctFormCharset = "application/x-www-form-urlencoded; charset=UTF-8"
)

func jsonBody(name string, levels ...string) *bodyT {
	var m []string
	for _, l := range levels {
		m = append(m, `"level":"`+l+`"`) // levels here never need escaping
	}
	return &bodyT{Name: name, Raw: "{" + strings.Join(m, ",") + "}", jsonObj: true, jsonLevels: levels}
}

func formBody(name string, levels ...string) *bodyT {
	var m []string
	for _, l := range levels {
		m = append(m, "level="+l) // levels here never need escaping
	}
	return &bodyT{Name: name, Raw: strings.Join(m, "&"), formLevels: levels}
}

func coreBodies() []*bodyT {
	return []*bodyT{
		{Name: "empty"},
		jsonBody("json-valid-debug", "debug"),
		jsonBody("json-valid-error", "error"),
		jsonBody("json-alias-warning", "warning"),
		jsonBody("json-mixed-case", "DpAnIc"),
		jsonBody("json-empty-string", ""),
		jsonBody("json-bogus", "bogus"),
		{Name: "json-null-level", Raw: `{"level":null}`, jsonObj: true, jsonNonStr: true},
		{Name: "json-missing", Raw: `{}`, jsonObj: true},
		{Name: "json-number", Raw: `{"level":1}`, jsonObj: true, jsonNonStr: true},
		{Name: "json-array", Raw: `["debug"]`},
		{Name: "json-garbage", Raw: `{"level":"warn`},
		{Name: "json-trailing-garbage", Raw: `{"level":"fatal"} }x`, jsonObj: true, jsonLevels: []string{"fatal"}, jsonTrailing: true},
		jsonBody("json-duplicate-key", "debug", "panic"),
		formBody("form-valid-panic", "panic"),
		formBody("form-empty", ""),
		formBody("form-bogus", "bogus"),
		formBody("form-duplicate", "debug", "error"),
		{Name: "form-other-key", Raw: "lvl=debug&other=level"},
	}
}

func fullBodies() []*bodyT {
	bs := coreBodies()
	for _, s := range spellings {
		if s != "debug" && s != "error" && s != "warning" {
			bs = append(bs, jsonBody("json-valid-"+s, s))
		}
		bs = append(bs, jsonBody("json-upper-"+s, strings.ToUpper(s)))
		if s != "panic" {
			bs = append(bs, formBody("form-valid-"+s, s))
		}
		bs = append(bs, formBody("form-upper-"+s, strings.ToUpper(s)))
	}
	bs = append(bs,
		&bodyT{Name: "json-null", Raw: `null`},
		&bodyT{Name: "json-string", Raw: `"debug"`},
		&bodyT{Name: "json-other-key", Raw: `{"lvl":"debug","other":"level"}`, jsonObj: true},
		&bodyT{Name: "json-nested", Raw: `{"config":{"level":"debug"}}`, jsonObj: true},
		&bodyT{Name: "json-escaped-value", Raw: `{"level":"\u0064ebu\u0067"}`, jsonObj: true, jsonLevels: []string{"debug"}},
		&bodyT{Name: "json-whitespace", Raw: " \n{ \"level\" :\t\"error\" }\n", jsonObj: true, jsonLevels: []string{"error"}},
		&bodyT{Name: "json-extra-member", Raw: `{"other":1,"level":"fatal","more":[{}]}`, jsonObj: true, jsonLevels: []string{"fatal"}},
		jsonBody("json-padded-value", " info"),
		&bodyT{Name: "json-value-with-newline", Raw: `{"level":"info\n"}`, jsonObj: true, jsonLevels: []string{"info\n"}},
		jsonBody("json-out-of-range-form", "Level(9)"),
		&bodyT{Name: "json-bool", Raw: `{"level":true}`, jsonObj: true, jsonNonStr: true},
		&bodyT{Name: "json-object-level", Raw: `{"level":{"level":"debug"}}`, jsonObj: true, jsonNonStr: true},
		&bodyT{Name: "json-two-documents", Raw: `{"level":"dpanic"}{"level":"debug"}`, jsonObj: true, jsonLevels: []string{"dpanic"}, jsonTrailing: true},
		&bodyT{Name: "form-percent-encoded", Raw: "level=%64ebu%67", formLevels: []string{"debug"}},
		&bodyT{Name: "form-padded-plus", Raw: "level=+info", formLevels: []string{" info"}},
		&bodyT{Name: "form-malformed-escape", Raw: "level=%zz", formMalformed: true},
		&bodyT{Name: "form-malformed-percent", Raw: "level=%", formMalformed: true},
		&bodyT{Name: "form-level-after-other", Raw: "a=b&level=fatal&c=d", formLevels: []string{"fatal"}},
		&bodyT{Name: "form-key-only", Raw: "level", formLevels: []string{""}},
		formBody("form-out-of-range-form", "Level(9)"),
		&bodyT{Name: "garbage-bytes", Raw: "\x00\xff}{"},
	)
	// large bodies (a size limit on the request body sits well above any body of ordinary size): the level
	// first and last among a long run of other pairs / members, 1 KiB .. 70 KB
	for _, size := range []int{1000, 1100, 5000, 70000} {
		padF := strings.Repeat("p", size)
		padJ := strings.Repeat("j", size)
		bs = append(bs,
			&bodyT{Name: fmt.Sprintf("form-level-first-then-%d-bytes", size), Raw: "level=error&pad=" + padF, formLevels: []string{"error"}},
			&bodyT{Name: fmt.Sprintf("form-%d-bytes-then-level", size), Raw: "pad=" + padF + "&level=dpanic", formLevels: []string{"dpanic"}},
			&bodyT{Name: fmt.Sprintf("json-level-first-then-%d-bytes", size), Raw: `{"level":"error","pad":"` + padJ + `"}`, jsonObj: true, jsonLevels: []string{"error"}},
			&bodyT{Name: fmt.Sprintf("json-%d-bytes-then-level", size), Raw: `{"pad":"` + padJ + `","level":"dpanic"}`, jsonObj: true, jsonLevels: []string{"dpanic"}},
		)
	}
	return bs
}

func coreQueries() []*queryT {
	return []*queryT{
		{Name: "none"},
		{Name: "level=warn", Raw: "level=warn", levels: []string{"warn"}},
		{Name: "level=bogus", Raw: "level=bogus", levels: []string{"bogus"}},
	}
}

func fullQueries() []*queryT {
	return append(coreQueries(),
		&queryT{Name: "level=DEBUG", Raw: "level=DEBUG", levels: []string{"DEBUG"}},
		&queryT{Name: "level=(empty)", Raw: "level=", levels: []string{""}},
		&queryT{Name: "other=level", Raw: "other=level"},
	)
}

var coreMethods = []string{"GET", "PUT", "POST", "DELETE", "PATCH", "HEAD", "OPTIONS", "put"}
var fullMethods = append(append([]string{}, coreMethods...), "TRACE", "CONNECT", "Put", "get", "PUTX")
var coreCTs = []string{"", "application/json", ctForm, ctFormCharset, "text/plain"}
var fullCTs = append(append([]string{}, coreCTs...), "application/json; charset=utf-8", "multipart/form-data; boundary=x", "APPLICATION/X-WWW-FORM-URLENCODED")

func hasValid(levels []string) bool {
	for _, l := range levels {
		if l == "" {
			continue
		}
		if _, ok := refParse([]byte(l)); ok {
			return true
		}
	}
	return false
}

func hasEmpty(levels []string) bool {
	for _, l := range levels {
		if l == "" {
			return true
		}
	}
	return false
}

// excluded: combinations the documentation does not decide (DESIGN C20).
func excluded(r *request) bool {
	formish := strings.HasPrefix(strings.ToLower(r.CT), ctForm)
	// an empty `level` in a form body together with a valid `level` in the query
	if formish && hasEmpty(r.Body.formLevels) && hasValid(r.Query.levels) {
		return true
	}
	// media type names are case-insensitive in HTTP but zap's doc spells one exact value
	if r.CT == "APPLICATION/X-WWW-FORM-URLENCODED" && r.Method == "PUT" {
		return r.Body.Raw != "" || r.Query.Raw != "" // keep only the request that names nothing
	}
	// multipart bodies are not one of the two documented encodings; only requests that name nothing
	if strings.HasPrefix(r.CT, "multipart/") && r.Method == "PUT" {
		return !(r.Body.Name == "empty" || r.Body.Name == "garbage-bytes") || r.Query.Raw != ""
	}
	return false
}

func alphabet(methods, cts []string, bodies []*bodyT, queries []*queryT) (rs []*request, skipped int) {
	for _, m := range methods {
		for _, ct := range cts {
			for _, b := range bodies {
				for _, q := range queries {
					r := &request{Method: m, CT: ct, Body: b, Query: q}
					if excluded(r) {
						skipped++
						continue
					}
					rs = append(rs, r)
					if b.Raw != "" {
						// the same request with the body streamed (no declared length)
						rs = append(rs, &request{Method: m, CT: ct, Body: b, Query: q, Stream: true})
					}
				}
			}
		}
	}
	return
}

// ---------------------------------------------------------------------------
// reference

type outcome struct {
	accept bool
	level  zapcore.Level // level in force afterwards when accept
}

type verdict struct {
	allowed []outcome // accept=false means: 4xx and level unchanged
	path    string    // get | not-allowed | json | form | form-or-json
	reason  string
}

func (v *verdict) add(o outcome) {
	for _, x := range v.allowed {
		if x == o {
			return
		}
	}
	v.allowed = append(v.allowed, o)
}

// decide: the candidates are the first and the last occurrence (which of
// duplicate members/keys wins is not documented).
func decide(v *verdict, levels []string, emptyIsMissing bool) {
	for _, s := range []string{levels[0], levels[len(levels)-1]} {
		if s == "" && emptyIsMissing {
			v.add(outcome{})
			continue
		}
		if l, ok := refParse([]byte(s)); ok {
			v.add(outcome{true, l})
		} else {
			v.add(outcome{})
		}
	}
}

func formReading(v *verdict, r *request) string {
	switch {
	case r.Body.formMalformed:
		v.add(outcome{})
		if len(r.Query.levels) > 0 { // whether a malformed body level falls back to the query is not documented
			decide(v, r.Query.levels, true)
		}
		return "malformed-form-level"
	case len(r.Body.formLevels) > 0:
		decide(v, r.Body.formLevels, true)
		return "form-body-level"
	case len(r.Query.levels) > 0:
		decide(v, r.Query.levels, true)
		return "query-level"
	}
	v.add(outcome{})
	return "no-level"
}

func jsonReading(v *verdict, r *request) string {
	b := r.Body
	switch {
	case !b.jsonObj:
		v.add(outcome{})
		return "body-not-a-json-object"
	case b.jsonNonStr:
		v.add(outcome{})
		return "json-level-not-a-string"
	case len(b.jsonLevels) == 0:
		v.add(outcome{})
		return "no-level"
	}
	decide(v, b.jsonLevels, false)
	if b.jsonTrailing { // whether bytes after the first JSON value make the request malformed is not documented
		v.add(outcome{})
		return "json-level-with-trailing-bytes"
	}
	return "json-level"
}

func refServe(r *request) verdict {
	var v verdict
	switch r.Method {
	case "GET":
		v.path, v.reason = "get", "get"
		return v
	case "PUT":
	default:
		v.add(outcome{})
		v.path, v.reason = "not-allowed", "method"
		return v
	}
	switch {
	case r.CT == ctForm:
		v.path = "form"
		v.reason = formReading(&v, r)
	case strings.HasPrefix(r.CT, ctForm+";"):
		// the same media type with a parameter: "this content type" and "any other content type" can both be read into it
		v.path = "form-or-json"
		v.reason = formReading(&v, r) + "|" + jsonReading(&v, r)
	case r.CT == "" && r.Body.Raw == "" && len(r.Query.levels) > 0:
		// the documented example `curl -X PUT host/log/level?level=debug` sends exactly this; the text
		// says it sets the level, the rule "any other content type is JSON" says it does not
		v.path = "form-or-json"
		v.reason = formReading(&v, r) + "|" + jsonReading(&v, r)
	default:
		v.path = "json"
		v.reason = jsonReading(&v, r)
	}
	return v
}

func (v *verdict) kind() string {
	acc, rej := false, false
	for _, o := range v.allowed {
		if o.accept {
			acc = true
		} else {
			rej = true
		}
	}
	switch {
	case acc && rej:
		return "either"
	case acc:
		return "must-set"
	}
	return "must-reject"
}

// quick tier: length-2 sequences start from these levels (thorough: all 7)
var pairStartsQuick = valid

// ---------------------------------------------------------------------------
// implementation side

type rig struct {
	al     zap.AtomicLevel
	logs   *observer.ObservedLogs
	logger *zap.Logger
	child  *zap.Logger
}

func newRig(start zapcore.Level) *rig {
	al := zap.NewAtomicLevelAt(start)
	core, logs := observer.New(al)
	lg := zap.New(core, zap.WithFatalHook(zapcore.WriteThenPanic))
	return &rig{al: al, logs: logs, logger: lg, child: lg.With(zap.String("who", "child"))}
}

func logAt(lg *zap.Logger, l zapcore.Level) {
	defer func() { recover() }() // Panic and Fatal (hooked to panic) entries
	lg.Log(l, "probe")
}

// checkLoggers: both loggers deliver exactly the levels >= cur on their next calls.
func (g *rig) checkLoggers(cur zapcore.Level, deep bool) string {
	for _, lg := range []*zap.Logger{g.logger, g.child} {
		if lg.Level() != cur {
			return fmt.Sprintf("Logger.Level() = %v, level in force is %v", lg.Level(), cur)
		}
		for _, l := range valid {
			if lg.Core().Enabled(l) != (l >= cur) {
				return fmt.Sprintf("logger core Enabled(%v) = %v with level %v in force", l, !(l >= cur), cur)
			}
		}
	}
	levels := valid
	if !deep {
		levels = []zapcore.Level{cur - 1, cur}
		if cur == -1 {
			levels = levels[1:]
		}
	}
	for i, lg := range []*zap.Logger{g.logger, g.child} {
		for _, l := range levels {
			logAt(lg, l)
		}
		got := g.logs.TakeAll()
		var want []zapcore.Level
		for _, l := range levels {
			if l >= cur {
				want = append(want, l)
			}
		}
		if len(got) != len(want) {
			return fmt.Sprintf("logger %d logged at %v with level %v in force: %d entries delivered, want %d", i, levels, cur, len(got), len(want))
		}
		for k := range got {
			if got[k].Level != want[k] || len(got[k].Context) != i {
				return fmt.Sprintf("logger %d delivery %d: level %v with %d fields, want level %v with %d fields", i, k, got[k].Level, len(got[k].Context), want[k], i)
			}
		}
	}
	return ""
}

type obs struct {
	Code  int    `json:"code"`
	Body  string `json:"body"`
	After int    `json:"level_after"`
	Panic string `json:"panic,omitempty"`
}

func (g *rig) serve(r *request) (o obs) {
	defer func() {
		if p := recover(); p != nil {
			o.Panic = fmt.Sprint(p)
			o.After = int(g.al.Level())
		}
	}()
	target := "/log/level"
	if r.Query.Raw != "" {
		target += "?" + r.Query.Raw
	}
	var body io.Reader = strings.NewReader(r.Body.Raw)
	if r.Stream {
		body = streamed{iotest.OneByteReader(strings.NewReader(r.Body.Raw))}
	}
	req := httptest.NewRequest(r.Method, target, body)
	if r.Stream && req.ContentLength != -1 {
		panic("harness: streamed request has a declared length")
	}
	if r.CT != "" {
		req.Header.Set("Content-Type", r.CT)
	}
	rec := httptest.NewRecorder()
	g.al.ServeHTTP(rec, req)
	return obs{Code: rec.Code, Body: rec.Body.String(), After: int(g.al.Level())}
}

type httpChecker struct {
	run *ev.Run
}

// step serves one request on the rig and compares with the reference; returns
// the level afterwards and whether the step conformed.
func (c *httpChecker) step(g *rig, r *request, deep bool, trace func() any) (zapcore.Level, bool) {
	before := g.al.Level()
	v := refServe(r)
	o := g.serve(r)
	after := zapcore.Level(o.After)
	mclass := "PUT"
	switch v.path {
	case "get":
		mclass = "GET"
	case "not-allowed":
		mclass = "other-method"
	}
	fail := func(sym, what string) (zapcore.Level, bool) {
		key := fmt.Sprintf("http:%s:%s:%s:%s", sym, mclass, v.path, v.reason)
		c.run.Report(key, fmt.Sprintf("level %v in force; request %s -> status %d, body %q, level afterwards %v (%d): %s", before, r, o.Code, strings.TrimSpace(o.Body), after, o.After, what), trace())
		return after, false
	}
	if o.Panic != "" {
		return fail("panic", "the handler panicked: "+o.Panic)
	}
	if o.Code >= 500 || o.Code < 200 {
		return fail("status-5xx", "the handler must answer 2xx or 4xx")
	}
	if !isValidLevel(after) {
		return fail("invalid-level-set", "the level afterwards is not one of the seven levels")
	}
	is2xx := o.Code >= 200 && o.Code < 300
	is4xx := o.Code >= 400 && o.Code < 500
	if !is2xx && !is4xx {
		return fail("status-3xx", "the handler must answer 2xx or 4xx")
	}
	if v.path == "get" {
		if !is2xx {
			return fail("get-rejected", "GET must report the level")
		}
		if after != before {
			return fail("level-changed-by-get", "GET must not change the level")
		}
	} else {
		match := false
		for _, a := range v.allowed {
			if a.accept && is2xx && after == a.level {
				match = true
			}
			if !a.accept && is4xx && after == before {
				match = true
			}
		}
		if !match {
			switch k := v.kind(); {
			case k == "must-reject" && after != before:
				return fail("level-changed-by-rejectable-request", "the request names no valid level by the documented decoding; the level must stay unchanged")
			case k == "must-reject" && is2xx:
				return fail("invalid-request-answered-2xx", "the request names no valid level by the documented decoding; the answer must be 4xx")
			case is4xx && after != before:
				return fail("level-changed-with-4xx", "a request answered 4xx must leave the level unchanged")
			case k == "must-set" && is4xx:
				return fail("valid-request-rejected", fmt.Sprintf("the request names level %v; it must be set", v.allowed[0].level))
			case is2xx:
				return fail("wrong-level-set", fmt.Sprintf("allowed outcomes %v", v.describe(before)))
			}
			return fail("mismatch", fmt.Sprintf("allowed outcomes %v", v.describe(before)))
		}
	}
	// the response reports the level in force
	if is2xx {
		var m map[string]json.RawMessage
		if err := json.Unmarshal([]byte(o.Body), &m); err != nil {
			return fail("response-not-json", "the 2xx response body is not a JSON object: "+err.Error())
		}
		var s string
		if err := json.Unmarshal(m["level"], &s); err != nil || len(m) != 1 {
			return fail("response-shape", `the 2xx response is not {"level":"<name>"}`)
		}
		if s != lowerName[after] {
			return fail("response-level-not-in-force", fmt.Sprintf("the response reports %q, the level in force is %v", s, after))
		}
	} else if strings.TrimSpace(o.Body) != "" {
		var m map[string]json.RawMessage
		if err := json.Unmarshal([]byte(o.Body), &m); err != nil {
			return fail("error-response-not-json", "the 4xx response body is not a JSON object: "+err.Error())
		}
		if lv, ok := m["level"]; ok {
			var s string
			if json.Unmarshal(lv, &s) != nil || s != lowerName[after] {
				return fail("response-level-not-in-force", "the 4xx response reports a level that is not in force")
			}
		}
	}
	if msg := g.checkLoggers(after, deep); msg != "" {
		return fail("loggers-do-not-follow", msg)
	}
	return after, true
}

func (v *verdict) describe(before zapcore.Level) []string {
	var s []string
	for _, a := range v.allowed {
		if a.accept {
			s = append(s, fmt.Sprintf("2xx and level %v", a.level))
		} else {
			s = append(s, fmt.Sprintf("4xx and level stays %v", before))
		}
	}
	return s
}

type traceCase struct {
	Kind     string     `json:"kind"`
	Start    int        `json:"start_level"`
	Requests []*request `json:"requests"`
}

type httpStats struct {
	states, depthClosed            int
	transitions, traces, steps     int64
	alphabetFull, alphabetCore     int
	skippedFull, skippedCore       int
	pairsFrom                      []string
	distinct                       int
	statusCounts                   map[string]int64
	ambiguous, mustSet, mustReject int
	samples                        []any
	stateNames                     []string
	tripleAlphabet                 int
	pairAlphabet                   int
	triples                        int64
}

func httpPart(run *ev.Run) httpStats {
	c := &httpChecker{run: run}
	var st httpStats
	full, skF := alphabet(fullMethods, fullCTs, fullBodies(), fullQueries())
	core, skC := alphabet(coreMethods, coreCTs, coreBodies(), coreQueries())
	st.alphabetFull, st.skippedFull, st.alphabetCore, st.skippedCore = len(full), skF, len(core), skC
	for _, r := range full {
		if r.Method != "PUT" {
			continue
		}
		v := refServe(r)
		switch v.kind() {
		case "either":
			st.ambiguous++
		case "must-set":
			st.mustSet++
		default:
			st.mustReject++
		}
	}

	// explicit-state search: BFS from the initial state (NewAtomicLevel = info) over the full alphabet
	reach := map[zapcore.Level]bool{}
	init := zap.NewAtomicLevel().Level()
	reach[init] = true
	frontier := []zapcore.Level{init}
	status := map[string]int64{}
	distinct := map[string]bool{}
	depth := 0
	for len(frontier) > 0 {
		var next []zapcore.Level
		type job struct {
			s zapcore.Level
			r *request
		}
		var jobs []job
		for _, s := range frontier {
			for _, r := range full {
				jobs = append(jobs, job{s, r})
			}
		}
		succ := make([]zapcore.Level, len(jobs))
		par.For(len(jobs), func(i int) {
			j := jobs[i]
			g := newRig(j.s)
			if msg := g.checkLoggers(j.s, true); msg != "" {
				run.Report("http:loggers-do-not-follow:initial", msg, traceCase{"http", int(j.s), nil})
			}
			after, _ := c.step(g, j.r, true, func() any { return traceCase{"http", int(j.s), []*request{j.r}} })
			succ[i] = after
			// a GET afterwards reports the same level (observation from every reached state)
			get := &request{Method: "GET", Body: &bodyT{Name: "empty"}, Query: &queryT{Name: "none"}}
			c.step(g, get, false, func() any { return traceCase{"http", int(j.s), []*request{j.r, get}} })
		})
		for i, j := range jobs {
			st.transitions++
			st.traces++
			st.steps += 2
			v := refServe(j.r)
			if j.r.Method == "PUT" {
				distinct[fmt.Sprintf("%d|PUT|%s|%s|%s|%v", j.s, j.r.CT, j.r.Body.Name, j.r.Query.Name, j.r.Stream)] = true
			} else {
				distinct[fmt.Sprintf("%d|%s", j.s, j.r.Method)] = true
			}
			status[fmt.Sprintf("%s/%s", v.path, v.kind())]++
			if isValidLevel(succ[i]) && !reach[succ[i]] {
				reach[succ[i]] = true
				next = append(next, succ[i])
			}
		}
		if len(next) > 0 {
			depth++
		}
		frontier = next
	}
	st.states = len(reach)
	st.depthClosed = depth
	for _, l := range valid {
		if reach[l] {
			st.stateNames = append(st.stateNames, lowerName[l])
		} else {
			run.Report("http:state-unreachable:"+lowerName[l], fmt.Sprintf("level %v is not reachable from the initial level through any request of the alphabet", l), traceCase{"http", int(init), nil})
		}
	}
	st.distinct = len(distinct)
	st.statusCounts = status

	// all length-2 sequences over the core alphabet, every sequence on a fresh AtomicLevel (no state merging)
	starts := valid
	if !run.Thorough() {
		starts = pairStartsQuick
	}
	phase("endpoint BFS")
	// quick tier: pairs over the GET/PUT/POST x {no content type, JSON, form} part of the core alphabet
	pairAlpha := core
	if !run.Thorough() {
		pairAlpha = nil
		for _, r := range core {
			if !r.Stream && (r.Method == "GET" || r.Method == "PUT" || r.Method == "POST") && (r.CT == "" || r.CT == "application/json" || r.CT == ctForm) {
				pairAlpha = append(pairAlpha, r)
			}
		}
	}
	st.pairAlphabet = len(pairAlpha)
	var pairTraces, pairSteps atomic.Int64
	par.For(len(starts)*len(pairAlpha), func(i int) {
		s, r1 := starts[i/len(pairAlpha)], pairAlpha[i%len(pairAlpha)]
		var n int64
		for _, r2 := range pairAlpha {
			g := newRig(s)
			n++
			if _, ok := c.step(g, r1, false, func() any { return traceCase{"http", int(s), []*request{r1}} }); !ok {
				continue
			}
			c.step(g, r2, false, func() any { return traceCase{"http", int(s), []*request{r1, r2}} })
		}
		pairTraces.Add(n)
		pairSteps.Add(2 * n)
	})
	st.traces += pairTraces.Load()
	st.steps += pairSteps.Load()
	for _, s := range starts {
		st.pairsFrom = append(st.pairsFrom, lowerName[s])
	}

	phase("endpoint length-2 sequences")
	// thorough: all length-3 sequences over the PUT/GET requests of the core alphabet
	if run.Thorough() {
		var sub []*request
		for _, r := range core {
			if r.Stream {
				continue // streamed twins take part in the BFS and in the length-2 sequences
			}
			if (r.Method == "PUT" && (r.CT == "" || r.CT == ctForm)) || (r.Method == "GET" && r.CT == "" && r.Body.Raw == "" && r.Query.Raw == "") || (r.Method == "POST" && r.CT == ctForm && r.Body.Name == "form-valid-panic" && r.Query.Raw == "") {
				sub = append(sub, r)
			}
		}
		st.tripleAlphabet = len(sub)
		var tr atomic.Int64
		par.For(len(starts)*len(sub), func(i int) {
			s, r1 := starts[i/len(sub)], sub[i%len(sub)]
			var n int64
			for _, r2 := range sub {
				for _, r3 := range sub {
					g := newRig(s)
					n++
					seq := []*request{r1, r2, r3}
					for k, r := range seq {
						k := k
						if _, ok := c.step(g, r, false, func() any { return traceCase{"http", int(s), seq[:k+1]} }); !ok {
							break
						}
					}
				}
			}
			tr.Add(n)
		})
		st.triples = tr.Load()
		st.traces += st.triples
		st.steps += 3 * st.triples
	}

	st.samples = []any{
		map[string]any{"state": "error", "request": full[len(full)/3].String()},
		map[string]any{"state": "fatal", "sequence": []string{core[len(core)/5].String(), core[len(core)/2].String()}},
	}
	return st
}
