// Command c17 decides property C17 (zapio.Writer line splitting): every byte
// stream up to a length over {a,b,LF}, under every way of cutting it into
// Write calls with empty writes and Syncs at the cuts, against a list model.
package main

import (
	"fmt"
	"strings"
	"sync"
	"sync/atomic"

	"go.uber.org/zap"
	"go.uber.org/zap/zapcore"
	"go.uber.org/zap/zapio"
	"go.uber.org/zap/zaptest/observer"
	"verif/harness/internal/ev"
	"verif/harness/internal/par"
)

// boundary actions
const (
	bNone = iota
	bCut
	bCutEmpty
	bCutSync
	nB
)

type step struct {
	kind byte // 'W' 'S' 'C'
	data string
}

func (s step) String() string {
	if s.kind == 'W' {
		return fmt.Sprintf("Write(%q)", s.data)
	}
	if s.kind == 'S' {
		return "Sync"
	}
	return "Close"
}

// plan turns a stream and a cut pattern into a call sequence.
func plan(stream string, cuts []int, syncFirst bool, tail int) []step {
	var st []step
	if syncFirst {
		st = append(st, step{kind: 'S'})
	}
	start := 0
	for i := 1; i < len(stream); i++ {
		switch cuts[i-1] {
		case bNone:
			continue
		case bCut:
			st = append(st, step{'W', stream[start:i]})
		case bCutEmpty:
			st = append(st, step{'W', stream[start:i]}, step{'W', ""})
		case bCutSync:
			st = append(st, step{'W', stream[start:i]}, step{kind: 'S'})
		}
		start = i
	}
	if len(stream) > 0 {
		st = append(st, step{'W', stream[start:]})
	}
	st = append(st, step{kind: 'C'})
	switch tail {
	case 1:
		st = append(st, step{kind: 'S'})
	case 2:
		st = append(st, step{kind: 'C'})
	}
	return st
}

// reference: the list model
func reference(st []step) []string {
	var out []string
	var partial []byte
	for _, s := range st {
		switch s.kind {
		case 'W':
			for i := 0; i < len(s.data); i++ {
				if s.data[i] == '\n' {
					out = append(out, string(partial))
					partial = partial[:0]
				} else {
					partial = append(partial, s.data[i])
				}
			}
		default:
			if len(partial) > 0 {
				out = append(out, string(partial))
				partial = partial[:0]
			}
		}
	}
	return out
}

type runner struct {
	logs    *observer.ObservedLogs
	logger  *zap.Logger
	dlogs   *observer.ObservedLogs
	dlogger *zap.Logger
	checked *[]string // the message every accepted entry had when the core took its Check decision
	// a core that enables an application-defined level below Debug through a function enabler (and Info and up)
	tlogs   *observer.ObservedLogs
	tlogger *zap.Logger
}

const traceLevel = zapcore.DebugLevel - 1

// spyCore records the message an entry carries at the moment the core decides on it:
// cores may decide by message (samplers, filters), so the line must already be there.
type spyCore struct {
	zapcore.Core
	checked *[]string
}

func (c spyCore) Check(ent zapcore.Entry, ce *zapcore.CheckedEntry) *zapcore.CheckedEntry {
	if c.Enabled(ent.Level) {
		*c.checked = append(*c.checked, ent.Message)
		return ce.AddCore(ent, c)
	}
	return ce
}
func (c spyCore) With(fs []zapcore.Field) zapcore.Core { return spyCore{c.Core.With(fs), c.checked} }

func newRunner() *runner {
	c, l := observer.New(zap.DebugLevel)
	dc, dl := observer.New(zap.ErrorLevel)
	checked := new([]string)
	tc, tl := observer.New(zap.LevelEnablerFunc(func(l zapcore.Level) bool { return l == traceLevel || l >= zapcore.InfoLevel }))
	return &runner{tlogs: tl, tlogger: zap.New(spyCore{tc, checked}), logs: l, logger: zap.New(spyCore{c, checked}), dlogs: dl, dlogger: zap.New(spyCore{dc, checked}), checked: checked}
}

// exec runs the plan against a fresh zapio.Writer; returns a description of the first mismatch.
func (r *runner) exec(st []step, level zapcore.Level, disabled bool) (msg string) {
	defer func() {
		if p := recover(); p != nil {
			msg = fmt.Sprintf("panic: %v", p)
		}
	}()
	lg, logs := r.logger, r.logs
	if disabled {
		lg, logs = r.dlogger, r.dlogs
	}
	if level == traceLevel {
		lg, logs = r.tlogger, r.tlogs
	}
	w := &zapio.Writer{Log: lg, Level: level}
	*r.checked = (*r.checked)[:0]
	var scratch []byte
	for i, s := range st {
		switch s.kind {
		case 'W':
			// io.Writer: "Write must not modify the slice data ... Implementations
			// must not retain p." The caller owns the buffer and reuses it, as
			// io.Copy and os/exec do: the chunk is handed over in a scratch
			// buffer that is overwritten as soon as Write returns.
			buf := append(scratch[:0], s.data...)
			n, err := w.Write(buf)
			if string(buf) != s.data {
				logs.TakeAll()
				return fmt.Sprintf("call %d %v modified the caller's slice: %q", i, s, buf)
			}
			for j := range buf {
				buf[j] = 0xDB
			}
			scratch = buf
			if n != len(s.data) || err != nil {
				logs.TakeAll()
				return fmt.Sprintf("call %d %v returned (%d, %v)", i, s, n, err)
			}
		case 'S':
			if err := w.Sync(); err != nil {
				logs.TakeAll()
				return fmt.Sprintf("call %d Sync returned %v", i, err)
			}
		case 'C':
			if err := w.Close(); err != nil {
				logs.TakeAll()
				return fmt.Sprintf("call %d Close returned %v", i, err)
			}
		}
	}
	got := logs.TakeAll()
	if disabled {
		if len(got) != 0 {
			return fmt.Sprintf("level disabled but %d messages were logged", len(got))
		}
		return ""
	}
	want := reference(st)
	if len(got) != len(want) {
		return fmt.Sprintf("logged %d messages %q, the stream has lines %q", len(got), msgs(got), want)
	}
	for i := range got {
		if got[i].Message != want[i] {
			return fmt.Sprintf("message %d is %q, want %q (all: %q vs %q)", i, got[i].Message, want[i], msgs(got), want)
		}
		if got[i].Level != level {
			return fmt.Sprintf("message %d logged at %v, want %v", i, got[i].Level, level)
		}
		if len(got[i].Context) != 0 {
			return fmt.Sprintf("message %d carries unexpected fields", i)
		}
	}
	if ch := *r.checked; len(ch) != len(want) {
		return fmt.Sprintf("the core was asked to decide on %d entries %q, the stream has lines %q", len(ch), ch, want)
	} else {
		for i := range ch {
			if ch[i] != want[i] {
				return fmt.Sprintf("entry %d carried the message %q when the core decided on it (Check), the line is %q", i, ch[i], want[i])
			}
		}
	}
	return ""
}

func msgs(es []observer.LoggedEntry) []string {
	var s []string
	for _, e := range es {
		s = append(s, e.Message)
	}
	return s
}

func planStr(st []step) string {
	var s []string
	for _, x := range st {
		s = append(s, x.String())
	}
	return strings.Join(s, " ")
}

func main() {
	run := ev.Start("C17", "model_checking")
	maxLen := 6
	if run.Thorough() {
		maxLen = 7
	}
	alpha := []byte{'a', 'b', '\n'}
	var evals, calls atomic.Int64
	var mu sync.Mutex
	states := map[string]bool{}
	var sample []any

	// all streams of length 0..maxLen
	var streams []string
	var gen func(cur []byte)
	gen = func(cur []byte) {
		streams = append(streams, string(cur))
		if len(cur) == maxLen {
			return
		}
		for _, c := range alpha {
			gen(append(cur, c))
		}
	}
	gen(nil)
	// special streams: multi-byte rune split across writes, invalid bytes, a very long line
	long := strings.Repeat("L", 5000)
	special := []string{"\xef\xbb\xbfabc\nq", "\xef\xbb\xbf", "\xef\xbb\xbf\n\xef\xbb\xbfx\n", "\xff\xfea\n", "é\n€x", "a\xffb\n\x80", "\xe2\x82", long + "\nq", "x\n" + long, "\r\n\r\n", "a\x00b\n\x00"}
	report := func(stream string, st []step, level zapcore.Level, disabled bool, msg string) {
		key := "split:" + planStr(st)
		if len(key) > 300 {
			key = key[:300]
		}
		run.Report(key, fmt.Sprintf("stream %q as [%s] (level %v, disabled=%v): %s", trunc(stream), trunc(planStr(st)), level, disabled, msg), map[string]any{"stream": trunc(stream), "calls": trunc(planStr(st))})
	}

	par.For(len(streams), func(si int) {
		r := newRunner()
		stream := streams[si]
		local := map[string]bool{}
		nb := len(stream) - 1
		if nb < 0 {
			nb = 0
		}
		cuts := make([]int, nb)
		var e, c int64
		for {
			for _, syncFirst := range []bool{false, true} {
				// tail variants only with syncFirst=false to keep the product small
				tails := 1
				if !syncFirst {
					tails = 3
				}
				for tail := 0; tail < tails; tail++ {
					st := plan(stream, cuts, syncFirst, tail)
					e++
					c += int64(len(st))
					if msg := r.exec(st, zap.InfoLevel, false); msg != "" {
						report(stream, st, zap.InfoLevel, false, msg)
					}
					if len(local) < 2000 {
						local[fmt.Sprint(reference(st))] = true
					}
				}
			}
			// level disabled / other levels: once per cut pattern
			st := plan(stream, cuts, false, 0)
			e++
			if msg := r.exec(st, zap.InfoLevel, true); msg != "" {
				report(stream, st, zap.InfoLevel, true, msg)
			}
			if si%97 == 0 {
				e++
				if msg := r.exec(st, zap.WarnLevel, false); msg != "" {
					report(stream, st, zap.WarnLevel, false, msg)
				}
			}
			if si%13 == 0 {
				// an application-defined level below Debug that the core enables through a function enabler
				e++
				if msg := r.exec(st, traceLevel, false); msg != "" {
					report(stream, st, traceLevel, false, msg)
				}
			}
			// next cut pattern
			i := 0
			for i < nb {
				cuts[i]++
				if cuts[i] < nB {
					break
				}
				cuts[i] = 0
				i++
			}
			if i == nb {
				break
			}
		}
		evals.Add(e)
		calls.Add(c)
		mu.Lock()
		for k := range local {
			if len(states) < 200000 {
				states[k] = true
			}
		}
		if si == len(streams)/3 {
			sample = append(sample, map[string]any{"stream": stream, "one_plan": planStr(plan(stream, cuts, true, 0)), "lines": reference(plan(stream, cuts, true, 0))})
		}
		mu.Unlock()
	})
	// a line longer than 64 KiB spread over several writes (io.Copy hands over 32 KiB chunks): every subset of
	// the cut positions around the 32 KiB / 64 KiB marks and the line end, plus regular 1000-byte and 32 KiB chunkings
	{
		huge := strings.Repeat("H", 70000) + "\nab\n"
		nb := len(huge) - 1
		marks := []int{0, 32767, 65534, 65535, 65536, 69998, 69999, 70000}
		var plans [][]int
		for m := 0; m < 1<<len(marks); m++ {
			cuts := make([]int, nb)
			for i, p := range marks {
				if m&(1<<i) != 0 {
					cuts[p] = 1
				}
			}
			plans = append(plans, cuts)
		}
		for _, chunk := range []int{1000, 32768} {
			cuts := make([]int, nb)
			for p := chunk - 1; p < nb; p += chunk {
				cuts[p] = 1
			}
			plans = append(plans, cuts)
		}
		par.For(len(plans), func(i int) {
			r := newRunner()
			st := plan(huge, plans[i], false, 0)
			if msg := r.exec(st, zap.InfoLevel, false); msg != "" {
				report(huge, st, zap.InfoLevel, false, msg)
			}
			evals.Add(1)
			calls.Add(int64(len(st)))
		})
	}
	// line-length sweep: one line of every length 1..maxLine followed by a short line, cut in two at every
	// position (plain cut), and lines around the 64/128/256/512/1024-byte marks cut in three at every pair
	// of positions near the ends and the marks
	maxLine := 300
	if run.Thorough() {
		maxLine = 1100
	}
	par.For(maxLine, func(li int) {
		L := li + 1
		r := newRunner()
		stream := strings.Repeat("s", L) + "\nz\n"
		nb := len(stream) - 1
		var e, c int64
		try := func(cuts []int) {
			st := plan(stream, cuts, false, 0)
			e++
			c += int64(len(st))
			if msg := r.exec(st, zap.InfoLevel, false); msg != "" {
				report(stream, st, zap.InfoLevel, false, msg)
			}
		}
		for p := 0; p < nb; p++ {
			cuts := make([]int, nb)
			cuts[p] = bCut
			try(cuts)
		}
		near := false
		for _, m := range []int{64, 128, 256, 512, 1024} {
			if L >= m-1 && L <= m+2 || L == 2*m-56 {
				near = true
			}
		}
		if near {
			var pos []int
			for p := 0; p < nb; p++ {
				if p < 3 || p > nb-5 || p%64 >= 62 || p%64 <= 1 || p%64 == 27 {
					pos = append(pos, p)
				}
			}
			for i, p1 := range pos {
				for _, p2 := range pos[i+1:] {
					cuts := make([]int, nb)
					cuts[p1], cuts[p2] = bCut, bCut
					try(cuts)
				}
			}
		}
		evals.Add(e)
		calls.Add(c)
	})
	// special streams: every single cut position x action, and every pair of cut positions
	par.For(len(special), func(si int) {
		r := newRunner()
		stream := special[si]
		nb := len(stream) - 1
		pos := []int{}
		for i := 0; i < nb; i++ {
			if nb < 40 || i < 8 || i > nb-8 || (i > 4995 && i < 5006) {
				pos = append(pos, i)
			}
		}
		var e int64
		for _, p1 := range pos {
			for _, p2 := range pos {
				if p2 < p1 {
					continue
				}
				for a1 := 1; a1 < nB; a1++ {
					for a2 := 1; a2 < nB; a2++ {
						cuts := make([]int, nb)
						cuts[p1] = a1
						cuts[p2] = a2
						st := plan(stream, cuts, false, 0)
						e++
						if msg := r.exec(st, zap.InfoLevel, false); msg != "" {
							report(stream, st, zap.InfoLevel, false, msg)
						}
					}
				}
			}
		}
		evals.Add(e)
	})
	sample = append(sample, map[string]any{"special_stream": "é\\n€x split inside the multi-byte runes"})
	run.Assume = []string{"stream alphabet {a,b,LF} up to the stated length plus listed special streams (a leading byte order mark, multi-byte, invalid UTF-8, NUL, CR, 5000-byte line, a 70000-byte line cut around the 32 KiB / 64 KiB marks); a line of every length up to the stated maximum cut in two at every position, and in three around the 64..1024-byte marks",
		"Writer.Level is also an application-defined level below Debug that the core enables through a function enabler (every 13th stream, every cut pattern)",
		"the logger's core records the message each entry carries when Check decides on it: it must already be the line (cores may decide by message)"}
	run.Finish(map[string]any{
		"states":                        len(states),
		"transitions":                   calls.Load(),
		"traces_validated_against_impl": evals.Load(),
		"evaluations":                   evals.Load(),
		"distinct_nontrivial":           len(states),
		"rule":                          fmt.Sprintf("every stream of length <=%d over {a,b,LF} x every assignment of {no cut, cut, cut+empty Write, cut+Sync} to its byte boundaries x {Sync first or not} x {Close, Close+Sync, Close+Close}, each on a fresh zapio.Writer over an observer core, enabled and disabled level; distinct = distinct reference line lists", maxLen),
		"samples":                       sample,
		"exhaustive":                    true,
		"streams":                       len(streams),
		"max_stream_length":             maxLen,
		"line_length_sweep_max":         maxLine,
	})
}

func trunc(s string) string {
	if len(s) > 200 {
		return s[:200] + fmt.Sprintf("...(%d bytes)", len(s))
	}
	return s
}
