// Command c09 decides property C09: generated multi-thread programs over zap's
// documented concurrent API are run on the real code under the controlled
// scheduler in a -race build. The scheduler's hand-off is invisible to the race
// detector, so TSan checks the program's own happens-before relation on every
// explored schedule; deadlocks, livelocks and panics are scheduler verdicts.
package main

import (
	"context"
	"errors"
	"fmt"
	"log/slog"
	"os"
	"strconv"
	"strings"
	"syscall"
	"time"

	"go.uber.org/multierr"
	"go.uber.org/zap"
	"go.uber.org/zap/exp/zapslog"
	"go.uber.org/zap/zapcore"
	"go.uber.org/zap/zaptest/observer"
	"go.uber.org/zap/zzverif/vsched"
	"go.uber.org/zap/zzverif/vsync"
	"verif/harness/internal/ev"
	"verif/harness/internal/hx"
	"verif/harness/internal/mc"
)

type rsink struct {
	buf     []byte
	syncs   int
	syncErr error // what Sync reports (nil for a healthy sink)
}

func (s *rsink) Write(p []byte) (int, error) { s.buf = append(s.buf, p...); return len(p), nil }
func (s *rsink) Sync() error                 { s.syncs++; return s.syncErr }

type env struct {
	family string
	L      *zap.Logger
	S      *zap.SugaredLogger
	Z      *zap.Logger // fresh WithLazy child
	F      *zap.Logger // logger with a panicking fatal hook
	AL     zap.AtomicLevel
	H      slog.Handler
	H3     slog.Handler // shared handler with three pending (not yet applied) groups
	BWS    *zapcore.BufferedWriteSyncer
	LWS    zapcore.WriteSyncer
	obs    *observer.ObservedLogs
	clock  *hx.FixedClock
	G      *zap.Logger // for ReplaceGlobals
	C      *zap.Logger // shared child with a namespaced context
	// out-of-range levels: a fresh block of values per execution, one slot per thread (no sharing between threads)
	oorBase  int
	oorCalls [4]int
	sinks    []*rsink
}

var families = []string{"io", "tee", "sampler", "hooked", "increase", "lazy", "observer", "buffered", "console", "combine1", "ttylike"}

func build(family string, warm int) *env {
	oorNext += 8 // build runs before the threads start
	e := &env{family: family, clock: hx.NewFixedClock(), oorBase: oorNext}
	e.AL = zap.NewAtomicLevelAt(zap.DebugLevel)
	enc := func() zapcore.Encoder {
		cfg := zap.NewProductionEncoderConfig()
		if family == "tee" || family == "lazy" || family == "buffered" || family == "sampler" {
			// the other built-in sub-encoders (layout-based time, string duration, capital level, full caller)
			cfg.EncodeTime, cfg.EncodeDuration, cfg.EncodeLevel, cfg.EncodeCaller = zapcore.ISO8601TimeEncoder, zapcore.StringDurationEncoder, zapcore.CapitalLevelEncoder, zapcore.FullCallerEncoder
		}
		return zapcore.NewJSONEncoder(cfg)
	}
	newSink := func() *rsink { s := &rsink{}; e.sinks = append(e.sinks, s); return s }
	io := func() zapcore.Core { return zapcore.NewCore(enc(), zapcore.Lock(newSink()), e.AL) }
	var core zapcore.Core
	var ologs *observer.ObservedLogs
	switch family {
	case "io":
		core = io()
	case "console": // console encoder (its context encoder is shared by every entry of a derived logger)
		ccfg := zap.NewDevelopmentEncoderConfig()
		ccfg.EncodeLevel = zapcore.CapitalColorLevelEncoder // the colour encoders keep package-level lookup tables
		core = zapcore.NewCore(zapcore.NewConsoleEncoder(ccfg), zapcore.Lock(newSink()), e.AL)
	case "ttylike": // a locked sink whose Sync reports EINVAL, as stderr does on a terminal or pipe (the sync after every entry above Error hits it)
		ts := newSink()
		ts.syncErr = syscall.EINVAL
		core = zapcore.NewCore(enc(), zapcore.Lock(ts), e.AL)
	case "combine1": // a single destination behind CombineWriteSyncers: documented to be locked like several
		core = zapcore.NewCore(enc(), zap.CombineWriteSyncers(newSink()), e.AL)
	case "tee":
		var oc zapcore.Core
		oc, ologs = observer.New(e.AL)
		core = zapcore.NewTee(io(), oc)
	case "sampler":
		core = zapcore.NewSamplerWithOptions(io(), time.Second, 1, 2, zapcore.SamplerHook(func(zapcore.Entry, zapcore.SamplingDecision) {}))
	case "hooked":
		n := new(vsyncCounter)
		core = zapcore.RegisterHooks(io(), func(zapcore.Entry) error { n.inc(); return nil })
	case "increase":
		c, err := zapcore.NewIncreaseLevelCore(io(), zap.InfoLevel)
		if err != nil {
			panic(mc.ToolErr{Msg: err.Error()})
		}
		core = c
	case "lazy":
		core = zapcore.NewLazyWith(io(), []zapcore.Field{zap.Int("lz", 1)})
	case "observer":
		core, ologs = observer.New(e.AL)
	case "buffered":
		e.BWS = &zapcore.BufferedWriteSyncer{WS: newSink(), Size: 128, Clock: e.clock, FlushInterval: time.Hour}
		core = zapcore.NewCore(enc(), e.BWS, e.AL)
	default:
		panic(mc.ToolErr{Msg: "family " + family})
	}
	e.obs = ologs
	e.L = zap.New(core, zap.WithClock(e.clock), zap.AddStacktrace(zap.ErrorLevel))
	e.S = e.L.Sugar()
	e.Z = e.L.WithLazy(zap.Int("lazy", 7))
	e.F = e.L.WithOptions(zap.WithFatalHook(zapcore.WriteThenPanic))
	e.H = zapslog.NewHandler(core)
	e.H3 = e.H.WithGroup("a").WithGroup("b").WithGroup("c")
	e.LWS = zapcore.Lock(newSink())
	e.G = e.L.Named("g")
	e.C = e.L.With(zap.Namespace("ctx"), zap.Int("c", 1))
	if warm >= 2 {
		rarePaths(e)
	}
	if warm >= 1 {
		e.L.Info("warm")
		e.S.Infow("warm", "k", 1)
		e.Z.Info("warm")
		_ = e.H.Handle(context.Background(), slog.NewRecord(e.clock.T, slog.LevelInfo, "warm", 0))
		e.L.Error("warm-stack", zap.Error(errors.New("x")))
	}
	return e
}

// rarePaths is a history that takes the seldom-used exits of the logging path once, sequentially,
// before the threads start: whatever those exits leave in the pools is what the concurrent calls get.
func rarePaths(e *env) {
	quiet := zap.ErrorOutput(zapcore.AddSync(discard{}))
	e.L.WithOptions(zap.AddCaller(), zap.AddCallerSkip(1000), quiet).Info("caller-not-found")
	e.L.WithOptions(zap.AddCaller(), zap.AddCallerSkip(1000), zap.AddStacktrace(zap.DebugLevel), quiet).Warn("caller-and-stack-not-found")
	e.L.Info("unencodable", zap.Reflect("ch", make(chan int)), zap.Object("o", failObj{}), zap.Stringer("s", panicStr{}), zap.Error(panicErr{}))
	rec(func() { e.L.WithOptions(quiet).Panic("recovered") })
	_ = e.L.Check(zap.InfoLevel, "checked-never-written")
	e.L.Info("stack-field", zap.StackSkip("deep", 1000), zap.Stack("st"))
	_ = e.H.Handle(context.Background(), slog.NewRecord(e.clock.T, slog.LevelError, "slog-error-with-stack", 0))
}

type discard struct{}

func (discard) Write(p []byte) (int, error) { return len(p), nil }

type failObj struct{}

func (failObj) MarshalLogObject(enc zapcore.ObjectEncoder) error {
	enc.OpenNamespace("ns")
	return errors.New("marshal failed")
}

type panicStr struct{}

func (panicStr) String() string { panic("stringer") }

type panicErr struct{}

func (panicErr) Error() string { panic("error") }

type vsyncCounter struct {
	mu vsync.Mutex
	n  int
}

func (c *vsyncCounter) inc() { c.mu.Lock(); c.n++; c.mu.Unlock() }

type opFn func(e *env, thr int)

func rec(f func()) {
	defer func() { _ = recover() }()
	f()
}

var ops = map[string]opFn{
	"info": func(e *env, t int) { e.L.Info("m", zap.Int("t", t)) },
	"check": func(e *env, t int) {
		if ce := e.L.Check(zap.WarnLevel, "c"); ce != nil {
			ce.Write(zap.Int("t", t))
		}
	},
	"with":     func(e *env, t int) { e.L.With(zap.Int("w", t)).Info("m") },
	"withlazy": func(e *env, t int) { e.L.WithLazy(zap.Int("w", t)).Info("m") },
	"named":    func(e *env, t int) { e.L.Named("n" + strconv.Itoa(t)).Info("m") },
	"withopt":  func(e *env, t int) { e.L.WithOptions(zap.AddCaller()).Info("m") },
	"level":    func(e *env, t int) { _ = e.L.Level() },
	"sync":     func(e *env, t int) { _ = e.L.Sync() },
	"lazyinfo": func(e *env, t int) { e.Z.Info("z", zap.Int("t", t)) },
	"lazywith": func(e *env, t int) { e.Z.With(zap.Int("w", t)).Info("z") },
	"lazydbg":  func(e *env, t int) { e.Z.Debug("z") },
	"sinfow":   func(e *env, t int) { e.S.Infow("s", "k", t) },
	"swith":    func(e *env, t int) { e.S.With("k", t).Info("s") },
	"sinfof":   func(e *env, t int) { e.S.Infof("s %d", t) },
	"setlevel": func(e *env, t int) { e.AL.SetLevel(zap.WarnLevel) },
	"getlevel": func(e *env, t int) { _ = e.AL.Level(); _ = e.AL.Enabled(zap.InfoLevel) },
	"replaceg": func(e *env, t int) { zap.ReplaceGlobals(e.G) },
	"globall":  func(e *env, t int) { zap.L().Info("g") },
	"globals":  func(e *env, t int) { zap.S().Infow("g", "k", t) },
	"slog": func(e *env, t int) {
		_ = e.H.Handle(context.Background(), slog.NewRecord(e.clock.T, slog.LevelInfo, "sl", 0))
	},
	"slogattr": func(e *env, t int) {
		_ = e.H.WithAttrs([]slog.Attr{slog.Int("a", t)}).Handle(context.Background(), slog.NewRecord(e.clock.T, slog.LevelWarn, "sl", 0))
	},
	"sloggrp": func(e *env, t int) {
		r := slog.NewRecord(e.clock.T, slog.LevelInfo, "sl", 0)
		r.AddAttrs(slog.Int("x", t))
		_ = e.H.WithGroup("g").Handle(context.Background(), r)
	},
	"sloggrp3": func(e *env, t int) {
		// derive from a shared handler whose pending-group slice may have spare capacity
		r := slog.NewRecord(e.clock.T, slog.LevelInfo, "sl", 0)
		r.AddAttrs(slog.Int("x", t))
		_ = e.H3.WithGroup("t"+strconv.Itoa(t)).Handle(context.Background(), r)
	},
	// a level outside the named range, a different one on every call of the process (whatever is computed
	// once per level value and kept is computed here while the other thread is at work)
	"oorlevel": func(e *env, t int) {
		k := e.oorCalls[t&3]
		e.oorCalls[t&3]++
		e.L.Log(zapcore.Level(7+(e.oorBase+t*2+k)%120), "out-of-range level")
	},
	"ctxnof":  func(e *env, t int) { e.C.Info("no fields through the shared context logger") },
	"ctxf":    func(e *env, t int) { e.C.Info("c", zap.Int("t", t)) },
	"stack":   func(e *env, t int) { e.L.Error("e", zap.Int("t", t)) },
	"errs":    func(e *env, t int) { e.L.Info("e", zap.Error(multierr.Combine(errors.New("a"), errors.New("b")))) },
	"reflect": func(e *env, t int) { e.L.Info("r", zap.Reflect("v", map[string]int{"a": t})) },
	"panic":   func(e *env, t int) { rec(func() { e.L.Panic("p" + strconv.Itoa(t)) }) },
	"fatal":   func(e *env, t int) { rec(func() { e.F.Fatal("f" + strconv.Itoa(t)) }) },
	"dpanic":  func(e *env, t int) { e.L.DPanic("d") },
	// family-specific
	"bwrite":  func(e *env, t int) { _, _ = e.BWS.Write([]byte("raw" + strconv.Itoa(t) + "\n")) },
	"bsync":   func(e *env, t int) { _ = e.BWS.Sync() },
	"bstop":   func(e *env, t int) { _ = e.BWS.Stop() },
	"btick":   func(e *env, t int) { vsched.TrySend(e.clock.Ch, time.Unix(1, 0)) },
	"lwrite":  func(e *env, t int) { _, _ = e.LWS.Write([]byte("x")) },
	"lsync":   func(e *env, t int) { _ = e.LWS.Sync() },
	"obsall":  func(e *env, t int) { _ = e.obs.All(); _ = e.obs.Len() },
	// the batch TakeAll hands out belongs to the caller: it is read, without any lock, after others may have logged again
	"obstake": func(e *env, t int) {
		b := e.obs.TakeAll()
		vsched.Yield()
		n := 0
		for i := range b {
			n += len(b[i].Message) + len(b[i].Context) + int(b[i].Level)
		}
		_ = n
	},
	"obsfilt": func(e *env, t int) { _ = e.obs.FilterMessage("m").Len() },
}

var oorNext int

var commonOps = []string{"info", "check", "with", "withlazy", "named", "withopt", "level", "sync", "lazyinfo", "lazywith", "lazydbg", "sinfow", "swith", "sinfof", "setlevel", "getlevel", "replaceg", "globall", "globals", "slog", "slogattr", "sloggrp", "sloggrp3", "ctxnof", "ctxf", "oorlevel", "stack", "errs", "reflect", "panic", "fatal", "dpanic", "lwrite", "lsync"}
var reducedOps = []string{"info", "ctxnof", "with", "lazyinfo", "sinfow", "setlevel", "replaceg", "globall", "slogattr", "panic", "sync"}

func opsFor(family string) []string {
	o := append([]string{}, commonOps...)
	switch family {
	case "buffered":
		o = append(o, "bwrite", "bsync", "bstop", "btick")
	case "observer", "tee":
		o = append(o, "obsall", "obstake", "obsfilt")
	}
	return o
}

// item: c09|family|warm|preempt|prog1;prog2[;prog3]  (prog = comma separated ops)
func handler(item string, replay []int, isReplay bool, journal func([]int)) mc.ItemResult {
	f := strings.Split(item, "|")
	family := f[1]
	warm, _ := strconv.Atoi(f[2])
	pre, _ := strconv.Atoi(f[3])
	var progs [][]string
	for _, p := range strings.Split(f[4], ";") {
		progs = append(progs, strings.Split(p, ","))
	}
	for _, p := range progs {
		for _, o := range p {
			if ops[o] == nil {
				return mc.ItemResult{Item: item, ToolError: "unknown op " + o}
			}
		}
	}
	mk := func() mc.Exec {
		var e *env
		return mc.Exec{
			Body: func() {
				e = build(family, warm)
				orig := zap.L()
				var wg vsync.WaitGroup
				for t, p := range progs {
					t, p := t, p
					wg.Add(1)
					vsched.Go(func() {
						defer wg.Done()
						for _, o := range p {
							ops[o](e, t+1)
						}
					})
				}
				wg.Wait()
				if e.BWS != nil {
					_ = e.BWS.Stop()
				}
				zap.ReplaceGlobals(orig)
			},
			Check: func(vsched.Result) (string, error) {
				n := 0
				for _, s := range e.sinks {
					n += len(s.buf)
				}
				return strconv.Itoa(n), nil
			},
		}
	}
	if isReplay {
		_, v := mc.Replay(mk, replay)
		return mc.ItemResult{Item: item, Violation: v}
	}
	st, v := mc.Explore(mk, mc.Bounds{Preempt: pre, Dev: -1}, journal)
	return mc.ItemResult{Item: item, Stats: st, Violation: v}
}

func main() {
	mc.MaybeWorker(handler)
	run := ev.Start("C09", "model_checking")
	if rp := os.Getenv("VERIF_REPLAY"); rp != "" {
		mc.ReplayFromFile(rp, handler)
	}
	thorough := run.Thorough()
	var items []string
	add := func(family string, warm int, pre int, progs ...string) {
		items = append(items, fmt.Sprintf("c09|%s|%d|%d|%s", family, warm, pre, strings.Join(progs, ";")))
	}
	for _, fam := range families {
		all := opsFor(fam)
		for warm := 0; warm <= 2; warm++ {
			if warm == 2 && fam != "io" && fam != "tee" {
				continue // the rare-exit history (warm=2) on the two families that reach every pool
			}
			// all unordered pairs of single ops
			pre := 1
			if thorough {
				pre = 2
			}
			for i := 0; i < len(all); i++ {
				for j := i; j < len(all); j++ {
					add(fam, warm, pre, all[i], all[j])
				}
			}
			// reduced alphabet: deeper bound, 2-op sequences, triples
			red := append([]string{}, reducedOps...)
			if fam == "buffered" {
				red = append(red, "bwrite", "bstop", "btick")
			}
			if fam == "observer" || fam == "tee" {
				red = append(red, "obstake")
			}
			for i := 0; i < len(red); i++ {
				for j := i; j < len(red); j++ {
					if !thorough {
						add(fam, warm, 2, red[i], red[j])
					}
					if thorough || (warm == 0 && (fam == "io" || fam == "lazy" || fam == "buffered")) {
						for k := j; k < len(red); k++ {
							add(fam, warm, 1, red[i], red[j], red[k])
						}
					}
				}
			}
			if thorough {
				for i := 0; i < len(red); i++ {
					for j := 0; j < len(red); j++ {
						for k := 0; k < len(red); k++ {
							add(fam, warm, 1, red[i]+","+red[j], red[k])
						}
					}
				}
			}
		}
	}
	var sum mc.Summary
	func() {
		defer func() {
			if p := recover(); p != nil {
				if te, ok := p.(mc.ToolErr); ok {
					ev.ToolError("%s", te.Msg)
				}
				panic(p)
			}
		}()
		sum = mc.Run(items, mc.Options{Race: true})
	}()
	for _, v := range sum.Violations {
		f := strings.Split(v.Item, "|")
		key := v.Kind + ":" + f[1] + ":warm=" + f[2] + ":" + f[4]
		if v.Kind == "race" {
			// key on the racing code locations, so the same race found through different programs is one finding
			key = "race:" + strings.SplitN(v.Detail, "\n", 2)[0]
		}
		run.Report(key, v.Detail, v)
	}
	samples := []any{}
	for it, st := range sum.PerItem {
		if len(samples) < 5 && st.Execs > 3 {
			samples = append(samples, map[string]any{"program": it, "schedules": st.Execs, "scheduling_points": st.Steps})
		}
	}
	run.Assume = []string{
		"race freedom is established per explored schedule with the Go race detector (happens-before based): 2-3 threads, 1-2 operations each, preemption bound as stated",
		"the scheduler hand-off uses plain words in //go:norace functions so it adds no happens-before edges (calibrated: racy counter reported, locked counter clean)",
		"relaxed-memory behaviours of racy code are not explored; they are reported as races instead",
	}
	run.Finish(map[string]any{
		"states":                        len(sum.Outcomes),
		"transitions":                   sum.Steps,
		"traces_validated_against_impl": sum.Execs,
		"evaluations":                   sum.Execs,
		"distinct_nontrivial":           len(sum.PerItem),
		"rule":                          "one evaluation = one complete schedule of one generated program (core family x history {none, warm-up, warm-up after the rare exits of the logging path: caller not found, unencodable / failing / panicking fields, recovered Panic, Check without Write, over-deep StackSkip} x thread programs over the op alphabet) on the real code under -race; distinct = distinct programs",
		"samples":                       samples,
		"exhaustive":                    sum.Exhaustive,
		"programs":                      len(items),
		"core_families":                 families,
		"op_alphabet":                   commonOps,
		"executions_with_branching":     sum.Branching,
		"max_threads":                   sum.MaxThreads,
	})
}
