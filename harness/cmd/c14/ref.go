package main

import (
	"fmt"
	"reflect"
	"sort"
	"strings"

	"go.uber.org/zap"
	"go.uber.org/zap/zapcore"
	"go.uber.org/zap/zaptest/observer"
)

// Messages of the diagnostic entries (the documented wording; zap's own
// suite pins the same three strings).
const (
	msgDangling  = "Ignored key without a value."
	msgNonString = "Ignored key-value pairs with non-string keys."
	msgMultiErr  = "Multiple errors without a key."
	mainMsg      = "main"
)

// ---------------------------------------------------------------------------
// Reference model of the loosely-typed argument list.
//
// Written from the doc comments in sugar.go and the property statement, not
// from the implementation:
//
//   - With: "accepts a mix of strongly-typed Field objects and loosely-typed
//     key-value pairs. When processing pairs, the first element of the pair is
//     used as the field key and the second as the field value."  The example
//     there shows a Field standing between pairs without disturbing them and
//     every pair becoming the field zap.Any would build.
//   - With: "the keys in key-value pairs should be strings ... a separate error
//     is logged, but the key-value pair is skipped and execution continues.
//     Passing an orphaned key triggers similar behavior".
//   - Infow etc.: "The variadic key-value pairs are treated as they are in With."
//   - CHANGELOG #1185 / property statement: a bare error (one that is not the
//     value of a pair) becomes zap.Error(err); only the first one, later bare
//     errors are reported.
//
// The list is therefore a sentence of the grammar
//
//	list    := item*  [orphan]
//	item    := Field | bareError | key value
//	orphan  := a last element that is neither a Field nor an error
//
// read left to right.

type invalidWant struct {
	pos        int
	key, value interface{}
}

type expect struct {
	fields  []zap.Field // fields of the main entry, in order
	classes []string    // what each expected field came from (for keys of findings)
	spies   []map[string]interface{}

	hasDangling bool
	dangling    interface{}
	invalid     []invalidWant
	extraErrs   []error

	seenErr bool
}

func reference(args []interface{}) *expect {
	e := &expect{}
	e.list(args, 0)
	e.spies = make([]map[string]interface{}, len(e.fields))
	for i, f := range e.fields {
		e.spies[i] = spy(f)
	}
	return e
}

func (e *expect) add(f zap.Field, class string) {
	e.fields = append(e.fields, f)
	e.classes = append(e.classes, class)
}

func (e *expect) list(rest []interface{}, pos int) {
	if len(rest) == 0 {
		return
	}
	head := rest[0]
	if f, ok := head.(zap.Field); ok { // strongly-typed: passes through unchanged
		if f.Type == zapcore.SkipType {
			e.add(f, "skip-field")
		} else {
			e.add(f, "typed-field")
		}
		e.list(rest[1:], pos+1)
		return
	}
	if err, ok := head.(error); ok { // bare error
		if !e.seenErr {
			e.seenErr = true
			e.add(zap.Error(err), "first-error")
		} else {
			e.extraErrs = append(e.extraErrs, err)
		}
		e.list(rest[1:], pos+1)
		return
	}
	if len(rest) == 1 { // orphaned key
		e.hasDangling = true
		e.dangling = head
		return
	}
	value := rest[1]
	if key, ok := head.(string); ok {
		e.add(zap.Any(key, value), "pair(value="+valClass(value)+")")
	} else {
		e.invalid = append(e.invalid, invalidWant{pos, head, value})
	}
	e.list(rest[2:], pos+2)
}

func valClass(v interface{}) string {
	switch v.(type) {
	case nil:
		return "nil"
	case zap.Field:
		return "field"
	case error:
		return "error"
	case string:
		return "string"
	case int:
		return "int"
	}
	return reflect.TypeOf(v).Kind().String()
}

// signature names the reference outcome (used to count distinct outcomes).
func (e *expect) signature() string {
	var b strings.Builder
	for i, c := range e.classes {
		if i > 0 {
			b.WriteByte(',')
		}
		b.WriteString(c)
		b.WriteByte(':')
		b.WriteString(e.fields[i].Key)
	}
	if e.hasDangling {
		fmt.Fprintf(&b, "|dangling=%v", e.dangling)
	}
	for _, iv := range e.invalid {
		fmt.Fprintf(&b, "|invalid@%d(%v,%s)", iv.pos, iv.key, valClass(iv.value))
	}
	for _, x := range e.extraErrs {
		fmt.Fprintf(&b, "|extra=%v", x)
	}
	return b.String()
}

func (e *expect) rejected() int { return len(e.invalid) + len(e.extraErrs) + b2i(e.hasDangling) }

func b2i(b bool) int {
	if b {
		return 1
	}
	return 0
}

// ---------------------------------------------------------------------------
// Field comparison: Field.Equals plus what the field does to an encoder.

func spy(f zapcore.Field) map[string]interface{} {
	enc := zapcore.NewMapObjectEncoder()
	f.AddTo(enc)
	return enc.Fields
}

func eqSpied(got zapcore.Field, want zapcore.Field, wantSpy map[string]interface{}) bool {
	if !got.Equals(want) {
		return false
	}
	return reflect.DeepEqual(spy(got), wantSpy)
}

func eqField(got, want zapcore.Field) bool { return eqSpied(got, want, spy(want)) }

func showSpy(m map[string]interface{}) string {
	var s []string
	for k, v := range m {
		s = append(s, fmt.Sprintf("%s:%#v", k, v))
	}
	sort.Strings(s)
	return "{" + strings.Join(s, " ") + "}"
}

func showFields(fs []zapcore.Field) string {
	var s []string
	for _, f := range fs {
		s = append(s, showSpy(spy(f)))
	}
	return "[" + strings.Join(s, " ") + "]"
}

// ---------------------------------------------------------------------------
// Verdict on one structured call.

type problem struct{ key, what string }

type verifyOpts struct {
	kind      string          // method name - goes into the key
	prefix    []zapcore.Field // context the logger already had (chained calls)
	wantMain  bool            // a main entry is expected
	mainLevel zapcore.Level
	checkDiag bool // diagnostics are observable (Error level enabled)
	keyPrefix string
}

var typedAtom = zap.Int("f", 1)

// typedErrKeyAtom is a typed field that uses the key "error" (a string, so it
// cannot be confused with the field the first bare error becomes).
var typedErrKeyAtom = zap.String("error", "typed")

func verify(args []interface{}, exp *expect, entries []observer.LoggedEntry, o verifyOpts) []problem {
	var ps []problem
	bad := func(key, format string, a ...interface{}) {
		ps = append(ps, problem{o.keyPrefix + o.kind + ":" + key, fmt.Sprintf(format, a...)})
	}
	var mains, diags []observer.LoggedEntry
	for _, en := range entries {
		if en.Message == mainMsg {
			mains = append(mains, en)
		} else {
			diags = append(diags, en)
		}
	}

	accounted := 0
	haveMain := false
	switch {
	case !o.wantMain:
		if len(mains) != 0 {
			bad("unexpected-main-entry", "%d entries with the main message although nothing was logged yet", len(mains))
		}
	case len(mains) == 0:
		bad("main-entry-missing", "no entry with message %q was recorded (%d other entries)", mainMsg, len(diags))
	case len(mains) > 1:
		bad("main-entry-duplicated", "%d entries with message %q", len(mains), mainMsg)
	default:
		haveMain = true
		m := mains[0]
		if m.Level != o.mainLevel {
			bad("wrong-level", "main entry logged at %v, want %v", m.Level, o.mainLevel)
		}
		got := m.Context
		if len(got) < len(o.prefix) || !sameFields(got[:len(o.prefix)], o.prefix) {
			bad("context-prefix-lost", "main entry fields %s do not start with the logger's context %s", showFields(got), showFields(o.prefix))
		} else {
			got = got[len(o.prefix):]
			if kind, class, ok := diffFields(got, exp); !ok {
				bad("fields-"+kind+":"+class, "main entry fields are %s, want %s", showFields(got), showFields(exp.fields))
			}
			for _, f := range got {
				accounted += atomsOf(f)
			}
		}
	}
	if !o.checkDiag {
		return ps
	}

	// diagnostics
	var dangling []zapcore.Field
	type gotInv struct {
		pos        int64
		posOK      bool
		key, value interface{}
		hasK, hasV bool
	}
	var invs []gotInv
	var extra []zapcore.Field
	nonStringEntries := 0
	for _, d := range diags {
		if d.Level != zapcore.ErrorLevel {
			bad("diag:wrong-level", "diagnostic entry %q logged at %v, want error", d.Message, d.Level)
		}
		own := d.Context
		if len(own) >= len(o.prefix) && sameFields(own[:len(o.prefix)], o.prefix) {
			own = own[len(o.prefix):]
		}
		switch d.Message {
		case msgDangling:
			if len(own) != 1 || own[0].Key != "ignored" {
				bad("diag:dangling-malformed", "entry %q carries %s, want exactly one field `ignored`", d.Message, showFields(own))
				continue
			}
			dangling = append(dangling, own[0])
		case msgNonString:
			nonStringEntries++
			enc := zapcore.NewMapObjectEncoder()
			for _, f := range own {
				f.AddTo(enc)
			}
			arr, ok := enc.Fields["invalid"].([]interface{})
			if !ok || len(enc.Fields) != 1 {
				bad("diag:invalid-pairs-malformed", "entry %q encodes as %v, want one array field `invalid`", d.Message, enc.Fields)
				continue
			}
			for _, el := range arr {
				m, ok := el.(map[string]interface{})
				if !ok {
					bad("diag:invalid-pairs-malformed", "element %v of `invalid` is not an object", el)
					continue
				}
				var g gotInv
				g.pos, g.posOK = toInt(m["position"])
				g.key, g.hasK = m["key"]
				g.value, g.hasV = m["value"]
				invs = append(invs, g)
			}
		case msgMultiErr:
			if len(own) == 0 {
				bad("diag:extra-error-malformed", "entry %q carries no field", d.Message)
			}
			extra = append(extra, own...)
		default:
			bad("diag:unknown-message", "unexpected additional entry %q %s", d.Message, showFields(own))
		}
	}

	// dangling key
	switch {
	case exp.hasDangling && len(dangling) == 0:
		bad("diag:dangling-unreported", "the orphaned last argument %v is neither logged nor reported", exp.dangling)
	case exp.hasDangling && len(dangling) > 1:
		bad("diag:dangling-duplicated", "%d %q entries", len(dangling), msgDangling)
	case exp.hasDangling:
		if !eqField(dangling[0], zap.Any("ignored", exp.dangling)) {
			bad("diag:dangling-wrong-value", "orphan reported as %s, want %s", showSpy(spy(dangling[0])), showSpy(spy(zap.Any("ignored", exp.dangling))))
		}
	case len(dangling) > 0:
		bad("diag:spurious-dangling", "%s reported as an orphaned key although the list has none", showSpy(spy(dangling[0])))
	}
	accounted += len(dangling)

	// invalid pairs
	if len(exp.invalid) == 0 && nonStringEntries > 0 {
		bad("diag:spurious-invalid-pairs", "%q logged (%d pairs) although every key is a string", msgNonString, len(invs))
	}
	used := make([]bool, len(invs))
	for _, w := range exp.invalid {
		wk := spy(zap.Any("key", w.key))["key"]
		wv := spy(zap.Any("value", w.value))["value"]
		found, foundAt := false, false
		for i, g := range invs {
			if used[i] || !g.hasK || !g.hasV {
				continue
			}
			if reflect.DeepEqual(g.key, wk) && reflect.DeepEqual(g.value, wv) {
				if g.posOK && g.pos == int64(w.pos) {
					used[i], found, foundAt = true, true, true
					break
				}
				found = true
			}
		}
		switch {
		case foundAt:
		case found:
			bad("diag:invalid-pair-wrong-position", "pair (%v, %v) at argument %d is reported with another position", w.key, w.value, w.pos)
		default:
			posHit := false
			for i, g := range invs {
				if !used[i] && g.posOK && g.pos == int64(w.pos) {
					posHit = true
					bad("diag:invalid-pair-wrong-key-or-value", "pair at argument %d reported as (%#v, %#v), want (%#v, %#v)", w.pos, g.key, g.value, wk, wv)
					used[i] = true
					break
				}
			}
			if !posHit {
				bad("diag:invalid-pair-unreported", "pair (%v, %v) at argument %d has a non-string key and is neither logged nor reported", w.key, w.value, w.pos)
			}
		}
	}
	if len(exp.invalid) > 0 {
		for i, g := range invs {
			if !used[i] {
				bad("diag:spurious-invalid-pair", "pair (%v, %v) position %d reported as invalid but is not one of the %d invalid pairs", g.key, g.value, g.pos, len(exp.invalid))
				break
			}
		}
	}
	accounted += 2 * len(invs)

	// additional bare errors
	usedX := make([]bool, len(extra))
	for _, w := range exp.extraErrs {
		hit := false
		for i, g := range extra {
			if !usedX[i] && eqField(g, zap.Error(w)) {
				usedX[i], hit = true, true
				break
			}
		}
		if !hit {
			bad("diag:extra-error-unreported", "additional bare error %v is neither logged nor reported (reported: %s)", w, showFields(extra))
		}
	}
	for i := range extra {
		if !usedX[i] {
			bad("diag:spurious-extra-error", "%s reported under %q but is not an additional bare error of the list", showSpy(spy(extra[i])), msgMultiErr)
			break
		}
	}
	accounted += len(extra)

	// conservation: independent of the reference's pairing - every argument is
	// in the main entry or in a diagnostic, exactly once.
	if haveMain {
		if accounted < len(args) {
			bad("conserve:arguments-vanished", "%d arguments given, only %d accounted for by the main entry and the diagnostics", len(args), accounted)
		} else if accounted > len(args) {
			bad("conserve:arguments-duplicated", "%d arguments given, %d accounted for by the main entry and the diagnostics", len(args), accounted)
		}
	}
	return ps
}

// atomsOf: how many arguments a field of the main entry stands for.
func atomsOf(f zapcore.Field) int {
	if f.Type == zapcore.SkipType || f.Equals(typedAtom) || f.Equals(typedErrKeyAtom) {
		return 1
	}
	if f.Key == "error" && f.Type == zapcore.ErrorType {
		return 1
	}
	return 2
}

func toInt(v interface{}) (int64, bool) {
	rv := reflect.ValueOf(v)
	switch rv.Kind() {
	case reflect.Int, reflect.Int8, reflect.Int16, reflect.Int32, reflect.Int64:
		return rv.Int(), true
	case reflect.Uint, reflect.Uint8, reflect.Uint16, reflect.Uint32, reflect.Uint64:
		return int64(rv.Uint()), true
	}
	return 0, false
}

func sameFields(a, b []zapcore.Field) bool {
	if len(a) != len(b) {
		return false
	}
	for i := range a {
		if !eqField(a[i], b[i]) {
			return false
		}
	}
	return true
}

// diffFields compares the observed fields with the expected list and names
// the kind of divergence and the class of the first expected field involved.
func diffFields(got []zapcore.Field, exp *expect) (kind, class string, ok bool) {
	n := len(exp.fields)
	first := -1
	for i := 0; i < len(got) || i < n; i++ {
		if i >= len(got) || i >= n || !eqSpied(got[i], exp.fields[i], exp.spies[i]) {
			first = i
			break
		}
	}
	if first < 0 {
		return "", "", true
	}
	// got is a proper subsequence of want -> something is missing
	if len(got) < n {
		j := 0
		miss := -1
		for i := 0; i < n; i++ {
			if j < len(got) && eqSpied(got[j], exp.fields[i], exp.spies[i]) {
				j++
			} else if miss < 0 {
				miss = i
			}
		}
		if j == len(got) {
			return "missing", exp.classes[miss], false
		}
	}
	if len(got) > n {
		j := 0
		for i := 0; i < len(got) && j < n; i++ {
			if eqSpied(got[i], exp.fields[j], exp.spies[j]) {
				j++
			}
		}
		if j == n {
			return "extra", "key=" + got[first].Key, false
		}
	}
	if first < n {
		return "wrong", exp.classes[first], false
	}
	return "wrong", "key=" + got[first].Key, false
}
