// Command c14 decides property C14 (SugaredLogger never drops or
// misattributes loosely-typed arguments): every argument list up to a length
// over a 10-atom alphabet through With, WithLazy and every structured (*w)
// method found by reflection, at every level, against a reference written from
// the documentation; and every template x argument list of a small alphabet
// through every print / printf / println method against package fmt.
package main

import (
	"encoding/json"
	"errors"
	"fmt"
	"os"
	"reflect"
	"sort"
	"strings"
	"sync"
	"sync/atomic"
	"time"

	"go.uber.org/zap"
	"go.uber.org/zap/zapcore"
	"go.uber.org/zap/zaptest/observer"
	"verif/harness/internal/ev"
	"verif/harness/internal/par"
)

// ---------------------------------------------------------------------------
// alphabet of the structured sweep

type atom struct {
	name string
	v    interface{}
}

var (
	e1 = errors.New("e1")
	e2 = errors.New("e2")

	atoms = []atom{
		{`zap.Int("f",1)`, typedAtom}, // strongly-typed field
		{`zap.Skip()`, zap.Skip()},    // strongly-typed field that encodes to nothing
		{`"k1"`, "k1"},                // string keys (also usable as values)
		{`"k2"`, "k2"},
		{`""`, ""},   // the empty string: a legal string key (and a value)
		{`42`, 42},   // non-string key / plain value
		{`nil`, nil}, // nil key / nil value
		{`e1`, e1},   // bare errors / error values
		{`e2`, e2},
		{`(*derefErr)(nil)`, (*derefErr)(nil)}, // a nil pointer inside a non-nil error interface: still a bare error (logged as the error field, <nil>)
		{`[]int{1}`, []int{1}},                 // a value zap.Any turns into an array field
		{`zap.String("error","typed")`, typedErrKeyAtom}, // a typed field that happens to use the key the first bare error gets
		{`errObj{}`, errObj{}},                           // an error that is also an ObjectMarshaler: bare it is an error, as a pair's value zap.Any picks the object form
		{`float32(0.1)`, float32(0.1)},                   // a value whose field type must stay the narrow one (Float32, not a widened Float64); as a key: not a string
		{`time.Duration(5)`, 5 * time.Nanosecond},        // a non-string key that has a String method (still not a string key); as a value: a Duration field
	}
)

func allAtomIdx() []int {
	idx := make([]int, len(atoms))
	for i := range idx {
		idx[i] = i
	}
	return idx
}

type fmtErr struct{}

func (fmtErr) Error() string              { return "plain" }
func (fmtErr) Format(f fmt.State, c rune) { fmt.Fprintf(f, "formatted(%c)", c) }

type status string

type derefErr struct{ msg string }

func (e *derefErr) Error() string { return e.msg }

type errObj struct{}

func (errObj) Error() string { return "eo" }
func (errObj) MarshalLogObject(enc zapcore.ObjectEncoder) error {
	enc.AddBool("eo", true)
	return nil
}

func listOf(idx []int) []interface{} {
	out := make([]interface{}, len(idx))
	for i, a := range idx {
		out[i] = atoms[a].v
	}
	return out
}

func render(idx []int) string {
	s := make([]string, len(idx))
	for i, a := range idx {
		s[i] = atoms[a].name
	}
	return "(" + strings.Join(s, ", ") + ")"
}

// decode turns a global index into the list it numbers: lists are ordered by
// length, then lexicographically by atom index.
func decode(g int64, buf []int) []int {
	n := int64(len(atoms))
	l, block := 0, int64(1)
	for g >= block {
		g -= block
		block *= n
		l++
	}
	buf = buf[:l]
	for i := l - 1; i >= 0; i-- {
		buf[i] = int(g % n)
		g /= n
	}
	return buf
}

func countLists(maxLen int) int64 {
	t, b := int64(0), int64(1)
	for l := 0; l <= maxLen; l++ {
		t += b
		b *= int64(len(atoms))
	}
	return t
}

// ---------------------------------------------------------------------------
// method discovery

type family int

const (
	famWith family = iota
	famW
	famPrint
	famPrintf
	famPrintln
)

var famName = map[family]string{famWith: "with", famW: "w", famPrint: "print", famPrintf: "printf", famPrintln: "println"}

type method struct {
	name       string
	idx        int
	fam        family
	takesLevel bool
	level      zapcore.Level
}

var allLevels = []zapcore.Level{zap.DebugLevel, zap.InfoLevel, zap.WarnLevel, zap.ErrorLevel, zap.DPanicLevel, zap.PanicLevel, zap.FatalLevel}

func (m method) levels() []zapcore.Level {
	if m.takesLevel {
		return allLevels
	}
	return []zapcore.Level{m.level}
}

// discover classifies every method of *SugaredLogger that takes a variadic
// ...interface{}: by signature first, then by the documented naming scheme
// (level name + "" | "w" | "f" | "ln"; "Log" + suffix takes the level).
func discover() (ms []method, unclassified []string) {
	t := reflect.TypeOf((*zap.SugaredLogger)(nil))
	anys := reflect.TypeOf([]interface{}(nil))
	lvlT := reflect.TypeOf(zapcore.Level(0))
	strT := reflect.TypeOf("")
	for i := 0; i < t.NumMethod(); i++ {
		rm := t.Method(i)
		ft := rm.Type
		if !ft.IsVariadic() || ft.In(ft.NumIn()-1) != anys {
			continue
		}
		var ins []reflect.Type
		for k := 1; k < ft.NumIn()-1; k++ {
			ins = append(ins, ft.In(k))
		}
		m := method{name: rm.Name, idx: i}
		sig := ""
		for _, in := range ins {
			switch in {
			case lvlT:
				sig += "L"
			case strT:
				sig += "S"
			default:
				sig += "?"
			}
		}
		if ft.NumOut() == 1 && ft.Out(0) == t && sig == "" {
			m.fam = famWith
			ms = append(ms, m)
			continue
		}
		if ft.NumOut() != 0 {
			unclassified = append(unclassified, rm.Name+" "+ft.String())
			continue
		}
		suffix := ""
		switch sig {
		case "", "L":
			if strings.HasSuffix(rm.Name, "ln") {
				m.fam, suffix = famPrintln, "ln"
			} else {
				m.fam = famPrint
			}
		case "S", "LS":
			switch {
			case strings.HasSuffix(rm.Name, "w"):
				m.fam, suffix = famW, "w"
			case strings.HasSuffix(rm.Name, "f"):
				m.fam, suffix = famPrintf, "f"
			default:
				unclassified = append(unclassified, rm.Name+" "+ft.String())
				continue
			}
		default:
			unclassified = append(unclassified, rm.Name+" "+ft.String())
			continue
		}
		base := strings.TrimSuffix(rm.Name, suffix)
		if strings.HasPrefix(sig, "L") {
			if base != "Log" {
				unclassified = append(unclassified, rm.Name+" "+ft.String())
				continue
			}
			m.takesLevel = true
		} else {
			lvl, err := zapcore.ParseLevel(strings.ToLower(base))
			if err != nil {
				unclassified = append(unclassified, rm.Name+" "+ft.String())
				continue
			}
			m.level = lvl
		}
		ms = append(ms, m)
	}
	return ms, unclassified
}

func invoke(fn interface{}, lvl zapcore.Level, s string, args []interface{}) *zap.SugaredLogger {
	switch f := fn.(type) {
	case func(...interface{}):
		f(args...)
	case func(string, ...interface{}):
		f(s, args...)
	case func(zapcore.Level, ...interface{}):
		f(lvl, args...)
	case func(zapcore.Level, string, ...interface{}):
		f(lvl, s, args...)
	case func(...interface{}) *zap.SugaredLogger:
		return f(args...)
	default:
		ev.ToolError("cannot call method value of type %T", fn)
	}
	return nil
}

// ---------------------------------------------------------------------------
// runner: one logger over an observer core, methods bound by reflection

type runner struct {
	logs  *observer.ObservedLogs
	sugar *zap.SugaredLogger
	fns   map[int]interface{}
}

func bind(s *zap.SugaredLogger, ms []method) map[int]interface{} {
	v := reflect.ValueOf(s)
	fns := make(map[int]interface{}, len(ms))
	for _, m := range ms {
		fns[m.idx] = v.Method(m.idx).Interface()
	}
	return fns
}

func newRunner(enab zapcore.LevelEnabler, ms []method) *runner {
	core, logs := observer.New(enab)
	// Fatal must not end the process: write, then panic (recovered per case).
	s := zap.New(core, zap.WithFatalHook(zapcore.WriteThenPanic)).Sugar()
	return &runner{logs: logs, sugar: s, fns: bind(s, ms)}
}

type outcome struct {
	entries  []observer.LoggedEntry
	panicked bool
	pan      interface{}
}

// structured runs one With-family or *w call; for the With family the child
// then logs one plain Info entry with the main message.
func (r *runner) structured(m method, lvl zapcore.Level, args []interface{}) (o outcome) {
	r.logs.TakeAll()
	defer func() {
		if p := recover(); p != nil {
			o.panicked, o.pan = true, p
		}
		o.entries = r.logs.TakeAll()
	}()
	if m.fam == famWith {
		child := invoke(r.fns[m.idx], lvl, "", args)
		child.Info(mainMsg)
	} else {
		invoke(r.fns[m.idx], lvl, mainMsg, args)
	}
	return
}

func (r *runner) format(m method, lvl zapcore.Level, tmpl string, args []interface{}) (o outcome) {
	r.logs.TakeAll()
	defer func() {
		if p := recover(); p != nil {
			o.panicked, o.pan = true, p
		}
		o.entries = r.logs.TakeAll()
	}()
	invoke(r.fns[m.idx], lvl, tmpl, args)
	return
}

func kindOf(m method) string { return m.name }

func mainLevelOf(m method, lvl zapcore.Level) zapcore.Level {
	if m.fam == famWith {
		return zap.InfoLevel
	}
	return lvl
}

func hasMain(es []observer.LoggedEntry, msg string) bool {
	for _, e := range es {
		if e.Message == msg {
			return true
		}
	}
	return false
}

// panicAllowed: a Panic/Fatal-level call is expected to panic (Fatal through
// the hook installed above) but only after the entry has been written.
func panicAllowed(m method, lvl zapcore.Level, o outcome, msg string) bool {
	return m.fam != famWith && lvl >= zap.PanicLevel && hasMain(o.entries, msg)
}

// ---------------------------------------------------------------------------
// replayable case descriptions

type caseSpec struct {
	Part     string `json:"part"` // sweep | chain | errdisabled | nop | format
	Method   string `json:"method"`
	Level    int    `json:"level"`
	Atoms    []int  `json:"atoms,omitempty"`
	Atoms2   []int  `json:"atoms2,omitempty"`
	Template string `json:"template"`
	FArgs    []int  `json:"fargs,omitempty"`
	Call     string `json:"call"`
}

type checker struct {
	run   *ev.Run
	ms    []method
	evals atomic.Int64
}

// collector keeps the findings of one shard (first case per key + count) so
// that they can be handed to ev in shard order: which case becomes the replay
// file of a key does not depend on goroutine timing.
type collector struct {
	order []string
	first map[string]finding
}

type finding struct {
	what string
	spec caseSpec
	n    int
}

func newCollector() *collector { return &collector{first: map[string]finding{}} }

func (col *collector) add(ps []problem, spec caseSpec) {
	for _, p := range ps {
		f, ok := col.first[p.key]
		if !ok {
			col.order = append(col.order, p.key)
			f = finding{what: spec.Call + ": " + p.what, spec: spec}
		}
		f.n++
		col.first[p.key] = f
	}
}

func (c *checker) flush(cols []*collector) {
	for _, col := range cols {
		if col == nil {
			continue
		}
		for _, k := range col.order {
			f := col.first[k]
			for i := 0; i < f.n; i++ {
				c.run.Report(k, f.what, f.spec)
			}
		}
	}
}

func (c *checker) methodNamed(name string) (method, bool) {
	for _, m := range c.ms {
		if m.name == name {
			return m, true
		}
	}
	return method{}, false
}

func callStr(m method, lvl zapcore.Level, idx []int) string {
	if m.fam == famWith {
		return fmt.Sprintf("%s%s.Info(%q)", m.name, render(idx), mainMsg)
	}
	inner := strings.TrimSuffix(strings.TrimPrefix(render(idx), "("), ")")
	head := fmt.Sprintf("%q", mainMsg)
	if m.takesLevel {
		head = lvl.String() + ", " + head
	}
	if inner != "" {
		head += ", " + inner
	}
	return fmt.Sprintf("%s(%s)", m.name, head)
}

// sweepCase: one list through one method at one level on a logger with Error enabled.
func (c *checker) sweepCase(col *collector, r *runner, m method, lvl zapcore.Level, idx []int, args []interface{}, exp *expect) {
	c.evals.Add(1)
	o := r.structured(m, lvl, args)
	var ps []problem
	if o.panicked && !panicAllowed(m, lvl, o, mainMsg) {
		ps = append(ps, problem{kindOf(m) + ":panic", fmt.Sprintf("panic: %v", o.pan)})
	} else {
		ps = verify(args, exp, o.entries, verifyOpts{kind: kindOf(m), wantMain: true, mainLevel: mainLevelOf(m, lvl), checkDiag: true})
	}
	if len(ps) > 0 {
		col.add(ps, caseSpec{Part: "sweep", Method: m.name, Level: int(lvl), Atoms: append([]int(nil), idx...), Call: callStr(m, lvl, idx)})
	}
}

// devCase: the same list through a logger built with zap.Development(): the statement's "never panic
// and never vanish" carries no exception for development mode (only DPanic-level entries themselves panic there).
func (c *checker) devCase(col *collector, r *runner, m method, lvl zapcore.Level, idx []int, args []interface{}, exp *expect) {
	c.evals.Add(1)
	o := r.structured(m, lvl, args)
	var ps []problem
	allowed := m.fam != famWith && lvl >= zap.DPanicLevel && hasMain(o.entries, mainMsg)
	if o.panicked && !allowed {
		ps = append(ps, problem{"development:" + kindOf(m) + ":panic", fmt.Sprintf("panic: %v", o.pan)})
	} else {
		ps = verify(args, exp, o.entries, verifyOpts{kind: kindOf(m), wantMain: true, mainLevel: mainLevelOf(m, lvl), checkDiag: true, keyPrefix: "development:"})
	}
	if len(ps) > 0 {
		col.add(ps, caseSpec{Part: "dev", Method: m.name, Level: int(lvl), Atoms: append([]int(nil), idx...), Call: "[Development] " + callStr(m, lvl, idx)})
	}
}

func newDevRunner(ms []method) *runner {
	core, logs := observer.New(zap.DebugLevel)
	s := zap.New(core, zap.Development(), zap.WithFatalHook(zapcore.WriteThenPanic)).Sugar()
	return &runner{logs: logs, sugar: s, fns: bind(s, ms)}
}

// errDisabledCase: the same on a core that rejects Error: no panic, and the
// well-formed arguments are still logged whenever the call's own level is enabled.
func (c *checker) errDisabledCase(col *collector, r *runner, m method, lvl zapcore.Level, idx []int, args []interface{}, exp *expect) {
	c.evals.Add(1)
	o := r.structured(m, lvl, args)
	ml := mainLevelOf(m, lvl)
	var ps []problem
	if o.panicked && !panicAllowed(m, lvl, o, mainMsg) {
		ps = append(ps, problem{"errdisabled:" + kindOf(m) + ":panic", fmt.Sprintf("panic: %v", o.pan)})
	} else if ml != zap.ErrorLevel {
		ps = verify(args, exp, o.entries, verifyOpts{kind: kindOf(m), wantMain: true, mainLevel: ml, checkDiag: false, keyPrefix: "errdisabled:"})
	}
	if len(ps) > 0 {
		col.add(ps, caseSpec{Part: "errdisabled", Method: m.name, Level: int(lvl), Atoms: append([]int(nil), idx...), Call: "[Error level disabled] " + callStr(m, lvl, idx)})
	}
}

// nopCase: a no-op logger must swallow every list without panicking.
func (c *checker) nopCase(col *collector, fns map[int]interface{}, m method, lvl zapcore.Level, idx []int, args []interface{}) {
	c.evals.Add(1)
	var pan interface{}
	func() {
		defer func() { pan = recover() }()
		if ch := invoke(fns[m.idx], lvl, mainMsg, args); ch != nil {
			ch.Info(mainMsg)
		}
	}()
	if pan != nil && !(m.fam != famWith && lvl >= zap.PanicLevel && fmt.Sprint(pan) == mainMsg) {
		col.add([]problem{{"nop:" + kindOf(m) + ":panic", fmt.Sprintf("panic: %v", pan)}},
			caseSpec{Part: "nop", Method: m.name, Level: int(lvl), Atoms: append([]int(nil), idx...), Call: "[NewNop] " + callStr(m, lvl, idx)})
	}
}

// chainCase: With-family(a) and then child.Infow(main, b...): the second sweep
// starts from a logger that already carries context.
func (c *checker) chainCase(col *collector, r *runner, m method, a, b []int) {
	c.evals.Add(1)
	argsA, argsB := listOf(a), listOf(b)
	expA, expB := reference(argsA), reference(argsB)
	spec := caseSpec{Part: "chain", Method: m.name, Atoms: append([]int(nil), a...), Atoms2: append([]int(nil), b...),
		Call: fmt.Sprintf("%s%s.Infow(%q%s)", m.name, render(a), mainMsg, strings.TrimSuffix(strings.Replace(render(b), "(", ", ", 1), ")"))}
	if len(b) == 0 {
		spec.Call = fmt.Sprintf("%s%s.Infow(%q)", m.name, render(a), mainMsg)
	}
	var child *zap.SugaredLogger
	r.logs.TakeAll()
	pan := func() (p interface{}) {
		defer func() { p = recover() }()
		child = invoke(r.fns[m.idx], 0, "", argsA)
		return nil
	}()
	first := r.logs.TakeAll()
	if pan != nil || child == nil {
		col.add([]problem{{m.name + ":panic", fmt.Sprintf("panic: %v", pan)}}, spec)
		return
	}
	ps := verify(argsA, expA, first, verifyOpts{kind: m.name, wantMain: false, checkDiag: true})
	pan = func() (p interface{}) {
		defer func() { p = recover() }()
		child.Infow(mainMsg, argsB...)
		return nil
	}()
	second := r.logs.TakeAll()
	if pan != nil {
		ps = append(ps, problem{"Infow:panic", fmt.Sprintf("panic: %v", pan)})
	} else {
		ps = append(ps, verify(argsB, expB, second, verifyOpts{kind: "Infow", prefix: expA.fields, wantMain: true, mainLevel: zap.InfoLevel, checkDiag: true})...)
	}
	if len(ps) > 0 {
		col.add(ps, spec)
	}
}

// ---------------------------------------------------------------------------
// formatting methods

type fatom struct {
	name string
	v    interface{}
}

func fAtoms(thorough bool) []fatom {
	a := []fatom{{`1`, 1}, {`"s"`, "s"}, {`nil`, nil}, {`e1`, e1}, {`struct{}{}`, struct{}{}}, {`"a\n"`, "a\n"},
		{`fmtErr{}`, fmtErr{}},                   // an error that implements fmt.Formatter: fmt does not print Error()
		{`(*derefErr)(nil)`, (*derefErr)(nil)},   // a typed-nil error whose Error dereferences: fmt prints <nil>
		{`status("shipped")`, status("shipped")}, // a named string type: fmt's spacing rules go by kind, not by the exact type string
		{`[]byte("b")`, []byte("b")}}
	if thorough {
		a = append(a, fatom{`2.5`, 2.5}, fatom{`"\n\n"`, "\n\n"}, fatom{`[]int{1}`, []int{1}})
	}
	return a
}

func templates(thorough bool) []string {
	t := []string{"", "x", "%d", "%s-%s", "%%", "%!", "%v %v %v"}
	if thorough {
		t = append(t, "%v", "%[2]v %[1]v", "%5.2f", "%+v|%#v", "é%s\n", "%", "%*d")
	}
	return t
}

func renderF(fa []fatom, idx []int) string {
	s := make([]string, len(idx))
	for i, a := range idx {
		s[i] = fa[a].name
	}
	return strings.Join(s, ", ")
}

func (c *checker) formatCase(col *collector, r *runner, fa []fatom, m method, lvl zapcore.Level, tmpl string, idx []int) (want string) {
	c.evals.Add(1)
	args := make([]interface{}, len(idx))
	for i, a := range idx {
		args[i] = fa[a].v
	}
	fam := famName[m.fam]
	call := m.name + "("
	if m.takesLevel {
		call += lvl.String() + ", "
	}
	switch m.fam {
	case famPrint:
		want = fmt.Sprint(args...)
		call += renderF(fa, idx) + ")"
	case famPrintln:
		want = strings.TrimSuffix(fmt.Sprintln(args...), "\n")
		call += renderF(fa, idx) + ")"
	case famPrintf:
		if len(args) == 0 {
			want = tmpl
		} else {
			want = fmt.Sprintf(tmpl, args...)
		}
		call += fmt.Sprintf("%q", tmpl)
		if len(idx) > 0 {
			call += ", " + renderF(fa, idx)
		}
		call += ")"
	}
	o := r.format(m, lvl, tmpl, args)
	var ps []problem
	bad := func(key, f string, a ...interface{}) { ps = append(ps, problem{key, fmt.Sprintf(f, a...)}) }
	switch {
	case o.panicked && !(lvl >= zap.PanicLevel && len(o.entries) == 1):
		bad(fam+":panic:"+m.name, "panic: %v", o.pan)
	case len(o.entries) != 1:
		bad(fam+":entry-count:"+m.name, "%d entries recorded, want 1", len(o.entries))
	default:
		e := o.entries[0]
		if e.Message != want {
			switch {
			case m.fam == famPrintf && tmpl == "" && len(args) > 0:
				bad("printf:empty-template-with-args", "message is %q, want fmt.Sprintf(\"\", args...) = %q", e.Message, want)
			case m.fam == famPrintf && len(args) == 0:
				bad("printf:template-without-args-not-verbatim:"+m.name, "message is %q, want the template %q verbatim", e.Message, want)
			case m.fam == famPrintf:
				bad("printf:message-mismatch:"+m.name, "message is %q, want fmt.Sprintf = %q", e.Message, want)
			case m.fam == famPrint:
				bad("print:message-mismatch:"+m.name, "message is %q, want fmt.Sprint = %q", e.Message, want)
			default:
				bad("println:message-mismatch:"+m.name, "message is %q, want fmt.Sprintln minus the newline = %q", e.Message, want)
			}
		}
		if e.Level != lvl {
			bad(fam+":wrong-level:"+m.name, "logged at %v, want %v", e.Level, lvl)
		}
		if len(e.Context) != 0 {
			bad(fam+":unexpected-fields:"+m.name, "entry carries fields %s", showFields(e.Context))
		}
	}
	if len(ps) > 0 {
		col.add(ps, caseSpec{Part: "format", Method: m.name, Level: int(lvl), Template: tmpl, FArgs: append([]int(nil), idx...), Call: call})
	}
	return want
}

// ---------------------------------------------------------------------------

func errorOff() zapcore.LevelEnabler {
	return zap.LevelEnablerFunc(func(l zapcore.Level) bool { return l != zap.ErrorLevel })
}

func nopFns(ms []method) map[int]interface{} {
	return bind(zap.NewNop().WithOptions(zap.WithFatalHook(zapcore.WriteThenPanic)).Sugar(), ms)
}

func (c *checker) replay(path string, thorough bool) {
	b, err := os.ReadFile(path)
	if err != nil {
		ev.ToolError("replay: %v", err)
	}
	var doc struct {
		Case caseSpec `json:"case"`
	}
	if err := json.Unmarshal(b, &doc); err != nil {
		ev.ToolError("replay: %v", err)
	}
	s := doc.Case
	m, ok := c.methodNamed(s.Method)
	if !ok {
		ev.ToolError("replay: SugaredLogger has no method %q", s.Method)
	}
	lvl := zapcore.Level(s.Level)
	fmt.Printf("replaying %s\n", s.Call)
	col := newCollector()
	switch s.Part {
	case "sweep":
		args := listOf(s.Atoms)
		c.sweepCase(col, newRunner(zap.DebugLevel, c.ms), m, lvl, s.Atoms, args, reference(args))
	case "dev":
		args := listOf(s.Atoms)
		c.devCase(col, newDevRunner(c.ms), m, lvl, s.Atoms, args, reference(args))
	case "errdisabled":
		args := listOf(s.Atoms)
		c.errDisabledCase(col, newRunner(errorOff(), c.ms), m, lvl, s.Atoms, args, reference(args))
	case "nop":
		c.nopCase(col, nopFns(c.ms), m, lvl, s.Atoms, listOf(s.Atoms))
	case "chain":
		c.chainCase(col, newRunner(zap.DebugLevel, c.ms), m, s.Atoms, s.Atoms2)
	case "format":
		// the replay file records indices into the alphabet of its tier
		c.formatCase(col, newRunner(zap.DebugLevel, c.ms), fAtoms(thorough), m, lvl, s.Template, s.FArgs)
	default:
		ev.ToolError("replay: unknown part %q", s.Part)
	}
	c.flush([]*collector{col})
	c.run.Finish(map[string]any{"evaluations": c.evals.Load(), "replay": path, "exhaustive": false})
}

func main() {
	run := ev.Start("C14", "exploration")
	ms, unclassified := discover()
	if len(unclassified) > 0 {
		ev.ToolError("SugaredLogger methods with a variadic ...interface{} that the check cannot classify: %v", unclassified)
	}
	byFam := map[family][]method{}
	names := map[string][]string{}
	for _, m := range ms {
		byFam[m.fam] = append(byFam[m.fam], m)
		names[famName[m.fam]] = append(names[famName[m.fam]], m.name)
	}
	for f, must := range map[family]string{famWith: "With", famW: "Infow", famPrint: "Info", famPrintf: "Infof", famPrintln: "Infoln"} {
		found := false
		for _, m := range byFam[f] {
			found = found || m.name == must
		}
		if !found {
			ev.ToolError("method discovery is broken: %s not found in family %s (%v)", must, famName[f], names[famName[f]])
		}
	}
	c := &checker{run: run, ms: ms}
	if rp := os.Getenv("VERIF_REPLAY"); rp != "" {
		c.replay(rp, run.Thorough())
	}

	maxLen, offLen, nopLen, chainLen, fLen := 5, 4, 3, 2, 3
	if run.Thorough() {
		maxLen, offLen, nopLen, chainLen, fLen = 6, 5, 4, 3, 4
	}
	structured := append(append([]method{}, byFam[famWith]...), byFam[famW]...)

	var mu sync.Mutex
	outcomes := map[string]bool{}
	var samples []any
	sampled := map[int64]any{}
	var nSweep, nOff, nNop, nChain, nFmt atomic.Int64

	// ---- part 1: the argument sweep
	total := countLists(maxLen)
	offTotal, nopTotal := countLists(offLen), countLists(nopLen)
	const chunk = 500
	nChunks := int((total + chunk - 1) / chunk)
	sampleAt := map[int64]bool{3: true, 67: true, 1234: true, 54321: true, total - 1: true}
	cols := make([]*collector, nChunks)
	par.For(nChunks, func(ci int) {
		r := newRunner(zap.DebugLevel, ms)
		col := newCollector()
		cols[ci] = col
		var off, dev *runner
		var nfn map[int]interface{}
		local := map[string]bool{}
		buf := make([]int, 0, 8)
		lo, hi := int64(ci)*chunk, int64(ci+1)*chunk
		if hi > total {
			hi = total
		}
		for g := lo; g < hi; g++ {
			idx := decode(g, buf)
			args := listOf(idx)
			exp := reference(args)
			local[exp.signature()] = true
			for _, m := range structured {
				for _, lvl := range m.levels() {
					c.sweepCase(col, r, m, lvl, idx, args, exp)
					nSweep.Add(1)
				}
			}
			if g < offTotal {
				if dev == nil {
					dev = newDevRunner(ms)
				}
				for _, m := range structured {
					for _, lvl := range m.levels() {
						c.devCase(col, dev, m, lvl, idx, args, exp)
						nOff.Add(1)
					}
				}
				if off == nil {
					off = newRunner(errorOff(), ms)
				}
				for _, m := range structured {
					for _, lvl := range m.levels() {
						c.errDisabledCase(col, off, m, lvl, idx, args, exp)
						nOff.Add(1)
					}
				}
			}
			if g < nopTotal {
				if nfn == nil {
					nfn = nopFns(ms)
				}
				for _, m := range structured {
					for _, lvl := range m.levels() {
						c.nopCase(col, nfn, m, lvl, idx, args)
						nNop.Add(1)
					}
				}
			}
			if sampleAt[g] {
				mu.Lock()
				sampled[g] = map[string]any{"list": render(idx), "reference": exp.signature(), "methods": len(structured)}
				mu.Unlock()
			}
		}
		mu.Lock()
		for k := range local {
			outcomes[k] = true
		}
		mu.Unlock()
	})

	c.flush(cols)
	for _, g := range []int64{3, 67, 1234, 54321, total - 1} {
		if v, ok := sampled[g]; ok {
			samples = append(samples, v)
		}
	}

	// ---- part 2: chained calls (second sweep on a logger that carries context)
	chainN := countLists(chainLen)
	cols = make([]*collector, chainN)
	par.For(int(chainN), func(ai int) {
		r := newRunner(zap.DebugLevel, ms)
		col := newCollector()
		cols[ai] = col
		a := append([]int(nil), decode(int64(ai), make([]int, 0, 8))...)
		buf := make([]int, 0, 8)
		for bi := int64(0); bi < chainN; bi++ {
			b := decode(bi, buf)
			for _, m := range byFam[famWith] {
				c.chainCase(col, r, m, a, b)
				nChain.Add(1)
			}
		}
	})

	c.flush(cols)

	// ---- part 3: print / printf / println
	fa := fAtoms(run.Thorough())
	tmpls := templates(run.Thorough())
	var flists [][]int
	var gen func(cur []int)
	gen = func(cur []int) {
		flists = append(flists, append([]int(nil), cur...))
		if len(cur) == fLen {
			return
		}
		for i := range fa {
			gen(append(cur, i))
		}
	}
	gen(nil)
	sort.SliceStable(flists, func(i, j int) bool { return len(flists[i]) < len(flists[j]) })
	messages := map[string]bool{}
	cols = make([]*collector, len(flists))
	par.For(len(flists), func(li int) {
		r := newRunner(zap.DebugLevel, ms)
		col := newCollector()
		cols[li] = col
		idx := flists[li]
		local := map[string]bool{}
		for _, f := range []family{famPrint, famPrintln, famPrintf} {
			ts := []string{""}
			if f == famPrintf {
				ts = tmpls
			}
			for _, m := range byFam[f] {
				for _, lvl := range m.levels() {
					for _, t := range ts {
						w := c.formatCase(col, r, fa, m, lvl, t, idx)
						nFmt.Add(1)
						local[famName[f]+"\x00"+w] = true
					}
				}
			}
		}
		mu.Lock()
		for k := range local {
			messages[k] = true
		}
		mu.Unlock()
	})
	c.flush(cols)
	sprintf := fmt.Sprintf // deliberately ill-formed calls below
	samples = append(samples,
		map[string]any{"format": `Infof("%s-%s", 1, "s")`, "want": sprintf("%s-%s", 1, "s")},
		map[string]any{"format": `Infoln(1, "s", nil)`, "want": strings.TrimSuffix(fmt.Sprintln(1, "s", nil), "\n")},
		map[string]any{"format": `Infof("", 1)`, "want": sprintf("", 1)})

	for k := range names {
		sort.Strings(names[k])
	}
	run.Assume = []string{
		"production (non-development) loggers only: the doc comment of With still says a bad key panics in development, the property says never; development mode is left out",
		"argument alphabet: zap.Int field, zap.Skip(), string keys k1/k2, non-string keys 42 and nil, errors e1/e2 (distinct messages, comparable), values 7 and []int{1}; no typed-nil errors, no Stringers/uncomparable values (Field.Equals is C03's subject)",
		"an error standing where a key would stand is read as a bare error (left-to-right sweep), an error standing after a key is that key's value",
		"Logw/Logf/Log/Logln are exercised with the seven named levels only",
		"Panic- and Fatal-level calls are expected to panic after writing (Fatal through zap.WithFatalHook(WriteThenPanic)); termination itself is not this property's subject",
		"the wording of the three diagnostic messages and the field names ignored / invalid{position,key,value} / error are taken as documented (sugar.go constants, pinned by zap's suite)",
		"formatting: templates and argument atoms as listed in rule; package fmt is the oracle",
	}
	run.Finish(map[string]any{
		"evaluations":         c.evals.Load(),
		"distinct_nontrivial": len(outcomes) + len(messages),
		"rule": fmt.Sprintf("structured: every list of length <=%d over the %d atoms %s through every With-family and *w method found by reflection (Log* at each of the 7 levels), Error enabled; the same for length <=%d on a logger built with Development() and on a core with Error disabled, and <=%d on a no-op logger; chained With-family(a).Infow(b) for all a,b of length <=%d. formatting: %d templates %q x every list of length <=%d over %d atoms through every print/printf/println method at every level. distinct = distinct reference outcomes (expected field classes+keys, dangling value, invalid pairs with position, extra errors) plus distinct (family, expected message)",
			maxLen, len(atoms), render(allAtomIdx()), offLen, nopLen, chainLen, len(tmpls), tmpls, fLen, len(fa)),
		"samples":                     samples,
		"exhaustive":                  true,
		"methods":                     names,
		"lists":                       total,
		"max_list_length":             maxLen,
		"sweep_evaluations":           nSweep.Load(),
		"error_disabled_evaluations":  nOff.Load(),
		"nop_evaluations":             nNop.Load(),
		"chain_evaluations":           nChain.Load(),
		"format_evaluations":          nFmt.Load(),
		"distinct_reference_outcomes": len(outcomes),
		"distinct_expected_messages":  len(messages),
	})
}
