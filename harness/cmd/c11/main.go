// Command c11 decides property C11 (sampler): (a) every sequence of
// (level, message, timestamp-delta) symbols up to a length, for every
// (first, thereafter, tick) configuration, on the real sampler in lockstep
// with a reference model; (b) all interleavings of threads logging the same
// key inside one open window (atomics are the scheduling points), and a
// window-straddling driver for the per-entry accounting.
package main

import (
	"fmt"
	"hash/fnv"
	"math"
	"net/url"
	"os"
	"strconv"
	"strings"
	"sync"
	"sync/atomic"
	"time"

	"go.uber.org/zap"
	"go.uber.org/zap/zapcore"
	"go.uber.org/zap/zaptest/observer"
	"go.uber.org/zap/zzverif/vsched"
	"go.uber.org/zap/zzverif/vsync"
	"verif/harness/internal/ev"
	"verif/harness/internal/mc"
	"verif/harness/internal/par"
)

func bucket(msg string) uint32 {
	h := fnv.New32a()
	h.Write([]byte(msg))
	return h.Sum32() % 4096
}

var collider = func() string {
	want := bucket("a")
	for i := 0; ; i++ {
		s := "c" + strconv.Itoa(i)
		if bucket(s) == want {
			return s
		}
	}
}()

// nonASCII is a message with multi-byte and invalid UTF-8 bytes; nonASCIICollider
// a different non-ASCII message in the same bucket. The documented hash runs
// over the message BYTES; hashing runes (or anything else that agrees on ASCII
// only) separates these two or merges them with others.
const nonASCII = "r\u00e9q \xff\xfe"

var nonASCIICollider = func() string {
	want := bucket(nonASCII)
	for i := 0; ; i++ {
		s := "\u00e9chou\u00e9e " + strconv.Itoa(i) + " \u00fc"
		if bucket(s) == want {
			return s
		}
	}
}()

// adjacent returns a message whose bucket is bucket("a")+d (mod 4096): the
// per-(level, bucket) budgets of DIFFERENT levels must be independent also when
// their buckets are neighbours (a counter table indexed by level + hash in one
// row would couple them).
func adjacent(d int) string {
	want := (int(bucket("a")) + d + 4096) % 4096
	for i := 0; ; i++ {
		s := "adj" + strconv.Itoa(d) + "-" + strconv.Itoa(i)
		if int(bucket(s)) == want {
			return s
		}
	}
}

var adjMinus1, adjPlus1 = adjacent(-1), adjacent(1)

// enabler: Debug is disabled, everything else (also out-of-range values) enabled.
var enabler = zap.LevelEnablerFunc(func(l zapcore.Level) bool { return l != zapcore.DebugLevel })

type key struct {
	lvl zapcore.Level
	msg string
}

func keys() []key {
	return []key{
		{zapcore.InfoLevel, "a"},
		{zapcore.InfoLevel, nonASCII}, // independent of "a"; non-ASCII bytes
		{zapcore.InfoLevel, collider},
		{zapcore.WarnLevel, "a"},
		{zapcore.DebugLevel, "a"},             // disabled
		{zapcore.Level(9), "a"},               // out of range, enabled
		{zapcore.Level(-7), "a"},              // out of range (below), enabled
		{zapcore.FatalLevel, "a"},             // highest in-range level
		{zapcore.InfoLevel, nonASCIICollider}, // shares the budget of nonASCII
		{zapcore.WarnLevel, adjMinus1},        // next level, neighbouring bucket below that of "a": independent of (info, "a")
		{zapcore.WarnLevel, adjPlus1},         // next level, neighbouring bucket above
	}
}

type refCounter struct {
	w int64 // window end (UnixNano); 0 initially
	c uint64
}

type refKey struct {
	lvl zapcore.Level
	b   uint32
}

type hookRec struct {
	msg string
	lvl zapcore.Level
	dec zapcore.SamplingDecision
}

type rig struct {
	n, m   int
	tick   time.Duration
	parent zapcore.Core
	child  zapcore.Core
	logs   *observer.ObservedLogs
	hooks  []hookRec
	ref    map[refKey]*refCounter
}

func newRig(n, m int, tick time.Duration) *rig {
	r := &rig{n: n, m: m, tick: tick, ref: map[refKey]*refCounter{}}
	oc, logs := observer.New(enabler)
	r.logs = logs
	r.parent = zapcore.NewSamplerWithOptions(oc, tick, n, m, zapcore.SamplerHook(func(e zapcore.Entry, d zapcore.SamplingDecision) {
		r.hooks = append(r.hooks, hookRec{e.Message, e.Level, d})
	}))
	r.child = r.parent.With(nil).With([]zapcore.Field{}).With([]zapcore.Field{{Key: "child", Type: zapcore.Int64Type, Integer: 1}})
	return r
}

func admit(c uint64, n, m int) bool {
	if c <= uint64(n) {
		return true
	}
	return m > 0 && (c-uint64(n))%uint64(m) == 0
}

// step feeds one entry to the real sampler and the reference; returns a mismatch description.
func (r *rig) step(useChild bool, k key, t int64) string {
	return r.stepAt(useChild, k, time.Unix(0, t))
}

// stepAt: the entry carries exactly tm (which may be the zero Time: its UnixNano is what the sampler compares).
func (r *rig) stepAt(useChild bool, k key, tm time.Time) string {
	t := tm.UnixNano()
	core := r.parent
	if useChild {
		core = r.child
	}
	ent := zapcore.Entry{Level: k.lvl, Message: k.msg, Time: tm}
	r.hooks = r.hooks[:0]
	ce := core.Check(ent, nil)
	if ce != nil {
		ce.Write()
	}
	got := r.logs.TakeAll()
	// reference
	wantFwd, wantHook := false, zapcore.SamplingDecision(0)
	switch {
	case !enabler.Enabled(k.lvl):
		// disabled: nothing happens, no budget
	case k.lvl < zapcore.DebugLevel || k.lvl > zapcore.FatalLevel:
		wantFwd = true
	default:
		rk := refKey{k.lvl, bucket(k.msg)}
		rc := r.ref[rk]
		if rc == nil {
			rc = &refCounter{}
			r.ref[rk] = rc
		}
		if t < rc.w {
			rc.c++
		} else {
			rc.c = 1
			rc.w = t + int64(r.tick)
		}
		if admit(rc.c, r.n, r.m) {
			wantFwd, wantHook = true, zapcore.LogSampled
		} else {
			wantHook = zapcore.LogDropped
		}
	}
	fwd := len(got) > 0
	if len(got) > 1 {
		return fmt.Sprintf("entry forwarded %d times", len(got))
	}
	if fwd != wantFwd {
		return fmt.Sprintf("forwarded=%v, reference says %v", fwd, wantFwd)
	}
	if fwd {
		if got[0].Message != k.msg || got[0].Level != k.lvl {
			return "forwarded entry differs from the logged one"
		}
		if useChild != (len(got[0].Context) == 1) {
			return fmt.Sprintf("forwarded entry carries %d context fields (child=%v)", len(got[0].Context), useChild)
		}
	}
	if wantHook == 0 {
		if len(r.hooks) != 0 {
			return fmt.Sprintf("hook called %d times for an entry that is not sampled (disabled or out-of-range level)", len(r.hooks))
		}
	} else {
		if len(r.hooks) != 1 {
			return fmt.Sprintf("hook called %d times, want exactly once", len(r.hooks))
		}
		if r.hooks[0].dec != wantHook || r.hooks[0].msg != k.msg || r.hooks[0].lvl != k.lvl {
			return fmt.Sprintf("hook reported decision %d for %q, applied decision is %d", r.hooks[0].dec, r.hooks[0].msg, wantHook)
		}
	}
	return ""
}

type sym struct {
	k  int
	dt int // index into deltas
}

func deltas(tick time.Duration) []int64 {
	t := int64(tick)
	return []int64{0, t - 1, t, t + 1, -1, -(t + 1)}
}

func symStr(ks []key, ds []int64, s sym) string {
	return fmt.Sprintf("(%v,%q,dt=%d)", ks[s.k].lvl, ks[s.k].msg, ds[s.dt])
}

// sequential part for one configuration; returns sequences run, steps, distinct ref states
// syms == nil: the whole alphabet; otherwise only those symbol indices (the
// deeper pass over the reduced alphabet).
// configurations whose enumeration was cut short after more than 50 failing sequences
var stoppedConfigs atomic.Int64

func seqConfig(run *ev.Run, n, m int, tick time.Duration, maxLen int, syms []int, states map[string]bool, mu *sync.Mutex) (seqs, steps int64) {
	ks := keys()
	ds := deltas(tick)
	nsym := len(ks) * len(ds)
	if syms == nil {
		for s := 0; s < nsym; s++ {
			syms = append(syms, s)
		}
	}
	r := newRig(n, m, tick)
	r2 := newRig(n, m, tick) // a second, independent sampler with the same settings in the same process
	base := int64(1_000_000_000_000)
	sinceFresh := 0
	local := map[string]bool{}
	seq := make([]sym, 0, maxLen)
	failures := 0
	fail := func(mode string, upto int, msg string) {
		var parts []string
		for _, s := range seq[:upto+1] {
			parts = append(parts, symStr(ks, ds, s))
		}
		desc := fmt.Sprintf("first=%d thereafter=%d tick=%v %s: %s", n, m, tick, mode, strings.Join(parts, " "))
		run.Report("seq:"+desc, desc+": "+msg, map[string]any{"first": n, "thereafter": m, "tick": tick.String(), "mode": mode, "sequence": parts})
		if failures++; failures == 51 {
			stoppedConfigs.Add(1)
		}
	}
	var rec func()
	rec = func() {
		if failures > 50 {
			// this configuration has failed on more than 50 sequences: the verdict is
			// settled, enumerating the rest only repeats it (the evidence records the stop)
			return
		}
		if len(seq) > 0 {
			for mode := 0; mode < 3; mode++ {
				// each sequence starts beyond every open window: a longer legal history
				base += 4*int64(tick) + 10
				t := base
				for i, s := range seq {
					t += ds[s.dt]
					useChild := mode == 1 && i%2 == 1
					rr := r
					if mode == 2 && i%2 == 1 {
						rr = r2
					}
					if msg := rr.step(useChild, ks[s.k], t); msg != "" {
						fail([]string{"parent", "alternating parent/With-child", "alternating between two independent samplers with the same settings"}[mode], i, msg)
						r, r2 = newRig(n, m, tick), newRig(n, m, tick)
						break
					}
					steps++
				}
				if t > base {
					base = t
				}
				seqs++
			}
			if len(local) < 5000 {
				// canonical reference state of the touched counters
				st := ""
				for _, kk := range []refKey{{zapcore.InfoLevel, bucket("a")}, {zapcore.InfoLevel, bucket(nonASCII)}, {zapcore.WarnLevel, bucket("a")}, {zapcore.FatalLevel, bucket("a")}} {
					if rc := r.ref[kk]; rc != nil {
						st += fmt.Sprintf("%d@%d ", rc.c, rc.w-base)
					} else {
						st += "- "
					}
				}
				local[st] = true
			}
			sinceFresh++
			if sinceFresh >= 10000 {
				sinceFresh = 0
				r, r2 = newRig(n, m, tick), newRig(n, m, tick)
			}
		}
		if len(seq) == maxLen {
			return
		}
		for _, s := range syms {
			seq = append(seq, sym{s / len(ds), s % len(ds)})
			rec()
			seq = seq[:len(seq)-1]
		}
	}
	rec()
	mu.Lock()
	for k := range local {
		if len(states) < 100000 {
			states[fmt.Sprintf("%d/%d/%v:%s", n, m, tick, k)] = true
		}
	}
	mu.Unlock()
	return
}

// ---------------------------------------------------------------------------
// concurrent part

// fwdCore is the wrapped core of the concurrent drivers: the sampler forwards an
// entry by calling Check on it; it records that and adds nothing.
type fwdCore struct {
	onCheck func(zapcore.Entry)
}

func (c *fwdCore) Enabled(l zapcore.Level) bool         { return enabler.Enabled(l) }
func (c *fwdCore) With(fs []zapcore.Field) zapcore.Core { return c }
func (c *fwdCore) Check(e zapcore.Entry, ce *zapcore.CheckedEntry) *zapcore.CheckedEntry {
	c.onCheck(e)
	return ce
}
func (c *fwdCore) Write(zapcore.Entry, []zapcore.Field) error { return nil }
func (c *fwdCore) Sync() error                                { return nil }

// item: conc|mode|N|M|k0|T|perThread     mode = inwindow | straddle
func concHandler(item string, replay []int, isReplay bool, journal func([]int)) mc.ItemResult {
	f := strings.Split(item, "|")
	mode := f[1]
	n, _ := strconv.Atoi(f[2])
	m, _ := strconv.Atoi(f[3])
	k0, _ := strconv.Atoi(f[4])
	T, _ := strconv.Atoi(f[5])
	per, _ := strconv.Atoi(f[6])
	tick := 100 * time.Nanosecond
	total := T * per
	base := int64(5_000_000)
	mk := func() mc.Exec {
		// A fresh sampler per execution: a sampler carried over from the previous
		// execution would make this one depend on how that one ended (on code that
		// fails to roll a window over the stale counts would look like a
		// nondeterministic driver instead of a violation).
		var hookN, fwdN []int
		var hookD []zapcore.SamplingDecision
		idx := func(name string) int {
			if !strings.HasPrefix(name, "e") {
				return -1
			}
			i, _ := strconv.Atoi(name[1:])
			return i
		}
		inner := &fwdCore{onCheck: func(e zapcore.Entry) {
			if i := idx(e.LoggerName); i >= 0 {
				fwdN[i]++
			}
		}}
		core := zapcore.NewSamplerWithOptions(inner, tick, n, m, zapcore.SamplerHook(func(e zapcore.Entry, d zapcore.SamplingDecision) {
			if i := idx(e.LoggerName); i >= 0 {
				hookN[i]++
				hookD[i] |= d
			}
		}))
		child := core.With(nil).With([]zapcore.Field{{Key: "child", Type: zapcore.Int64Type, Integer: 1}})
		// per-entry slots: every entry writes only its own slot, so the harness
		// itself adds no synchronisation (and no scheduling points)
		hookN = make([]int, total)
		hookD = make([]zapcore.SamplingDecision, total)
		fwdN = make([]int, total)
		base += 10 * int64(tick)
		t0 := base
		return mc.Exec{
			Body: func() {
				for i := 0; i < k0; i++ {
					e := zapcore.Entry{Level: zapcore.InfoLevel, Message: "a", Time: time.Unix(0, t0), LoggerName: "pre"}
					core.Check(e, nil)
				}
				tt := t0 + 1
				if mode == "straddle" {
					tt = t0 + int64(tick) // exactly at the window end: takes the reset path
				}
				var wg vsync.WaitGroup
				for t := 0; t < T; t++ {
					t := t
					wg.Add(1)
					vsched.Go(func() {
						defer wg.Done()
						c := core
						if t%2 == 1 {
							c = child
						}
						for i := 0; i < per; i++ {
							e := zapcore.Entry{Level: zapcore.InfoLevel, Message: "a", Time: time.Unix(0, tt), LoggerName: "e" + strconv.Itoa(t*per+i)}
							c.Check(e, nil)
						}
					})
				}
				wg.Wait()
			},
			Check: func(vsched.Result) (string, error) {
				admitted := 0
				for i := 0; i < total; i++ {
					if hookN[i] != 1 {
						return "", fmt.Errorf("entry %d: hook called %d times, want exactly once", i, hookN[i])
					}
					if hookD[i] != zapcore.LogSampled && hookD[i] != zapcore.LogDropped {
						return "", fmt.Errorf("entry %d: hook decision %d is not a single decision", i, hookD[i])
					}
					if (fwdN[i] == 1) != (hookD[i] == zapcore.LogSampled) || fwdN[i] > 1 {
						return "", fmt.Errorf("entry %d: forwarded %d times but hook reported decision %d", i, fwdN[i], hookD[i])
					}
					admitted += fwdN[i]
				}
				if mode == "inwindow" {
					want := 0
					for c := k0 + 1; c <= k0+total; c++ {
						if admit(uint64(c), n, m) {
							want++
						}
					}
					if admitted != want {
						return "", fmt.Errorf("first=%d thereafter=%d: %d entries after %d earlier ones in an open window: %d admitted, exactly %d must be", n, m, total, k0, admitted, want)
					}
				}
				return fmt.Sprintf("admitted=%d", admitted), nil
			},
		}
	}
	if isReplay {
		_, v := mc.Replay(mk, replay)
		return mc.ItemResult{Item: item, Violation: v}
	}
	b := mc.Bounds{Preempt: -1, Dev: -1}
	if total > 4 {
		b.Preempt = 4
	}
	st, v := mc.Explore(mk, b, journal)
	return mc.ItemResult{Item: item, Stats: st, Violation: v}
}

// recSinks collects the lines written through the registered scheme c11rec://<id>.
var recSinks = map[string]*recSink{}

type recSink struct{ lines int }

func (r *recSink) Write(p []byte) (int, error) {
	r.lines += strings.Count(string(p), "\n")
	return len(p), nil
}
func (r *recSink) Sync() error  { return nil }
func (r *recSink) Close() error { return nil }

type fixedClock struct{ t time.Time }

func (c fixedClock) Now() time.Time                         { return c.t }
func (c fixedClock) NewTicker(d time.Duration) *time.Ticker { return time.NewTicker(d) }

// configBuiltSamplers: the sampler a Config builds from SamplingConfig{Initial, Thereafter}
// must admit exactly "the first Initial, then every Thereafter-th" (tick: one second) -
// every pair Initial, Thereafter in 0..4 with 14 same-key entries at one instant, the
// decisions seen by the Hook and the number of lines reaching the sink.
func configBuiltSamplers(run *ev.Run) (evals int64) {
	_ = zap.RegisterSink("c11rec", func(u *url.URL) (zap.Sink, error) {
		s := &recSink{}
		recSinks[u.Host] = s
		return s, nil
	})
	// every other Config switch that a sampler must not depend on: base constructor, Development,
	// encoding, caller / stack-trace annotation, logging through a With-derived child
	type variant struct {
		name                       string
		dev, base                  bool // base: true = NewDevelopmentConfig
		console, noCaller, noStack bool
		child                      bool
	}
	var variants []variant
	for v := 0; v < 64; v++ {
		x := variant{dev: v&1 != 0, base: v&2 != 0, console: v&4 != 0, noCaller: v&8 != 0, noStack: v&16 != 0, child: v&32 != 0}
		x.name = fmt.Sprintf("base=%s Development=%v Encoding=%s DisableCaller=%v DisableStacktrace=%v via-With-child=%v",
			map[bool]string{false: "NewProductionConfig", true: "NewDevelopmentConfig"}[x.base], x.dev, map[bool]string{false: "json", true: "console"}[x.console], x.noCaller, x.noStack, x.child)
		variants = append(variants, x)
	}
	for vi, v := range variants {
		for n := 0; n <= 4; n++ {
			for m := 0; m <= 4; m++ {
				if vi > 0 && (n > 2 || m > 3) {
					continue // the full 5x5 grid on the plain production configuration, 3x4 on the others
				}
				id := fmt.Sprintf("v%d-s%d-%d", vi, n, m)
				var hook []zapcore.SamplingDecision
				cfg := zap.NewProductionConfig()
				if v.base {
					cfg = zap.NewDevelopmentConfig()
				}
				cfg.Development = v.dev
				if v.console {
					cfg.Encoding = "console"
				} else {
					cfg.Encoding = "json"
				}
				cfg.DisableCaller, cfg.DisableStacktrace = v.noCaller, v.noStack
				cfg.OutputPaths = []string{"c11rec://" + id}
				cfg.ErrorOutputPaths = []string{"c11rec://" + id + "e"}
				cfg.Sampling = &zap.SamplingConfig{Initial: n, Thereafter: m, Hook: func(_ zapcore.Entry, d zapcore.SamplingDecision) { hook = append(hook, d) }}
				l, err := cfg.Build(zap.WithClock(fixedClock{time.Unix(1700000000, 0)}))
				if err != nil {
					ev.ToolError("Config.Build: %v", err)
				}
				if v.child {
					l = l.With(zap.Int("k", 1)).Named("c")
				}
				const total = 14
				want := 0
				var wantHook []zapcore.SamplingDecision
				for i := 1; i <= total; i++ {
					l.Info("same message")
					evals++
					admit := i <= n || (m > 0 && (i-n)%m == 0)
					if admit {
						want++
						wantHook = append(wantHook, zapcore.LogSampled)
					} else {
						wantHook = append(wantHook, zapcore.LogDropped)
					}
				}
				got := recSinks[id].lines
				if got != want || fmt.Sprint(hook) != fmt.Sprint(wantHook) {
					key := fmt.Sprintf("config:sampling:initial=%d:thereafter=%d", n, m)
					if vi > 0 {
						key = "config:sampling:with-other-switches"
					}
					run.Report(key, fmt.Sprintf("Config{Sampling: {Initial: %d, Thereafter: %d}, %s}.Build(): %d same-key entries at one instant: %d lines reached the sink, want %d; hook decisions %v, want %v (1 = dropped, 2 = sampled)", n, m, v.name, total, got, want, hook, wantHook), map[string]any{"initial": n, "thereafter": m, "variant": v.name})
				}
				delete(recSinks, id)
				delete(recSinks, id+"e")
			}
		}
	}
	return
}

// levelChanges: the wrapped core's level is an AtomicLevel that is changed AFTER the sampler (and its With
// child) were built: every sequence of length <= maxLen over {log info, log warn, SetLevel debug/warn/error},
// all entries at one instant. An entry of a level that is disabled at the time of the call is not counted,
// not reported to the hook and not forwarded; everything else follows the budget.
func levelChanges(run *ev.Run, maxLen int) (evals int64) {
	type lop struct {
		set bool
		lvl zapcore.Level
	}
	ops := []lop{{false, zapcore.InfoLevel}, {false, zapcore.WarnLevel}, {true, zapcore.DebugLevel}, {true, zapcore.WarnLevel}, {true, zapcore.ErrorLevel}}
	name := func(o lop) string {
		if o.set {
			return "SetLevel(" + o.lvl.String() + ")"
		}
		return "log(" + o.lvl.String() + ")"
	}
	t0 := time.Unix(1_000_000_000, 0)
	for n := 0; n <= 2; n++ {
		for m := 0; m <= 2; m++ {
			seq := make([]lop, 0, maxLen)
			var rec func()
			rec = func() {
				if len(seq) > 0 && !seq[len(seq)-1].set {
					al := zap.NewAtomicLevelAt(zapcore.DebugLevel)
					oc, logs := observer.New(al)
					var hooks []hookRec
					parent := zapcore.NewSamplerWithOptions(oc, time.Hour, n, m, zapcore.SamplerHook(func(e zapcore.Entry, d zapcore.SamplingDecision) {
						hooks = append(hooks, hookRec{e.Message, e.Level, d})
					}))
					child := parent.With([]zapcore.Field{{Key: "child", Type: zapcore.Int64Type, Integer: 1}})
					counts := map[zapcore.Level]uint64{}
					for i, o := range seq {
						if o.set {
							al.SetLevel(o.lvl)
							continue
						}
						evals++
						core := parent
						if i%2 == 1 {
							core = child
						}
						hooks = hooks[:0]
						if ce := core.Check(zapcore.Entry{Level: o.lvl, Message: "a", Time: t0}, nil); ce != nil {
							ce.Write()
						}
						got := logs.TakeAll()
						wantFwd, wantHooks := false, 0
						wantDec := zapcore.LogDropped
						if al.Enabled(o.lvl) {
							counts[o.lvl]++
							wantHooks = 1
							if admit(counts[o.lvl], n, m) {
								wantFwd, wantDec = true, zapcore.LogSampled
							}
						}
						bad := ""
						switch {
						case (len(got) == 1) != wantFwd || len(got) > 1:
							bad = fmt.Sprintf("%d entries forwarded, reference says forwarded=%v", len(got), wantFwd)
						case len(hooks) != wantHooks:
							bad = fmt.Sprintf("hook called %d times, want %d", len(hooks), wantHooks)
						case wantHooks == 1 && hooks[0].dec != wantDec:
							bad = fmt.Sprintf("hook decision %d, want %d", hooks[0].dec, wantDec)
						}
						if bad != "" {
							var parts []string
							for _, x := range seq[:i+1] {
								parts = append(parts, name(x))
							}
							run.Report("seq:level-changed-after-construction", fmt.Sprintf("first=%d thereafter=%d, sampler over a core whose AtomicLevel starts at debug: %s (alternating parent / With child): step %d: %s", n, m, strings.Join(parts, ", "), i, bad), map[string]any{"first": n, "thereafter": m, "ops": parts})
							break
						}
					}
				}
				if len(seq) == maxLen {
					return
				}
				for _, o := range ops {
					seq = append(seq, o)
					rec()
					seq = seq[:len(seq)-1]
				}
			}
			rec()
		}
	}
	return
}

// zeroTimes: entries without a timestamp (Entry.Time is the zero Time, as entries made by hand or bridged
// from records without a time are) mixed with stamped ones: every sequence of length <= maxLen over
// {zero-time, stamped now, stamped one tick later, stamped two ticks later} for one key. The sampler compares
// UnixNano values only; the zero Time's lies far below every real instant, so such an entry counts in
// whatever window is open and never opens one.
func zeroTimes(run *ev.Run, maxLen int) (evals int64) {
	tick := time.Second
	names := []string{"zero-time", "t0", "t0+tick+1ns", "t0+2tick+2ns"}
	// t0 lies in the past of the machine's clock in one pass and in its future in the other: nothing may depend on it
	for ci, cfg := range [][2]int{{1, 0}, {2, 0}, {0, 2}, {1, 2}, {1, 0}, {2, 0}, {0, 2}, {1, 2}} {
		base := time.Unix(1_000_000_000, 0)
		if ci >= 4 {
			base = time.Now().Add(1000 * time.Hour)
		}
		times := []time.Time{{}, base, base.Add(tick + 1), base.Add(2*tick + 2)}
		seq := make([]int, 0, maxLen)
		var rec func()
		rec = func() {
			if len(seq) > 0 {
				r := newRig(cfg[0], cfg[1], tick)
				for i, s := range seq {
					evals++
					if msg := r.stepAt(i%3 == 2, key{zapcore.InfoLevel, "a"}, times[s]); msg != "" {
						var parts []string
						for _, x := range seq[:i+1] {
							parts = append(parts, names[x])
						}
						run.Report("seq:zero-time-entries", fmt.Sprintf("first=%d thereafter=%d tick=1s, entries (info,\"a\") stamped %s: entry %d: %s", cfg[0], cfg[1], strings.Join(parts, ", "), i, msg), map[string]any{"first": cfg[0], "thereafter": cfg[1], "times": parts})
						break
					}
				}
			}
			if len(seq) == maxLen {
				return
			}
			for s := range times {
				seq = append(seq, s)
				rec()
				seq = seq[:len(seq)-1]
			}
		}
		rec()
	}
	return
}

// messageLengths: for every message length up to maxLen, three messages that differ only in their
// last byte (so they fall into different buckets) and the first one once more, on a sampler that admits
// one entry per window: x admitted, y admitted, z admitted, x dropped. A key derived from part of the
// message merges them.
func messageLengths(run *ev.Run, maxLen int) (evals int64) {
	r := newRig(1, 0, time.Second)
	t := int64(2_000_000_000_000)
	for L := 1; L <= maxLen; L++ {
		p := strings.Repeat("p", L-1)
		if L%7 == 3 {
			p = strings.Repeat("é", (L-1)/2) + strings.Repeat("q", (L-1)%2)
		}
		t += 5 * int64(time.Second)
		for i, last := range []string{"x", "y", "z", "x", "<x", "<y", "<x"} {
			evals++
			m := p + last
			if last[0] == '<' { // ... and messages that differ only in their FIRST byte
				m = last[1:] + p + "."
			}
			if msg := r.step(i%2 == 1, key{zapcore.InfoLevel, m}, t); msg != "" {
				run.Report("seq:message-length", fmt.Sprintf("first=1 thereafter=0 tick=1s, %d-byte messages differing in the last byte, all at one instant; entry %d (%q...%q): %s", L, i, clip(p, 12), last, msg), map[string]any{"length": L, "entry": i})
				r = newRig(1, 0, time.Second)
				break
			}
		}
		if L%200 == 0 {
			r = newRig(1, 0, time.Second)
		}
	}
	return
}

func clip(s string, n int) string {
	if len(s) > n {
		return s[:n]
	}
	return s
}

func main() {
	mc.MaybeWorker(concHandler)
	run := ev.Start("C11", "model_checking")
	if rp := os.Getenv("VERIF_REPLAY"); rp != "" {
		mc.ReplayFromFile(rp, concHandler)
	}
	maxLen := 3
	if run.Thorough() {
		maxLen = 4
	}
	type cfg struct {
		n, m int
		tick time.Duration
	}
	var cfgs []cfg
	for n := 0; n <= 3; n++ {
		for m := 0; m <= 3; m++ {
			for _, tick := range []time.Duration{0, 1, 10, time.Second} {
				cfgs = append(cfgs, cfg{n, m, tick})
			}
		}
	}
	// budgets that do not fit 32 bits (int is 64 bits wide here): they are budgets like any other
	for _, nm := range [][2]int{{1<<32 + 2, 0}, {1 << 32, 3}, {2, 1<<32 + 4}, {math.MaxInt64, 1}} {
		cfgs = append(cfgs, cfg{nm[0], nm[1], 10})
	}
	var seqs, steps atomic.Int64
	states := map[string]bool{}
	var mu sync.Mutex
	par.For(len(cfgs), func(i int) {
		c := cfgs[i]
		l := maxLen
		if run.Thorough() && c.tick == time.Second {
			l = maxLen - 1 // the 1s tick differs from 10ns only in magnitude; the full depth is spent on the two small ticks
		}
		s, st := seqConfig(run, c.n, c.m, c.tick, l, nil, states, &mu)
		seqs.Add(s)
		steps.Add(st)
	})
	// deeper pass over a reduced alphabet: keys (Info,a), (Info,collider of a),
	// (Warn,a) x deltas {0, tick-1, tick, -1} - the symbols that move one
	// counter through its window and budget - to length deepLen
	var reduced []int
	nd := len(deltas(time.Second))
	for _, k := range []int{0, 2, 3} {
		for _, d := range []int{0, 1, 2, 4} {
			reduced = append(reduced, k*nd+d)
		}
	}
	deepLen := 5
	if run.Thorough() {
		deepLen = 6
	}
	var dseqs atomic.Int64
	par.For(len(cfgs), func(i int) {
		c := cfgs[i]
		if run.Thorough() && c.tick == time.Second {
			return // length 6 only for the two small ticks (the 1s tick behaves identically in the model; it is covered to length 5 by quick)
		}
		s, st := seqConfig(run, c.n, c.m, c.tick, deepLen, reduced, states, &mu)
		seqs.Add(s)
		dseqs.Add(s)
		steps.Add(st)
	})
	deepSeqs := dseqs.Load()

	cfgEvals := configBuiltSamplers(run)
	msgMax := 600
	if run.Thorough() {
		msgMax = 5000
	}
	lenEvals := messageLengths(run, msgMax)
	ztLen := 5
	if run.Thorough() {
		ztLen = 7
	}
	ztEvals := zeroTimes(run, ztLen)
	ztEvals += levelChanges(run, 6)
	var items []string
	for _, mode := range []string{"inwindow", "straddle"} {
		for n := 0; n <= 2; n++ {
			for m := 0; m <= 3; m++ {
				for k0 := 1; k0 <= 2; k0++ {
					items = append(items, fmt.Sprintf("conc|%s|%d|%d|%d|2|1", mode, n, m, k0))
					items = append(items, fmt.Sprintf("conc|%s|%d|%d|%d|2|2", mode, n, m, k0))
					items = append(items, fmt.Sprintf("conc|%s|%d|%d|%d|3|1", mode, n, m, k0))
					if run.Thorough() {
						items = append(items, fmt.Sprintf("conc|%s|%d|%d|%d|3|2", mode, n, m, k0))
					}
				}
			}
		}
	}
	var sum mc.Summary
	concSkipped := false
	func() {
		defer func() {
			if p := recover(); p != nil {
				if te, ok := p.(mc.ToolErr); ok {
					ev.ToolError("%s", te.Msg)
				}
				panic(p)
			}
		}()
		// the sequential parts have already settled the verdict on a violating tree: the interleavings of
		// code that is wrong sequentially are not explored (extra atomic steps in such code can multiply them)
		if concSkipped = run.Violations() > 0; !concSkipped {
			sum = mc.Run(items, mc.Options{})
		}
	}()
	for _, v := range sum.Violations {
		run.Report("conc:"+v.Item+":"+fmt.Sprint(v.Choices), v.Detail, v)
	}
	run.Assume = []string{
		"messages are bucketed by fnv32a mod 4096 per level (the 'fixed hash' of the statement); collider of \"a\" found by search: " + collider + "; non-ASCII message " + strconv.Quote(nonASCII) + " and its collider " + strconv.Quote(nonASCIICollider),
		"timestamps are int64 nanoseconds well inside the representable range",
		"entries without a timestamp (the zero Time) mixed with stamped ones: every sequence up to the stated length over {zero-time, t0, t0+tick+1ns, t0+2tick+2ns}",
		"level changes after construction: every sequence of length <= 6 over {log info, log warn, SetLevel debug / warn / error} on a sampler (first, thereafter in 0..2, parent and With child alternating) whose wrapped core's AtomicLevel is changed after the sampler was built; an entry whose level is disabled at the time of the call is neither counted nor reported to the hook",
		"message lengths: for every length up to the stated maximum, messages that differ only in their last byte (hence in their bucket), and messages that differ only in their first byte, at one instant on a first=1 sampler",
		"samplers built by zap.Config: SamplingConfig{Initial, Thereafter} in 0..4 x 0..4 on the production configuration and 0..2 x 0..3 on each of the 63 other combinations of {NewProductionConfig, NewDevelopmentConfig} x Development x Encoding json/console x DisableCaller x DisableStacktrace x logging through a With+Named child; 14 same-key entries at one pinned instant; lines in the sink and hook decisions against the reference",
		"concurrent part: the sampler's atomic operations are the scheduling points; all interleavings without a preemption bound for <=4 entries, preemption bound 4 above",
	}
	run.Finish(map[string]any{
		"states":                        len(states) + len(sum.Outcomes),
		"transitions":                   steps.Load() + sum.Steps,
		"traces_validated_against_impl": seqs.Load() + sum.Execs,
		"evaluations":                   seqs.Load() + sum.Execs,
		"distinct_nontrivial":           len(states) + len(sum.Outcomes),
		"configurations_cut_short_after_50_failing_sequences": stoppedConfigs.Load(),
		"concurrent_part_skipped_after_sequential_violations": concSkipped,
		"rule": fmt.Sprintf("sequential: every sequence of length <=%d over 11 keys (incl. a non-ASCII message and a non-ASCII collider of it, and next-level messages in the neighbouring buckets) x 6 timestamp deltas {0,tick-1,tick,tick+1,-1,-(tick+1)} for first,thereafter in 0..3 and tick in {0,1ns,10ns,1s} plus four budget pairs beyond 32 bits (2^32+2/0, 2^32/3, 2/2^32+4, MaxInt64/1) at tick 10ns, on the parent, alternating parent/With-child (the child derived through a field-less With(nil), With(empty) and a With of one field), and alternating between two independent samplers of the same settings, real sampler in lockstep with the reference counters; concurrent: every interleaving of 2-3 threads x 1-2 same-key entries inside / straddling a window; distinct = distinct reference counter states / admitted counts", maxLen),
		"samples": []any{
			map[string]any{"config": "first=1 thereafter=2 tick=10ns", "sequence": "(info,\"a\",dt=0) (info,\"" + collider + "\",dt=9) (info,\"a\",dt=10)"},
			map[string]any{"concurrent_item": items[0]},
		},
		"exhaustive":                   sum.Exhaustive,
		"sequential_sequences":         seqs.Load(),
		"sequential_decisions":         steps.Load(),
		"sequence_length":              maxLen,
		"deep_sequence_length":         deepLen,
		"deep_alphabet":                "keys (info,a) (info,collider-of-a) (warn,a) x deltas {0, tick-1, tick, -1}",
		"deep_sequences":               deepSeqs,
		"configurations":               len(cfgs),
		"config_built_sampler_entries": cfgEvals,
		"message_length_sweep_max":     msgMax,
		"message_length_sweep_entries": lenEvals,
		"zero_time_sequences_max_len":  ztLen,
		"zero_time_entries":            ztEvals,
		"concurrent_drivers":           len(items),
		"concurrent_schedules":         sum.Execs,
		"concurrent_max_threads":       sum.MaxThreads,
	})
}
