// Command instrument generates a go build overlay for /repo's current working
// tree. In mode "plain" it only mounts the bridge package; in mode "inst" it
// additionally rewrites every non-test source file of the zap module that uses
// sync, sync/atomic, goroutines or channel operations so that those go through
// the controlled scheduler (virtual packages go.uber.org/zap/zzverif/...).
//
// Exit status 2 = a construct that cannot be rewritten (tool error).
package main

import (
	"bytes"
	"encoding/json"
	"flag"
	"fmt"
	"go/ast"
	"go/format"
	"go/parser"
	"go/token"
	"os"
	"path/filepath"
	"reflect"
	"sort"
	"strconv"
	"strings"
)

const (
	vschedPath  = "go.uber.org/zap/zzverif/vsched"
	vsyncPath   = "go.uber.org/zap/zzverif/vsync"
	vatomicPath = "go.uber.org/zap/zzverif/vatomic"
)

var (
	repo  = flag.String("repo", "/repo", "zap working tree")
	shim  = flag.String("shim", "/verif/shim", "shim sources")
	out   = flag.String("out", "", "output directory for rewritten files and overlay.json")
	mode  = flag.String("mode", "inst", "plain | inst")
	extra = flag.String("extra", "", "comma separated from=to additional overlay replacements")
)

func fatal(format string, a ...any) {
	fmt.Fprintf(os.Stderr, "instrument: TOOL-ERROR: "+format+"\n", a...)
	os.Exit(2)
}

type rewriter struct {
	fset      *token.FileSet
	file      string
	changed   bool
	needSched bool
}

var (
	exprType = reflect.TypeOf((*ast.Expr)(nil)).Elem()
	stmtType = reflect.TypeOf((*ast.Stmt)(nil)).Elem()
	callType = reflect.TypeOf((*ast.CallExpr)(nil))
)

func sel(pkg, name string) ast.Expr {
	return &ast.SelectorExpr{X: ast.NewIdent(pkg), Sel: ast.NewIdent(name)}
}

func call(pkg, name string, args ...ast.Expr) *ast.CallExpr {
	return &ast.CallExpr{Fun: sel(pkg, name), Args: args}
}

// walk rewrites the children of v (post-order) and returns the replacement
// for v itself.
func (r *rewriter) walk(v reflect.Value) {
	switch v.Kind() {
	case reflect.Ptr:
		if v.IsNil() {
			return
		}
		// do not descend into objects/scopes
		switch v.Interface().(type) {
		case *ast.Object, *ast.Scope:
			return
		}
		r.walk(v.Elem())
	case reflect.Interface:
		if v.IsNil() {
			return
		}
		r.walk(v.Elem())
	case reflect.Struct:
		for i := 0; i < v.NumField(); i++ {
			f := v.Field(i)
			if !f.CanSet() {
				continue
			}
			r.walkField(f)
		}
	case reflect.Slice:
		for i := 0; i < v.Len(); i++ {
			r.walkField(v.Index(i))
		}
	}
}

func (r *rewriter) walkField(f reflect.Value) {
	switch {
	case f.Type() == exprType:
		if f.IsNil() {
			return
		}
		r.walk(f)
		if n := r.expr(f.Interface().(ast.Expr)); n != nil {
			f.Set(reflect.ValueOf(n))
		}
	case f.Type() == stmtType:
		if f.IsNil() {
			return
		}
		if as, ok := f.Interface().(*ast.AssignStmt); ok && r.recv2(as) {
			return
		}
		r.walk(f)
		if n := r.stmt(f.Interface().(ast.Stmt)); n != nil {
			f.Set(reflect.ValueOf(n))
		}
	case f.Type() == callType:
		// DeferStmt.Call / GoStmt.Call
		if f.IsNil() {
			return
		}
		r.walk(f)
		if n := r.expr(f.Interface().(*ast.CallExpr)); n != nil {
			f.Set(reflect.ValueOf(n.(*ast.CallExpr)))
		}
	default:
		switch f.Kind() {
		case reflect.Ptr, reflect.Interface, reflect.Slice, reflect.Struct:
			r.walk(f)
		}
	}
}

// recv2 handles v, ok := <-ch before the generic walk turns <-ch into Recv.
func (r *rewriter) recv2(as *ast.AssignStmt) bool {
	if len(as.Lhs) == 2 && len(as.Rhs) == 1 {
		if u, ok := as.Rhs[0].(*ast.UnaryExpr); ok && u.Op == token.ARROW {
			r.walk(reflect.ValueOf(&u.X))
			as.Rhs[0] = call("vsched", "Recv2", u.X)
			r.mark()
			for i := range as.Lhs {
				r.walkField(reflect.ValueOf(&as.Lhs[i]).Elem())
			}
			return true
		}
	}
	return false
}

func (r *rewriter) mark() { r.changed = true; r.needSched = true }

func (r *rewriter) expr(e ast.Expr) ast.Expr {
	switch x := e.(type) {
	case *ast.UnaryExpr:
		if x.Op == token.ARROW {
			r.mark()
			return call("vsched", "Recv", x.X)
		}
	case *ast.CallExpr:
		if id, ok := x.Fun.(*ast.Ident); ok && id.Name == "close" && len(x.Args) == 1 {
			r.mark()
			return call("vsched", "Close", x.Args[0])
		}
	}
	return nil
}

func (r *rewriter) stmt(s ast.Stmt) ast.Stmt {
	switch x := s.(type) {
	case *ast.GoStmt:
		r.mark()
		for _, a := range x.Call.Args {
			switch a.(type) {
			case *ast.Ident, *ast.SelectorExpr, *ast.BasicLit:
			default:
				fatal("%s: go statement with a non-trivial argument cannot be rewritten", r.fset.Position(x.Pos()))
			}
		}
		fl := &ast.FuncLit{
			Type: &ast.FuncType{Params: &ast.FieldList{}},
			Body: &ast.BlockStmt{List: []ast.Stmt{&ast.ExprStmt{X: x.Call}}},
		}
		return &ast.ExprStmt{X: call("vsched", "Go", fl)}
	case *ast.SendStmt:
		r.mark()
		return &ast.ExprStmt{X: call("vsched", "Send", x.Chan, x.Value)}
	case *ast.SelectStmt:
		r.mark()
		hasDefault, usesValue := false, false
		var cases []ast.Expr
		var clauses []ast.Stmt
		for _, c := range x.Body.List {
			cc := c.(*ast.CommClause)
			if cc.Comm == nil {
				hasDefault = true
				clauses = append(clauses, &ast.CaseClause{
					List: []ast.Expr{&ast.UnaryExpr{Op: token.SUB, X: &ast.BasicLit{Kind: token.INT, Value: "1"}}},
					Body: cc.Body,
				})
				continue
			}
			var recvCall ast.Expr
			var bind *ast.AssignStmt // case v := <-ch / case v = <-ch
			switch cs := cc.Comm.(type) {
			case *ast.ExprStmt:
				recvCall = cs.X
			case *ast.AssignStmt:
				if len(cs.Lhs) != 1 || len(cs.Rhs) != 1 {
					fatal("%s: select case receiving two values cannot be rewritten", r.fset.Position(cc.Pos()))
				}
				recvCall, bind = cs.Rhs[0], cs
			default:
				fatal("%s: select case with a send cannot be rewritten", r.fset.Position(cc.Pos()))
			}
			// the walk has already turned <-ch into vsched.Recv(ch)
			ce, ok := recvCall.(*ast.CallExpr)
			if !ok || len(ce.Args) != 1 {
				fatal("%s: unsupported select case", r.fset.Position(cc.Pos()))
			}
			idx := len(cases)
			body := cc.Body
			if bind != nil {
				usesValue = true
				cases = append(cases, call("vsched", "RecvCaseV", ce.Args[0]))
				as := &ast.AssignStmt{Lhs: bind.Lhs, Tok: bind.Tok, Rhs: []ast.Expr{call("vsched", "As", ce.Args[0], ast.NewIdent("__selv"))}}
				body = append([]ast.Stmt{as}, body...)
				if id, ok := bind.Lhs[0].(*ast.Ident); ok && bind.Tok == token.DEFINE && id.Name != "_" {
					// keep "declared and not used" away when the body ignores the value
					body = append(body[:1:1], append([]ast.Stmt{&ast.AssignStmt{Lhs: []ast.Expr{ast.NewIdent("_")}, Tok: token.ASSIGN, Rhs: []ast.Expr{ast.NewIdent(id.Name)}}}, body[1:]...)...)
				}
			} else {
				cases = append(cases, call("vsched", "RecvCase", ce.Args[0]))
			}
			clauses = append(clauses, &ast.CaseClause{
				List: []ast.Expr{&ast.BasicLit{Kind: token.INT, Value: strconv.Itoa(idx)}},
				Body: body,
			})
		}
		args := []ast.Expr{ast.NewIdent(strconv.FormatBool(hasDefault))}
		args = append(args, cases...)
		if usesValue {
			return &ast.SwitchStmt{
				Init: &ast.AssignStmt{Lhs: []ast.Expr{ast.NewIdent("__selv"), ast.NewIdent("__seli")}, Tok: token.DEFINE, Rhs: []ast.Expr{call("vsched", "SelectV", args...)}},
				Tag:  ast.NewIdent("__seli"),
				Body: &ast.BlockStmt{List: clauses},
			}
		}
		return &ast.SwitchStmt{
			Tag:  call("vsched", "Select", args...),
			Body: &ast.BlockStmt{List: clauses},
		}
	}
	return nil
}

func (r *rewriter) imports(f *ast.File) {
	for _, im := range f.Imports {
		p, _ := strconv.Unquote(im.Path.Value)
		switch p {
		case "sync":
			im.Path.Value = strconv.Quote(vsyncPath)
			if im.Name == nil {
				im.Name = ast.NewIdent("sync")
			}
			r.changed = true
		case "sync/atomic":
			im.Path.Value = strconv.Quote(vatomicPath)
			if im.Name == nil {
				im.Name = ast.NewIdent("atomic")
			}
			r.changed = true
		}
	}
}

func addImport(f *ast.File, name, path string) {
	spec := &ast.ImportSpec{Name: ast.NewIdent(name), Path: &ast.BasicLit{Kind: token.STRING, Value: strconv.Quote(path)}}
	gd := &ast.GenDecl{Tok: token.IMPORT, Specs: []ast.Spec{spec}}
	f.Decls = append([]ast.Decl{gd}, f.Decls...)
	f.Imports = append(f.Imports, spec)
}

func rewriteFile(fset *token.FileSet, path string) ([]byte, bool) {
	f, err := parser.ParseFile(fset, path, nil, parser.ParseComments|parser.SkipObjectResolution)
	if err != nil {
		// not our problem: the build of the working tree will report it
		return nil, false
	}
	r := &rewriter{fset: fset, file: path}
	r.imports(f)
	for _, d := range f.Decls {
		r.walk(reflect.ValueOf(d))
	}
	if !r.changed {
		return nil, false
	}
	if r.needSched {
		addImport(f, "vsched", vschedPath)
	}
	// Comments inside rewritten statements would be re-attached at arbitrary
	// places by the printer; keep only the header (licence, build constraints)
	// and compiler directives.
	var keep []*ast.CommentGroup
	for _, g := range f.Comments {
		k := g.End() < f.Package
		for _, c := range g.List {
			if strings.HasPrefix(c.Text, "//go:") {
				k = true
			}
		}
		if k {
			keep = append(keep, g)
		}
	}
	f.Comments = keep
	var buf bytes.Buffer
	if err := format.Node(&buf, fset, f); err != nil {
		fatal("%s: print: %v", path, err)
	}
	return buf.Bytes(), true
}

func skipDir(rel string) bool {
	switch {
	case rel == "benchmarks", rel == "tools", rel == "assets", rel == ".git", rel == "zzverif":
		return true
	case strings.HasPrefix(rel, "internal/ztest"), strings.HasPrefix(rel, "internal/readme"):
		return true
	case strings.HasPrefix(rel, "zapgrpc/internal"):
		return true
	}
	return false
}

func main() {
	flag.Parse()
	if *out == "" {
		fatal("-out required")
	}
	repl := map[string]string{}
	// virtual packages
	pkgs := []string{"bridge"}
	if *mode == "inst" {
		pkgs = append(pkgs, "vsched", "vsync", "vatomic")
	}
	for _, p := range pkgs {
		ents, err := os.ReadDir(filepath.Join(*shim, p))
		if err != nil {
			fatal("%v", err)
		}
		for _, e := range ents {
			if strings.HasSuffix(e.Name(), ".go") {
				repl[filepath.Join(*repo, "zzverif", p, e.Name())] = filepath.Join(*shim, p, e.Name())
			}
		}
	}
	var rewritten []string
	if *mode == "inst" {
		fset := token.NewFileSet()
		err := filepath.Walk(*repo, func(path string, info os.FileInfo, err error) error {
			if err != nil {
				return err
			}
			rel, _ := filepath.Rel(*repo, path)
			if info.IsDir() {
				if rel != "." && skipDir(rel) {
					return filepath.SkipDir
				}
				return nil
			}
			if !strings.HasSuffix(path, ".go") || strings.HasSuffix(path, "_test.go") {
				return nil
			}
			src, ok := rewriteFile(fset, path)
			if !ok {
				return nil
			}
			dst := filepath.Join(*out, "src", rel)
			if err := os.MkdirAll(filepath.Dir(dst), 0o755); err != nil {
				return err
			}
			if err := os.WriteFile(dst, src, 0o644); err != nil {
				return err
			}
			repl[path] = dst
			rewritten = append(rewritten, rel)
			return nil
		})
		if err != nil {
			fatal("%v", err)
		}
	}
	if *extra != "" {
		for _, kv := range strings.Split(*extra, ",") {
			p := strings.SplitN(kv, "=", 2)
			if len(p) == 2 {
				repl[p[0]] = p[1]
			}
		}
	}
	if err := os.MkdirAll(*out, 0o755); err != nil {
		fatal("%v", err)
	}
	b, _ := json.MarshalIndent(map[string]any{"Replace": repl}, "", " ")
	if err := os.WriteFile(filepath.Join(*out, "overlay.json"), b, 0o644); err != nil {
		fatal("%v", err)
	}
	sort.Strings(rewritten)
	fmt.Printf("instrument: mode=%s rewritten=%d [%s]\n", *mode, len(rewritten), strings.Join(rewritten, " "))
}
