// Command c04 decides property C04: all interleavings (preemption-bounded) of
// 2-3 threads logging through loggers that share a core, over every sink
// family, must deliver each entry exactly once as an intact line, in
// per-thread order, to every tee branch.
package main

import (
	"bytes"
	"context"
	"errors"
	"fmt"
	"io"
	"log/slog"
	"net/url"
	"os"
	"strconv"
	"strings"
	"time"

	"go.uber.org/zap"
	"go.uber.org/zap/exp/zapslog"
	"go.uber.org/zap/zapcore"
	"go.uber.org/zap/zapgrpc"
	"go.uber.org/zap/zzverif/vsched"
	"go.uber.org/zap/zzverif/vsync"
	"verif/harness/internal/ev"
	"verif/harness/internal/hx"
	"verif/harness/internal/mc"
)

var openSinks []*hx.TornSink // sinks handed out by the registered "torn" scheme

func init() {
	_ = zap.RegisterSink("torn", func(u *url.URL) (zap.Sink, error) {
		s := &hx.TornSink{}
		openSinks = append(openSinks, s)
		return s, nil
	})
}

type env struct {
	kind     string
	sinks    []*hx.TornSink // every underlying sink must end up with the full set
	logger   *zap.Logger
	buffered *zapcore.BufferedWriteSyncer
	clock    *hx.FixedClock
	closeFn  func()
}

func encCfg() zapcore.EncoderConfig {
	c := zap.NewProductionEncoderConfig()
	return c
}

func build(kind string) *env {
	e := &env{kind: kind, clock: hx.NewFixedClock()}
	enc := func() zapcore.Encoder { return encFor(kind) }
	newSink := func() *hx.TornSink { s := &hx.TornSink{}; e.sinks = append(e.sinks, s); return s }
	var core zapcore.Core
	switch kind {
	case "lock":
		core = zapcore.NewCore(enc(), zapcore.Lock(newSink()), zap.DebugLevel)
	case "combine":
		core = zapcore.NewCore(enc(), zap.CombineWriteSyncers(newSink(), newSink()), zap.DebugLevel)
	case "lockreflect", "lockconsole", "lockfault", "lockconsolens", "locklazy":
		core = zapcore.NewCore(enc(), zapcore.Lock(newSink()), zap.DebugLevel)
	case "combine1": // a single destination must be serialised just like several
		core = zapcore.NewCore(enc(), zap.CombineWriteSyncers(newSink()), zap.DebugLevel)
	case "open", "open1":
		openSinks = openSinks[:0]
		urls := []string{"torn://a", "torn://b"}
		if kind == "open1" {
			urls = urls[:1]
		}
		ws, closeFn, err := zap.Open(urls...)
		if err != nil {
			panic(mc.ToolErr{Msg: "zap.Open: " + err.Error()})
		}
		e.sinks = append(e.sinks, openSinks...)
		e.closeFn = closeFn
		core = zapcore.NewCore(enc(), ws, zap.DebugLevel)
	case "buffered":
		e.buffered = &zapcore.BufferedWriteSyncer{WS: newSink(), Size: 128, Clock: e.clock, FlushInterval: time.Hour}
		core = zapcore.NewCore(enc(), e.buffered, zap.DebugLevel)
	case "tee":
		core = zapcore.NewTee(
			zapcore.NewCore(enc(), zapcore.Lock(newSink()), zap.DebugLevel),
			zapcore.NewCore(enc(), zapcore.Lock(newSink()), zap.DebugLevel),
		)
	case "teefail": // an earlier branch whose sink fails every write: the later, healthy branch still receives every entry
		core = zapcore.NewTee(
			zapcore.NewCore(enc(), failSink{}, zap.DebugLevel),
			zapcore.NewCore(enc(), zapcore.Lock(newSink()), zap.DebugLevel),
		)
	case "teefailmid":
		core = zapcore.NewTee(
			zapcore.NewCore(enc(), zapcore.Lock(newSink()), zap.DebugLevel),
			zapcore.NewCore(enc(), failSink{}, zap.DebugLevel),
			zapcore.NewCore(enc(), zapcore.Lock(newSink()), zap.DebugLevel),
		)
	case "combinefail": // a failing destination inside a combined syncer, ahead of a healthy one
		core = zapcore.NewCore(enc(), zap.CombineWriteSyncers(failSink{}, newSink()), zap.DebugLevel)
	case "teebuf":
		e.buffered = &zapcore.BufferedWriteSyncer{WS: newSink(), Size: 128, Clock: e.clock, FlushInterval: time.Hour}
		core = zapcore.NewTee(
			zapcore.NewCore(enc(), e.buffered, zap.DebugLevel),
			zapcore.NewCore(enc(), zapcore.Lock(newSink()), zap.DebugLevel),
		)
	default:
		panic(mc.ToolErr{Msg: "unknown sink kind " + kind})
	}
	e.logger = withBase(kind, zap.New(core, zap.WithClock(e.clock), zap.ErrorOutput(zapcore.AddSync(io.Discard))))
	return e
}

// ops: I small Info, B big Info, S sugar Infow, F sugar Infof, N sugar Infoln, C Check+Write, W With-child Info,
// L slog handler, G gRPC adapter, P std-log bridge, Y logger.Sync, K tick
func msgOf(op byte, thr, idx int) string {
	m := fmt.Sprintf("%c-t%d-%d", op, thr, idx)
	if op == 'B' {
		m += strings.Repeat("x", 90)
	}
	return m
}

func doOp(e *env, op byte, thr, idx int) {
	m := msgOf(op, thr, idx)
	switch op {
	case 'I', 'B':
		e.logger.Info(m, zap.Int("n", thr))
	case 'S':
		e.logger.Sugar().Infow(m, "n", thr)
	case 'C':
		if ce := e.logger.Check(zap.WarnLevel, m); ce != nil {
			ce.Write(zap.Int("n", thr))
		}
	case 'W':
		e.logger.With(zap.String("ctx", "c"+strconv.Itoa(thr))).Info(m, zap.Int("n", thr))
	case 'Z': // an entry without call-site fields (the logger's stored context is used as it is)
		e.logger.Info(m)
	case 'R': // child derived with a reflected field, entry with a reflected field
		e.logger.With(zap.Reflect("req", yv{"r" + strconv.Itoa(thr)})).Info(m, zap.Reflect("v", yv{m}))
	case 'F':
		e.logger.Sugar().Infof("%s n=%d", m, thr)
	case 'N':
		e.logger.Sugar().Infoln(m, thr)
	case 'L': // slog front end over the same core
		r := slog.NewRecord(e.clock.T, slog.LevelInfo, m, 0)
		r.AddAttrs(slog.Int("n", thr))
		_ = zapslog.NewHandler(e.logger.Core()).Handle(context.Background(), r)
	case 'G': // gRPC adapter
		zapgrpc.NewLogger(e.logger).Info(m, thr)
	case 'P': // std-log bridge (a log.Logger of its own per call: package log's mutex is not under the scheduler)
		zap.NewStdLog(e.logger).Print(m)
	case 'Y':
		_ = e.logger.Sync()
	case 'K':
		vsched.TrySend(e.clock.Ch, time.Unix(1, 0))
	}
}

func isLog(op byte) bool { return op != 'Y' && op != 'K' }

// expected line of one op, computed sequentially on a fresh logger with a plain sink
// ys is printed by fmt while the console encoder assembles its columns; its
// String method is a scheduling point.
type ys struct{ s string }

func (y ys) String() string { vsched.Yield(); return y.s }

// encFor: JSON for every family but "lockconsole", whose console encoder has a
// time column rendered by user code (a Stringer that yields).
func encFor(kind string) zapcore.Encoder {
	if kind != "lockconsole" && kind != "lockconsolens" {
		return zapcore.NewJSONEncoder(encCfg())
	}
	cfg := zap.NewDevelopmentEncoderConfig()
	// the FIRST column is rendered by user code (so the later columns are read after the scheduling point)
	cfg.EncodeTime = func(t time.Time, e zapcore.PrimitiveArrayEncoder) {
		if ae, ok := e.(zapcore.ArrayEncoder); ok {
			_ = ae.AppendReflected(ys{t.UTC().Format(time.RFC3339)})
			return
		}
		e.AppendString(t.UTC().Format(time.RFC3339))
	}
	return zapcore.NewConsoleEncoder(cfg)
}

func expectedLine(kind string, op byte, thr, idx int) string {
	var buf bytes.Buffer
	clock := hx.NewFixedClock()
	core := zapcore.NewCore(encFor(kind), zapcore.AddSync(&buf), zap.DebugLevel)
	e := &env{logger: withBase(kind, zap.New(core, zap.WithClock(clock))), clock: clock}
	doOp(e, op, thr, idx)
	return buf.String()
}

// yv is a reflected value whose encoding contains a scheduling point (its
// MarshalJSON runs in the middle of the reflection encoder), so that state
// shared between the reflection buffers of different loggers is exposed.
type yv struct{ S string }

func (v yv) MarshalJSON() ([]byte, error) {
	vsched.Yield()
	return []byte(strconv.Quote(v.S)), nil
}

// withBase gives the shared logger of the "lockreflect" family a context that
// already holds a reflected field (the parent encoder then owns a reflection buffer).
// failSink refuses every write (a destination that is down); it is not one of the sinks that must end up complete.
type failSink struct{}

func (failSink) Write(p []byte) (int, error) {
	vsched.Yield()
	return 0, errors.New("destination down")
}
func (failSink) Sync() error { return errors.New("destination down") }

func withBase(kind string, l *zap.Logger) *zap.Logger {
	if kind == "lockreflect" {
		return l.With(zap.Reflect("svc", yv{"base"}))
	}
	if kind == "locklazy" { // a fresh WithLazy child shared by the threads: its first uses overlap (building the context yields)
		return l.WithLazy(zap.Reflect("svc", yv{"lazy-base"}), zap.Int("c", 1))
	}
	if kind == "lockconsolens" { // a shared console logger whose context leaves a namespace open
		return l.With(zap.Namespace("ns"), zap.Int("c", 1))
	}
	return l
}

type driver struct {
	kind  string
	progs []string
	pre   int
	want  map[string][2]int // line -> (thread, idx)
}

const preludeMsg = "prelude-with-unencodable-field"

func parseItem(item string) *driver {
	f := strings.Split(item, "|")
	pre, _ := strconv.Atoi(f[2])
	d := &driver{kind: f[1], pre: pre, progs: strings.Split(f[3], ";"), want: map[string][2]int{}}
	if d.kind == "lockfault" {
		var buf bytes.Buffer
		clock := hx.NewFixedClock()
		l := zap.New(zapcore.NewCore(encFor(d.kind), zapcore.AddSync(&buf), zap.DebugLevel), zap.WithClock(clock))
		l.Info(preludeMsg, zap.Reflect("ch", make(chan int)), zap.Int("after", 1))
		d.want[buf.String()] = [2]int{0, 0}
	}
	for t, p := range d.progs {
		for i := 0; i < len(p); i++ {
			if isLog(p[i]) {
				l := expectedLine(d.kind, p[i], t+1, i)
				if !strings.HasSuffix(l, "\n") || strings.Count(l, "\n") != 1 {
					panic(mc.ToolErr{Msg: "reference line malformed: " + l})
				}
				d.want[l] = [2]int{t + 1, i}
			}
		}
	}
	return d
}

func (d *driver) mk() mc.Exec {
	var e *env
	return mc.Exec{
		Body: func() {
			e = build(d.kind)
			if d.kind == "lockfault" {
				// history: an entry whose reflected field cannot be encoded was logged before the threads start
				e.logger.Info(preludeMsg, zap.Reflect("ch", make(chan int)), zap.Int("after", 1))
			}
			var wg vsync.WaitGroup
			for t, p := range d.progs {
				t, p := t, p
				wg.Add(1)
				vsched.Go(func() {
					defer wg.Done()
					for i := 0; i < len(p); i++ {
						doOp(e, p[i], t+1, i)
					}
				})
			}
			wg.Wait()
			if e.buffered != nil {
				if err := e.buffered.Stop(); err != nil {
					panic("Stop: " + err.Error())
				}
			}
			if e.closeFn != nil {
				e.closeFn()
			}
		},
		Check: func(vsched.Result) (string, error) {
			var outcome []string
			for si, s := range e.sinks {
				if s.Overlap > 0 {
					return "", fmt.Errorf("sink %d (%s): %d calls entered the sink while another call was inside it", si, d.kind, s.Overlap)
				}
				rest := string(s.Stream)
				seen := map[string]bool{}
				last := map[int]int{}
				order := ""
				for len(rest) > 0 {
					nl := strings.IndexByte(rest, '\n')
					if nl < 0 {
						return "", fmt.Errorf("sink %d (%s): stream ends with an unterminated fragment %q", si, d.kind, rest)
					}
					line := rest[:nl+1]
					rest = rest[nl+1:]
					id, ok := d.want[line]
					if !ok {
						return "", fmt.Errorf("sink %d (%s): line %q is not a line any call produces when run alone (torn, merged or corrupted)", si, d.kind, line)
					}
					if seen[line] {
						return "", fmt.Errorf("sink %d (%s): line %q delivered twice", si, d.kind, line)
					}
					seen[line] = true
					if prev, ok := last[id[0]]; ok && prev > id[1] {
						return "", fmt.Errorf("sink %d (%s): entries of thread %d out of order", si, d.kind, id[0])
					}
					last[id[0]] = id[1]
					order += fmt.Sprintf("%d.%d ", id[0], id[1])
				}
				for l := range d.want {
					if !seen[l] {
						return "", fmt.Errorf("sink %d (%s): entry %q never reached the sink", si, d.kind, l)
					}
				}
				outcome = append(outcome, order)
			}
			return strings.Join(outcome, "/"), nil
		},
	}
}

func handler(item string, replay []int, isReplay bool, journal func([]int)) mc.ItemResult {
	hx.PoisonBuffers()
	d := parseItem(item)
	if isReplay {
		_, v := mc.Replay(d.mk, replay)
		return mc.ItemResult{Item: item, Violation: v}
	}
	st, v := mc.Explore(d.mk, mc.Bounds{Preempt: d.pre, Dev: -1}, journal)
	return mc.ItemResult{Item: item, Stats: st, Violation: v}
}

func main() {
	mc.MaybeWorker(handler)
	run := ev.Start("C04", "model_checking")
	if rp := os.Getenv("VERIF_REPLAY"); rp != "" {
		mc.ReplayFromFile(rp, handler)
	}
	pre := 2
	if run.Thorough() {
		pre = 3
	}
	progs := []string{"I", "B", "S", "C", "W", "II", "IB", "BI", "SW", "CW", "WI"}
	singles := []string{"I", "B", "W", "C"}
	var items []string
	for _, kind := range []string{"lock", "combine", "combine1", "open", "open1", "buffered", "tee", "teebuf", "lockreflect", "lockconsole", "lockfault", "teefail", "teefailmid", "combinefail", "lockconsolens", "locklazy"} {
		if kind == "lockfault" {
			for _, pq := range []string{"I;I", "I;B", "I;W", "W;S", "I;I;I", "I;W;C"} {
				items = append(items, fmt.Sprintf("c04|%s|%d|%s", kind, pre, pq))
			}
			continue
		}
		if kind == "teefail" || kind == "teefailmid" || kind == "combinefail" {
			for _, pq := range []string{"I;I", "I;B", "I;W", "W;S", "I;C", "II;I", "I;I;I"} {
				items = append(items, fmt.Sprintf("c04|%s|%d|%s", kind, pre, pq))
			}
			continue
		}
		if kind == "locklazy" {
			for _, pq := range []string{"I;I", "I;W", "I;C", "I;S", "II;I", "I;I;I", "I;W;C"} {
				items = append(items, fmt.Sprintf("c04|%s|%d|%s", kind, pre, pq))
			}
			continue
		}
		if kind == "lockconsolens" {
			for _, pq := range []string{"Z;Z", "Z;I", "Z;W", "ZZ;Z", "ZI;Z", "Z;Z;Z", "Z;I;W"} {
				items = append(items, fmt.Sprintf("c04|%s|%d|%s", kind, pre, pq))
			}
			continue
		}
		if kind == "lockconsole" {
			for _, pq := range []string{"I;I", "I;W", "I;C", "W;S", "II;I", "I;W;C", "IW;S"} {
				items = append(items, fmt.Sprintf("c04|%s|%d|%s", kind, pre, pq))
			}
			continue
		}
		if kind == "lockreflect" {
			for _, pq := range []string{"R;R", "R;I", "R;W", "RR;R", "R;R;R", "RI;R"} {
				items = append(items, fmt.Sprintf("c04|%s|%d|%s", kind, pre, pq))
			}
			continue
		}
		for i := 0; i < len(progs); i++ {
			for j := i; j < len(progs); j++ {
				if !run.Thorough() && len(progs[i])+len(progs[j]) == 4 && (kind == "open" || kind == "open1" || kind == "combine1" || kind == "teebuf") {
					continue
				}
				ipre := pre
				if len(progs[i])+len(progs[j]) == 4 {
					ipre = 2 // four log calls: bound 2 in both tiers (bound 3 there costs a quarter of an hour and the extra preemption only permutes completed calls)
				}
				items = append(items, fmt.Sprintf("c04|%s|%d|%s;%s", kind, ipre, progs[i], progs[j]))
			}
		}
		for i := 0; i < len(singles); i++ {
			for j := i; j < len(singles); j++ {
				for k := j; k < len(singles); k++ {
					items = append(items, fmt.Sprintf("c04|%s|%d|%s;%s;%s", kind, pre, singles[i], singles[j], singles[k]))
				}
			}
		}
		if kind == "lock" || kind == "buffered" {
			// the other front ends that end in the shared core: Sugar formatting styles, slog handler, gRPC adapter, std-log bridge
			extra := []string{"F", "N", "L", "G", "P"}
			for i, a := range extra {
				for _, b := range []string{"I", "B", "W", "C", "S"} {
					items = append(items, fmt.Sprintf("c04|%s|%d|%s;%s", kind, pre, a, b))
				}
				for _, b := range extra[i:] {
					items = append(items, fmt.Sprintf("c04|%s|%d|%s;%s", kind, pre, a, b))
				}
			}
		}
		if kind == "buffered" || kind == "teebuf" {
			// concurrent Sync calls and flush ticks
			for _, p := range []string{"I", "B", "IB", "BI", "II"} {
				for _, q := range []string{"I", "B", "W"} {
					for _, aux := range []string{"Y", "K", "YK", "KY", "KK"} {
						items = append(items, fmt.Sprintf("c04|%s|%d|%s;%s;%s", kind, pre, p, q, aux))
					}
				}
			}
		}
	}
	var sum mc.Summary
	func() {
		defer func() {
			if p := recover(); p != nil {
				if te, ok := p.(mc.ToolErr); ok {
					ev.ToolError("%s", te.Msg)
				}
				panic(p)
			}
		}()
		sum = mc.Run(items, mc.Options{})
	}()
	for _, v := range sum.Violations {
		f := strings.Split(v.Item, "|")
		run.Report(v.Kind+":"+f[1]+":"+f[3]+":"+fmt.Sprint(v.Choices), v.Detail, v)
	}
	samples := []any{}
	for it, st := range sum.PerItem {
		if len(samples) < 5 {
			samples = append(samples, map[string]any{"driver": it, "schedules": st.Execs, "scheduling_points": st.Steps, "max_decisions": st.MaxPoints})
		}
	}
	run.Assume = []string{
		"scheduling points at synchronisation operations (locks, pool Get/Put, channel ops) and inside the harness sink; sufficient for data-race-free code (C09)",
		"2-3 threads, 1-2 log calls each, preemption bound as stated; pool reuse is LIFO with freed buffers poisoned",
		"sink families: Lock, CombineWriteSyncers (1 and 2 destinations), zap.Open (1 and 2), BufferedWriteSyncer, tee of two cores, tee with a buffered branch, shared loggers with reflected context / console columns rendered by user code / a console context that leaves a namespace open, used by entries without call-site fields / an unencodable field in their history, and destinations that are down: a tee whose first (or middle) branch refuses every write and a combined syncer whose first destination does - the healthy destinations must still receive every entry once, intact and in per-thread order",
	}
	run.Finish(map[string]any{
		"states":                        len(sum.Outcomes),
		"transitions":                   sum.Steps,
		"traces_validated_against_impl": sum.Execs,
		"evaluations":                   sum.Execs,
		"distinct_nontrivial":           len(sum.Outcomes),
		"rule":                          "one evaluation = one complete schedule of a driver (threads x log calls x sink family) on the real zap code; distinct = distinct delivery orders observed at the sinks",
		"samples":                       samples,
		"exhaustive":                    sum.Exhaustive,
		"drivers":                       len(items),
		"preemption_bound":              pre,
		"preemption_bound_note":         "drivers with four log calls use bound 2 in both tiers",
		"executions_with_branching":     sum.Branching,
		"max_threads":                   sum.MaxThreads,
		"max_decision_points":           sum.MaxPoints,
	})
}
