// Command c05 decides property C05 (an entry is written exactly where its
// level is enabled; reported levels agree).
//
// Part (a): every core tree with <= 4 (thorough: <= 5) nodes over observer /
// JSON-IO leaves with nine level enablers (monotone, none, all, non-monotone,
// range-bounded, shared AtomicLevel) under Tee(2-3), NewIncreaseLevelCore,
// RegisterHooks, NewSampler, NewLazyWith and With is built from the real zap
// constructors and driven through every logging front end at every level
// value; a recursive reference evaluator says which leaves must record the
// entry, which hooks must fire, what Enabled(l) and the minimum level are.
//
// Part (b): all histories of length 3 (thorough: also 4) of SetLevel / log
// calls over a family of loggers derived from one AtomicLevel.
package main

import (
	"encoding/json"
	"fmt"
	"os"
	"runtime/debug"
	"runtime/pprof"
	"sort"
	"strings"
	"sync"
	"time"

	"go.uber.org/zap"
	"go.uber.org/zap/zapcore"
	"verif/harness/internal/ev"
	"verif/harness/internal/par"
)

var allLevels = func() []int8 {
	var ls []int8
	for i := -128; i <= 127; i++ {
		ls = append(ls, int8(i))
	}
	return ls
}()

// boundary levels: both ends of int8, the neighbours of the named range, every named level
var boundaryLevels = []int8{-128, -4, -3, -2, lDebug, lInfo, lWarn, lError, lDPanic, lPanic, lFatal, lInvalid, lInvalid + 1, 19, 20, 21, 127}

var feMsg = func() []string {
	var m []string
	for i := 0; i < 64; i++ {
		m = append(m, fmt.Sprintf("m%d", i))
	}
	return m
}()

var atomicPhases = []int8{lInfo, lError, lDebug, lInvalid, -3, 20} // -3 is below the named range: entries at -3 and -2 are delivered; 20 is above it: entries at 6..19 are not

type treeStats struct {
	trees, refused, valid, optionVariants int64
	calls, levelChecks                    int64
	nontrivial                            int64
	behaviours                            map[string]struct{}
	samples                               []any
}

func (a *treeStats) add(b *treeStats) {
	a.trees += b.trees
	a.refused += b.refused
	a.valid += b.valid
	a.optionVariants += b.optionVariants
	a.calls += b.calls
	a.levelChecks += b.levelChecks
	a.nontrivial += b.nontrivial
	for k := range b.behaviours {
		a.behaviours[k] = struct{}{}
	}
}

// mkTree builds the runtime for n; with viaOption the root (an IncreaseLevel
// node) is applied through the zap.IncreaseLevel logger option instead of the
// zapcore constructor; a refused option must leave the logger unchanged.
func mkTree(rp *reporter, n *node, viaOption bool) (*rt, bool) {
	if !viaOption {
		return newRT(rp, n, lInfo, false)
	}
	t, ok := newRT(rp, n.kids[0], lInfo, false)
	if !ok {
		return nil, false
	}
	valid := incrValid(t.model, n.e, t.cur)
	base := zap.New(t.core, t.opts()...)
	t.errOut.reset()
	var lg *zap.Logger
	if p := protect(func() { lg = base.WithOptions(zap.IncreaseLevel(t.enabler(n.e))) }); p != nil {
		rp.hit("panic:IncreaseLevel-option", func() (string, any) {
			return fmt.Sprintf("tree %s via zap.IncreaseLevel: panic %v", n, p), map[string]any{"part": "trees", "tree": n.String(), "variant": "option"}
		})
		return nil, false
	}
	complained := t.errOut.writes > 0
	t.tree = n
	if valid == complained {
		rp.hit(fmt.Sprintf("increase-level:option-%s", map[bool]string{true: "refuses-an-enabler-that-only-narrows", false: "accepts-an-enabler-that-widens"}[complained]), func() (string, any) {
			return fmt.Sprintf("tree %s via zap.IncreaseLevel option: complaint on ErrorOutput=%v (%q), the reference says the enabler is valid=%v", n, complained, strings.TrimSpace(string(t.errOut.buf)), valid), map[string]any{"part": "trees", "tree": n.String(), "variant": "option"}
		})
	}
	if valid {
		t.model = &rnode{k: kIncr, e: n.e, kids: []*rnode{t.model}, core: lg.Core()}
	}
	t.core = lg.Core()
	t.mkLoggers(lg)
	return t, true
}

// evalTree runs every phase x level x front end on one tree.
func evalTree(rp *reporter, n *node, viaOption bool, levels []int8, st *treeStats) {
	t, ok := mkTree(rp, n, viaOption)
	if !viaOption {
		st.trees++
		if !ok {
			st.refused++
			return
		}
		st.valid++
	} else {
		if !ok {
			return
		}
		st.optionVariants++
	}
	variant := func() map[string]any {
		if viaOption {
			return map[string]any{"variant": "option"}
		}
		return nil
	}
	phases := atomicPhases[:1]
	if n.hasAtomic {
		phases = atomicPhases
	}
	var sig strings.Builder
	zeros, ones := 0, 0
	touched := false // some call may have initialised the tree's lazy-with nodes
	for pi, ph := range phases {
		if pi > 0 {
			t.setAtomic(ph)
		}
		st.levelChecks += int64(t.checkLevels(rp, "trees", t.model, "root core", allLevels, variant))
		st.levelChecks += int64(t.checkFrontLevels(rp))
		// pass 0: the raw core; pass 1: the logger front ends. A disabled call
		// below DPanic through a logger must not evaluate lazy With fields: such
		// calls need a tree whose lazy nodes are still untouched.
		for pass := 0; pass < 2; pass++ {
			for _, l := range levels {
				disabled := !accept(t.model, l, t.cur) // the level pre-check fails
				for fi := range frontEnds {
					fe := &frontEnds[fi]
					isCore := fe.family == "core"
					if !fe.applies(l) || isCore != (pass == 0) || (viaOption && isCore) {
						continue
					}
					lazyCase := n.hasLazy && disabled && l < lDPanic && !isCore && !fe.noWrite
					if lazyCase && touched {
						nt, ok2 := mkTree(rp, n, viaOption)
						if !ok2 {
							continue
						}
						if ph != nt.cur {
							nt.setAtomic(ph)
						}
						t, touched = nt, false
					}
					tt := t
					ci := callInfo{part: "trees", fe: fe.name, family: fe.family, field: fe.field, noWrite: fe.noWrite, probe: fe.name == probeName, msg: feMsg[fi], ctx: variant}
					if !isCore {
						ci.lc = tt.log.Core()
					}
					tt.run(rp, &ci, l, func() { fe.call(tt, zapcore.Level(l), ci.msg) })
					st.calls++
					if !lazyCase || tt.lazyM > 0 {
						touched = true
					}
				}
			}
		}
		for _, l := range boundaryLevels {
			for i := range t.expLeaf {
				t.expLeaf[i] = 0
			}
			for i := range t.expHook {
				t.expHook[i] = 0
			}
			expect(t.model, l, t.cur, t.expLeaf, t.expHook)
			for _, x := range t.expLeaf {
				sig.WriteByte('0' + byte(x))
				if x == 0 {
					zeros++
				} else {
					ones++
				}
			}
			sig.WriteByte('/')
			for _, x := range t.expHook {
				sig.WriteByte('0' + byte(x))
			}
			sig.WriteByte(';')
		}
	}
	if !viaOption {
		if zeros > 0 && ones > 0 {
			st.nontrivial++
		}
		st.behaviours[sig.String()] = struct{}{}
	}
}

func partTrees(rp *reporter, maxN, fullUpTo int) *treeStats {
	by := genTrees(maxN)
	type job struct {
		n      *node
		levels []int8
	}
	var jobs []job
	for sz := 1; sz <= maxN; sz++ {
		ls := boundaryLevels
		if sz <= fullUpTo {
			ls = allLevels
		}
		for _, n := range by[sz] {
			jobs = append(jobs, job{n, ls})
		}
	}
	const chunk = 64
	nch := (len(jobs) + chunk - 1) / chunk
	total := &treeStats{behaviours: map[string]struct{}{}}
	var mu sync.Mutex
	par.For(nch, func(ci int) {
		st := &treeStats{behaviours: map[string]struct{}{}}
		for i := ci * chunk; i < (ci+1)*chunk && i < len(jobs); i++ {
			j := jobs[i]
			evalTree(rp.at(uint64(i)*2), j.n, false, j.levels, st)
			if j.n.k == kIncr {
				evalTree(rp.at(uint64(i)*2+1), j.n, true, boundaryLevels, st)
			}
		}
		mu.Lock()
		total.add(st)
		mu.Unlock()
	})
	// a few actual cases, written out
	for _, i := range []int{0, len(by[1]) + 7, len(jobs) / 3, len(jobs) / 2, len(jobs) - 1} {
		if i >= len(jobs) {
			continue
		}
		n := jobs[i].n
		s := map[string]any{"tree": n.String(), "levels_evaluated": len(jobs[i].levels)}
		if t, ok := newRT(rp, n, lInfo, true); ok {
			deliv := map[string]any{}
			for _, l := range []int8{-128, lDebug, lInfo, lError, lFatal, 127} {
				for k := range t.expLeaf {
					t.expLeaf[k] = 0
				}
				for k := range t.expHook {
					t.expHook[k] = 0
				}
				expect(t.model, l, t.cur, t.expLeaf, t.expHook)
				deliv[lvlName(l)] = fmt.Sprintf("leaves=%v hooks=%v", t.expLeaf, t.expHook)
			}
			s["reference_delivery"] = deliv
			s["reference_min_level"] = lvlName(minLevel(t.model, t.cur))
		} else {
			s["refused"] = "NewIncreaseLevelCore must return an error"
		}
		total.samples = append(total.samples, s)
	}
	return total
}

var t0 = time.Now()
var stopProf func()

func phase(name string) {
	fmt.Printf("  phase %-28s %6.1fs\n", name, time.Since(t0).Seconds())
}

func main() {
	run := ev.Start("C05", "model_checking")
	rp := newReporter(run)
	debug.SetGCPercent(800) // the enumeration allocates short-lived loggers by the million
	if pf := os.Getenv("VERIF_C05_PROF"); pf != "" {
		f, _ := os.Create(pf)
		_ = pprof.StartCPUProfile(f)
		defer pprof.StopCPUProfile()
		stopProf = pprof.StopCPUProfile
	}
	if f := os.Getenv("VERIF_REPLAY"); f != "" {
		replay(run, rp, f)
	}
	maxN, fullUpTo := 4, 3
	if run.Thorough() {
		maxN, fullUpTo = 5, 4
	}
	ts := partTrees(rp, maxN, fullUpTo)
	phase("core trees")
	os1 := partOnce(rp)
	phase("first-only sampler")
	sb := partSiblings(rp)
	phase("hook siblings")
	hs := partHistories(rp, run.Thorough())
	phase("AtomicLevel histories")

	if stopProf != nil {
		stopProf()
	}
	rp.flush()
	byKey := rp.byKey()
	keys := make([]string, 0, len(byKey))
	for k := range byKey {
		keys = append(keys, k)
	}
	sort.Strings(keys)
	fails := map[string]int64{}
	for _, k := range keys {
		fails[k] = byKey[k]
	}

	run.Assume = []string{
		fmt.Sprintf("levels: all 256 int8 values for trees of <= %d nodes, the 17 boundary levels {-128,-4,-3,-2,debug..fatal,invalid,invalid+1,19,20,21,127} for larger trees; Enabled(l) is compared at all 256 values for every tree", fullUpTo),
		"the shared AtomicLevel only takes the seven named levels and InvalidLevel (zap documents nothing for an AtomicLevel set to another out-of-range value)",
		"samplers: one whose budget (first = MaxInt32 per tick of 1h) is never exhausted and must be transparent, one that drops every named-level entry (first=0, thereafter=0), and a first-only one (first=1, thereafter=0) driven twice within one tick; which entries a sampler keeps in general is property C11",
		"a sugared *w call with malformed context (non-string key, dangling key) is a probe for disabled entries only: where no leaf accepts the entry nothing at all may be observed; it is not driven at Panic / Fatal, whose calls must run their terminal action even when disabled and then report the malformed context in Error entries of their own (unchanged zap does; the statement does not say)",
		"Enabled/LevelOf/Level/V above a dropping sampler are only required to report the wrapped core's levels (Enabled is a level pre-check and cannot know sampling decisions); NewIncreaseLevelCore's validation is judged against that pre-check too",
		"Panic/Fatal terminal actions are replaced through WithPanicHook/WithFatalHook by a counting no-op so the enumeration survives them; termination is property C06",
		"lazy With fields: only 'a disabled call below DPanic whose core reports Enabled=false evaluates nothing' is demanded (Logger.check documents that the pre-check is skipped from DPanic upwards); eager With fields are marshaled at construction and are not counted against an entry",
		"message formatting cost of SugaredLogger on disabled calls is not observed (not part of the statement)",
		"loggers are non-development, without caller annotation, and with stack traces switched off (AddStacktrace(never)): by default zap captures a stack for every level above Fatal, which is irrelevant here and slow",
		"other front ends that end in Logger.Check (zapio.Writer, the std-log bridge, zapslog, zaptest) are covered by their own properties (C17, C13, C18)",
	}
	samples := append(append(append([]any{}, ts.samples...), os1.sample, sb.sample), hs.samples...)
	run.Finish(map[string]any{
		"states":                        hs.states,
		"transitions":                   hs.steps,
		"traces_validated_against_impl": hs.sequences,
		"evaluations":                   ts.calls + ts.levelChecks + os1.calls + sb.calls + hs.steps + hs.levelChecks,
		"distinct_nontrivial":           ts.nontrivial,
		"rule": fmt.Sprintf("(a) every core tree with <= %d nodes over leaves {observer, JSON IO core over a counting sink} x 9 enablers and wrappers Tee(2-3 ordered children), NewIncreaseLevelCore x 9 enablers, RegisterHooks, NewSampler (budget never exhausted), a dropping sampler (first=0, thereafter=0: declines every named-level entry in Check), NewLazyWith, With (applied after a With(nil) and a With of an empty slice, which must change nothing); trees whose IncreaseLevel must be refused are checked for the error (and, at the root, for the no-effect behaviour of the zap.IncreaseLevel option) and not evaluated further; each accepted tree (x 6 values of the shared AtomicLevel when it uses it: info, error, debug, invalid, -3 below the named range, 20 above it) is driven at all 256 levels (<= %d nodes) or 17 boundary levels through %d front ends (raw Core.Check+Write, Logger.Log/Check+Write/named methods, SugaredLogger Log/Logf/Logw/Logln and named methods in four styles, zapgrpc Info/Warning/Error/Fatal/Print families) and Enabled at all 256 levels, LevelOf, Logger.Level, V(0..3); non-trivial = the reference delivers the entry to some leaf at some evaluated level and withholds it from some leaf at some level; all enumerated trees are structurally distinct, distinct_behaviours counts distinct reference delivery tables. (a') %d shapes around a first-only sampler (first=1, thereafter=0), each driven twice per level with the same message on a fresh tree per front end (3 front ends; sampling budgets are per level and message): the second call must reach nothing below the sampler. (a'') hook siblings: %d cases = leaf {observer[debug], io[warn]} x {zapcore.RegisterHooks, zap.Hooks option} x a parent with k = 0..8 hooks registered one at a time x 2 or 3 siblings derived from that one parent object with 1 or 2 own hooks each x every order of using the siblings and the parent, each at 8 levels through 3 front ends: exactly the hooks on the path of the logger used fire, once each, iff the leaf accepts - also when the first hook of every registration returns an error (k <= 3, two hooks per sibling). (b) %s",
			maxN, fullUpTo, len(frontEnds), os1.shapes, sb.cases, hs.rule),
		"samples":                    samples,
		"exhaustive":                 true,
		"trees_enumerated":           ts.trees,
		"trees_refused_by_increase":  ts.refused,
		"trees_evaluated":            ts.valid,
		"increase_option_variants":   ts.optionVariants,
		"log_calls_on_trees":         ts.calls,
		"level_queries_on_trees":     ts.levelChecks,
		"distinct_behaviours":        len(ts.behaviours),
		"once_shapes_evaluated":      os1.evaluated,
		"once_log_calls":             os1.calls,
		"hook_sibling_cases":         sb.cases,
		"hook_sibling_calls":         sb.calls,
		"history_sequences":          hs.sequences,
		"history_level_queries":      hs.levelChecks,
		"max_nodes":                  maxN,
		"all_256_levels_up_to_nodes": fullUpTo,
		"failing_cases_by_key":       fails,
	})
}

// replay re-runs the tree / history named in a replay file with everything switched on.
func replay(run *ev.Run, rp *reporter, file string) {
	b, err := os.ReadFile(file)
	if err != nil {
		ev.ToolError("replay: %v", err)
	}
	var doc struct {
		Key  string `json:"key"`
		Case struct {
			Part    string `json:"part"`
			Tree    string `json:"tree"`
			Variant string `json:"variant"`
			Start   int8   `json:"start"`
			Steps   []sym  `json:"steps"`
		} `json:"case"`
	}
	if err := json.Unmarshal(b, &doc); err != nil {
		ev.ToolError("replay: %v", err)
	}
	if doc.Case.Part == "siblings" {
		fmt.Printf("replaying key %s (all hook-sibling cases)\n", doc.Key)
		partSiblings(rp)
		rp.flush()
		hit := rp.byKey()[doc.Key] > 0
		fmt.Printf("replay: recorded key reproduced: %v\n", hit)
		if hit {
			os.Exit(1)
		}
		os.Exit(0)
	}
	n, err := parseTree(doc.Case.Tree)
	if err != nil {
		ev.ToolError("replay: tree %q: %v", doc.Case.Tree, err)
	}
	fmt.Printf("replaying key %s on %s\n", doc.Key, n)
	switch doc.Case.Part {
	case "once":
		evalOnce(rp, n)
	case "histories":
		st := &histStats{}
		runSeq(rp, n, doc.Case.Start, doc.Case.Steps, st, map[hstate]struct{}{}, true)
	default:
		st := &treeStats{behaviours: map[string]struct{}{}}
		evalTree(rp, n, doc.Case.Variant == "option", allLevels, st)
	}
	rp.flush()
	hit := rp.byKey()[doc.Key] > 0
	fmt.Printf("replay: recorded key reproduced: %v\n", hit)
	if run.Violations() > 0 || hit {
		os.Exit(1)
	}
	os.Exit(0)
}
