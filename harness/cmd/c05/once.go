package main

import (
	"sync"

	"go.uber.org/zap/zapcore"
	"verif/harness/internal/par"
)

// ---------------------------------------------------------------------------
// part "once": a sampler that lets the first entry per (level, message)
// through and drops later ones (first=1, thereafter=0). Every shape is driven
// twice with the same level and message (fresh tree per front end): the first call must
// behave as if the sampler were transparent, the second must reach nothing
// below the sampler (hooks around it must not fire) for the named levels;
// out-of-range levels are never sampled.

var onceFrontEnds = []string{"Core.Check+CheckedEntry.Write", "Logger.Log", "Sugar.Logw"}

func onceShapes() []*node {
	by := genTrees(2)
	var out []*node
	for sz := 1; sz <= 2; sz++ {
		for _, c := range by[sz] {
			out = append(out,
				mk(kOnce, 0, c),
				mk(kHooks, 0, mk(kOnce, 0, c)),
				mk(kOnce, 0, mk(kHooks, 0, c)),
				mk(kTee, 0, mk(kObs, eDebug), mk(kHooks, 0, mk(kOnce, 0, c))),
				mk(kTee, 0, mk(kHooks, 0, mk(kOnce, 0, c)), mk(kIO, eDebug)),
			)
		}
	}
	return out
}

// evalOnce runs one shape; returns the number of log calls made.
func evalOnce(rp *reporter, n *node) (calls int64, ok bool) {
	// one fresh tree per front end: budgets are per (level, message), so the
	// levels do not interfere with each other
	for _, name := range onceFrontEnds {
		fe := feByName(name)
		t, built := newRT(rp, n, lInfo, false)
		if !built {
			return calls, false
		}
		for _, l := range boundaryLevels {
			for call := 1; call <= 2; call++ {
				call := call
				ci := callInfo{part: "once", fe: fe.name, family: fe.family, field: fe.field, msg: "same",
					ctx: func() map[string]any { return map[string]any{"call": call} }}
				if call == 2 {
					ci.fe += " (second call, same level and message)"
				}
				if fe.family != "core" {
					ci.lc = t.log.Core()
				}
				t.run(rp, &ci, l, func() { fe.call(t, zapcore.Level(l), ci.msg) })
				calls++
			}
		}
	}
	return calls, true
}

type onceStats struct {
	shapes, evaluated, calls int64
	sample                   any
}

func partOnce(rp *reporter) *onceStats {
	shapes := onceShapes()
	st := &onceStats{shapes: int64(len(shapes))}
	var mu sync.Mutex
	par.For(len(shapes), func(i int) {
		c, ok := evalOnce(rp.at(1<<59+uint64(i)), shapes[i])
		mu.Lock()
		st.calls += c
		if ok {
			st.evaluated++
		}
		mu.Unlock()
	})
	st.sample = map[string]any{"once_shape": shapes[len(shapes)/2].String(), "driven": "twice per level with the same message, fresh tree per front end"}
	return st
}
