package main

import (
	"fmt"
	"sync"

	"go.uber.org/zap"
	"go.uber.org/zap/zapcore"
	"verif/harness/internal/ev"
	"verif/harness/internal/par"
)

// ---------------------------------------------------------------------------
// part (b): histories of SetLevel / log calls over a derived logger family

// base cores that read the shared AtomicLevel
var histBases = []string{
	"obs[atomic]",
	"tee(obs[atomic],io[warn])",
	"hooks(io[atomic])",
	"incr[atomic](obs[debug])",
	"tee(io[atomic],lazy(obs[atomic]))",
}

// bases with a first-only sampler (first=1, thereafter=0) over an AtomicLevel
// core, next to a tee branch that keeps the level enabled so that the sampler's
// Check is reached while its own core disables the level. Every log symbol uses
// one message and one timestamp, so all calls at a level share one budget; the
// reference counts an entry against it only if the sampler's wrapped core
// enables the level at that moment. Each family costs a 458 KB counter table,
// hence the smaller alphabet.
var histSamplerBases = []string{
	"tee(obs[debug],once(obs[atomic]))",
	"tee(obs[debug],hooks(once(io[atomic])))",
}

const (
	jParent = iota
	jWith
	jNamed
	jSugar
	jIncr
	jLazy
	nFamily
)

var familyName = [...]string{"parent", "With child", "Named child", "Sugar", "IncreaseLevel(warn) child", "WithLazy child"}

// ways of changing the shared AtomicLevel
const (
	waySetLevel  = iota // al.SetLevel(l)
	wayText             // (&al).UnmarshalText("warn")
	wayTextUpper        // (&al).UnmarshalText("WARN")
	wayJSON             // json.Unmarshal into a config struct whose field holds the AtomicLevel
	wayHTTP             // PUT {"level":"warn"} served by al.ServeHTTP
	nWays
)

var wayName = [...]string{"SetLevel", "UnmarshalText", "UnmarshalText(upper case)", "json.Unmarshal(config struct)", "ServeHTTP PUT"}

// sym is one transition: a change of the AtomicLevel to Lvl (by Way) or a log
// call at Lvl from family member Logger.
type sym struct {
	Set    bool `json:"set"`
	Way    int  `json:"way"`
	Lvl    int8 `json:"lvl"`
	Logger int  `json:"logger"`
}

func (s sym) String() string {
	if s.Set {
		return wayName[s.Way] + "(" + lvlName(s.Lvl) + ")"
	}
	return familyName[s.Logger] + ".log(" + lvlName(s.Lvl) + ")"
}

type family struct {
	t         *rt
	base      *node
	start     int8
	loggers   [nFamily]*zap.Logger
	sugar     *zap.SugaredLogger
	incrValid bool
	roots     [nFamily]*rnode
}

func newFamily(rp *reporter, base *node, s0 int8) *family {
	t, ok := newRT(rp, base, s0, true)
	if !ok {
		ev.ToolError("history base %s refused", base)
	}
	f := &family{t: t, base: base, start: s0}
	p := t.log
	f.loggers[jParent] = p
	f.loggers[jWith] = p.With(zap.Int("c", 1))
	f.loggers[jNamed] = p.Named("n")
	f.loggers[jSugar] = p
	f.sugar = p.Sugar()
	f.incrValid = incrValid(t.model, eWarn, s0)
	t.errOut.reset()
	f.loggers[jIncr] = p.WithOptions(zap.IncreaseLevel(zapcore.WarnLevel))
	if complained := t.errOut.writes > 0; complained == f.incrValid {
		rp.hit(fmt.Sprintf("increase-level:option-%s", map[bool]string{true: "refuses-an-enabler-that-only-narrows", false: "accepts-an-enabler-that-widens"}[complained]), func() (string, any) {
			return fmt.Sprintf("base %s with the atomic level at %s: zap.IncreaseLevel(warn) complaint=%v, reference valid=%v", base, lvlName(s0), complained, f.incrValid), map[string]any{"part": "histories", "tree": base.String(), "start": s0, "steps": []sym{}}
		})
	}
	f.loggers[jLazy] = p.WithLazy(zap.Int("z", 1))
	for j := 0; j < nFamily; j++ {
		f.roots[j] = t.model
	}
	f.roots[jWith] = &rnode{k: kWith, kids: []*rnode{t.model}, core: f.loggers[jWith].Core()}
	f.roots[jLazy] = &rnode{k: kLazy, kids: []*rnode{t.model}, core: f.loggers[jLazy].Core()}
	if f.incrValid {
		f.roots[jIncr] = &rnode{k: kIncr, e: eWarn, kids: []*rnode{t.model}, core: f.loggers[jIncr].Core()}
	} else {
		// a refused IncreaseLevel has no effect: the child must behave as the parent
		f.roots[jIncr] = &rnode{k: kWith, kids: []*rnode{t.model}, core: f.loggers[jIncr].Core()}
	}
	return f
}

type histStats struct {
	sequences, steps, levelChecks int64
	samples                       []any
	states                        int
	rule                          string
}

// observe: every family member's Enabled (boundary levels) and Level against the reference.
func (f *family) observe(rp *reporter, seq []sym, upto int, st *histStats) {
	extra := func() map[string]any { return map[string]any{"start": f.start, "steps": cp(seq[:upto])} }
	for j := 0; j < nFamily; j++ {
		st.levelChecks += int64(f.t.checkLevels(rp, "histories", f.roots[j], familyName[j], boundaryLevels, extra))
		got, want := int8(f.loggers[j].Level()), int8(zapcore.LevelOf(f.loggers[j].Core()))
		if got != want {
			j := j
			rp.hit("level:Logger.Level-differs-from-LevelOf(core)", func() (string, any) {
				return fmt.Sprintf("base %s, %s: Level()=%s, LevelOf(Core())=%s", f.base, familyName[j], lvlName(got), lvlName(want)), map[string]any{"part": "histories", "tree": f.base.String(), "start": f.start, "steps": cp(seq[:upto])}
			})
		}
	}
}

func cp(s []sym) []sym { return append([]sym{}, s...) }

type hstate struct {
	base    *node
	s0, cur int8
}

func runSeq(rp *reporter, base *node, s0 int8, seq []sym, st *histStats, states map[hstate]struct{}, observeStart bool) {
	f := newFamily(rp, base, s0)
	t := f.t
	st.sequences++
	if observeStart {
		f.observe(rp, seq, 0, st)
	}
	for i, s := range seq {
		st.steps++
		if s.Set {
			if err := t.changeAtomic(s.Way, s.Lvl); err != nil {
				i, s := i, s
				rp.hit("atomic-level-change-refused:"+wayName[s.Way], func() (string, any) {
					return fmt.Sprintf("base %s, start %s, steps %v: %s failed: %v", base, lvlName(s0), cp(seq[:i+1]), s, err), map[string]any{"part": "histories", "tree": base.String(), "start": s0, "steps": cp(seq[:i+1])}
				})
			}
			f.observe(rp, seq, i+1, st)
		} else {
			j, l := s.Logger, s.Lvl
			t.gate = nil
			if j == jIncr && f.incrValid {
				t.gate = func(l int8) bool { return l >= lWarn }
			}
			i := i
			ci := callInfo{part: "histories", fe: familyName[j] + " (Log)", family: "history", field: true, msg: "h", lc: f.loggers[j].Core(),
				ctx: func() map[string]any { return map[string]any{"start": s0, "steps": cp(seq[:i+1])} }}
			if j == jSugar {
				ci.fe = "Sugar (Logw)"
				t.run(rp, &ci, l, func() { f.sugar.Logw(zapcore.Level(l), ci.msg, "f", countM{&t.entryM}) })
			} else {
				lg := f.loggers[j]
				t.run(rp, &ci, l, func() { lg.Log(zapcore.Level(l), ci.msg, t.fld()) })
			}
		}
		states[hstate{base, s0, t.cur}] = struct{}{}
	}
}

func partHistories(rp *reporter, thorough bool) *histStats {
	states8 := []int8{lDebug, lInfo, lWarn, lError, lDPanic, lPanic, lFatal, lInvalid}
	var bases []*node
	for _, s := range histBases {
		n, err := parseTree(s)
		if err != nil {
			ev.ToolError("history base %q: %v", s, err)
		}
		bases = append(bases, n)
	}
	alphabet := func(logLevels []int8) []sym {
		var a []sym
		for _, l := range states8 {
			a = append(a, sym{Set: true, Lvl: l})
		}
		for _, l := range logLevels {
			for j := 0; j < nFamily; j++ {
				a = append(a, sym{Lvl: l, Logger: j})
			}
		}
		return a
	}
	type plan struct {
		depth int
		alpha []sym
	}
	named7 := []int8{lDebug, lInfo, lWarn, lError, lDPanic, lPanic, lFatal}
	plans := []plan{{3, alphabet(named7)}}
	rule := fmt.Sprintf("all sequences of length 3 over {SetLevel(l): 7 named levels + InvalidLevel} + {log at each of the 7 named levels from each of %d family members (parent, With child, Named child, Sugar, IncreaseLevel(warn) child, WithLazy child)}", nFamily)
	if thorough {
		plans = []plan{
			{3, alphabet(append(append([]int8{}, named7...), -2, lInvalid, 127))},
			{4, alphabet([]int8{lDebug, lWarn, lFatal})},
		}
		rule = fmt.Sprintf("all sequences of length 3 over {SetLevel(l): 7 named levels + InvalidLevel} + {log at each of the 7 named levels and -2, invalid, 127 from each of %d family members (parent, With child, Named child, Sugar, IncreaseLevel(warn) child, WithLazy child)}, and all sequences of length 4 with log levels {debug, warn, fatal}", nFamily)
	}
	rule += fmt.Sprintf(", each replayed on a fresh family built on each of %d base cores %v from each of the 8 start values of the AtomicLevel; every call is compared with the reference evaluator (leaves, hooks, marshaler, sinks) and after construction (once per first symbol) and after every SetLevel every member's Enabled (the boundary levels) and Level are compared; states = distinct (base, start value, current value) reached, transitions = steps executed", len(histBases), histBases)
	var sbases []*node
	for _, s := range histSamplerBases {
		n, err := parseTree(s)
		if err != nil {
			ev.ToolError("history base %q: %v", s, err)
		}
		sbases = append(sbases, n)
	}
	sstates := []int8{lDebug, lInfo, lError, lInvalid}
	salpha := func() []sym {
		var a []sym
		for _, l := range sstates {
			a = append(a, sym{Set: true, Lvl: l})
		}
		for _, l := range []int8{lDebug, lInfo, lError} {
			for _, j := range []int{jParent, jWith, jIncr} {
				a = append(a, sym{Lvl: l, Logger: j})
			}
		}
		return a
	}()
	// the other public ways of changing the level: honoured exactly like SetLevel
	wlevels, wlogs := []int8{lDebug, lWarn, lError}, []int8{lDebug, lInfo, lError}
	if thorough {
		wlevels, wlogs = named7, []int8{lDebug, lInfo, lWarn, lError, lFatal}
	}
	walpha := func() []sym {
		var a []sym
		for w := wayText; w < nWays; w++ {
			for _, l := range wlevels {
				a = append(a, sym{Set: true, Way: w, Lvl: l})
			}
		}
		for _, l := range wlogs {
			for j := 0; j < nFamily; j++ {
				a = append(a, sym{Lvl: l, Logger: j})
			}
		}
		return a
	}()
	rule += fmt.Sprintf("; and all sequences of length 3 over {change the level to each of %d named levels through UnmarshalText (lower and upper case), json.Unmarshal into a config struct holding the AtomicLevel, and an HTTP PUT served by ServeHTTP} + {log at %d levels from each family member} on the same bases and start values: every member must honour the change on its next call exactly as for SetLevel", len(wlevels), len(wlogs))
	sdepths := []int{3}
	if thorough {
		sdepths = []int{3, 4}
	}
	rule += fmt.Sprintf("; and all sequences of length %v over {SetLevel: debug, info, error, invalid} + {log at debug, info, error from parent, With child, IncreaseLevel(warn) child} on each of the first-only-sampler bases %v from each of those 4 start values (one message and one timestamp, so one sampling budget per level; the reference spends budget only on entries the sampler's wrapped core enables at that moment)", sdepths, histSamplerBases)
	total := &histStats{rule: rule}
	states := map[hstate]struct{}{}
	var mu sync.Mutex
	type job struct {
		bases  []*node
		starts []int8
		pl     plan
	}
	var jobs []job
	for _, pl := range plans {
		jobs = append(jobs, job{bases, states8, pl})
	}
	jobs = append(jobs, job{bases, states8, plan{3, walpha}})
	for _, d := range sdepths {
		jobs = append(jobs, job{sbases, sstates, plan{d, salpha}})
	}
	for pi, jb := range jobs {
		pi, pl, bases, starts := pi, jb.pl, jb.bases, jb.starts
		na := len(pl.alpha)
		nsh := len(bases) * len(starts) * na
		par.For(nsh, func(sh int) {
			a0 := sh % na
			s0 := starts[(sh/na)%len(starts)]
			base := bases[sh/na/len(starts)]
			st := &histStats{}
			local := map[hstate]struct{}{}
			first := true
			lrp := rp.at(0)
			var k uint64
			seq := make([]sym, pl.depth)
			seq[0] = pl.alpha[a0]
			idx := make([]int, pl.depth)
			for {
				for k := 1; k < pl.depth; k++ {
					seq[k] = pl.alpha[idx[k]]
				}
				lrp.ord = 1<<60 + uint64(pi)<<56 + uint64(sh)<<28 + k
				k++
				runSeq(lrp, base, s0, seq, st, local, first)
				first = false
				k := pl.depth - 1
				for k >= 1 {
					idx[k]++
					if idx[k] < na {
						break
					}
					idx[k] = 0
					k--
				}
				if k < 1 {
					break
				}
			}
			mu.Lock()
			total.sequences += st.sequences
			total.steps += st.steps
			total.levelChecks += st.levelChecks
			for k := range local {
				states[k] = struct{}{}
			}
			if sh == nsh/2+3 {
				s := []string{}
				for _, x := range seq {
					s = append(s, x.String())
				}
				total.samples = append(total.samples, map[string]any{"history_base": base.String(), "atomic_start": lvlName(s0), "steps": s})
			}
			mu.Unlock()
		})
	}
	total.states = len(states)
	return total
}
