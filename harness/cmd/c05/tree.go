package main

import (
	"fmt"
	"strings"

	"go.uber.org/zap/zapcore"
)

// ---------------------------------------------------------------------------
// core trees: the enumerated configurations

type kind uint8

const (
	kObs     kind = iota // leaf: zaptest/observer core
	kIO                  // leaf: zapcore.NewCore(JSON encoder, counting sink, enabler)
	kTee                 // zapcore.NewTee(2..3 children)
	kIncr                // zapcore.NewIncreaseLevelCore(child, enabler)
	kHooks               // zapcore.RegisterHooks(child, counting hook)
	kSampler             // zapcore.NewSampler(child, ...) with a budget that is never exhausted
	kLazy                // zapcore.NewLazyWith(child, fields)
	kWith                // child.With(fields)
	kDrop                // zapcore.NewSamplerWithOptions(child, 1h, 0, 0): drops every entry of a named level
	kOnce                // zapcore.NewSamplerWithOptions(child, 1h, 1, 0): first entry per (level, message) passes, later ones are dropped (part "once" only)
)

var kindName = [...]string{"obs", "io", "tee", "incr", "hooks", "sampler", "lazy", "with", "drop", "once"}
var kindLong = [...]string{"observer-core", "io-core", "tee", "increase-level", "hooks", "sampler", "lazy-with", "with", "dropping-sampler", "first-only-sampler"}

// level enablers
const (
	eDebug      = iota // zapcore.DebugLevel
	eWarn              // zapcore.WarnLevel
	eFatal             // zapcore.FatalLevel
	eNone              // enables nothing
	eAll               // enables every int8 value, also out-of-range ones
	eInfoError         // non-monotone {Info, Error}
	eDebugFatal        // non-monotone {Debug, Fatal}
	eRange             // range bounded [Info..Fatal]: no out-of-range level
	eAtomic            // the tree's shared zap.AtomicLevel
	nEnab
)

var enabName = [...]string{"debug", "warn", "fatal", "none", "all", "{info,error}", "{debug,fatal}", "[info..fatal]", "atomic"}

const (
	lDebug   = int8(zapcore.DebugLevel)
	lInfo    = int8(zapcore.InfoLevel)
	lWarn    = int8(zapcore.WarnLevel)
	lError   = int8(zapcore.ErrorLevel)
	lDPanic  = int8(zapcore.DPanicLevel)
	lPanic   = int8(zapcore.PanicLevel)
	lFatal   = int8(zapcore.FatalLevel)
	lInvalid = int8(zapcore.InvalidLevel)
)

// enabModel is the documented meaning of each enabler ("a Level enables every
// level at or above itself"; the function enablers enable exactly their set;
// an AtomicLevel behaves as its current Level).
func enabModel(e int, l, cur int8) bool {
	switch e {
	case eDebug:
		return l >= lDebug
	case eWarn:
		return l >= lWarn
	case eFatal:
		return l >= lFatal
	case eNone:
		return false
	case eAll:
		return true
	case eInfoError:
		return l == lInfo || l == lError
	case eDebugFatal:
		return l == lDebug || l == lFatal
	case eRange:
		return l >= lInfo && l <= lFatal
	case eAtomic:
		return l >= cur
	}
	panic("enabler")
}

type node struct {
	k    kind
	e    int
	kids []*node
	size int
	// derived
	hasAtomic, hasLazy bool
}

func mk(k kind, e int, kids ...*node) *node {
	n := &node{k: k, e: e, kids: kids, size: 1}
	if (k == kObs || k == kIO || k == kIncr) && e == eAtomic {
		n.hasAtomic = true
	}
	if k == kLazy {
		n.hasLazy = true
	}
	for _, c := range kids {
		n.size += c.size
		n.hasAtomic = n.hasAtomic || c.hasAtomic
		n.hasLazy = n.hasLazy || c.hasLazy
	}
	return n
}

func (n *node) String() string {
	var b strings.Builder
	n.write(&b)
	return b.String()
}

func (n *node) write(b *strings.Builder) {
	b.WriteString(kindName[n.k])
	if n.k == kObs || n.k == kIO || n.k == kIncr {
		b.WriteString("[" + enabName[n.e] + "]")
	}
	if len(n.kids) > 0 {
		b.WriteByte('(')
		for i, c := range n.kids {
			if i > 0 {
				b.WriteByte(',')
			}
			c.write(b)
		}
		b.WriteByte(')')
	}
}

// parseTree is the inverse of String (used by replay).
func parseTree(s string) (*node, error) {
	p := &parser{s: s}
	n, err := p.node()
	if err != nil {
		return nil, err
	}
	if p.i != len(s) {
		return nil, fmt.Errorf("trailing %q", s[p.i:])
	}
	return n, nil
}

type parser struct {
	s string
	i int
}

func (p *parser) node() (*node, error) {
	st := p.i
	for p.i < len(p.s) && p.s[p.i] >= 'a' && p.s[p.i] <= 'z' {
		p.i++
	}
	name := p.s[st:p.i]
	k := -1
	for i, kn := range kindName {
		if kn == name {
			k = i
		}
	}
	if k < 0 {
		return nil, fmt.Errorf("unknown node %q", name)
	}
	e := 0
	if p.i < len(p.s) && p.s[p.i] == '[' {
		// enabler names may themselves contain brackets: match against the table
		found := false
		for i, en := range enabName {
			if strings.HasPrefix(p.s[p.i:], "["+en+"]") {
				e, found = i, true
				p.i += len(en) + 2
				break
			}
		}
		if !found {
			return nil, fmt.Errorf("unknown enabler at %q", p.s[p.i:])
		}
	}
	var kids []*node
	if p.i < len(p.s) && p.s[p.i] == '(' {
		p.i++
		for {
			c, err := p.node()
			if err != nil {
				return nil, err
			}
			kids = append(kids, c)
			if p.i < len(p.s) && p.s[p.i] == ',' {
				p.i++
				continue
			}
			break
		}
		if p.i >= len(p.s) || p.s[p.i] != ')' {
			return nil, fmt.Errorf("missing )")
		}
		p.i++
	}
	return mk(kind(k), e, kids...), nil
}

// genTrees returns, by exact node count 1..maxN, every tree over the alphabet
// (simplest first; tee children are ordered: order matters for Check).
func genTrees(maxN int) [][]*node {
	by := make([][]*node, maxN+1)
	for _, k := range []kind{kObs, kIO} {
		for e := 0; e < nEnab; e++ {
			by[1] = append(by[1], mk(k, e))
		}
	}
	for n := 2; n <= maxN; n++ {
		var out []*node
		for _, c := range by[n-1] {
			out = append(out, mk(kHooks, 0, c), mk(kSampler, 0, c), mk(kLazy, 0, c), mk(kWith, 0, c), mk(kDrop, 0, c))
			for e := 0; e < nEnab; e++ {
				out = append(out, mk(kIncr, e, c))
			}
		}
		for a := 1; a <= n-2; a++ {
			b := n - 1 - a
			for _, x := range by[a] {
				for _, y := range by[b] {
					out = append(out, mk(kTee, 0, x, y))
				}
			}
		}
		for a := 1; a <= n-3; a++ {
			for b := 1; a+b <= n-2; b++ {
				c := n - 1 - a - b
				for _, x := range by[a] {
					for _, y := range by[b] {
						for _, z := range by[c] {
							out = append(out, mk(kTee, 0, x, y, z))
						}
					}
				}
			}
		}
		by[n] = out
	}
	return by
}

// ---------------------------------------------------------------------------
// reference evaluator (works on the runtime mirror of a tree, see build.go)

// sampled: the levels a sampler counts (out-of-range levels pass through unsampled).
func sampled(l int8) bool { return l >= lDebug && l <= lFatal }

// dropsAt: would this node decline an entry of level l in Check right now? A
// dropping sampler declines every sampled level; a first-only sampler declines
// once its budget of one entry for (level, the single message used) is spent.
func (r *rnode) dropsAt(l int8) bool {
	if !sampled(l) {
		return false
	}
	return r.k == kDrop || (r.k == kOnce && r.seen[l-lDebug] >= 1)
}

// delivers: would some leaf under r record an entry of level l now? Differs
// from accept only below a dropping sampler.
func delivers(r *rnode, l, cur int8) bool {
	switch r.k {
	case kObs, kIO:
		return enabModel(r.e, l, cur)
	case kTee:
		for _, c := range r.kids {
			if delivers(c, l, cur) {
				return true
			}
		}
		return false
	case kIncr:
		return enabModel(r.e, l, cur) && delivers(r.kids[0], l, cur)
	default:
		if r.dropsAt(l) {
			return false
		}
		return delivers(r.kids[0], l, cur)
	}
}

// accept: the level pre-check - is level l enabled on every filter of some
// path to a leaf (atomic level cur)? This is what Enabled(l), LevelOf, Level
// and V are documented to report: a sampler reports its wrapped core's levels
// (Enabled cannot know about sampling decisions), so samplers are transparent
// here. Without a dropping sampler accept == delivers.
func accept(r *rnode, l, cur int8) bool {
	switch r.k {
	case kObs, kIO:
		return enabModel(r.e, l, cur)
	case kTee:
		for _, c := range r.kids {
			if accept(c, l, cur) {
				return true
			}
		}
		return false
	case kIncr:
		return enabModel(r.e, l, cur) && accept(r.kids[0], l, cur)
	default:
		return accept(r.kids[0], l, cur)
	}
}

// expect fills, for level l, which leaves must record the entry and how often
// each hook must fire (slices must be zeroed by the caller). For trees with a
// first-only sampler expect also advances the reference budget: call it exactly
// once per real call that reaches Core.Check. A leaf receives the
// entry iff every filter on its path enables l now; a tee serves each branch
// independently; a hook fires once iff the entry reached it and its wrapped
// subtree accepted.
func expect(r *rnode, l, cur int8, leaf []int, hook []int) bool {
	switch r.k {
	case kObs, kIO:
		if enabModel(r.e, l, cur) {
			leaf[r.leaf] = 1
			return true
		}
		return false
	case kTee:
		any := false
		for _, c := range r.kids {
			if expect(c, l, cur, leaf, hook) {
				any = true
			}
		}
		return any
	case kIncr:
		if !enabModel(r.e, l, cur) {
			return false
		}
		return expect(r.kids[0], l, cur, leaf, hook)
	case kHooks:
		ok := expect(r.kids[0], l, cur, leaf, hook)
		if ok {
			hook[r.hook] = 1
		}
		return ok
	default:
		if r.k == kOnce && sampled(l) {
			// Only entries of a level the wrapped core enables at this moment
			// are sampled (and use up budget); others are declined uncounted.
			if !accept(r.kids[0], l, cur) {
				return false
			}
			r.seen[l-lDebug]++
			if r.seen[l-lDebug] > 1 {
				return false
			}
		}
		if r.k == kDrop && sampled(l) {
			// the sampler declines in Check: nothing below it sees the entry
			return false
		}
		return expect(r.kids[0], l, cur, leaf, hook)
	}
}

// minLevel: the minimum named level that is enabled (see accept), InvalidLevel if none.
func minLevel(r *rnode, cur int8) int8 {
	for l := lDebug; l <= lFatal; l++ {
		if accept(r, l, cur) {
			return l
		}
	}
	return lInvalid
}

// hasAllEnabler: some level filter of the tree is the function enabler that also enables
// out-of-range levels; LevelOf cannot see below Debug through a function enabler.
func hasAllEnabler(r *rnode) bool {
	if (r.k == kObs || r.k == kIO || r.k == kIncr) && r.e == eAll {
		return true
	}
	for _, c := range r.kids {
		if hasAllEnabler(c) {
			return true
		}
	}
	return false
}

// trueMin is the smallest of all 256 level values that is delivered somewhere (lInvalid if none is).
func trueMin(r *rnode, cur int8) int8 {
	for l := -128; l <= 127; l++ {
		if accept(r, int8(l), cur) {
			return int8(l)
		}
	}
	return lInvalid
}

// levelOK: is got an acceptable "reported minimum level" of the subtree? Without function
// enablers that enable out-of-range levels it has to be the smallest level delivered anywhere
// (the smallest NAMED one, or lInvalid, when nothing below Debug is delivered). With such an
// enabler in the tree anything between the true minimum and the smallest named level that is
// itself delivered is consistent with the delivery.
func levelOK(r *rnode, got, cur int8) bool {
	named, tm := minLevel(r, cur), trueMin(r, cur)
	if tm > lInvalid {
		// only levels above the named range are delivered: the threshold itself, or
		// InvalidLevel ("no named level"), both describe that delivery
		return got == tm || got == lInvalid
	}
	if tm >= lDebug || tm == named {
		return got == named
	}
	if !hasAllEnabler(r) {
		return got == tm
	}
	return got >= tm && got <= named && (got == lInvalid || accept(r, got, cur))
}

// incrValid: NewIncreaseLevelCore must fail exactly when the new enabler admits
// a named level that the wrapped core does not.
func incrValid(child *rnode, e int, cur int8) bool {
	for l := lDebug; l <= lFatal; l++ {
		if enabModel(e, l, cur) && !accept(child, l, cur) {
			return false
		}
	}
	return true
}

// hookContext says where hook idx sits relative to the entry's path at level l.
func hookContext(r *rnode, idx int, l, cur int8, accBefore, gated bool) (bool, string) {
	switch r.k {
	case kObs, kIO:
		return false, ""
	case kHooks:
		if r.hook == idx {
			switch {
			case gated:
				return true, "behind-rejecting-filter-or-dropping-sampler"
			case accBefore:
				return true, "after-accepting-tee-branch"
			}
			return true, "no-earlier-acceptance"
		}
		return hookContext(r.kids[0], idx, l, cur, accBefore, gated)
	case kTee:
		acc := accBefore
		for _, c := range r.kids {
			if ok, s := hookContext(c, idx, l, cur, acc, gated); ok {
				return true, s
			}
			acc = acc || delivers(c, l, cur)
		}
		return false, ""
	case kIncr:
		return hookContext(r.kids[0], idx, l, cur, accBefore, gated || !enabModel(r.e, l, cur))
	default:
		return hookContext(r.kids[0], idx, l, cur, accBefore, gated || r.dropsAt(l))
	}
}

func findHook(r *rnode, idx int) *rnode {
	if r.k == kHooks && r.hook == idx {
		return r
	}
	for _, c := range r.kids {
		if h := findHook(c, idx); h != nil {
			return h
		}
	}
	return nil
}

func lvlName(l int8) string { return zapcore.Level(l).String() }

func lvlClass(l int8) string {
	if l < lDebug || l > lFatal {
		return "out-of-range-level"
	}
	return "named-level"
}
