package main

import (
	"bytes"
	"encoding/json"
	"fmt"
	"math"
	"net/http"
	"net/http/httptest"
	"sort"
	"strings"
	"sync"
	"sync/atomic"
	"time"

	"go.uber.org/zap"
	"go.uber.org/zap/zapcore"
	"go.uber.org/zap/zapgrpc"
	"go.uber.org/zap/zaptest/observer"
	"verif/harness/internal/ev"
)

// ---------------------------------------------------------------------------
// reporting with cheap de-duplication (some defects are hit millions of times)

type keyRec struct {
	n      atomic.Int64
	best   atomic.Uint64 // enumeration index of the recorded case
	mu     sync.Mutex
	what   string
	replay any
}

type store struct {
	run  *ev.Run
	keys sync.Map // key -> *keyRec
}

// reporter is a view on the shared store positioned at one enumeration index:
// of all failing cases of a key the one with the smallest index is reported,
// so the replay file does not depend on goroutine scheduling.
type reporter struct {
	*store
	ord uint64
}

func newReporter(run *ev.Run) *reporter {
	return &reporter{store: &store{run: run}}
}

func (r *reporter) at(ord uint64) *reporter { return &reporter{r.store, ord} }

// hit records one failing case; what/replay are only built when the case is
// earlier in the enumeration than the one recorded so far.
func (r *reporter) hit(key string, mkWhat func() (string, any)) {
	v, ok := r.keys.Load(key)
	if !ok {
		nr := &keyRec{}
		nr.best.Store(math.MaxUint64)
		v, _ = r.keys.LoadOrStore(key, nr)
	}
	rec := v.(*keyRec)
	rec.n.Add(1)
	if rec.best.Load() <= r.ord {
		return
	}
	rec.mu.Lock()
	if r.ord < rec.best.Load() {
		rec.what, rec.replay = mkWhat()
		rec.best.Store(r.ord)
	}
	rec.mu.Unlock()
}

// flush hands the recorded cases to ev in enumeration order.
func (r *reporter) flush() {
	type kr struct {
		key string
		rec *keyRec
	}
	var all []kr
	r.keys.Range(func(k, v any) bool {
		all = append(all, kr{k.(string), v.(*keyRec)})
		return true
	})
	sort.Slice(all, func(i, j int) bool {
		if a, b := all[i].rec.best.Load(), all[j].rec.best.Load(); a != b {
			return a < b
		}
		return all[i].key < all[j].key
	})
	for _, x := range all {
		r.run.Report(x.key, x.rec.what, x.rec.replay)
	}
}

func (r *reporter) byKey() map[string]int64 {
	m := map[string]int64{}
	r.keys.Range(func(k, c any) bool {
		m[k.(string)] = c.(*keyRec).n.Load()
		return true
	})
	return m
}

// ---------------------------------------------------------------------------
// runtime mirror of a tree: the real cores plus the observation points

type rnode struct {
	k    kind
	e    int
	kids []*rnode
	core zapcore.Core
	leaf int // leaf index (leaves)
	hook int // hook index (kHooks)
	// seen (kOnce): sampled entries per named level so far (one message, one tick)
	seen [7]int
}

type sink struct {
	writes, syncs int
	buf           []byte
}

func (s *sink) Write(p []byte) (int, error) {
	s.writes++
	s.buf = append(s.buf, p...)
	return len(p), nil
}
func (s *sink) Sync() error { s.syncs++; return nil }
func (s *sink) reset()      { s.writes, s.syncs, s.buf = 0, 0, s.buf[:0] }

type leafRT struct {
	io   bool
	logs *observer.ObservedLogs
	sink *sink
	path string // kinds from the root to the leaf's parent
}

// countM is the counting ObjectMarshaler.
type countM struct{ n *int }

func (c countM) MarshalLogObject(enc zapcore.ObjectEncoder) error {
	*c.n++
	enc.AddInt("v", 1)
	return nil
}

// termHook replaces the terminal action of Panic/Fatal so that the enumeration
// survives those levels (termination itself is property C06).
type termHook struct{ n *int }

func (h termHook) OnWrite(*zapcore.CheckedEntry, []zapcore.Field) { *h.n++ }

type rt struct {
	tree   *node
	model  *rnode // what expectations are computed from
	core   zapcore.Core
	atom   zap.AtomicLevel
	cur    int8 // modelled value of atom
	cons   int8 // value of atom at construction
	leaves []*leafRT
	hooks  []int
	entryM int // marshal calls of the per-entry field
	lazyM  int // marshal calls of lazy-with fields
	withM  int // marshal calls of With fields (construction time)
	term   int // terminal hook calls
	errOut *sink
	gate   func(l int8) bool // extra filter of a derived logger (histories)

	logOnly bool // build only the plain Logger front end

	log       *zap.Logger
	sugar     *zap.SugaredLogger
	grpc      *zapgrpc.Logger
	grpcDebug *zapgrpc.Logger

	expLeaf, expHook []int
}

var jsonCfg = zapcore.EncoderConfig{MessageKey: "m", LevelKey: "l", EncodeLevel: zapcore.LowercaseLevelEncoder, LineEnding: "\n"}

var fixedTime = time.Unix(1700000000, 0)

// fixedClock gives every entry the same timestamp, so all calls on one tree
// fall into one sampling window.
type fixedClock struct{}

func (fixedClock) Now() time.Time                         { return fixedTime }
func (fixedClock) NewTicker(d time.Duration) *time.Ticker { return time.NewTicker(d) }

func (t *rt) enabler(e int) zapcore.LevelEnabler {
	switch e {
	case eDebug:
		return zapcore.DebugLevel
	case eWarn:
		return zapcore.WarnLevel
	case eFatal:
		return zapcore.FatalLevel
	case eNone:
		return zap.LevelEnablerFunc(func(zapcore.Level) bool { return false })
	case eAll:
		return zap.LevelEnablerFunc(func(zapcore.Level) bool { return true })
	case eInfoError:
		return zap.LevelEnablerFunc(func(l zapcore.Level) bool { return l == zapcore.InfoLevel || l == zapcore.ErrorLevel })
	case eDebugFatal:
		return zap.LevelEnablerFunc(func(l zapcore.Level) bool { return l == zapcore.DebugLevel || l == zapcore.FatalLevel })
	case eRange:
		return zap.LevelEnablerFunc(func(l zapcore.Level) bool { return l >= zapcore.InfoLevel && l <= zapcore.FatalLevel })
	case eAtomic:
		return t.atom
	}
	panic("enabler")
}

// noStack switches stack-trace annotation off (by default zap captures a stack
// for every level above Fatal, i.e. for half of the 256 level values).
var noStack = zap.LevelEnablerFunc(func(zapcore.Level) bool { return false })

type rejected struct{}

// build constructs the real cores for n. It panics with rejected{} when an
// IncreaseLevel node is (correctly) refused; wrong refusals/acceptances are reported.
func (t *rt) build(rp *reporter, n *node, path string) *rnode {
	r := &rnode{k: n.k, e: n.e}
	sub := path + "/" + kindName[n.k]
	for _, c := range n.kids {
		r.kids = append(r.kids, t.build(rp, c, sub))
	}
	switch n.k {
	case kObs:
		core, logs := observer.New(t.enabler(n.e))
		r.core, r.leaf = core, len(t.leaves)
		t.leaves = append(t.leaves, &leafRT{logs: logs, path: path})
	case kIO:
		s := &sink{}
		r.core, r.leaf = zapcore.NewCore(zapcore.NewJSONEncoder(jsonCfg), s, t.enabler(n.e)), len(t.leaves)
		t.leaves = append(t.leaves, &leafRT{io: true, sink: s, path: path})
	case kTee:
		cs := make([]zapcore.Core, len(r.kids))
		for i, c := range r.kids {
			cs[i] = c.core
		}
		r.core = zapcore.NewTee(cs...)
	case kIncr:
		want := incrValid(r.kids[0], n.e, t.cur)
		core, err := zapcore.NewIncreaseLevelCore(r.kids[0].core, t.enabler(n.e))
		if (err == nil) != want {
			tr := t.tree.String()
			rp.hit(fmt.Sprintf("increase-level:constructor-%s", map[bool]string{true: "accepts-an-enabler-that-widens", false: "rejects-an-enabler-that-only-narrows"}[err == nil]), func() (string, any) {
				return fmt.Sprintf("tree %s: NewIncreaseLevelCore(%s, %s) returned err=%v; the new enabler %s a named level the wrapped core rejects", tr, n.kids[0], enabName[n.e], err, map[bool]string{true: "does not admit", false: "admits"}[want]),
					map[string]any{"part": "trees", "tree": tr}
			})
		}
		if err != nil || !want {
			panic(rejected{})
		}
		r.core = core
	case kHooks:
		idx := len(t.hooks)
		t.hooks = append(t.hooks, 0)
		r.hook = idx
		r.core = zapcore.RegisterHooks(r.kids[0].core, func(zapcore.Entry) error { t.hooks[idx]++; return nil })
	case kSampler:
		r.core = zapcore.NewSampler(r.kids[0].core, time.Hour, math.MaxInt32, 1)
	case kDrop:
		r.core = zapcore.NewSamplerWithOptions(r.kids[0].core, time.Hour, 0, 0)
	case kOnce:
		r.core = zapcore.NewSamplerWithOptions(r.kids[0].core, time.Hour, 1, 0)
	case kLazy:
		r.core = zapcore.NewLazyWith(r.kids[0].core, []zapcore.Field{zap.Object("lz", countM{&t.lazyM})})
	case kWith:
		// a With that adds nothing first: it must not change what the core is
		r.core = r.kids[0].core.With(nil).With([]zapcore.Field{}).With([]zapcore.Field{zap.Object("w", countM{&t.withM})})
	}
	return r
}

// newRT builds tree n with the shared AtomicLevel at init. ok=false: the tree
// contains an IncreaseLevel that must be (and was) refused.
func newRT(rp *reporter, n *node, init int8, logOnly bool) (t *rt, ok bool) {
	t = &rt{logOnly: logOnly, tree: n, atom: zap.NewAtomicLevelAt(zapcore.Level(init)), cur: init, cons: init, errOut: &sink{}}
	defer func() {
		if p := recover(); p != nil {
			if _, isRej := p.(rejected); isRej {
				t, ok = nil, false
				return
			}
			tr := n.String()
			rp.hit("panic:construction", func() (string, any) {
				return fmt.Sprintf("tree %s: panic while constructing: %v", tr, p), map[string]any{"part": "trees", "tree": tr}
			})
			t, ok = nil, false
		}
	}()
	t.model = t.build(rp, n, "")
	t.core = t.model.core
	t.expLeaf = make([]int, len(t.leaves))
	t.expHook = make([]int, len(t.hooks))
	t.mkLoggers(zap.New(t.core, t.opts()...))
	return t, true
}

func (t *rt) opts() []zap.Option {
	return []zap.Option{zap.WithFatalHook(termHook{&t.term}), zap.WithPanicHook(termHook{&t.term}), zap.ErrorOutput(t.errOut), zap.AddStacktrace(noStack), zap.WithClock(fixedClock{})}
}

func (t *rt) mkLoggers(l *zap.Logger) {
	t.log = l
	if t.logOnly {
		return
	}
	t.sugar = l.Sugar()
	t.grpc = zapgrpc.NewLogger(l)
	t.grpcDebug = zapgrpc.NewLogger(l, zapgrpc.WithDebug())
}

func (t *rt) setAtomic(v int8) {
	t.atom.SetLevel(zapcore.Level(v))
	t.cur = v
}

// changeAtomic changes the shared AtomicLevel through one of its public
// interfaces. The cores were built earlier from the VALUE t.atom (a struct
// wrapping a pointer to the shared cell); t.atom plays the application's
// variable / config field that is later decoded into.
func (t *rt) changeAtomic(way int, v int8) error {
	name := zapcore.Level(v).String()
	var err error
	switch way {
	case waySetLevel:
		t.atom.SetLevel(zapcore.Level(v))
	case wayText:
		err = (&t.atom).UnmarshalText([]byte(name))
	case wayTextUpper:
		err = (&t.atom).UnmarshalText([]byte(strings.ToUpper(name)))
	case wayJSON:
		cfg := struct {
			Name  string          `json:"name"`
			Level zap.AtomicLevel `json:"level"`
		}{Level: t.atom}
		err = json.Unmarshal([]byte(`{"name":"reload","level":"`+name+`"}`), &cfg)
		t.atom = cfg.Level // the application keeps using its config
	case wayHTTP:
		req := httptest.NewRequest(http.MethodPut, "/level", strings.NewReader(`{"level":"`+name+`"}`))
		rec := httptest.NewRecorder()
		t.atom.ServeHTTP(rec, req)
		if rec.Code != http.StatusOK {
			err = fmt.Errorf("HTTP status %d: %s", rec.Code, strings.TrimSpace(rec.Body.String()))
		}
	}
	t.cur = v
	return err
}

func (t *rt) reset() {
	for _, lf := range t.leaves {
		if lf.io {
			lf.sink.reset()
		} else {
			lf.logs.TakeAll()
		}
	}
	for i := range t.hooks {
		t.hooks[i] = 0
	}
	t.entryM, t.lazyM, t.term = 0, 0, 0
	t.errOut.reset()
}

// ---------------------------------------------------------------------------
// one log call: run, observe, compare with the reference evaluator

type callInfo struct {
	part    string // "trees" | "histories"
	fe      string // front end name
	family  string // core | logger | sugar | grpc
	field   bool   // the call carries the counting ObjectMarshaler field
	noWrite bool   // Check only: the entry is never written, so nothing may be observed
	probe   bool   // judged only when the reference says that no leaf accepts the entry
	msg     string
	lc      zapcore.Core // the core of the logger used (nil for the raw core front end)
	ctx     func() map[string]any
}

func (t *rt) desc(ci *callInfo, l int8) string {
	return fmt.Sprintf("tree %s (atomic level %s, built at %s), %s at level %s", t.tree, lvlName(t.cur), lvlName(t.cons), ci.fe, lvlName(l))
}

func (t *rt) replay(ci *callInfo, l int8) any {
	m := map[string]any{"part": ci.part, "tree": t.tree.String(), "atomic_built_at": t.cons, "atomic_now": t.cur, "front_end": ci.fe, "level": l}
	if ci.ctx != nil {
		for k, v := range ci.ctx() {
			m[k] = v
		}
	}
	return m
}

// run executes f (one front-end call at level l) and checks every observation point.
func (t *rt) run(rp *reporter, ci *callInfo, l int8, f func()) {
	t.reset()
	if p := protect(f); p != nil {
		rp.hit("panic:"+ci.family+":"+lvlClass(l), func() (string, any) {
			return t.desc(ci, l) + fmt.Sprintf(": panic %v", p), t.replay(ci, l)
		})
		return
	}
	for i := range t.expLeaf {
		t.expLeaf[i] = 0
	}
	for i := range t.expHook {
		t.expHook[i] = 0
	}
	enabled := false
	if !ci.noWrite && (t.gate == nil || t.gate(l)) {
		enabled = expect(t.model, l, t.cur, t.expLeaf, t.expHook)
	}
	if ci.probe && enabled {
		for _, lf := range t.leaves { // not judged: drop what the enabled call (and its diagnostic) delivered
			if !lf.io {
				lf.logs.TakeAll()
			}
		}
		return
	}
	for i, lf := range t.leaves {
		got, bad := 0, ""
		if lf.io {
			got = bytes.Count(lf.sink.buf, []byte("\n"))
			if got == 1 && t.expLeaf[i] == 1 {
				line := string(lf.sink.buf)
				switch {
				case !strings.Contains(line, `"l":"`+lvlName(l)+`"`) || !strings.Contains(line, `"m":"`+ci.msg+`"`):
					bad = "line " + strings.TrimSpace(line)
				case ci.field && !strings.Contains(line, `"f":{"v":1}`):
					bad = "line lacks the call-site field: " + strings.TrimSpace(line)
				}
			}
			if t.expLeaf[i] == 0 && (lf.sink.writes != 0 || lf.sink.syncs != 0) && got == 0 {
				w, s := lf.sink.writes, lf.sink.syncs
				rp.hit("disabled-branch:sink-activity:"+ci.family, func() (string, any) {
					return t.desc(ci, l) + fmt.Sprintf(": the sink of leaf %d (path %s) must not be touched, saw %d Write and %d Sync calls", i, lf.path, w, s), t.replay(ci, l)
				})
			}
		} else {
			es := lf.logs.TakeAll()
			got = len(es)
			if got == 1 && t.expLeaf[i] == 1 && (int8(es[0].Level) != l || es[0].Message != ci.msg) {
				bad = fmt.Sprintf("entry level=%v message=%q", es[0].Level, es[0].Message)
			}
		}
		want := t.expLeaf[i]
		var what string
		switch {
		case got == want && bad == "":
			continue
		case bad != "":
			what = "altered"
		case want == 1 && got == 0:
			what = "missing"
		case want == 0:
			what = "unexpected"
		default:
			what = "duplicated"
		}
		lk := map[bool]string{true: "io", false: "observer"}[lf.io]
		rp.hit("delivery:"+what+":"+ci.family+":"+lk+"-leaf-under"+pathClass(lf.path), func() (string, any) {
			return t.desc(ci, l) + fmt.Sprintf(": leaf %d (%s, path %s) recorded %d entries, the reference says %d %s", i, lk, lf.path, got, want, bad), t.replay(ci, l)
		})
	}
	for i, got := range t.hooks {
		want := t.expHook[i]
		if got == want {
			continue
		}
		_, where := hookContext(t.model, i, l, t.cur, false, false)
		var key string
		switch {
		case ci.noWrite:
			key = "hook:fired-for-an-entry-that-was-checked-but-never-written"
		case want == 0:
			key = "hook:fired-though-wrapped-core-rejected:" + where
			if h := findHook(t.model, i); h != nil && accept(h.kids[0], l, t.cur) {
				// the level is enabled below the hook, yet the wrapped core (a sampler) declined in Check
				key += ":wrapped-core-enables-the-level-but-declined-in-Check"
			}
		case got == 0:
			key = "hook:not-fired-for-accepted-entry:" + where
		default:
			key = "hook:fired-more-than-once:" + where
		}
		rp.hit(key, func() (string, any) {
			return t.desc(ci, l) + fmt.Sprintf(": hook %d fired %d times, the reference says %d (a hook fires once iff the entry reaches it and its wrapped core accepts)", i, got, want), t.replay(ci, l)
		})
	}
	if !enabled {
		if t.entryM != 0 {
			n := t.entryM
			rp.hit("disabled-entry:field-marshaled:"+ci.family, func() (string, any) {
				return t.desc(ci, l) + fmt.Sprintf(": no leaf accepts the entry but the call-site ObjectMarshaler ran %d times", n), t.replay(ci, l)
			})
		}
		// A disabled call below DPanic must stop at the cheap level pre-check
		// and so must not evaluate lazy With fields. If the core itself claims
		// to be enabled the cause is the Enabled() defect reported elsewhere.
		if t.lazyM != 0 && !ci.noWrite && ci.lc != nil && l < lDPanic && !ci.lc.Enabled(zapcore.Level(l)) {
			n := t.lazyM
			rp.hit("disabled-entry:lazy-with-fields-evaluated:"+ci.family, func() (string, any) {
				return t.desc(ci, l) + fmt.Sprintf(": the entry is disabled (Enabled reports false, no leaf accepts) yet the lazy With fields were marshaled %d times", n), t.replay(ci, l)
			})
		}
	}
	if t.errOut.writes != 0 {
		s := string(t.errOut.buf)
		rp.hit("error-output-written:"+ci.family, func() (string, any) {
			return t.desc(ci, l) + ": the logger wrote to its ErrorOutput: " + strings.TrimSpace(s), t.replay(ci, l)
		})
	}
}

// pathClass keeps keys few: only the kind of the leaf's parent.
func pathClass(p string) string {
	if p == "" {
		return "-root"
	}
	return "-" + p[strings.LastIndexByte(p, '/')+1:]
}

func protect(f func()) (p any) {
	defer func() { p = recover() }()
	f()
	return nil
}

// ---------------------------------------------------------------------------
// Enabled / Level / LevelOf / V against the reference

func blameEnabled(r *rnode, l, cur int8) *rnode {
	for _, c := range r.kids {
		if b := blameEnabled(c, l, cur); b != nil {
			return b
		}
	}
	if r.core != nil && r.core.Enabled(zapcore.Level(l)) != accept(r, l, cur) {
		return r
	}
	return nil
}

func blameLevel(r *rnode, cur int8) *rnode {
	for _, c := range r.kids {
		if b := blameLevel(c, cur); b != nil {
			return b
		}
	}
	if r.core != nil && !levelOK(r, int8(zapcore.LevelOf(r.core)), cur) {
		return r
	}
	return nil
}

// checkLevels compares Enabled(l) for the given levels and the reported minimum
// level of root (model) with the reference; who is the name of the logger.
func (t *rt) checkLevels(rp *reporter, part string, root *rnode, who string, levels []int8, extra func() map[string]any) int {
	changed := ""
	if t.cur != t.cons {
		changed = "-after-atomic-level-change"
	}
	rep := func(l any) any {
		m := map[string]any{"part": part, "tree": t.tree.String(), "atomic_built_at": t.cons, "atomic_now": t.cur, "level": l, "logger": who}
		if extra != nil {
			for k, v := range extra() {
				m[k] = v
			}
		}
		return m
	}
	n := 0
	for _, l := range levels {
		n++
		got := root.core.Enabled(zapcore.Level(l))
		want := accept(root, l, t.cur)
		if got == want {
			continue
		}
		b := blameEnabled(root, l, t.cur)
		if b == nil {
			b = root
		}
		cls := lvlClass(l)
		if cls == "named-level" {
			cls += changed
		}
		var key string
		switch {
		case b.k == kIncr && got:
			key = "enabled:increase-level:true-from-the-filter-alone-while-inner-core-rejects:" + cls
		case got:
			key = "enabled:" + kindLong[b.k] + ":true-but-entry-not-delivered:" + cls
		default:
			key = "enabled:" + kindLong[b.k] + ":false-but-entry-delivered:" + cls
		}
		rp.hit(key, func() (string, any) {
			return fmt.Sprintf("tree %s (atomic level %s, built at %s), %s: Enabled(%s) = %v but the reference delivery is %v (first deviating node: %s)", t.tree, lvlName(t.cur), lvlName(t.cons), who, lvlName(l), got, want, kindLong[b.k]), rep(l)
		})
	}
	n++
	gotL, wantL := int8(zapcore.LevelOf(root.core)), minLevel(root, t.cur)
	if tm := trueMin(root, t.cur); tm < lDebug && !hasAllEnabler(root) {
		wantL = tm
	}
	if !levelOK(root, gotL, t.cur) {
		b := blameLevel(root, t.cur)
		if b == nil {
			b = root
		}
		bg, bw := int8(zapcore.LevelOf(b.core)), minLevel(b, t.cur)
		if tm := trueMin(b, t.cur); tm < lDebug && !hasAllEnabler(b) {
			bw = tm
		}
		var key string
		switch {
		case b.k == kTee && bw == lInvalid && bg == lFatal:
			key = "level:tee:all-branches-disabled-reports-fatal-instead-of-invalid"
		case b.k == kIncr && changed != "":
			key = "level:increase-level:reports-the-filter-level-ignoring-inner-core" + changed
		default:
			key = fmt.Sprintf("level:%s:reports-%s-while-minimum-delivered-is-%s%s", kindLong[b.k], lvlName(bg), lvlName(bw), changed)
		}
		rp.hit(key, func() (string, any) {
			return fmt.Sprintf("tree %s (atomic level %s, built at %s), %s: LevelOf = %s but the minimum level delivered anywhere is %s (first deviating node: %s reports %s, reference %s)", t.tree, lvlName(t.cur), lvlName(t.cons), who, lvlName(gotL), lvlName(wantL), kindLong[b.k], lvlName(bg), lvlName(bw)), rep("LevelOf")
		})
	}
	return n
}

// checkFrontLevels: Logger.Level, SugaredLogger.Level, LevelOf(Logger.Core()) and
// the gRPC adapter's V must agree with the core they are built on (which
// checkLevels compares with the reference).
func (t *rt) checkFrontLevels(rp *reporter) int {
	coreL := zapcore.LevelOf(t.core)
	type q struct {
		name string
		got  zapcore.Level
	}
	n := 0
	for _, x := range []q{{"Logger.Level", t.log.Level()}, {"SugaredLogger.Level", t.sugar.Level()}, {"LevelOf(Logger.Core())", zapcore.LevelOf(t.log.Core())}, {"LevelOf(Sugar.Desugar().Core())", zapcore.LevelOf(t.sugar.Desugar().Core())}} {
		n++
		if x.got != coreL {
			x := x
			rp.hit("level:"+x.name+"-differs-from-LevelOf(core)", func() (string, any) {
				return fmt.Sprintf("tree %s: %s = %v but LevelOf(core) = %v", t.tree, x.name, x.got, coreL), map[string]any{"part": "trees", "tree": t.tree.String(), "atomic_built_at": t.cons, "atomic_now": t.cur, "level": x.name}
			})
		}
	}
	for v, zl := range []zapcore.Level{zapcore.InfoLevel, zapcore.WarnLevel, zapcore.ErrorLevel, zapcore.FatalLevel} {
		n++
		got, want := t.grpc.V(v), accept(t.model, int8(zl), t.cur)
		if got != want && t.core.Enabled(zl) == want {
			v := v
			rp.hit("grpc:V-differs-from-delivery", func() (string, any) {
				return fmt.Sprintf("tree %s: zapgrpc V(%d) = %v but an entry at %v is delivered: %v", t.tree, v, got, zl, want), map[string]any{"part": "trees", "tree": t.tree.String(), "atomic_built_at": t.cons, "atomic_now": t.cur, "level": fmt.Sprintf("V(%d)", v)}
			})
		}
	}
	return n
}
