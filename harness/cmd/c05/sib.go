package main

import (
	"bytes"
	"errors"
	"fmt"
	"sync"

	"go.uber.org/zap"
	"go.uber.org/zap/zapcore"
	"go.uber.org/zap/zaptest/observer"
	"verif/harness/internal/par"
)

// ---------------------------------------------------------------------------
// part "hook siblings": several cores / loggers derived from ONE parent object
// that already carries k hooks, each registering its own hook. The tree
// enumeration builds every subtree fresh, so only this part has two hooked
// cores sharing a parent. For every entry exactly the hooks on the path of the
// logger used fire, once each, iff the leaf accepts the entry.

type sibCase struct {
	Leaf  string `json:"leaf"` // "observer[debug]" | "io[warn]"
	Mode  string `json:"mode"` // "zapcore.RegisterHooks" | "zap.Hooks option"
	K     int    `json:"parent_registrations"`
	M     int    `json:"siblings"`
	Per   int    `json:"hooks_per_sibling"`
	Order []int  `json:"order"` // loggers in the order used; M = the parent itself
	Fail  bool   `json:"first_hook_of_each_registration_returns_an_error,omitempty"`
}

type sibRT struct {
	c       sibCase
	logs    *observer.ObservedLogs
	sink    *sink
	min     int8
	parentN []int         // counters of the parent's hooks
	sibN    [][]int       // counters per sibling, per hook
	loggers []*zap.Logger // siblings..., parent last
	cores   []zapcore.Core
	term    int
	errOut  *sink
}

func counter(p *int) func(zapcore.Entry) error {
	return func(zapcore.Entry) error { *p++; return nil }
}

// failing counts and then reports an error (an audit hook that cannot reach its store): the
// hooks registered after it still have to fire.
func failing(p *int) func(zapcore.Entry) error {
	return func(zapcore.Entry) error { *p++; return errHook }
}

var errHook = errors.New("hook failed")

func buildSib(c sibCase) *sibRT {
	s := &sibRT{c: c, errOut: &sink{}}
	var leaf zapcore.Core
	if c.Leaf == "io[warn]" {
		s.sink, s.min = &sink{}, lWarn
		leaf = zapcore.NewCore(zapcore.NewJSONEncoder(jsonCfg), s.sink, zapcore.WarnLevel)
	} else {
		s.min = lDebug
		leaf, s.logs = observer.New(zapcore.DebugLevel)
	}
	s.parentN = make([]int, c.K)
	s.sibN = make([][]int, c.M)
	opts := []zap.Option{zap.WithFatalHook(termHook{&s.term}), zap.WithPanicHook(termHook{&s.term}), zap.ErrorOutput(s.errOut), zap.AddStacktrace(noStack), zap.WithClock(fixedClock{})}
	sibHooks := func(j int) []func(zapcore.Entry) error {
		s.sibN[j] = make([]int, c.Per)
		var hs []func(zapcore.Entry) error
		for h := 0; h < c.Per; h++ {
			if c.Fail && h == 0 {
				hs = append(hs, failing(&s.sibN[j][h]))
				continue
			}
			hs = append(hs, counter(&s.sibN[j][h]))
		}
		return hs
	}
	pcounter := counter
	if c.Fail {
		pcounter = failing
	}
	if c.Mode == "zapcore.RegisterHooks" {
		core := leaf
		for i := 0; i < c.K; i++ {
			core = zapcore.RegisterHooks(core, pcounter(&s.parentN[i]))
		}
		for j := 0; j < c.M; j++ {
			sc := zapcore.RegisterHooks(core, sibHooks(j)...)
			s.cores = append(s.cores, sc)
			s.loggers = append(s.loggers, zap.New(sc, opts...))
		}
		s.cores = append(s.cores, core)
		s.loggers = append(s.loggers, zap.New(core, opts...))
	} else {
		lg := zap.New(leaf, opts...)
		for i := 0; i < c.K; i++ {
			lg = lg.WithOptions(zap.Hooks(pcounter(&s.parentN[i])))
		}
		for j := 0; j < c.M; j++ {
			sl := lg.WithOptions(zap.Hooks(sibHooks(j)...))
			s.loggers = append(s.loggers, sl)
			s.cores = append(s.cores, sl.Core())
		}
		s.loggers = append(s.loggers, lg)
		s.cores = append(s.cores, lg.Core())
	}
	return s
}

func (s *sibRT) reset() {
	for i := range s.parentN {
		s.parentN[i] = 0
	}
	for _, x := range s.sibN {
		for i := range x {
			x[i] = 0
		}
	}
	if s.logs != nil {
		s.logs.TakeAll()
	} else {
		s.sink.reset()
	}
}

var sibLevels = []int8{-2, lDebug, lInfo, lWarn, lError, lDPanic, lFatal, lInvalid}

// runSibCase drives one construction in the given order; returns calls made.
func runSibCase(rp *reporter, c sibCase) int64 {
	var calls int64
	s := buildSib(c)
	name := func(j int) string {
		if j == c.M {
			return "parent"
		}
		return fmt.Sprintf("sibling %d", j)
	}
	for _, l := range sibLevels {
		for _, j := range c.Order {
			for fe := 0; fe < 3; fe++ {
				s.reset()
				j, l, fe := j, l, fe
				feName := [...]string{"Logger.Log", "Logger.Check+Write", "Core.Check+Write"}[fe]
				desc := func() string {
					return fmt.Sprintf("leaf %s, parent with %d hooks registered one by one through %s, %d siblings derived from that parent with %d hook(s) each%s; %s via %s at level %s (use order %v)", c.Leaf, c.K, c.Mode, c.M, c.Per, map[bool]string{true: ", the first hook of every registration returning an error", false: ""}[c.Fail], feName, name(j), lvlName(l), c.Order)
				}
				rep := func() any {
					return map[string]any{"part": "siblings", "case": c, "logger": j, "level": l, "front_end": feName}
				}
				p := protect(func() {
					switch fe {
					case 0:
						s.loggers[j].Log(zapcore.Level(l), "s")
					case 1:
						if ce := s.loggers[j].Check(zapcore.Level(l), "s"); ce != nil {
							ce.Write()
						}
					case 2:
						if ce := s.cores[j].Check(zapcore.Entry{Level: zapcore.Level(l), Message: "s", Time: fixedTime}, nil); ce != nil {
							ce.Write()
						}
					}
				})
				calls++
				if p != nil {
					rp.hit("hook-siblings:panic", func() (string, any) { return desc() + fmt.Sprintf(": panic %v", p), rep() })
					continue
				}
				want := 0
				if l >= s.min {
					want = 1
				}
				got := 0
				if s.logs != nil {
					got = len(s.logs.TakeAll())
				} else {
					got = bytes.Count(s.sink.buf, []byte("\n"))
				}
				if got != want {
					rp.hit("hook-siblings:delivery", func() (string, any) {
						return desc() + fmt.Sprintf(": the leaf recorded %d entries, the reference says %d", got, want), rep()
					})
				}
				for i, n := range s.parentN {
					if n != want {
						i, n := i, n
						rp.hit("hook-siblings:parent-hook-count", func() (string, any) {
							return desc() + fmt.Sprintf(": hook %d of the shared parent fired %d times, the reference says %d (it is on the path of every derived logger)", i, n, want), rep()
						})
					}
				}
				for sj, hs := range s.sibN {
					for h, n := range hs {
						w := 0
						if sj == j {
							w = want
						}
						if n == w {
							continue
						}
						sj, h, n := sj, h, n
						key := "hook-siblings:own-hook-did-not-fire-for-accepted-entry"
						switch {
						case sj != j:
							key = "hook-siblings:hook-of-another-sibling-fired"
						case n > w && w == 0:
							key = "hook-siblings:own-hook-fired-for-rejected-entry"
						case n > w:
							key = "hook-siblings:own-hook-fired-more-than-once"
						}
						rp.hit(key, func() (string, any) {
							return desc() + fmt.Sprintf(": hook %d registered by sibling %d fired %d times, the reference says %d (only the hooks on the path of the logger used fire, once each, iff the leaf accepts)", h, sj, n, w), rep()
						})
					}
				}
				if s.c.Fail {
					s.errOut.reset() // failing hooks are reported there (C10's subject)
				}
				if s.errOut.writes != 0 {
					rp.hit("hook-siblings:error-output-written", func() (string, any) { return desc() + ": " + string(s.errOut.buf), rep() })
					s.errOut.reset()
				}
			}
		}
	}
	return calls
}

func permutations(n int) [][]int {
	if n == 0 {
		return [][]int{{}}
	}
	var out [][]int
	for _, p := range permutations(n - 1) {
		for pos := 0; pos <= len(p); pos++ {
			q := append(append(append([]int{}, p[:pos]...), n-1), p[pos:]...)
			out = append(out, q)
		}
	}
	return out
}

type sibStats struct {
	cases, calls int64
	sample       any
}

func sibCases() []sibCase {
	var cs []sibCase
	for _, leaf := range []string{"observer[debug]", "io[warn]"} {
		for _, mode := range []string{"zapcore.RegisterHooks", "zap.Hooks option"} {
			for k := 0; k <= 8; k++ {
				for m := 2; m <= 3; m++ {
					for per := 1; per <= 2; per++ {
						for _, ord := range permutations(m + 1) {
							cs = append(cs, sibCase{Leaf: leaf, Mode: mode, K: k, M: m, Per: per, Order: ord})
							if k <= 3 && per == 2 {
								cs = append(cs, sibCase{Leaf: leaf, Mode: mode, K: k, M: m, Per: per, Order: ord, Fail: true})
							}
						}
					}
				}
			}
		}
	}
	return cs
}

func partSiblings(rp *reporter) *sibStats {
	cs := sibCases()
	st := &sibStats{cases: int64(len(cs))}
	var mu sync.Mutex
	par.For(len(cs), func(i int) {
		n := runSibCase(rp.at(1<<58+uint64(i)), cs[i])
		mu.Lock()
		st.calls += n
		mu.Unlock()
	})
	st.sample = map[string]any{"hook_siblings_case": cs[len(cs)/2]}
	return st
}
