package main

import (
	"go.uber.org/zap"
	"go.uber.org/zap/zapcore"
)

// A front end is one way of submitting an entry of a given level.
type frontEnd struct {
	name   string
	family string
	field  bool
	// noWrite: the entry is only checked, never written: nothing may be observed
	noWrite bool
	// named: only for the seven named levels; grpc: only for the levels the adapter can produce
	applies func(l int8) bool
	call    func(t *rt, l zapcore.Level, msg string)
}

// probeName: this front end carries malformed loosely-typed context, which makes the sugared logger log a
// diagnostic of its own when the entry is written; it is judged only where the reference says that no leaf
// accepts the entry: then nothing at all may be observed.
const probeName = "Sugar.Logw(non-string and dangling keys)"

func anyLevel(int8) bool { return true }
func named(l int8) bool  { return l >= lDebug && l <= lFatal }
func only(ls ...int8) func(int8) bool {
	return func(l int8) bool {
		for _, x := range ls {
			if x == l {
				return true
			}
		}
		return false
	}
}

func (t *rt) fld() zap.Field { return zap.Object("f", countM{&t.entryM}) }

var frontEnds = []frontEnd{
	{"Core.Check+CheckedEntry.Write", "core", true, false, anyLevel, func(t *rt, l zapcore.Level, msg string) {
		ent := zapcore.Entry{Level: l, Message: msg, Time: fixedTime}
		if ce := t.core.Check(ent, nil); ce != nil {
			ce.Write(t.fld())
		}
	}},
	{"Core.Check without Write", "core", false, true, anyLevel, func(t *rt, l zapcore.Level, msg string) {
		_ = t.core.Check(zapcore.Entry{Level: l, Message: msg, Time: fixedTime}, nil)
	}},
	{"Logger.Check without Write", "logger", false, true, anyLevel, func(t *rt, l zapcore.Level, msg string) { _ = t.log.Check(l, msg) }},
	{"Logger.Log", "logger", true, false, anyLevel, func(t *rt, l zapcore.Level, msg string) { t.log.Log(l, msg, t.fld()) }},
	{"Logger.Check+Write", "logger", true, false, anyLevel, func(t *rt, l zapcore.Level, msg string) {
		if ce := t.log.Check(l, msg); ce != nil {
			ce.Write(t.fld())
		}
	}},
	{"Sugar.Logw", "sugar", true, false, anyLevel, func(t *rt, l zapcore.Level, msg string) { t.sugar.Logw(l, msg, "f", countM{&t.entryM}) }},
	// not at Panic / Fatal: those calls have to run their terminal action even when disabled, so the entry is
	// "written" (to no core) and the diagnostics about the malformed context are logged as Error entries of their own
	{probeName, "sugar", true, false, func(l int8) bool { return l != lPanic && l != lFatal }, func(t *rt, l zapcore.Level, msg string) {
		t.sugar.Logw(l, msg, "f", countM{&t.entryM}, 42, "non-string key", "dangling")
	}},
	{"Sugar.Log", "sugar", false, false, anyLevel, func(t *rt, l zapcore.Level, msg string) { t.sugar.Log(l, msg) }},
	{"Sugar.Logf", "sugar", false, false, anyLevel, func(t *rt, l zapcore.Level, msg string) { t.sugar.Logf(l, "%s", msg) }},
	{"Sugar.Logln", "sugar", false, false, anyLevel, func(t *rt, l zapcore.Level, msg string) { t.sugar.Logln(l, msg) }},

	{"Logger.<Level>", "logger", true, false, named, func(t *rt, l zapcore.Level, msg string) {
		switch l {
		case zapcore.DebugLevel:
			t.log.Debug(msg, t.fld())
		case zapcore.InfoLevel:
			t.log.Info(msg, t.fld())
		case zapcore.WarnLevel:
			t.log.Warn(msg, t.fld())
		case zapcore.ErrorLevel:
			t.log.Error(msg, t.fld())
		case zapcore.DPanicLevel:
			t.log.DPanic(msg, t.fld())
		case zapcore.PanicLevel:
			t.log.Panic(msg, t.fld())
		case zapcore.FatalLevel:
			t.log.Fatal(msg, t.fld())
		}
	}},
	{"Sugar.<Level>", "sugar", false, false, named, func(t *rt, l zapcore.Level, msg string) {
		switch l {
		case zapcore.DebugLevel:
			t.sugar.Debug(msg)
		case zapcore.InfoLevel:
			t.sugar.Info(msg)
		case zapcore.WarnLevel:
			t.sugar.Warn(msg)
		case zapcore.ErrorLevel:
			t.sugar.Error(msg)
		case zapcore.DPanicLevel:
			t.sugar.DPanic(msg)
		case zapcore.PanicLevel:
			t.sugar.Panic(msg)
		case zapcore.FatalLevel:
			t.sugar.Fatal(msg)
		}
	}},
	{"Sugar.<Level>f", "sugar", false, false, named, func(t *rt, l zapcore.Level, msg string) {
		switch l {
		case zapcore.DebugLevel:
			t.sugar.Debugf("%s", msg)
		case zapcore.InfoLevel:
			t.sugar.Infof("%s", msg)
		case zapcore.WarnLevel:
			t.sugar.Warnf("%s", msg)
		case zapcore.ErrorLevel:
			t.sugar.Errorf("%s", msg)
		case zapcore.DPanicLevel:
			t.sugar.DPanicf("%s", msg)
		case zapcore.PanicLevel:
			t.sugar.Panicf("%s", msg)
		case zapcore.FatalLevel:
			t.sugar.Fatalf("%s", msg)
		}
	}},
	{"Sugar.<Level>w", "sugar", true, false, named, func(t *rt, l zapcore.Level, msg string) {
		m := countM{&t.entryM}
		switch l {
		case zapcore.DebugLevel:
			t.sugar.Debugw(msg, "f", m)
		case zapcore.InfoLevel:
			t.sugar.Infow(msg, "f", m)
		case zapcore.WarnLevel:
			t.sugar.Warnw(msg, "f", m)
		case zapcore.ErrorLevel:
			t.sugar.Errorw(msg, "f", m)
		case zapcore.DPanicLevel:
			t.sugar.DPanicw(msg, "f", m)
		case zapcore.PanicLevel:
			t.sugar.Panicw(msg, "f", m)
		case zapcore.FatalLevel:
			t.sugar.Fatalw(msg, "f", m)
		}
	}},
	{"Sugar.<Level>ln", "sugar", false, false, named, func(t *rt, l zapcore.Level, msg string) {
		switch l {
		case zapcore.DebugLevel:
			t.sugar.Debugln(msg)
		case zapcore.InfoLevel:
			t.sugar.Infoln(msg)
		case zapcore.WarnLevel:
			t.sugar.Warnln(msg)
		case zapcore.ErrorLevel:
			t.sugar.Errorln(msg)
		case zapcore.DPanicLevel:
			t.sugar.DPanicln(msg)
		case zapcore.PanicLevel:
			t.sugar.Panicln(msg)
		case zapcore.FatalLevel:
			t.sugar.Fatalln(msg)
		}
	}},

	// zapgrpc: Info/Warning/Error/Fatal families, Print (Info, or Debug with WithDebug)
	{"zapgrpc.<Level>", "grpc", false, false, only(lInfo, lWarn, lError, lFatal), func(t *rt, l zapcore.Level, msg string) {
		switch l {
		case zapcore.InfoLevel:
			t.grpc.Info(msg)
		case zapcore.WarnLevel:
			t.grpc.Warning(msg)
		case zapcore.ErrorLevel:
			t.grpc.Error(msg)
		case zapcore.FatalLevel:
			t.grpc.Fatal(msg)
		}
	}},
	{"zapgrpc.<Level>ln", "grpc", false, false, only(lInfo, lWarn, lError, lFatal), func(t *rt, l zapcore.Level, msg string) {
		switch l {
		case zapcore.InfoLevel:
			t.grpc.Infoln(msg)
		case zapcore.WarnLevel:
			t.grpc.Warningln(msg)
		case zapcore.ErrorLevel:
			t.grpc.Errorln(msg)
		case zapcore.FatalLevel:
			t.grpc.Fatalln(msg)
		}
	}},
	{"zapgrpc.<Level>f", "grpc", false, false, only(lInfo, lWarn, lError, lFatal), func(t *rt, l zapcore.Level, msg string) {
		switch l {
		case zapcore.InfoLevel:
			t.grpc.Infof("%s", msg)
		case zapcore.WarnLevel:
			t.grpc.Warningf("%s", msg)
		case zapcore.ErrorLevel:
			t.grpc.Errorf("%s", msg)
		case zapcore.FatalLevel:
			t.grpc.Fatalf("%s", msg)
		}
	}},
}

func init() {
	// the Print family: Info level, or Debug level on a logger built WithDebug
	pick := func(t *rt, l zapcore.Level) interface {
		Print(...interface{})
		Println(...interface{})
		Printf(string, ...interface{})
	} {
		if l == zapcore.DebugLevel {
			return t.grpcDebug
		}
		return t.grpc
	}
	frontEnds = append(frontEnds,
		frontEnd{"zapgrpc.Print", "grpc", false, false, only(lInfo, lDebug), func(t *rt, l zapcore.Level, msg string) { pick(t, l).Print(msg) }},
		frontEnd{"zapgrpc.Println", "grpc", false, false, only(lInfo, lDebug), func(t *rt, l zapcore.Level, msg string) { pick(t, l).Println(msg) }},
		frontEnd{"zapgrpc.Printf", "grpc", false, false, only(lInfo, lDebug), func(t *rt, l zapcore.Level, msg string) { pick(t, l).Printf("%s", msg) }},
	)
}

func feByName(name string) *frontEnd {
	for i := range frontEnds {
		if frontEnds[i].name == name {
			return &frontEnds[i]
		}
	}
	return nil
}
