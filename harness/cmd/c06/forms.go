package main

import (
	"errors"
	"fmt"
	"log"
	"reflect"
	"sort"
	"strings"

	"go.uber.org/zap"
	"go.uber.org/zap/zapcore"
	"go.uber.org/zap/zapgrpc"
	"verif/harness/internal/ev"
)

const token = "c06-final-message"

// form is one way of logging at a terminal level through a front end.
type form struct {
	fe      string // front-end method, e.g. "SugaredLogger.Fatalln"
	family  string // Logger | SugaredLogger | zapgrpc.Logger | stdlog
	via     string // direct | global | WithDebug | ...
	variant string // argument shape
	level   zapcore.Level
	msg     string         // message the documentation promises for these arguments
	fields  map[string]any // structured fields the line must carry
	// prepare is run on the harness goroutine; call is run on the case's own
	// goroutine; done is run on the harness goroutine afterwards.
	prepare func(l *zap.Logger) (call func(), done func())
}

func (f form) id() string {
	return fmt.Sprintf("%s|%s|%s|%s", f.fe, f.via, f.level, f.variant)
}

var (
	levelType   = reflect.TypeOf(zapcore.InfoLevel)
	stringType  = reflect.TypeOf("")
	anySlice    = reflect.TypeOf([]interface{}(nil))
	fieldSlice  = reflect.TypeOf([]zapcore.Field(nil))
	checkedType = reflect.TypeOf((*zapcore.CheckedEntry)(nil))
)

var termLevels = []zapcore.Level{zapcore.DPanicLevel, zapcore.PanicLevel, zapcore.FatalLevel}

func prefixLevel(name string) (zapcore.Level, bool) {
	switch {
	case strings.HasPrefix(name, "DPanic"):
		return zapcore.DPanicLevel, true
	case strings.HasPrefix(name, "Panic"):
		return zapcore.PanicLevel, true
	case strings.HasPrefix(name, "Fatal"):
		return zapcore.FatalLevel, true
	}
	return 0, false
}

func style(name string) string {
	switch {
	case strings.HasSuffix(name, "ln"):
		return "ln"
	case strings.HasSuffix(name, "f"):
		return "f"
	case strings.HasSuffix(name, "w"):
		return "w"
	}
	return "plain"
}

func sprintlnTrim(args ...interface{}) string {
	s := fmt.Sprintln(args...)
	return s[:len(s)-1]
}

// receiver describes how to obtain the object whose methods are called.
type receiver struct {
	family string
	via    string
	typ    reflect.Type
	get    func(l *zap.Logger) (recv interface{}, done func())
}

func receivers() []receiver {
	nop := func() {}
	return []receiver{
		{"Logger", "direct", reflect.TypeOf((*zap.Logger)(nil)), func(l *zap.Logger) (interface{}, func()) { return l, nop }},
		{"SugaredLogger", "direct", reflect.TypeOf((*zap.SugaredLogger)(nil)), func(l *zap.Logger) (interface{}, func()) { return l.Sugar(), nop }},
		{"zapgrpc.Logger", "direct", reflect.TypeOf((*zapgrpc.Logger)(nil)), func(l *zap.Logger) (interface{}, func()) { return zapgrpc.NewLogger(l), nop }},
		{"zapgrpc.Logger", "WithDebug", reflect.TypeOf((*zapgrpc.Logger)(nil)), func(l *zap.Logger) (interface{}, func()) {
			return zapgrpc.NewLogger(l, zapgrpc.WithDebug()), nop
		}},
		{"Logger", "global", reflect.TypeOf((*zap.Logger)(nil)), func(l *zap.Logger) (interface{}, func()) {
			undo := zap.ReplaceGlobals(l)
			return zap.L(), undo
		}},
		{"SugaredLogger", "global", reflect.TypeOf((*zap.SugaredLogger)(nil)), func(l *zap.Logger) (interface{}, func()) {
			undo := zap.ReplaceGlobals(l)
			return zap.S(), undo
		}},
	}
}

// argPlan is one argument list for a method, with the documented outcome.
type argPlan struct {
	variant string
	str     string        // value for the string parameter, if any
	args    []interface{} // values for a ...interface{} parameter
	fields  []zapcore.Field
	msg     string
	want    map[string]any
}

// plansFor builds argument lists from the parameter types. Variant "token" is
// independent of the method's formatting style (so a method with an unknown
// suffix is still covered); variant "styled" uses the style the name implies.
func plansFor(name string, hasString, hasArgs, hasFields, returnsCE bool) []argPlan {
	st := style(name)
	var out []argPlan
	switch {
	case hasString && !hasArgs: // (msg, ...Field) or (msg) -> *CheckedEntry
		out = append(out, argPlan{variant: "msg", str: token, msg: token})
		out = append(out, argPlan{variant: "empty-msg", str: "", msg: ""})
		if hasFields || returnsCE {
			out = append(out, argPlan{variant: "msg+field", str: token, fields: []zapcore.Field{zap.String("k", "v")}, msg: token, want: map[string]any{"k": "v"}})
		}
	case hasString && hasArgs: // (template|msg, ...interface{})
		out = append(out, argPlan{variant: "string-only", str: token, msg: token})
		out = append(out, argPlan{variant: "empty-string", str: "", msg: ""})
		switch st {
		case "f":
			out = append(out, argPlan{variant: "template+args", str: token + " %s|%d", args: []interface{}{"x", 7}, msg: fmt.Sprintf(token+" %s|%d", "x", 7)})
		case "w":
			out = append(out, argPlan{variant: "msg+pairs", str: token, args: []interface{}{"k", "v"}, msg: token, want: map[string]any{"k": "v"}})
		}
	case hasArgs: // (...interface{})
		out = append(out, argPlan{variant: "one-arg", args: []interface{}{token}, msg: token})
		switch st {
		case "ln":
			out = append(out, argPlan{variant: "three-args", args: []interface{}{token, "x", 7}, msg: sprintlnTrim(token, "x", 7)})
			out = append(out, argPlan{variant: "no-args", msg: sprintlnTrim()})
		case "plain":
			out = append(out, argPlan{variant: "three-args", args: []interface{}{token, "x", 7}, msg: fmt.Sprint(token, "x", 7)})
			out = append(out, argPlan{variant: "no-args", msg: fmt.Sprint()})
		}
	}
	return out
}

type discovery struct {
	forms   []form
	methods []string // "Type.Method" discovered as front ends
	skipped []string // level-taking or level-named methods that are not log calls
}

// discover enumerates, by reflection over the method sets, every method whose
// name starts with DPanic/Panic/Fatal or that takes a zapcore.Level.
func discover() discovery {
	var d discovery
	seen := map[string]bool{}
	for _, rc := range receivers() {
		rc := rc
		for i := 0; i < rc.typ.NumMethod(); i++ {
			m := rc.typ.Method(i)
			mt := m.Type
			plvl, named := prefixLevel(m.Name)
			takesLevel := false
			for p := 1; p < mt.NumIn(); p++ {
				if mt.In(p) == levelType {
					takesLevel = true
				}
			}
			if !named && !takesLevel {
				continue
			}
			full := rc.family + "." + m.Name
			returnsCE := mt.NumOut() == 1 && mt.Out(0) == checkedType
			if mt.NumOut() != 0 && !returnsCE {
				if !seen["skip:"+full] {
					seen["skip:"+full] = true
					d.skipped = append(d.skipped, full+" (returns "+mt.Out(0).String()+": not a log call)")
				}
				continue
			}
			// classify parameters
			var hasString, hasArgs, hasFields bool
			ok := true
			for p := 1; p < mt.NumIn(); p++ {
				t := mt.In(p)
				last := p == mt.NumIn()-1
				switch {
				case t == levelType:
				case t == stringType && !hasString:
					hasString = true
				case last && mt.IsVariadic() && t == anySlice:
					hasArgs = true
				case last && mt.IsVariadic() && t == fieldSlice:
					hasFields = true
				default:
					ok = false
				}
			}
			if !ok {
				ev.ToolError("C06: cannot build arguments for %s%s - teach plansFor the new signature", full, strings.TrimPrefix(mt.String(), "func"))
			}
			plans := plansFor(m.Name, hasString, hasArgs, hasFields, returnsCE)
			if len(plans) == 0 {
				ev.ToolError("C06: no argument plan for %s%s", full, strings.TrimPrefix(mt.String(), "func"))
			}
			fe := full
			if returnsCE {
				fe += "+Write"
			}
			if !seen[fe] {
				seen[fe] = true
				d.methods = append(d.methods, fe)
			}
			levels := termLevels
			if named {
				levels = []zapcore.Level{plvl}
			}
			for _, lvl := range levels {
				for _, pl := range plans {
					lvl, pl, name := lvl, pl, m.Name
					d.forms = append(d.forms, form{
						fe: fe, family: rc.family, via: rc.via, variant: pl.variant, level: lvl, msg: pl.msg, fields: pl.want,
						prepare: func(l *zap.Logger) (func(), func()) {
							recv, done := rc.get(l)
							mv := reflect.ValueOf(recv).MethodByName(name)
							var in []reflect.Value
							for p := 0; p < mv.Type().NumIn(); p++ {
								t := mv.Type().In(p)
								switch {
								case t == levelType:
									in = append(in, reflect.ValueOf(lvl))
								case t == stringType:
									in = append(in, reflect.ValueOf(pl.str))
								case t == anySlice:
									for _, a := range pl.args {
										in = append(in, reflect.ValueOf(a))
									}
								case t == fieldSlice:
									if !returnsCE {
										for _, f := range pl.fields {
											in = append(in, reflect.ValueOf(f))
										}
									}
								}
							}
							return func() {
								out := mv.Call(in)
								if returnsCE {
									ce := out[0].Interface().(*zapcore.CheckedEntry)
									if ce != nil {
										ce.Write(pl.fields...)
									}
								}
							}, done
						},
					})
				}
			}
		}
	}
	// the std-log bridge at the three levels
	for _, lvl := range termLevels {
		lvl := lvl
		// the bridge logs the text with surrounding white space trimmed; a
		// blank text is the empty message, and the call still terminates
		type stdCall struct {
			name    string
			variant string
			msg     string
			f       func(sl *log.Logger)
		}
		for _, sc := range []stdCall{
			{"Print", "one-arg", token, func(sl *log.Logger) { sl.Print(token) }},
			{"Printf", "one-arg", token, func(sl *log.Logger) { sl.Printf("%s", token) }},
			{"Println", "one-arg", token, func(sl *log.Logger) { sl.Println(token) }},
			{"Output", "one-arg", token, func(sl *log.Logger) { _ = sl.Output(1, token) }},
			{"Print", "empty-string", "", func(sl *log.Logger) { sl.Print("") }},
			{"Print", "empty-error-text", "", func(sl *log.Logger) { sl.Print(errors.New("")) }},
			{"Printf", "blank-text", "", func(sl *log.Logger) { sl.Printf("  \n") }},
			{"Println", "no-args", "", func(sl *log.Logger) { sl.Println() }},
			{"Output", "empty-string", "", func(sl *log.Logger) { _ = sl.Output(2, "") }},
			{"Print", "padded", token, func(sl *log.Logger) { sl.Print("  " + token + " \n\n") }},
		} {
			sc := sc
			d.forms = append(d.forms, form{
				fe: "NewStdLogAt." + sc.name, family: "stdlog", via: "direct", variant: sc.variant, level: lvl, msg: sc.msg,
				prepare: func(l *zap.Logger) (func(), func()) {
					sl, err := zap.NewStdLogAt(l, lvl)
					if err != nil {
						ev.ToolError("C06: NewStdLogAt(%v): %v", lvl, err)
					}
					return func() { sc.f(sl) }, func() {}
				},
			})
		}
		type gCall struct {
			name    string
			variant string
			msg     string
			f       func()
		}
		for _, gc := range []gCall{
			{"Print", "one-arg", token, func() { log.Print(token) }},
			{"Println", "one-arg", token, func() { log.Println(token) }},
			{"Print", "empty-string", "", func() { log.Print("") }},
			{"Println", "no-args", "", func() { log.Println() }},
		} {
			gc := gc
			d.forms = append(d.forms, form{
				fe: "RedirectStdLogAt." + gc.name, family: "stdlog", via: "direct", variant: gc.variant, level: lvl, msg: gc.msg,
				prepare: func(l *zap.Logger) (func(), func()) {
					restore, err := zap.RedirectStdLogAt(l, lvl)
					if err != nil {
						ev.ToolError("C06: RedirectStdLogAt(%v): %v", lvl, err)
					}
					return gc.f, restore
				},
			})
		}
	}
	for _, n := range []string{"NewStdLogAt.Print", "NewStdLogAt.Printf", "NewStdLogAt.Println", "NewStdLogAt.Output", "RedirectStdLogAt.Print", "RedirectStdLogAt.Println"} {
		d.methods = append(d.methods, n)
	}
	sort.Strings(d.methods)
	sort.Strings(d.skipped)
	return d
}
