// Command c06 decides property C06 (Panic and Fatal always terminate, after
// the entry is written and flushed).
//
// Part 1 enumerates, in-process, the full product of core compositions x
// development mode x panic/fatal hook settings x every terminal-level front
// end (discovered by reflection over the method sets of *zap.Logger,
// *zap.SugaredLogger and *zapgrpc.Logger, plus Check+Write, the std-log
// bridge and the globals), runs each call on its own goroutine with zap's
// os.Exit stubbed, and compares the terminal action and the sink state at the
// moment of termination with a reference model.
//
// Part 2 re-executes this binary as a child that logs Fatal/Panic onto real
// files and leaves through the real os.Exit(1) / an uncaught panic; the parent
// checks the exit status and the file contents.
package main

import (
	"encoding/json"
	"fmt"
	"os"
	"path/filepath"
	"runtime"
	"runtime/debug"
	"sort"
	"strconv"
	"strings"
	"time"

	"go.uber.org/zap"
	"go.uber.org/zap/zapcore"
	"go.uber.org/zap/zzverif/bridge"
	"verif/harness/internal/ev"
	"verif/harness/internal/mc"
)

// failure is one violated expectation of one case.
type failure struct {
	fe, family, via string
	kind            string
	cond            string // "<level>-<enabled|disabled|sampled-out>"
	hook, core      string
	derived         string
	message         string // blank | non-blank
	occurrence      string // 1..occurrences: which repetition on the same logger
	history         string // ordinary entries logged before each terminal call
	clock           string // how the logger's clock moves between entries
	dev             bool
	detail          string
	caseID          string
}

// caseSpec is one point of the in-process product.
type caseSpec struct {
	core  coreKind
	dev   bool
	hook  hookSetting
	der   derivation
	form  form
	hist  string
	clock string
}

func (c caseSpec) id() string {
	return fmt.Sprintf("inproc|%s|dev=%v|%s|%s|%s|hist=%s|clock=%s", c.core.name, c.dev, c.hook.name(), c.der.name, c.form.id(), c.hist, c.clock)
}

// outcome is what the harness observed about the call itself.
type outcome struct {
	returned bool
	panicked bool
	panicVal interface{}
	goexit   bool
}

// occurrences is the number of times the terminal call is repeated on the
// same logger / core in every case; each occurrence is checked on its own.
const occurrences = 3

// runCase executes one case - a history on ONE logger: (ordinary entries,
// terminal call) x occurrences - and returns the violated expectations of
// every occurrence.
func runCase(c caseSpec) []failure {
	w := &world{panicHook: &recHook{}, fatalHook: &recHook{}}
	w.errOut = &recSink{w: w, name: "ErrorOutput", must: never}
	lvl := c.form.level
	dev := c.dev || c.core.forceDev
	clock := &recClock{mode: c.clock}
	w.clock = clock
	opts := []zap.Option{zap.WithClock(clock)}
	opts = append(opts, c.hook.opts(w)...)
	var logger *zap.Logger
	if c.core.mk != nil {
		logger = c.core.mk(w, c.dev, opts)
	} else {
		core, extra := c.core.build(w, lvl, c.form.msg)
		opts = append(opts, zap.ErrorOutput(w.errOut))
		if c.dev {
			opts = append(opts, zap.Development())
		}
		opts = append(opts, extra...)
		logger = zap.New(core, opts...)
	}
	logger = c.der.f(logger)
	// a production (non-development, hook-less) logger sharing the very core
	sibling := zap.New(logger.Core(), zap.WithClock(clock), zap.ErrorOutput(w.errOut))
	for i := 0; i < c.core.pre; i++ {
		logger.Info("c06 earlier line", zap.Int("i", i))
	}
	call, done := c.form.prepare(logger)

	cond := c.core.cond(lvl)
	want := expectedAction(lvl, dev, c.hook)
	var fails []failure
	for occ := 1; occ <= occurrences; occ++ {
		// ---- ordinary entries before the terminal call
		w.unwound, w.stub = false, nil
		w.hookBase = w.panicHook.calls + w.fatalHook.calls
		switch c.hist {
		case histOrdinary:
			logger.Info("c06 ordinary info")
			logger.Error("c06 ordinary error")
		case histSibling:
			logger.Info("c06 ordinary info")
			sibling.DPanic("c06 production dpanic on a sibling logger sharing the core")
		case histStopped:
			for _, stop := range w.stoppers {
				stop()
			}
			logger.Info("c06 ordinary info after Stop")
		}
		// ---- marks: what follows belongs to this occurrence
		for _, s := range w.sinks {
			s.begin()
		}
		w.errOut.begin()
		var fileMark int64
		if w.file != nil {
			st, err := w.file.f.Stat()
			if err != nil {
				ev.ToolError("C06: stat scratch: %v", err)
			}
			fileMark = st.Size()
		}
		pBase, fBase := w.panicHook.calls, w.fatalHook.calls
		clockBase := clock.calls

		w.stub = bridge.StubExit()
		var out outcome
		fin := make(chan struct{})
		go func() {
			defer close(fin)
			defer func() {
				r := recover()
				w.unwound = true // the sink state from here on is "after the action"
				if r != nil {
					out.panicked, out.panicVal = true, r
				} else if !out.returned {
					out.goexit = true
				}
			}()
			call()
			out.returned = true
		}()
		<-fin
		w.stub.Unstub()
		var fileData []byte
		if w.file != nil {
			st, err := w.file.f.Stat()
			if err != nil {
				ev.ToolError("C06: stat scratch: %v", err)
			}
			fileData = make([]byte, st.Size()-fileMark)
			if _, err := w.file.f.ReadAt(fileData, fileMark); err != nil && len(fileData) > 0 {
				ev.ToolError("C06: read scratch: %v", err)
			}
		}
		wantTS := ""
		if clock.calls > clockBase {
			wantTS = strconv.FormatInt(clock.last.UnixNano(), 10)
		}

		// ---- compare with the reference model
		occ := occ
		add := func(kind, detail string) {
			fails = append(fails, failure{
				fe: c.form.fe, family: c.form.family, via: c.form.via, kind: kind,
				cond: lvl.String() + "-" + cond, hook: c.hook.relevant(lvl), core: c.core.name, derived: c.der.name, message: shape(c.form.msg), dev: dev,
				occurrence: strconv.Itoa(occ), history: c.hist, clock: c.clock,
				detail: detail, caseID: c.id(),
			})
		}
		pCalls, fCalls := w.panicHook.calls-pBase, w.fatalHook.calls-fBase

		// observed terminal actions
		var got []string
		if out.panicked {
			got = append(got, fmt.Sprintf("panic(%T %q)", out.panicVal, fmt.Sprint(out.panicVal)))
		}
		if out.goexit {
			got = append(got, "Goexit")
		}
		if w.stub.Exited {
			got = append(got, fmt.Sprintf("exit(%d)", w.stub.Code))
		}
		if pCalls > 0 {
			got = append(got, fmt.Sprintf("custom panic hook x%d", pCalls))
		}
		if fCalls > 0 {
			got = append(got, fmt.Sprintf("custom fatal hook x%d", fCalls))
		}
		gotS := strings.Join(got, " + ")
		if gotS == "" {
			gotS = "nothing (the call returned normally)"
		}
		desc := lazyDesc(func() string {
			return fmt.Sprintf("%s(%s) [%s, args %s] at %s on core %s (entry %s), development=%v, hooks %s, logger derivation %s, occurrence %d of %d on the same logger (entries before each: %s; clock: %s)", c.form.fe, c.form.via, c.form.level, c.form.variant, lvl, c.core.name, cond, dev, c.hook.name(), c.der.name, occ, occurrences, c.hist, c.clock)
		})

		only := func(ok bool) bool { return ok && len(got) == 1 }
		switch want {
		case actNone:
			if len(got) != 0 {
				add("terminates-outside-development", fmt.Sprintf("%s: DPanic outside development mode must only log, observed %s", desc, gotS))
			}
		default:
			if len(got) == 0 {
				add("no-terminal-action", fmt.Sprintf("%s: expected %s, observed %s", desc, want, gotS))
				break
			}
			okAct := false
			switch want {
			case actPanicMsg:
				okAct = only(out.panicked)
				if okAct {
					if s, isStr := out.panicVal.(string); !isStr || s != c.form.msg {
						add("panic-value-not-message", fmt.Sprintf("%s: recovered %T %q, want the message %q", desc, out.panicVal, fmt.Sprint(out.panicVal), c.form.msg))
					}
				}
			case actExit1:
				okAct = only(w.stub.Exited)
				if okAct && w.stub.Code != 1 {
					add("exit-status-not-1", fmt.Sprintf("%s: exit status %d", desc, w.stub.Code))
				}
			case actGoexit:
				okAct = only(out.goexit)
			case actCustomPanicHook, actCustomFatalHook:
				h, n, base := w.panicHook, pCalls, pBase
				if want == actCustomFatalHook {
					h, n, base = w.fatalHook, fCalls, fBase
				}
				okAct = only(n > 0)
				if okAct && n != 1 {
					add("hook-not-called-exactly-once", fmt.Sprintf("%s: hook called %d times", desc, n))
				}
				if okAct && h.msgs[base] != c.form.msg {
					add("hook-entry-message", fmt.Sprintf("%s: hook saw message %q, want %q", desc, h.msgs[base], c.form.msg))
				}
			}
			if !okAct {
				add("wrong-terminal-action", fmt.Sprintf("%s: expected exactly %s, observed %s", desc, want, gotS))
			}
		}

		// sink state at the moment the action ran (events after it are "late");
		// seg is what reached the sink during this occurrence's call
		for _, s := range w.sinks {
			if s.lateWrites > 0 {
				add("written-after-terminal-action", fmt.Sprintf("%s: sink %s received %d Write(s) after the terminal action began", desc, s.name, s.lateWrites))
			}
			if !s.must(lvl) {
				continue
			}
			seg := s.data[s.mark:]
			if len(seg) == 0 {
				if s.lateWrites == 0 {
					add("line-missing-at-termination", fmt.Sprintf("%s: sink %s of an accepting core received no bytes for this entry before the action ran (it holds %d bytes of earlier entries; writes=%d syncs=%d)", desc, s.name, s.mark, s.writes, s.syncs))
				}
				continue
			}
			if problem := checkLine(seg, lvl, c.form.msg, c.form.fields, wantTS, c.core.console); problem != "" {
				add("line-incomplete-at-termination", fmt.Sprintf("%s: sink %s: %s", desc, s.name, problem))
				continue
			}
			if want != actNone && !s.synced {
				add("sink-not-synced-at-termination", fmt.Sprintf("%s: sink %s holds the line but Sync was not called after the last Write before the action ran (syncs=%d, late syncs=%d)", desc, s.name, s.syncs, s.lateSyncs))
			}
		}
		// a failing Write on the entry under test is reported on the ErrorOutput
		// before control is lost
		if c.core.wantReport && !strings.Contains(string(w.errOut.data[w.errOut.mark:]), errSinkFailure.Error()) {
			add("write-failure-not-reported-before-termination", fmt.Sprintf("%s: a sink's Write failed on the entry but the logger's ErrorOutput received %q before the action ran (late writes to it: %d)", desc, w.errOut.data[w.errOut.mark:], w.errOut.lateWrites))
		}
		// loggers writing to a real file (preset constructors): contents after the call
		if w.file != nil && w.file.must(lvl) {
			if problem := checkLine(fileData, lvl, c.form.msg, c.form.fields, "", c.core.console); problem != "" {
				kind := "line-incomplete-after-call"
				if len(fileData) == 0 {
					kind = "line-missing-after-call"
				}
				add(kind, fmt.Sprintf("%s: the file behind stderr/stdout: %s", desc, problem))
			}
		}
	}
	done()
	w.unwound, w.stub = false, nil
	w.closed = true
	for _, f := range w.cleanup {
		f()
	}
	return fails
}

// lazyDesc formats the case description only when a failure is reported.
type lazyDesc func() string

func (d lazyDesc) String() string { return d() }

// ---------------------------------------------------------------------------
// aggregation of failures into specific keys

type universe struct {
	dims    map[string]map[string]map[string]bool // fe|cond -> dim -> values exercised
	fesCond map[string]map[string]string          // cond -> fe -> family
}

func newUniverse() *universe {
	return &universe{dims: map[string]map[string]map[string]bool{}, fesCond: map[string]map[string]string{}}
}

func shape(msg string) string {
	if msg == "" {
		return "blank"
	}
	return "non-blank"
}

func (u *universe) note(fe, family, cond, via, hook, core, derived, message, history, clock string, occs int, dev bool) {
	k := fe + "|" + cond
	if u.dims[k] == nil {
		u.dims[k] = map[string]map[string]bool{"via": {}, "hook": {}, "core": {}, "derived": {}, "message": {}, "occurrence": {}, "history": {}, "clock": {}, "development": {}}
	}
	u.dims[k]["message"][message] = true
	u.dims[k]["history"][history] = true
	u.dims[k]["clock"][clock] = true
	for i := 1; i <= occs; i++ {
		u.dims[k]["occurrence"][strconv.Itoa(i)] = true
	}
	u.dims[k]["derived"][derived] = true
	u.dims[k]["via"][via] = true
	u.dims[k]["hook"][hook] = true
	u.dims[k]["core"][core] = true
	u.dims[k]["development"][fmt.Sprint(dev)] = true
	if u.fesCond[cond] == nil {
		u.fesCond[cond] = map[string]string{}
	}
	u.fesCond[cond][fe] = family
}

func keysOf(m map[string]bool) []string {
	var out []string
	for k := range m {
		out = append(out, k)
	}
	sort.Strings(out)
	return out
}

// report groups the failures: (front end, kind, condition) with a qualifier
// for every dimension on which only part of the exercised values fail; front
// ends failing identically are merged only when they make up a whole family
// or the whole set.
func report(run *ev.Run, u *universe, fails []failure) {
	type g1 struct {
		fe, family, kind, cond string
		fs                     []failure
	}
	groups := map[string]*g1{}
	var order []string
	for _, f := range fails {
		k := f.fe + "\x00" + f.kind + "\x00" + f.cond
		if groups[k] == nil {
			groups[k] = &g1{fe: f.fe, family: f.family, kind: f.kind, cond: f.cond}
			order = append(order, k)
		}
		groups[k].fs = append(groups[k].fs, f)
	}
	type g2 struct {
		base string
		cond string
		gs   []*g1
	}
	byBase := map[string]*g2{}
	var baseOrder []string
	for _, k := range order {
		g := groups[k]
		seen := map[string]map[string]bool{"via": {}, "hook": {}, "core": {}, "derived": {}, "message": {}, "occurrence": {}, "history": {}, "clock": {}, "development": {}}
		for _, f := range g.fs {
			seen["message"][f.message] = true
			seen["occurrence"][f.occurrence] = true
			seen["history"][f.history] = true
			seen["clock"][f.clock] = true
			seen["via"][f.via] = true
			seen["derived"][f.derived] = true
			seen["hook"][f.hook] = true
			seen["core"][f.core] = true
			seen["development"][fmt.Sprint(f.dev)] = true
		}
		base := g.kind + ":" + g.cond
		for _, dim := range []string{"message", "occurrence", "history", "clock", "via", "hook", "core", "derived", "development"} {
			all := u.dims[g.fe+"|"+g.cond][dim]
			if len(seen[dim]) < len(all) {
				base += ":" + dim + "=" + strings.Join(keysOf(seen[dim]), ",")
			}
		}
		if byBase[base] == nil {
			byBase[base] = &g2{base: base, cond: g.cond}
			baseOrder = append(baseOrder, base)
		}
		byBase[base].gs = append(byBase[base].gs, g)
	}
	emit := func(name, base string, gs []*g1) {
		n := 0
		var fes []string
		for _, g := range gs {
			n += len(g.fs)
			fes = append(fes, g.fe)
		}
		first := gs[0].fs[0]
		var ids []string
		for _, g := range gs {
			for _, f := range g.fs {
				if len(ids) < 5 {
					ids = append(ids, f.caseID)
				}
			}
		}
		what := fmt.Sprintf("%s (%d failing cases over front ends %s)", first.detail, n, strings.Join(fes, ", "))
		run.Report(name+":"+base, what, map[string]any{"ids": ids, "failing_cases": n, "front_ends": fes})
	}
	for _, base := range baseOrder {
		b := byBase[base]
		allFes := u.fesCond[b.cond]
		if len(b.gs) == len(allFes) && len(allFes) > 1 {
			emit("all-front-ends", base, b.gs)
			continue
		}
		famFail := map[string][]*g1{}
		var famOrder []string
		for _, g := range b.gs {
			if famFail[g.family] == nil {
				famOrder = append(famOrder, g.family)
			}
			famFail[g.family] = append(famFail[g.family], g)
		}
		for _, fam := range famOrder {
			total := 0
			for _, ff := range allFes {
				if ff == fam {
					total++
				}
			}
			if len(famFail[fam]) == total && total > 1 {
				emit(fam+".*", base, famFail[fam])
				continue
			}
			for _, g := range famFail[fam] {
				emit(g.fe, base, []*g1{g})
			}
		}
	}
}

// ---------------------------------------------------------------------------

func main() {
	mc.MaybeWorker(concHandler)
	if len(os.Args) > 1 && os.Args[1] == "child" {
		childMain(os.Args[2:])
		return
	}
	run := ev.Start("C06", "exploration")
	time.AfterFunc(20*time.Minute, func() { ev.ToolError("C06: watchdog: the enumeration did not finish in 20 minutes") })

	replayID := ""
	if rp := os.Getenv("VERIF_REPLAY"); rp != "" {
		b, err := os.ReadFile(rp)
		if err != nil {
			ev.ToolError("replay: %v", err)
		}
		var rf struct {
			Case struct {
				IDs  []string `json:"ids"`
				Item string   `json:"item"`
			} `json:"case"`
		}
		if err := json.Unmarshal(b, &rf); err == nil && strings.HasPrefix(rf.Case.Item, "c06conc|") {
			mc.ReplayFromFile(rp, concHandler) // a recorded schedule of the concurrent part
		}
		if err := json.Unmarshal(b, &rf); err != nil || len(rf.Case.IDs) == 0 {
			ev.ToolError("replay file has no case ids: %v", err)
		}
		replayID = rf.Case.IDs[0]
	}

	debug.SetGCPercent(800)
	d := discover()
	u := newUniverse()
	var fails []failure
	evals := 0
	distinct := map[string]bool{}
	var samples []any

	// ---- part 1: in-process product (sequential: the exit stub, the global
	// loggers and the std logger are process-wide)
	// C06_PART=crash|inproc restricts a run to one part (used when demonstrating
	// which part catches a mutant); a normal run does both.
	part := os.Getenv("C06_PART")
	if err := registerScheme(); err != nil {
		ev.ToolError("C06: RegisterSink: %v", err)
	}
	workBase := filepath.Join(ev.Root, ".work")
	if st, err := os.Stat(workBase); err != nil || !st.IsDir() {
		workBase = os.TempDir()
	}
	var err error
	// the preset loggers fsync their output on every terminal entry: keep the
	// stand-in for stderr/stdout on a memory file system when there is one
	scratchDir := workBase
	if st, err := os.Stat("/dev/shm"); err == nil && st.IsDir() {
		if f, err := os.CreateTemp("/dev/shm", "c06-probe-*"); err == nil {
			f.Close()
			os.Remove(f.Name())
			scratchDir = "/dev/shm"
		}
	}
	scratch, err = os.CreateTemp(scratchDir, "c06-std-*")
	if err != nil {
		ev.ToolError("C06: scratch file: %v", err)
	}

	var kinds []coreKind
	kinds = append(kinds, coreKinds()...)
	kinds = append(kinds, faultKinds()...)
	kinds = append(kinds, configKinds()...)
	kinds = append(kinds, constructorKinds()...)
	nKinds := map[string]int{}
	for _, k := range kinds {
		nKinds[k.group]++
	}
	if part == "crash" {
		kinds = nil
	}
	// hook settings and derivations per group: the healthy product takes the
	// full sets; failing sinks take the paired hook choices; Config-built and
	// preset loggers take unset / WriteThenNoop / custom (quick) or the paired
	// choices (thorough)
	hooksFull := hookSettings(run.Thorough())
	hooksPaired := hookSettings(false)
	hooksSmall := []hookSetting{hooksPaired[0], hooksPaired[2], hooksPaired[4]}
	dersFull := derivations(run.Thorough())
	dersSmall := derivations(true)[:2]
	if run.Thorough() {
		hooksSmall = hooksPaired
		dersSmall = derivations(true)[:3]
	}
	var histClock [][2]string
	for _, h := range []string{histNone, histOrdinary, histSibling, histStopped} {
		for _, cl := range clockModes {
			histClock = append(histClock, [2]string{h, cl})
		}
	}
	// every terminal call runs on a goroutine of its own while the harness
	// goroutine waits: a single P avoids waking idle threads a million times
	procs := 1
	if v, err := strconv.Atoi(os.Getenv("C06_PROCS")); err == nil && v > 0 {
		procs = v
	}
	oldProcs := runtime.GOMAXPROCS(procs)
	outer := 0
	comboSeen := map[string]bool{}
	groupWall := map[string]float64{}
	groupCases := map[string]int{}
	for _, ck := range kinds {
		t1, e1 := time.Now(), evals
		hooks, ders := hooksFull, dersFull
		switch ck.group {
		case "fault":
			hooks = hooksPaired
		case "config", "constructor":
			hooks, ders = hooksSmall, dersSmall
		}
		for _, dev := range []bool{false, true} {
			edev := dev || ck.forceDev
			for _, hs := range hooks {
				// thorough crosses the derivations; quick rotates them with the forms
				derPasses := len(ders)
				if !run.Thorough() {
					derPasses = 1
				}
				for dp := 0; dp < derPasses; dp++ {
					outer++
					for fi, fm := range d.forms {
						der := ders[dp]
						if !run.Thorough() {
							der = ders[(fi+outer)%len(ders)]
						}
						// the (entries-before, clock) combination rotates so that
						// every form meets every combination across the outer
						// dimensions and vice versa
						combo := histClock[(fi+outer)%len(histClock)]
						c := caseSpec{core: ck, dev: dev, hook: hs, der: der, form: fm, hist: combo[0], clock: combo[1]}
						if replayID != "" && c.id() != replayID {
							continue
						}
						cond := fm.level.String() + "-" + ck.cond(fm.level)
						u.note(fm.fe, fm.family, cond, fm.via, hs.relevant(fm.level), ck.name, der.name, shape(fm.msg), c.hist, c.clock, occurrences, edev)
						fs := runCase(c)
						evals++
						distinct[fmt.Sprintf("%s|%s|%s|%s|%v|%s|blank=%v", ck.group, fm.fe, cond, hs.relevant(fm.level), edev, expectedAction(fm.level, edev, hs), fm.msg == "")] = true
						comboSeen[ck.group+"|"+fm.level.String()+"|"+c.hist+"|"+c.clock] = true
						fails = append(fails, fs...)
						if evals%17911 == 1 && len(samples) < 10 {
							samples = append(samples, map[string]any{"case": c.id(), "terminal_calls_on_the_same_logger": occurrences, "expected_action_each_time": expectedAction(fm.level, edev, hs).String(), "expected_message": fm.msg})
						}
					}
				}
			}
		}
		g := ck.group
		if g == "" {
			g = "healthy"
		}
		groupWall[g] += time.Since(t1).Seconds()
		groupCases[g] += evals - e1
	}
	runtime.GOMAXPROCS(oldProcs)
	scratch.Close()
	os.Remove(scratch.Name())
	inproc := evals

	// ---- part 2: real processes
	runs := crashPlan(run.Thorough())
	if part == "inproc" {
		runs = nil
	}
	var todo []crashRun
	for _, r := range runs {
		if replayID != "" && r.id() != replayID {
			continue
		}
		todo = append(todo, r)
	}
	results := runCrash(todo)
	for i, r := range todo {
		u.note(r.feName(), r.family(), r.cond(), "real-process", "unset", "file:"+r.sink, "none", "non-blank", histNone, "real", 1, r.level == "dpanic")
		distinct[fmt.Sprintf("crash|%s|%s|%s", r.sink, r.front, r.level)] = true
		fails = append(fails, results[i]...)
		evals++
		if i%17 == 0 && len(samples) < 14 {
			samples = append(samples, map[string]any{"case": r.id(), "expected_exit_status": r.wantStatus()})
		}
	}

	report(run, u, fails)

	// ---- part 3: the terminal entry under concurrent use of the logger (all schedules within the bound)
	var cs concStats
	if replayID == "" && (part == "" || part == "conc") {
		cs = partConc(run, run.Thorough())
		evals += int(cs.execs)
	}

	run.Assume = []string{
		"concurrent part: scheduling points at synchronisation operations, pool operations and inside the recording sink's Write and Sync; preemption bound as stated; custom panic/fatal hooks stand where the process would be lost and record what is durable in the sink at that moment",
		"zap's exit function is observed through internal/exit.Stub (the bridge): it records that exit was requested and the status, not how often; 'exactly once' is therefore checked for panics, Goexit and custom hooks, 'at least once and nothing else' for the stubbed exit (the real-process part observes the actual exit status)",
		"the custom hook of the alphabet records and returns; hooks that themselves misbehave are outside the statement",
		"histories: per case one logger sees (ordinary entries, terminal call) x 3; what reached a sink during an occurrence's call must consist of complete lines ending with that occurrence's line (earlier buffered entries may be flushed along), so state kept in a core between entries is exercised; histories are bounded at 3 terminal calls and at most 2 ordinary entries before each, with the five listed clock behaviours; forward clock jumps that would reset the sampler window are not in the alphabet",
		"failing sinks: nothing is demanded of the failing sink's own content; a report on ErrorOutput is demanded only where the sink's Write itself fails on the entry (a BufferedWriteSyncer surfaces the failure at the flush inside Sync, whose error the IO core documents it ignores)",
		"preset constructors (NewProduction/NewDevelopment/NewExample) write to stderr/stdout, pointed at a scratch file while the logger is built; their file is inspected after the call returns/unwinds rather than at the instant of the action (the recording-sink kinds and the real-process part cover the ordering)",
		"sinks of cores that do not accept the level, and of sampled-out entries, are not constrained (only 'no Write after the terminal action began')",
		"outside the process only file bytes and exit status are visible; fsync itself is not observable, so the crash part checks that the bytes reached the file (they left every user-space buffer)",
		"front ends: every method of *zap.Logger, *zap.SugaredLogger, *zapgrpc.Logger named DPanic*/Panic*/Fatal* or taking a zapcore.Level and returning nothing or a *CheckedEntry; methods with another result type are listed under skipped_methods",
	}
	run.Finish(map[string]any{
		"evaluations":                        evals,
		"distinct_nontrivial":                len(distinct),
		"rule":                               "every in-process case is a HISTORY on one logger/core: the terminal call is made 3 times on the same logger (the panic recovered / the stubbed exit returned from / the goroutine of a Goexit replaced in between), each time preceded by ordinary entries (none | info+error | info + a non-terminal production DPanic on a sibling logger sharing the core | every BufferedWriteSyncer of the case stopped, then info), under an injected clock (real time.Now stamps well within a second | identical | 1ns apart | 1ns backwards | 1h backwards); the terminal action and the sink state at the moment of the action (line in the underlying sink below any BufferedWriteSyncer - 256KiB/4096/16 byte buffers, 1h flush interval - and Sync after the last Write, the line carrying the time the clock returned for that very entry) are checked for EVERY occurrence; the (entries-before, clock) combination rotates over the cases so that each (kind group, level) meets all 20 combinations. Cases: in-process: four groups of logger kinds (healthy core compositions; cores with failing sinks - Write failing always / from the k-th write, tees in both orders, buffered over a failing sink, failing Sync; loggers built by zap.Config over base x DisableStacktrace x DisableCaller x Level x Sampling with Development as the development dimension; the preset constructors NewProduction/NewDevelopment/NewExample), each as the full product kinds x development x hook settings (panic hook x fatal hook; quick pairs the i-th choices, thorough the full product) x logger derivations (crossed in thorough, rotated with the call forms in quick) x call forms (front-end method x via x level x argument shape, including blank shapes: empty message, empty template, no arguments, and for the std-log bridge empty / white-space-only / padded text), every case run on the real code with the exit stubbed; real-process: sink family x front end x level in a re-executed child leaving through the real os.Exit / uncaught panic; concurrent: every schedule within the preemption bound of one thread making a fatal / panic / development-dpanic call while one or two other threads sync and log through the same logger, over Lock, CombineWriteSyncers(1), BufferedWriteSyncer, Lock(BufferedWriteSyncer) and a tee, the hook recording what is durable in the sink when the terminal action starts. distinct = distinct (kind group, front-end method, level+entry condition, governing hook choice, development, expected action, blank/non-blank message) classes plus distinct child configurations; every class asserts a terminal action (or its absence for DPanic outside development) and the sink state at that moment",
		"samples":                            samples,
		"concurrent_drivers":                 cs.drivers,
		"concurrent_schedules":               cs.execs,
		"concurrent_scheduling_points":       cs.steps,
		"concurrent_distinct_outcomes":       cs.outcomes,
		"concurrent_preemption_bound":        cs.preemptions,
		"concurrent_exhaustive_within_bound": cs.exhaustive,
		"concurrent_families":                concFamilies,
		"exhaustive":                         true,
		"inprocess_cases":                    inproc,
		"child_runs":                         len(todo),
		"terminal_calls_checked":             inproc*occurrences + len(todo),
		"occurrences_per_case":               occurrences,
		"entries_before_each_terminal_call":  []string{histNone, histOrdinary, histSibling, histStopped},
		"clock_modes":                        clockModes,
		"group_level_history_clock_classes":  len(comboSeen),
		"group_cases":                        groupCases,
		"group_wall_s":                       groupWall,
		"cores":                              nKinds[""],
		"failing_sink_cores":                 nKinds["fault"],
		"config_built_kinds":                 nKinds["config"],
		"constructor_kinds":                  nKinds["constructor"],
		"hook_settings":                      len(hooksFull),
		"derivations":                        len(dersFull),
		"call_forms":                         len(d.forms),
		"front_end_methods":                  d.methods,
		"skipped_methods":                    append([]string{}, d.skipped...),
		"levels":                             []string{zapcore.DPanicLevel.String(), zapcore.PanicLevel.String(), zapcore.FatalLevel.String()},
	})
}
