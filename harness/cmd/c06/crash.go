package main

import (
	"bytes"
	"context"
	"encoding/json"
	"errors"
	"fmt"
	"log"
	"os"
	"os/exec"
	"path/filepath"
	"strings"
	"time"

	"go.uber.org/zap"
	"go.uber.org/zap/zapcore"
	"go.uber.org/zap/zapgrpc"
	"verif/harness/internal/ev"
	"verif/harness/internal/par"
)

const (
	crashMsg     = "c06 final line before the process dies"
	preLines     = 3
	statusReturn = 3 // the child's log call returned normally
	statusSetup  = 4 // the child could not set up its files (tool error)
)

// crashRun is one child process.
type crashRun struct {
	sink  string // open | lockfile | buffered | tee2 | buffered-small | tee-buffered | multi | config | disabled
	front string // logger | check | sugar | sugarf | sugarln | grpc | grpcf | grpcln | std | stdredirect | global
	level string // fatal | panic | dpanic (development)
}

func (r crashRun) id() string { return "crash|" + r.sink + "|" + r.front + "|" + r.level }

func (r crashRun) zapLevel() zapcore.Level {
	switch r.level {
	case "fatal":
		return zapcore.FatalLevel
	case "panic":
		return zapcore.PanicLevel
	}
	return zapcore.DPanicLevel
}

func (r crashRun) wantStatus() int {
	if r.level == "fatal" {
		return 1
	}
	return 2 // uncaught panic
}

func (r crashRun) methodPrefix() string {
	switch r.level {
	case "fatal":
		return "Fatal"
	case "panic":
		return "Panic"
	}
	return "DPanic"
}

// feName maps the child's front end onto the names used by the in-process part.
func (r crashRun) feName() string {
	p := r.methodPrefix()
	switch r.front {
	case "logger":
		return "Logger." + p
	case "check":
		return "Logger.Check+Write"
	case "sugar":
		return "SugaredLogger." + p + "w"
	case "sugarf":
		return "SugaredLogger." + p + "f"
	case "sugarln":
		return "SugaredLogger." + p + "ln"
	case "global":
		return "SugaredLogger." + p
	case "grpc":
		return "zapgrpc.Logger.Fatal"
	case "grpcf":
		return "zapgrpc.Logger.Fatalf"
	case "grpcln":
		return "zapgrpc.Logger.Fatalln"
	case "std":
		return "NewStdLogAt.Print"
	case "stdredirect":
		return "RedirectStdLogAt.Print"
	}
	return r.front
}

func (r crashRun) family() string {
	switch {
	case strings.HasPrefix(r.front, "grpc"):
		return "zapgrpc.Logger"
	case strings.HasPrefix(r.front, "std"):
		return "stdlog"
	case strings.HasPrefix(r.front, "sugar"), r.front == "global":
		return "SugaredLogger"
	}
	return "Logger"
}

func (r crashRun) cond() string {
	if r.sink == "disabled" {
		return r.zapLevel().String() + "-" + condDisabled
	}
	return r.zapLevel().String() + "-" + condEnabled
}

func (r crashRun) files() []string {
	switch r.sink {
	case "tee2", "tee-buffered", "multi":
		return []string{"a.log", "b.log"}
	case "disabled":
		return nil
	}
	return []string{"a.log"}
}

func crashPlan(thorough bool) []crashRun {
	sinks := []string{"open", "lockfile", "buffered", "tee2"}
	type fl struct{ front, level string }
	fronts := []fl{{"logger", "fatal"}, {"logger", "panic"}, {"sugar", "fatal"}, {"grpc", "fatal"}, {"std", "panic"}}
	disabled := []fl{{"logger", "fatal"}, {"sugar", "panic"}, {"grpcln", "fatal"}, {"std", "fatal"}}
	if thorough {
		sinks = append(sinks, "buffered-small", "tee-buffered", "multi", "config")
		fronts = nil
		for _, f := range []string{"logger", "check", "sugar", "sugarf", "sugarln", "std", "stdredirect", "global"} {
			for _, l := range []string{"fatal", "panic", "dpanic"} {
				fronts = append(fronts, fl{f, l})
			}
		}
		for _, f := range []string{"grpc", "grpcf", "grpcln"} {
			fronts = append(fronts, fl{f, "fatal"})
		}
		disabled = fronts
	}
	var out []crashRun
	for _, s := range sinks {
		for _, f := range fronts {
			out = append(out, crashRun{s, f.front, f.level})
		}
	}
	for _, f := range disabled {
		out = append(out, crashRun{"disabled", f.front, f.level})
	}
	return out
}

// ---------------------------------------------------------------------------
// parent side

func runCrash(runs []crashRun) [][]failure {
	results := make([][]failure, len(runs))
	if len(runs) == 0 {
		return results
	}
	exe, err := os.Executable()
	if err != nil {
		ev.ToolError("C06: os.Executable: %v", err)
	}
	base := filepath.Join(ev.Root, ".work")
	if st, err := os.Stat(base); err != nil || !st.IsDir() {
		base = os.TempDir()
	}
	root, err := os.MkdirTemp(base, "c06-crash-")
	if err != nil {
		ev.ToolError("C06: MkdirTemp: %v", err)
	}
	defer os.RemoveAll(root)
	par.For(len(runs), func(i int) {
		dir := filepath.Join(root, fmt.Sprintf("run%04d", i))
		if err := os.Mkdir(dir, 0o755); err != nil {
			ev.ToolError("C06: mkdir: %v", err)
		}
		results[i] = runChild(exe, dir, runs[i])
	})
	return results
}

func runChild(exe, dir string, r crashRun) []failure {
	ctx, cancel := context.WithTimeout(context.Background(), 2*time.Minute)
	defer cancel()
	cmd := exec.CommandContext(ctx, exe, "child", r.sink, r.front, r.level, dir)
	var stderr bytes.Buffer
	cmd.Stderr = &stderr
	cmd.Stdout = &stderr
	err := cmd.Run()
	status := 0
	var ee *exec.ExitError
	switch {
	case err == nil:
	case errors.As(err, &ee):
		status = ee.ExitCode()
	default:
		ev.ToolError("C06: cannot run child %s: %v", r.id(), err)
	}
	if ctx.Err() != nil {
		ev.ToolError("C06: child %s did not finish within 2 minutes", r.id())
	}
	if status == statusSetup {
		ev.ToolError("C06: child %s set-up failed: %s", r.id(), stderr.String())
	}
	var fails []failure
	desc := fmt.Sprintf("real process: %s at %s onto sink family %q", r.feName(), r.level, r.sink)
	add := func(kind, detail string) {
		fails = append(fails, failure{
			fe: r.feName(), family: r.family(), via: "real-process", kind: kind, cond: r.cond(),
			hook: "unset", core: "file:" + r.sink, derived: "none", message: "non-blank", occurrence: "1", history: histNone, clock: "real", dev: r.level == "dpanic", detail: desc + ": " + detail, caseID: r.id(),
		})
	}
	tail := stderr.String()
	if len(tail) > 300 {
		tail = tail[:300] + "..."
	}
	switch {
	case status == statusReturn:
		add("no-terminal-action", fmt.Sprintf("the log call returned normally (child exit status %d); expected the process to die with status %d", status, r.wantStatus()))
	case status != r.wantStatus():
		add("wrong-terminal-action", fmt.Sprintf("child exit status %d, want %d; stderr: %q", status, r.wantStatus(), tail))
	case r.wantStatus() == 2 && !strings.Contains(stderr.String(), "panic: "+crashMsg):
		add("panic-value-not-message", fmt.Sprintf("the uncaught panic does not carry the message; stderr: %q", tail))
	}
	for _, name := range r.files() {
		b, err := os.ReadFile(filepath.Join(dir, name))
		if err != nil {
			add("line-missing-at-termination", fmt.Sprintf("file %s: %v", name, err))
			continue
		}
		if problem := checkFile(b, r.zapLevel()); problem != "" {
			kind := "line-incomplete-at-termination"
			if !bytes.Contains(b, []byte(crashMsg)) {
				kind = "line-missing-at-termination"
			}
			add(kind, fmt.Sprintf("file %s after the process died: %s", name, problem))
		}
	}
	return fails
}

// checkFile: every line is complete JSON, the earlier lines are all there and
// the last line is the final message at the right level.
func checkFile(b []byte, lvl zapcore.Level) string {
	if len(b) == 0 {
		return "file is empty"
	}
	if b[len(b)-1] != '\n' {
		return fmt.Sprintf("file does not end with a newline (torn line): ...%q", lastBytes(b, 80))
	}
	lines := strings.Split(strings.TrimSuffix(string(b), "\n"), "\n")
	var last map[string]any
	for i, ln := range lines {
		var obj map[string]any
		if err := json.Unmarshal([]byte(ln), &obj); err != nil {
			return fmt.Sprintf("line %d is not valid JSON: %q", i+1, ln)
		}
		last = obj
	}
	if last["msg"] != crashMsg {
		return fmt.Sprintf("last line has msg %q (of %d lines), want the final message", last["msg"], len(lines))
	}
	if last["level"] != lvl.String() {
		return fmt.Sprintf("last line has level %q, want %q", last["level"], lvl.String())
	}
	if len(lines) != preLines+1 {
		return fmt.Sprintf("%d lines in the file, want %d earlier lines and the final one", len(lines), preLines)
	}
	return ""
}

func lastBytes(b []byte, n int) []byte {
	if len(b) > n {
		return b[len(b)-n:]
	}
	return b
}

// ---------------------------------------------------------------------------
// child side: log onto real files and die through the real terminal action

func childMain(args []string) {
	if len(args) != 4 {
		fmt.Fprintln(os.Stderr, "usage: child <sink> <front> <level> <dir>")
		os.Exit(statusSetup)
	}
	sink, front, level, dir := args[0], args[1], args[2], args[3]
	fail := func(err error) {
		fmt.Fprintln(os.Stderr, "child set-up:", err)
		os.Exit(statusSetup)
	}
	open := func(name string) *os.File {
		f, err := os.OpenFile(filepath.Join(dir, name), os.O_CREATE|os.O_WRONLY|os.O_APPEND, 0o644)
		if err != nil {
			fail(err)
		}
		return f
	}
	enc := func() zapcore.Encoder { return newEncoder() }
	var opts []zap.Option
	if level == "dpanic" {
		opts = append(opts, zap.Development())
	}
	var l *zap.Logger
	var core zapcore.Core
	switch sink {
	case "open":
		ws, _, err := zap.Open(filepath.Join(dir, "a.log"))
		if err != nil {
			fail(err)
		}
		core = zapcore.NewCore(enc(), ws, zapcore.DebugLevel)
	case "lockfile":
		core = zapcore.NewCore(enc(), zapcore.Lock(open("a.log")), zapcore.DebugLevel)
	case "buffered":
		core = zapcore.NewCore(enc(), &zapcore.BufferedWriteSyncer{WS: open("a.log")}, zapcore.DebugLevel)
	case "buffered-small":
		core = zapcore.NewCore(enc(), &zapcore.BufferedWriteSyncer{WS: open("a.log"), Size: 100}, zapcore.DebugLevel)
	case "tee2":
		core = zapcore.NewTee(
			zapcore.NewCore(enc(), zapcore.Lock(open("a.log")), zapcore.DebugLevel),
			zapcore.NewCore(enc(), zapcore.Lock(open("b.log")), zapcore.DebugLevel))
	case "tee-buffered":
		core = zapcore.NewTee(
			zapcore.NewCore(enc(), &zapcore.BufferedWriteSyncer{WS: open("a.log")}, zapcore.DebugLevel),
			zapcore.NewCore(enc(), &zapcore.BufferedWriteSyncer{WS: open("b.log"), Size: 100}, zapcore.DebugLevel))
	case "multi":
		ws := zap.CombineWriteSyncers(&zapcore.BufferedWriteSyncer{WS: open("a.log")}, open("b.log"))
		core = zapcore.NewCore(enc(), ws, zapcore.DebugLevel)
	case "config":
		cfg := zap.NewProductionConfig()
		cfg.OutputPaths = []string{filepath.Join(dir, "a.log")}
		cfg.ErrorOutputPaths = []string{"stderr"}
		cfg.Development = level == "dpanic"
		var err error
		l, err = cfg.Build()
		if err != nil {
			fail(err)
		}
	case "disabled":
		core = zapcore.NewCore(enc(), zapcore.Lock(open("a.log")), zap.NewAtomicLevelAt(aboveFatal))
	default:
		fail(fmt.Errorf("unknown sink %q", sink))
	}
	if l == nil {
		l = zap.New(core, opts...)
	}
	for i := 0; i < preLines; i++ {
		l.Info("c06 earlier line", zap.Int("i", i))
	}
	var lvl zapcore.Level
	switch level {
	case "fatal":
		lvl = zapcore.FatalLevel
	case "panic":
		lvl = zapcore.PanicLevel
	case "dpanic":
		lvl = zapcore.DPanicLevel
	default:
		fail(fmt.Errorf("unknown level %q", level))
	}
	pick := func(fatal, panic_, dpanic func()) {
		switch lvl {
		case zapcore.FatalLevel:
			fatal()
		case zapcore.PanicLevel:
			panic_()
		default:
			dpanic()
		}
	}
	s := l.Sugar()
	switch front {
	case "logger":
		f := zap.Int("n", 1)
		pick(func() { l.Fatal(crashMsg, f) }, func() { l.Panic(crashMsg, f) }, func() { l.DPanic(crashMsg, f) })
	case "check":
		if ce := l.Check(lvl, crashMsg); ce != nil {
			ce.Write(zap.Int("n", 1))
		}
	case "sugar":
		pick(func() { s.Fatalw(crashMsg, "k", "v") }, func() { s.Panicw(crashMsg, "k", "v") }, func() { s.DPanicw(crashMsg, "k", "v") })
	case "sugarf":
		pick(func() { s.Fatalf("%s", crashMsg) }, func() { s.Panicf("%s", crashMsg) }, func() { s.DPanicf("%s", crashMsg) })
	case "sugarln":
		pick(func() { s.Fatalln(crashMsg) }, func() { s.Panicln(crashMsg) }, func() { s.DPanicln(crashMsg) })
	case "global":
		zap.ReplaceGlobals(l)
		pick(func() { zap.S().Fatal(crashMsg) }, func() { zap.S().Panic(crashMsg) }, func() { zap.S().DPanic(crashMsg) })
	case "grpc":
		zapgrpc.NewLogger(l).Fatal(crashMsg)
	case "grpcf":
		zapgrpc.NewLogger(l).Fatalf("%s", crashMsg)
	case "grpcln":
		zapgrpc.NewLogger(l).Fatalln(crashMsg)
	case "std":
		sl, err := zap.NewStdLogAt(l, lvl)
		if err != nil {
			fail(err)
		}
		sl.Print(crashMsg)
	case "stdredirect":
		if _, err := zap.RedirectStdLogAt(l, lvl); err != nil {
			fail(err)
		}
		log.Print(crashMsg)
	default:
		fail(fmt.Errorf("unknown front end %q", front))
	}
	// the terminal action did not take control away
	os.Exit(statusReturn)
}
