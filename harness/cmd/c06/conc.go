package main

import (
	"fmt"
	"strings"
	"time"

	"go.uber.org/zap"
	"go.uber.org/zap/zapcore"
	"go.uber.org/zap/zzverif/vsched"
	"go.uber.org/zap/zzverif/vsync"
	"verif/harness/internal/ev"
	"verif/harness/internal/hx"
	"verif/harness/internal/mc"
)

// ---------------------------------------------------------------------------
// part 3: the terminal entry while other goroutines use the same logger.
//
// The statement's "synced before control is lost" has to hold in a program
// that also logs and syncs from other goroutines (a periodic logger.Sync is
// common). Every schedule within the preemption bound of: one thread making a
// terminal call, one or two threads doing ordinary work on the same logger,
// over every serialising sink family. The terminal hook (custom hooks for
// Panic and Fatal, which run where the process would be lost) records what is
// durable in the sink at that moment: the entry's line must be.

// durSink: Write leaves bytes pending, Sync makes them durable; both take time.
type durSink struct {
	pending, durable []byte
}

func (s *durSink) Write(p []byte) (int, error) {
	vsched.Yield()
	s.pending = append(s.pending, p...)
	return len(p), nil
}

func (s *durSink) Sync() error {
	vsched.Yield()
	s.durable = append(s.durable, s.pending...)
	s.pending = s.pending[:0]
	return nil
}

type snapHook struct {
	sinks *[]*durSink
	snap  *[]string
}

func (h snapHook) OnWrite(ce *zapcore.CheckedEntry, _ []zapcore.Field) {
	x := ce.Message
	for _, s := range *h.sinks {
		x += "\x00" + string(s.durable)
	}
	*h.snap = append(*h.snap, x)
}

var concFamilies = []string{"lock", "combine1", "buffered", "lock(buffered)", "tee(lock,lock)"}
var concTerminal = []string{"fatal", "panic", "dpanic-dev"}
var concOthers = []string{"sync", "info", "sync,sync", "info,sync", "sync,info", "error"}

type concDriver struct {
	family, term string
	others       []string
}

func (d concDriver) String() string {
	return fmt.Sprintf("%s sink; thread 1: %s entry; other threads: %s", d.family, d.term, strings.Join(d.others, " | "))
}

func (d concDriver) mk() mc.Exec {
	var snaps []string
	var sinks []*durSink
	return mc.Exec{
		Body: func() {
			snaps, sinks = nil, nil
			clock := hx.NewFixedClock()
			newSink := func() *durSink { s := &durSink{}; sinks = append(sinks, s); return s }
			enc := func() zapcore.Encoder { return zapcore.NewJSONEncoder(zap.NewProductionEncoderConfig()) }
			var core zapcore.Core
			var bws *zapcore.BufferedWriteSyncer
			switch d.family {
			case "lock":
				core = zapcore.NewCore(enc(), zapcore.Lock(newSink()), zap.DebugLevel)
			case "combine1":
				core = zapcore.NewCore(enc(), zap.CombineWriteSyncers(newSink()), zap.DebugLevel)
			case "buffered":
				bws = &zapcore.BufferedWriteSyncer{WS: newSink(), Size: 4096, Clock: clock, FlushInterval: time.Hour}
				core = zapcore.NewCore(enc(), bws, zap.DebugLevel)
			case "lock(buffered)":
				bws = &zapcore.BufferedWriteSyncer{WS: newSink(), Size: 4096, Clock: clock, FlushInterval: time.Hour}
				core = zapcore.NewCore(enc(), zapcore.Lock(bws), zap.DebugLevel)
			case "tee(lock,lock)":
				core = zapcore.NewTee(zapcore.NewCore(enc(), zapcore.Lock(newSink()), zap.DebugLevel), zapcore.NewCore(enc(), zapcore.Lock(newSink()), zap.DebugLevel))
			}
			h := snapHook{&sinks, &snaps}
			opts := []zap.Option{zap.WithClock(clock), zap.WithFatalHook(h), zap.WithPanicHook(h)}
			if d.term == "dpanic-dev" {
				opts = append(opts, zap.Development())
			}
			lg := zap.New(core, opts...)
			var wg vsync.WaitGroup
			wg.Add(1)
			vsched.Go(func() {
				defer wg.Done()
				switch d.term {
				case "fatal":
					lg.Fatal("TERMINAL")
				case "panic":
					lg.Panic("TERMINAL")
				case "dpanic-dev":
					lg.DPanic("TERMINAL")
				}
			})
			for _, prog := range d.others {
				prog := prog
				wg.Add(1)
				vsched.Go(func() {
					defer wg.Done()
					for _, o := range strings.Split(prog, ",") {
						switch o {
						case "sync":
							_ = lg.Sync()
						case "info":
							lg.Info("other")
						case "error":
							lg.Error("other-error")
						}
					}
				})
			}
			wg.Wait()
			if bws != nil {
				_ = bws.Stop()
			}
		},
		Check: func(vsched.Result) (string, error) {
			if len(snaps) != 1 {
				return "", fmt.Errorf("%v: the terminal hook ran %d times for one %s entry", d, len(snaps), d.term)
			}
			f := strings.Split(snaps[0], "\x00")
			if f[0] != "TERMINAL" {
				return "", fmt.Errorf("%v: the terminal hook was given the entry %q", d, f[0])
			}
			n := 0
			for i, dur := range f[1:] {
				if !strings.Contains(dur, `"msg":"TERMINAL"`) {
					return "", fmt.Errorf("%v: when the terminal action started, the entry's line was not durable in sink %d (durable at that moment: %q): it was still in a buffer or its Sync had not happened", d, i, dur)
				}
				n += strings.Count(dur, "\n")
			}
			return fmt.Sprintf("durable-lines=%d", n), nil
		},
	}
}

type concStats struct {
	drivers     int
	execs       int64
	steps       int64
	outcomes    int
	exhaustive  bool
	maxThreads  int
	preemptions int
}

func concDrivers(thorough bool) []concDriver {
	var ds []concDriver
	for _, fam := range concFamilies {
		for _, term := range concTerminal {
			for i, a := range concOthers {
				ds = append(ds, concDriver{fam, term, []string{a}})
				for _, b := range concOthers[i:] {
					if !thorough && (strings.Contains(a, ",") || strings.Contains(b, ",")) {
						continue
					}
					ds = append(ds, concDriver{fam, term, []string{a, b}})
				}
			}
		}
	}
	return ds
}

func concHandler(item string, replay []int, isReplay bool, journal func([]int)) mc.ItemResult {
	f := strings.Split(item, "|") // c06conc|<tier>|<preemption bound>|<driver index>
	if len(f) != 4 || f[0] != "c06conc" {
		return mc.ItemResult{Item: item, ToolError: "unknown item"}
	}
	var pre, idx int
	fmt.Sscan(f[2], &pre)
	fmt.Sscan(f[3], &idx)
	ds := concDrivers(f[1] == "thorough")
	if idx >= len(ds) {
		return mc.ItemResult{Item: item, ToolError: "driver index out of range"}
	}
	if isReplay {
		_, v := mc.Replay(ds[idx].mk, replay)
		return mc.ItemResult{Item: item, Violation: v}
	}
	st, v := mc.Explore(ds[idx].mk, mc.Bounds{Preempt: pre, Dev: -1}, journal)
	return mc.ItemResult{Item: item, Stats: st, Violation: v}
}

// partConc explores every driver in worker processes.
func partConc(run *ev.Run, thorough bool) concStats {
	pre, tier := 2, "quick"
	if thorough {
		pre, tier = 3, "thorough"
	}
	ds := concDrivers(thorough)
	var items []string
	for i := range ds {
		items = append(items, fmt.Sprintf("c06conc|%s|%d|%d", tier, pre, i))
	}
	var sum mc.Summary
	func() {
		defer func() {
			if p := recover(); p != nil {
				if te, ok := p.(mc.ToolErr); ok {
					ev.ToolError("%s", te.Msg)
				}
				panic(p)
			}
		}()
		sum = mc.Run(items, mc.Options{})
	}()
	for _, v := range sum.Violations {
		var idx int
		fmt.Sscan(strings.Split(v.Item, "|")[3], &idx)
		d := ds[idx]
		key := fmt.Sprintf("concurrent:%s:%s:%s-sink:others=%s", v.Kind, d.term, d.family, strings.Join(d.others, "|"))
		if v.Kind == "oracle" {
			key = fmt.Sprintf("concurrent:line-not-durable-at-termination:%s:%s-sink", d.term, d.family)
		}
		run.Report(key, v.Detail, v)
	}
	return concStats{drivers: len(ds), execs: sum.Execs, steps: sum.Steps, outcomes: len(sum.Outcomes), exhaustive: sum.Exhaustive, maxThreads: sum.MaxThreads, preemptions: pre}
}
