package main

import (
	"encoding/json"
	"fmt"
	"strings"
	"sync"
	"time"

	"go.uber.org/zap"
	"go.uber.org/zap/zapcore"
	"go.uber.org/zap/zzverif/bridge"
)

// ---------------------------------------------------------------------------
// recording sinks and hooks: one "world" per case

// world holds everything a single case can observe.
type world struct {
	sinks     []*recSink
	stub      *bridge.StubbedExit
	panicHook *recHook
	fatalHook *recHook
	unwound   bool // the call's goroutine is unwinding (panic / Goexit) or has returned
	closed    bool // the case is over; later sink calls (cleanup) are ignored
	cleanup   []func()
}

// terminated reports whether the terminal action has begun: the exit stub was
// entered, a custom hook was entered, or the goroutine left the call.
func (w *world) terminated() bool {
	if w.unwound {
		return true
	}
	if w.stub != nil && w.stub.Exited {
		return true
	}
	return w.panicHook.calls+w.fatalHook.calls > 0
}

// recSink is a WriteSyncer that records what reached it before and after the
// terminal action began.
type recSink struct {
	mu     sync.Mutex
	w      *world
	name   string
	must   func(zapcore.Level) bool // the core in front of this sink accepts that level
	data   []byte
	writes int
	syncs  int
	synced bool // Sync was called after the last Write
	// after the terminal action began
	lateWrites int
	lateSyncs  int
}

func (s *recSink) Write(p []byte) (int, error) {
	s.mu.Lock()
	defer s.mu.Unlock()
	if s.w.closed {
		return len(p), nil
	}
	if s.w.terminated() {
		s.lateWrites++
		return len(p), nil
	}
	s.data = append(s.data, p...)
	s.writes++
	s.synced = false
	return len(p), nil
}

func (s *recSink) Sync() error {
	s.mu.Lock()
	defer s.mu.Unlock()
	if s.w.closed {
		return nil
	}
	if s.w.terminated() {
		s.lateSyncs++
		return nil
	}
	s.syncs++
	s.synced = true
	return nil
}

func (w *world) newSink(name string, must func(zapcore.Level) bool) *recSink {
	s := &recSink{w: w, name: name, must: must}
	w.sinks = append(w.sinks, s)
	return s
}

// recHook is the recording custom CheckWriteHook; it returns normally.
type recHook struct {
	calls int
	msgs  []string
}

func (h *recHook) OnWrite(ce *zapcore.CheckedEntry, _ []zapcore.Field) {
	h.calls++
	if ce != nil {
		h.msgs = append(h.msgs, ce.Message)
	} else {
		h.msgs = append(h.msgs, "<nil CheckedEntry>")
	}
}

type discard struct{}

func (discard) Write(p []byte) (int, error) { return len(p), nil }
func (discard) Sync() error                 { return nil }

type constClock struct{}

var t0 = time.Date(2024, 1, 2, 3, 4, 5, 0, time.UTC)

func (constClock) Now() time.Time                         { return t0 }
func (constClock) NewTicker(d time.Duration) *time.Ticker { return time.NewTicker(d) }

func newEncoder() zapcore.Encoder {
	return zapcore.NewJSONEncoder(zapcore.EncoderConfig{
		MessageKey:  "msg",
		LevelKey:    "level",
		EncodeLevel: zapcore.LowercaseLevelEncoder,
	})
}

// ---------------------------------------------------------------------------
// core compositions (the reference model of "who accepts the level" is the
// pair cond / sink.must, written from the documentation of each constructor)

const (
	condEnabled  = "enabled"
	condDisabled = "disabled"
	condSampled  = "sampled-out"
)

func always(zapcore.Level) bool { return true }
func never(zapcore.Level) bool  { return false }
func atLeast(min zapcore.Level) func(zapcore.Level) bool {
	return func(l zapcore.Level) bool { return l >= min }
}

type coreKind struct {
	name string
	// cond says whether an entry at lvl is enabled, disabled or sampled out.
	cond func(lvl zapcore.Level) string
	// build makes the core (and extra logger options) for one case.
	build func(w *world, lvl zapcore.Level, msg string) (zapcore.Core, []zap.Option)
}

func condConst(c string) func(zapcore.Level) string {
	return func(zapcore.Level) string { return c }
}

func condFrom(min zapcore.Level) func(zapcore.Level) string {
	return func(l zapcore.Level) string {
		if l >= min {
			return condEnabled
		}
		return condDisabled
	}
}

var aboveFatal = zapcore.FatalLevel + 1

func coreKinds() []coreKind {
	buffered := func(size int) func(w *world, lvl zapcore.Level, msg string) (zapcore.Core, []zap.Option) {
		return func(w *world, _ zapcore.Level, _ string) (zapcore.Core, []zap.Option) {
			under := w.newSink("underlying", always)
			bws := &zapcore.BufferedWriteSyncer{WS: under, Size: size, FlushInterval: time.Hour}
			w.cleanup = append(w.cleanup, func() { _ = bws.Stop() })
			return zapcore.NewCore(newEncoder(), bws, zapcore.DebugLevel), nil
		}
	}
	return []coreKind{
		{"nop", condConst(condDisabled), func(w *world, _ zapcore.Level, _ string) (zapcore.Core, []zap.Option) {
			return zapcore.NewNopCore(), nil
		}},
		{"io-lock", condConst(condEnabled), func(w *world, _ zapcore.Level, _ string) (zapcore.Core, []zap.Option) {
			return zapcore.NewCore(newEncoder(), zapcore.Lock(w.newSink("a", always)), zapcore.DebugLevel), nil
		}},
		{"io-buffered-default-size", condConst(condEnabled), buffered(0)},
		{"io-buffered-size4096", condConst(condEnabled), buffered(4096)},
		{"io-buffered-size16", condConst(condEnabled), buffered(16)},
		{"sampler-drops-all(first=0,thereafter=0)", condConst(condSampled), func(w *world, _ zapcore.Level, _ string) (zapcore.Core, []zap.Option) {
			inner := zapcore.NewCore(newEncoder(), zapcore.Lock(w.newSink("a", never)), zapcore.DebugLevel)
			return zapcore.NewSamplerWithOptions(inner, time.Hour, 0, 0), nil
		}},
		{"sampler-warmed(first=1,thereafter=1000)", condConst(condSampled), func(w *world, lvl zapcore.Level, msg string) (zapcore.Core, []zap.Option) {
			inner := zapcore.NewCore(newEncoder(), zapcore.Lock(w.newSink("a", never)), zapcore.DebugLevel)
			s := zapcore.NewSamplerWithOptions(inner, time.Hour, 1, 1000)
			// warm-up: the first entry with this level and message is let
			// through by Check (and never written); the call under test is the second.
			_ = s.Check(zapcore.Entry{Level: lvl, Message: msg, Time: t0}, nil)
			return s, nil
		}},
		{"tee(io-lock,io)", condConst(condEnabled), func(w *world, _ zapcore.Level, _ string) (zapcore.Core, []zap.Option) {
			a := zapcore.NewCore(newEncoder(), zapcore.Lock(w.newSink("a", always)), zapcore.DebugLevel)
			b := zapcore.NewCore(newEncoder(), zapcore.AddSync(w.newSink("b", always)), zapcore.DebugLevel)
			return zapcore.NewTee(a, b), nil
		}},
		{"tee(io,io-below-dpanic-only)", condConst(condEnabled), func(w *world, _ zapcore.Level, _ string) (zapcore.Core, []zap.Option) {
			a := zapcore.NewCore(newEncoder(), zapcore.Lock(w.newSink("a", always)), zapcore.DebugLevel)
			low := zap.LevelEnablerFunc(func(l zapcore.Level) bool { return l < zapcore.DPanicLevel })
			b := zapcore.NewCore(newEncoder(), zapcore.Lock(w.newSink("b", never)), low)
			return zapcore.NewTee(a, b), nil
		}},
		{"tee(nop,io-buffered)", condConst(condEnabled), func(w *world, lvl zapcore.Level, msg string) (zapcore.Core, []zap.Option) {
			c, _ := buffered(4096)(w, lvl, msg)
			return zapcore.NewTee(zapcore.NewNopCore(), c), nil
		}},
		{"tee(sampler-drops-all,io-buffered)", condConst(condEnabled), func(w *world, lvl zapcore.Level, msg string) (zapcore.Core, []zap.Option) {
			inner := zapcore.NewCore(newEncoder(), zapcore.Lock(w.newSink("a", never)), zapcore.DebugLevel)
			c, _ := buffered(4096)(w, lvl, msg)
			return zapcore.NewTee(zapcore.NewSamplerWithOptions(inner, time.Hour, 0, 0), c), nil
		}},
		{"sampler-passes(first=100)-over-io-buffered", condConst(condEnabled), func(w *world, lvl zapcore.Level, msg string) (zapcore.Core, []zap.Option) {
			c, _ := buffered(4096)(w, lvl, msg)
			return zapcore.NewSamplerWithOptions(c, time.Hour, 100, 100), nil
		}},
		{"registerhooks(io-lock)", condConst(condEnabled), func(w *world, _ zapcore.Level, _ string) (zapcore.Core, []zap.Option) {
			c := zapcore.NewCore(newEncoder(), zapcore.Lock(w.newSink("a", always)), zapcore.DebugLevel)
			return zapcore.RegisterHooks(c, func(zapcore.Entry) error { return nil }), nil
		}},
		{"io-atomiclevel-above-fatal", condConst(condDisabled), func(w *world, _ zapcore.Level, _ string) (zapcore.Core, []zap.Option) {
			return zapcore.NewCore(newEncoder(), zapcore.Lock(w.newSink("a", never)), zap.NewAtomicLevelAt(aboveFatal)), nil
		}},
		{"io-at-fatal", condFrom(zapcore.FatalLevel), func(w *world, _ zapcore.Level, _ string) (zapcore.Core, []zap.Option) {
			return zapcore.NewCore(newEncoder(), zapcore.Lock(w.newSink("a", atLeast(zapcore.FatalLevel))), zapcore.FatalLevel), nil
		}},
		{"io-at-panic", condFrom(zapcore.PanicLevel), func(w *world, _ zapcore.Level, _ string) (zapcore.Core, []zap.Option) {
			return zapcore.NewCore(newEncoder(), zapcore.Lock(w.newSink("a", atLeast(zapcore.PanicLevel))), zapcore.PanicLevel), nil
		}},
		{"increaselevelcore-above-fatal", condConst(condDisabled), func(w *world, _ zapcore.Level, _ string) (zapcore.Core, []zap.Option) {
			inner := zapcore.NewCore(newEncoder(), zapcore.Lock(w.newSink("a", never)), zapcore.DebugLevel)
			c, err := zapcore.NewIncreaseLevelCore(inner, zap.NewAtomicLevelAt(aboveFatal))
			if err != nil {
				panic(fmt.Sprintf("harness: NewIncreaseLevelCore: %v", err))
			}
			return c, nil
		}},
		{"option-IncreaseLevel(fatal)", condFrom(zapcore.FatalLevel), func(w *world, _ zapcore.Level, _ string) (zapcore.Core, []zap.Option) {
			inner := zapcore.NewCore(newEncoder(), zapcore.Lock(w.newSink("a", atLeast(zapcore.FatalLevel))), zapcore.DebugLevel)
			return inner, []zap.Option{zap.IncreaseLevel(zapcore.FatalLevel)}
		}},
		{"levelenablerfunc-false", condConst(condDisabled), func(w *world, _ zapcore.Level, _ string) (zapcore.Core, []zap.Option) {
			off := zap.LevelEnablerFunc(func(zapcore.Level) bool { return false })
			return zapcore.NewCore(newEncoder(), zapcore.Lock(w.newSink("a", never)), off), nil
		}},
	}
}

// ---------------------------------------------------------------------------
// hook settings and the reference model of the terminal action

type action int

const (
	actNone action = iota
	actPanicMsg
	actExit1
	actGoexit
	actCustomPanicHook
	actCustomFatalHook
)

func (a action) String() string {
	return [...]string{"none", "panic(message)", "exit(1)", "Goexit", "custom panic hook", "custom fatal hook"}[a]
}

type hookChoice struct {
	name string
	opt  func(w *world) zap.Option // nil: option not given
	act  action
}

type hookSetting struct {
	panicC, fatalC hookChoice
}

func (h hookSetting) name() string { return "panic=" + h.panicC.name + ",fatal=" + h.fatalC.name }

// relevant names the hook choice that governs an entry at lvl.
func (h hookSetting) relevant(lvl zapcore.Level) string {
	if lvl == zapcore.FatalLevel {
		return h.fatalC.name
	}
	return h.panicC.name
}

func (h hookSetting) opts(w *world) []zap.Option {
	var out []zap.Option
	if h.panicC.opt != nil {
		out = append(out, h.panicC.opt(w))
	}
	if h.fatalC.opt != nil {
		out = append(out, h.fatalC.opt(w))
	}
	return out
}

// panicChoices / fatalChoices: the documented default action replaces an
// unset, nil or WriteThenNoop hook; every other hook is the action.
func panicChoices() []hookChoice {
	return []hookChoice{
		{"unset", nil, actPanicMsg},
		{"nil", func(*world) zap.Option { return zap.WithPanicHook(nil) }, actPanicMsg},
		{"WriteThenNoop", func(*world) zap.Option { return zap.WithPanicHook(zapcore.WriteThenNoop) }, actPanicMsg},
		{"unset", nil, actPanicMsg}, // pads the quick pairing (with OnFatal(WriteThenNoop))
		{"custom", func(w *world) zap.Option { return zap.WithPanicHook(w.panicHook) }, actCustomPanicHook},
		{"WriteThenGoexit", func(*world) zap.Option { return zap.WithPanicHook(zapcore.WriteThenGoexit) }, actGoexit},
		{"WriteThenFatal", func(*world) zap.Option { return zap.WithPanicHook(zapcore.WriteThenFatal) }, actExit1},
		{"WriteThenPanic", func(*world) zap.Option { return zap.WithPanicHook(zapcore.WriteThenPanic) }, actPanicMsg},
	}
}

func fatalChoices() []hookChoice {
	return []hookChoice{
		{"unset", nil, actExit1},
		{"nil", func(*world) zap.Option { return zap.WithFatalHook(nil) }, actExit1},
		{"WriteThenNoop", func(*world) zap.Option { return zap.WithFatalHook(zapcore.WriteThenNoop) }, actExit1},
		{"OnFatal(WriteThenNoop)", func(*world) zap.Option { return zap.OnFatal(zapcore.WriteThenNoop) }, actExit1},
		{"custom", func(w *world) zap.Option { return zap.WithFatalHook(w.fatalHook) }, actCustomFatalHook},
		{"WriteThenGoexit", func(*world) zap.Option { return zap.WithFatalHook(zapcore.WriteThenGoexit) }, actGoexit},
		{"OnFatal(WriteThenPanic)", func(*world) zap.Option { return zap.OnFatal(zapcore.WriteThenPanic) }, actPanicMsg},
		{"WriteThenFatal", func(*world) zap.Option { return zap.WithFatalHook(zapcore.WriteThenFatal) }, actExit1},
	}
}

// hookSettings: quick pairs the i-th panic choice with the i-th fatal choice
// (every choice of either list occurs); thorough takes the full product.
func hookSettings(thorough bool) []hookSetting {
	ps, fs := panicChoices(), fatalChoices()
	var out []hookSetting
	if !thorough {
		for i := range ps {
			out = append(out, hookSetting{ps[i], fs[i]})
		}
		return out
	}
	for i, p := range ps {
		if i > 0 && p.name == "unset" {
			continue
		}
		for _, f := range fs {
			out = append(out, hookSetting{p, f})
		}
	}
	return out
}

// expectedAction is the reference model: Panic always runs the panic action,
// Fatal always runs the fatal action, DPanic runs the panic action exactly in
// development mode.
func expectedAction(lvl zapcore.Level, dev bool, h hookSetting) action {
	switch lvl {
	case zapcore.FatalLevel:
		return h.fatalC.act
	case zapcore.PanicLevel:
		return h.panicC.act
	case zapcore.DPanicLevel:
		if dev {
			return h.panicC.act
		}
	}
	return actNone
}

// ---------------------------------------------------------------------------
// line oracle

// checkLine verifies that data is exactly one complete JSON line carrying the
// message, the level and the expected fields.
func checkLine(data []byte, lvl zapcore.Level, msg string, fields map[string]any) string {
	if len(data) == 0 {
		return "no bytes"
	}
	if data[len(data)-1] != '\n' {
		return fmt.Sprintf("does not end with a newline: %q", data)
	}
	body := strings.TrimSuffix(string(data), "\n")
	if strings.Contains(body, "\n") {
		return fmt.Sprintf("more than one line: %q", data)
	}
	var obj map[string]any
	if err := json.Unmarshal([]byte(body), &obj); err != nil {
		return fmt.Sprintf("not valid JSON (%v): %q", err, data)
	}
	if obj["msg"] != msg {
		return fmt.Sprintf("msg=%q, want %q", obj["msg"], msg)
	}
	if obj["level"] != lvl.String() {
		return fmt.Sprintf("level=%q, want %q", obj["level"], lvl.String())
	}
	for k, v := range fields {
		if fmt.Sprint(obj[k]) != fmt.Sprint(v) {
			return fmt.Sprintf("field %q=%v, want %v", k, obj[k], v)
		}
	}
	return ""
}

// ---------------------------------------------------------------------------
// derived loggers: the terminal behaviour must survive every derivation

type derivation struct {
	name string
	f    func(l *zap.Logger) *zap.Logger
}

func derivations(thorough bool) []derivation {
	ds := []derivation{
		{"none", func(l *zap.Logger) *zap.Logger { return l }},
		{"With", func(l *zap.Logger) *zap.Logger { return l.With(zap.String("ctx", "c")) }},
	}
	if thorough {
		ds = append(ds,
			derivation{"WithLazy", func(l *zap.Logger) *zap.Logger { return l.WithLazy(zap.String("ctx", "c")) }},
			derivation{"Named", func(l *zap.Logger) *zap.Logger { return l.Named("n") }},
			derivation{"Sugar.With.Desugar", func(l *zap.Logger) *zap.Logger { return l.Sugar().With("ctx", "c").Desugar() }},
			derivation{"WithOptions(AddCaller,AddStacktrace,Fields)", func(l *zap.Logger) *zap.Logger {
				return l.WithOptions(zap.AddCaller(), zap.AddStacktrace(zapcore.DebugLevel), zap.Fields(zap.Int("f", 1)))
			}},
		)
	}
	return ds
}
