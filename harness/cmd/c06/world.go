package main

import (
	"encoding/json"
	"errors"
	"fmt"
	"net/url"
	"os"
	"strconv"
	"strings"
	"sync"
	"time"

	"go.uber.org/zap"
	"go.uber.org/zap/zapcore"
	"go.uber.org/zap/zzverif/bridge"
	"verif/harness/internal/ev"
)

// ---------------------------------------------------------------------------
// recording sinks and hooks: one "world" per case

// world holds everything a single case can observe.
type world struct {
	sinks     []*recSink
	stub      *bridge.StubbedExit
	panicHook *recHook
	fatalHook *recHook
	unwound   bool // the call's goroutine is unwinding (panic / Goexit) or has returned
	closed    bool // the case is over; later sink calls (cleanup) are ignored
	cleanup   []func()
	stoppers  []func()                 // Stop of every BufferedWriteSyncer of the case (history "stopped first")
	clock     *recClock                // the logger's clock
	hookBase  int                      // custom hook calls before the current occurrence
	errOut    *recSink                 // the logger's ErrorOutput
	cfgMust   func(zapcore.Level) bool // for sinks opened by Config.Build through the c06rec scheme
	file      *fileObs                 // a real file behind os.Stderr / os.Stdout (constructor kinds)
}

// fileObs observes a logger that writes to a real *os.File (the constructors
// NewProduction / NewDevelopment / NewExample write to stderr / stdout, which
// are pointed at a scratch file while the logger is built).
type fileObs struct {
	f    *os.File
	off  int64
	must func(zapcore.Level) bool
}

var errSinkFailure = errors.New("c06 sink failure")

// terminated reports whether the terminal action has begun: the exit stub was
// entered, a custom hook was entered, or the goroutine left the call.
func (w *world) terminated() bool {
	if w.unwound {
		return true
	}
	if w.stub != nil && w.stub.Exited {
		return true
	}
	return w.panicHook.calls+w.fatalHook.calls > w.hookBase
}

// recSink is a WriteSyncer that records what reached it before and after the
// terminal action began.
type recSink struct {
	mu     sync.Mutex
	w      *world
	name   string
	must   func(zapcore.Level) bool // the core in front of this sink accepts that level
	data   []byte
	writes int
	syncs  int
	synced bool // Sync was called after the last Write
	// after the terminal action began
	lateWrites int
	lateSyncs  int
	mark       int // len(data) when the current occurrence's call began
	// fault injection
	failFrom int  // Write number from which Write fails (0: never)
	syncFail bool // Sync is recorded but returns an error
	// shortCount: the sink stores every byte but reports one byte less, without an error (a wrapper
	// that under-reports its count; a multi-syncer legitimately returns the smallest count of its members)
	shortCount bool
	attempts   int
}

func (s *recSink) Write(p []byte) (int, error) {
	s.mu.Lock()
	defer s.mu.Unlock()
	if s.w.closed {
		return len(p), nil
	}
	if s.w.terminated() {
		s.lateWrites++
		return len(p), nil
	}
	s.attempts++
	if s.failFrom > 0 && s.attempts >= s.failFrom {
		return 0, errSinkFailure
	}
	s.data = append(s.data, p...)
	s.writes++
	s.synced = false
	if s.shortCount && len(p) > 0 {
		return len(p) - 1, nil
	}
	return len(p), nil
}

func (s *recSink) Sync() error {
	s.mu.Lock()
	defer s.mu.Unlock()
	if s.w.closed {
		return nil
	}
	if s.w.terminated() {
		s.lateSyncs++
		return nil
	}
	s.syncs++
	s.synced = true
	if s.syncFail {
		return errSinkFailure
	}
	return nil
}

// begin marks the start of an occurrence's terminal call.
func (s *recSink) begin() {
	s.mu.Lock()
	defer s.mu.Unlock()
	s.mark = len(s.data)
	s.lateWrites, s.lateSyncs = 0, 0
}

func (w *world) newSink(name string, must func(zapcore.Level) bool) *recSink {
	s := &recSink{w: w, name: name, must: must}
	w.sinks = append(w.sinks, s)
	return s
}

// recHook is the recording custom CheckWriteHook; it returns normally.
type recHook struct {
	calls int
	msgs  []string
}

func (h *recHook) OnWrite(ce *zapcore.CheckedEntry, _ []zapcore.Field) {
	h.calls++
	if ce != nil {
		h.msgs = append(h.msgs, ce.Message)
	} else {
		h.msgs = append(h.msgs, "<nil CheckedEntry>")
	}
}

type discard struct{}

func (discard) Write(p []byte) (int, error) { return len(p), nil }
func (discard) Sync() error                 { return nil }

var t0 = time.Date(2024, 1, 2, 3, 4, 5, 0, time.UTC)

// histories: ordinary entries logged before every terminal call
const (
	histNone     = "none"
	histOrdinary = "info+error"
	histSibling  = "info+production-DPanic-on-sibling-logger"
	histStopped  = "buffered-syncers-stopped+info" // the program stopped its BufferedWriteSyncers (shutdown path) and still logs
)

// clockModes: how the injected clock (zap.WithClock) moves from entry to entry.
var clockModes = []string{"real", "identical", "+1ns", "-1ns", "-1h"}

// recClock is the logger's clock; it remembers the last time it handed out.
type recClock struct {
	mode  string
	calls int
	last  time.Time
}

func (c *recClock) Now() time.Time {
	c.calls++
	switch c.mode {
	case "real":
		c.last = time.Now()
	case "+1ns":
		c.last = t0.Add(time.Duration(c.calls))
	case "-1ns":
		c.last = t0.Add(-time.Duration(c.calls))
	case "-1h":
		c.last = t0.Add(-time.Duration(c.calls) * time.Hour)
	default: // identical
		c.last = t0
	}
	return c.last
}

func (c *recClock) NewTicker(d time.Duration) *time.Ticker { return time.NewTicker(d) }

func newEncoder() zapcore.Encoder {
	return zapcore.NewJSONEncoder(zapcore.EncoderConfig{
		MessageKey:  "msg",
		LevelKey:    "level",
		EncodeLevel: zapcore.LowercaseLevelEncoder,
		TimeKey:     "c06ts",
		EncodeTime: func(t time.Time, enc zapcore.PrimitiveArrayEncoder) {
			enc.AppendString(strconv.FormatInt(t.UnixNano(), 10))
		},
	})
}

// ---------------------------------------------------------------------------
// core compositions (the reference model of "who accepts the level" is the
// pair cond / sink.must, written from the documentation of each constructor)

const (
	condEnabled  = "enabled"
	condDisabled = "disabled"
	condSampled  = "sampled-out"
	condFault    = "enabled-with-failing-sink"
)

func always(zapcore.Level) bool { return true }
func never(zapcore.Level) bool  { return false }
func atLeast(min zapcore.Level) func(zapcore.Level) bool {
	return func(l zapcore.Level) bool { return l >= min }
}

type coreKind struct {
	name string
	// cond says whether an entry at lvl is enabled, disabled or sampled out.
	cond func(lvl zapcore.Level) string
	// build makes the core (and extra logger options) for one case.
	build func(w *world, lvl zapcore.Level, msg string) (zapcore.Core, []zap.Option)

	group string // "" (healthy product) | fault | config | constructor
	// pre is the number of Info entries logged before the call under test.
	pre int
	// wantReport: a sink Write fails on the entry under test and the failure
	// must show up on the logger's ErrorOutput.
	wantReport bool
	// mk, when set, builds the whole logger (Config.Build and the preset
	// constructors); dev is the case's development flag.
	mk func(w *world, dev bool, opts []zap.Option) *zap.Logger
	// forceDev: the constructor itself puts the logger in development mode.
	forceDev bool
	// console: the logger uses the console encoder.
	console bool
}

func condConst(c string) func(zapcore.Level) string {
	return func(zapcore.Level) string { return c }
}

func condFrom(min zapcore.Level) func(zapcore.Level) string {
	return func(l zapcore.Level) string {
		if l >= min {
			return condEnabled
		}
		return condDisabled
	}
}

var aboveFatal = zapcore.FatalLevel + 1

func coreKinds() []coreKind {
	buffered := func(size int) func(w *world, lvl zapcore.Level, msg string) (zapcore.Core, []zap.Option) {
		return func(w *world, _ zapcore.Level, _ string) (zapcore.Core, []zap.Option) {
			under := w.newSink("underlying", always)
			bws := &zapcore.BufferedWriteSyncer{WS: under, Size: size, FlushInterval: time.Hour}
			w.cleanup = append(w.cleanup, func() { _ = bws.Stop() })
			w.stoppers = append(w.stoppers, func() { _ = bws.Stop() })
			return zapcore.NewCore(newEncoder(), bws, zapcore.DebugLevel), nil
		}
	}
	return []coreKind{
		{name: "nop", cond: condConst(condDisabled), build: func(w *world, _ zapcore.Level, _ string) (zapcore.Core, []zap.Option) {
			return zapcore.NewNopCore(), nil
		}},
		{name: "io-lock", cond: condConst(condEnabled), build: func(w *world, _ zapcore.Level, _ string) (zapcore.Core, []zap.Option) {
			return zapcore.NewCore(newEncoder(), zapcore.Lock(w.newSink("a", always)), zapcore.DebugLevel), nil
		}},
		{name: "io-buffered-default-size", cond: condConst(condEnabled), build: buffered(0)},
		{name: "io-buffered-size4096", cond: condConst(condEnabled), build: buffered(4096)},
		{name: "io-buffered-size16", cond: condConst(condEnabled), build: buffered(16)},
		{name: "io-multi(buffered,short-count-sink)", cond: condConst(condEnabled), build: func(w *world, _ zapcore.Level, _ string) (zapcore.Core, []zap.Option) {
			// one IO core over two destinations: a buffered one and one that under-reports its byte count
			// (no error): the count is not an error, and the terminal Sync still has to reach the buffered one
			under := w.newSink("underlying", always)
			bws := &zapcore.BufferedWriteSyncer{WS: under, Size: 4096, FlushInterval: time.Hour}
			w.cleanup = append(w.cleanup, func() { _ = bws.Stop() })
			w.stoppers = append(w.stoppers, func() { _ = bws.Stop() })
			short := w.newSink("short-count", always)
			short.shortCount = true
			return zapcore.NewCore(newEncoder(), zapcore.NewMultiWriteSyncer(bws, short), zapcore.DebugLevel), nil
		}},
		{name: "io-short-count-sink", cond: condConst(condEnabled), build: func(w *world, _ zapcore.Level, _ string) (zapcore.Core, []zap.Option) {
			short := w.newSink("short-count", always)
			short.shortCount = true
			return zapcore.NewCore(newEncoder(), zapcore.Lock(short), zapcore.DebugLevel), nil
		}},
		{name: "sampler-drops-all(first=0,thereafter=0)", cond: condConst(condSampled), build: func(w *world, _ zapcore.Level, _ string) (zapcore.Core, []zap.Option) {
			inner := zapcore.NewCore(newEncoder(), zapcore.Lock(w.newSink("a", never)), zapcore.DebugLevel)
			return zapcore.NewSamplerWithOptions(inner, time.Hour, 0, 0), nil
		}},
		{name: "sampler-warmed(first=1,thereafter=1000)", cond: condConst(condSampled), build: func(w *world, lvl zapcore.Level, msg string) (zapcore.Core, []zap.Option) {
			inner := zapcore.NewCore(newEncoder(), zapcore.Lock(w.newSink("a", never)), zapcore.DebugLevel)
			s := zapcore.NewSamplerWithOptions(inner, time.Hour, 1, 1000)
			// warm-up: the first entry with this level and message is let
			// through by Check (and never written); the call under test is the second.
			_ = s.Check(zapcore.Entry{Level: lvl, Message: msg, Time: w.clock.Now()}, nil)
			return s, nil
		}},
		{name: "tee(io-lock,io)", cond: condConst(condEnabled), build: func(w *world, _ zapcore.Level, _ string) (zapcore.Core, []zap.Option) {
			a := zapcore.NewCore(newEncoder(), zapcore.Lock(w.newSink("a", always)), zapcore.DebugLevel)
			b := zapcore.NewCore(newEncoder(), zapcore.AddSync(w.newSink("b", always)), zapcore.DebugLevel)
			return zapcore.NewTee(a, b), nil
		}},
		{name: "tee(io,io-below-dpanic-only)", cond: condConst(condEnabled), build: func(w *world, _ zapcore.Level, _ string) (zapcore.Core, []zap.Option) {
			a := zapcore.NewCore(newEncoder(), zapcore.Lock(w.newSink("a", always)), zapcore.DebugLevel)
			low := zap.LevelEnablerFunc(func(l zapcore.Level) bool { return l < zapcore.DPanicLevel })
			b := zapcore.NewCore(newEncoder(), zapcore.Lock(w.newSink("b", never)), low)
			return zapcore.NewTee(a, b), nil
		}},
		{name: "tee(nop,io-buffered)", cond: condConst(condEnabled), build: func(w *world, lvl zapcore.Level, msg string) (zapcore.Core, []zap.Option) {
			c, _ := buffered(4096)(w, lvl, msg)
			return zapcore.NewTee(zapcore.NewNopCore(), c), nil
		}},
		{name: "tee(sampler-drops-all,io-buffered)", cond: condConst(condEnabled), build: func(w *world, lvl zapcore.Level, msg string) (zapcore.Core, []zap.Option) {
			inner := zapcore.NewCore(newEncoder(), zapcore.Lock(w.newSink("a", never)), zapcore.DebugLevel)
			c, _ := buffered(4096)(w, lvl, msg)
			return zapcore.NewTee(zapcore.NewSamplerWithOptions(inner, time.Hour, 0, 0), c), nil
		}},
		{name: "tee(io-buffered,sampler-drops-all)", cond: condConst(condEnabled), build: func(w *world, lvl zapcore.Level, msg string) (zapcore.Core, []zap.Option) {
			// the accepting branch FIRST: a later branch that declines must not take it off the checked entry
			inner := zapcore.NewCore(newEncoder(), zapcore.Lock(w.newSink("a", never)), zapcore.DebugLevel)
			c, _ := buffered(4096)(w, lvl, msg)
			return zapcore.NewTee(c, zapcore.NewSamplerWithOptions(inner, time.Hour, 0, 0)), nil
		}},
		{name: "sampler-passes(first=100)-over-io-buffered", cond: condConst(condEnabled), build: func(w *world, lvl zapcore.Level, msg string) (zapcore.Core, []zap.Option) {
			c, _ := buffered(4096)(w, lvl, msg)
			return zapcore.NewSamplerWithOptions(c, time.Hour, 100, 100), nil
		}},
		{name: "registerhooks(io-lock)", cond: condConst(condEnabled), build: func(w *world, _ zapcore.Level, _ string) (zapcore.Core, []zap.Option) {
			c := zapcore.NewCore(newEncoder(), zapcore.Lock(w.newSink("a", always)), zapcore.DebugLevel)
			return zapcore.RegisterHooks(c, func(zapcore.Entry) error { return nil }), nil
		}},
		{name: "io-atomiclevel-above-fatal", cond: condConst(condDisabled), build: func(w *world, _ zapcore.Level, _ string) (zapcore.Core, []zap.Option) {
			return zapcore.NewCore(newEncoder(), zapcore.Lock(w.newSink("a", never)), zap.NewAtomicLevelAt(aboveFatal)), nil
		}},
		{name: "io-at-fatal", cond: condFrom(zapcore.FatalLevel), build: func(w *world, _ zapcore.Level, _ string) (zapcore.Core, []zap.Option) {
			return zapcore.NewCore(newEncoder(), zapcore.Lock(w.newSink("a", atLeast(zapcore.FatalLevel))), zapcore.FatalLevel), nil
		}},
		{name: "io-at-panic", cond: condFrom(zapcore.PanicLevel), build: func(w *world, _ zapcore.Level, _ string) (zapcore.Core, []zap.Option) {
			return zapcore.NewCore(newEncoder(), zapcore.Lock(w.newSink("a", atLeast(zapcore.PanicLevel))), zapcore.PanicLevel), nil
		}},
		{name: "increaselevelcore-above-fatal", cond: condConst(condDisabled), build: func(w *world, _ zapcore.Level, _ string) (zapcore.Core, []zap.Option) {
			inner := zapcore.NewCore(newEncoder(), zapcore.Lock(w.newSink("a", never)), zapcore.DebugLevel)
			c, err := zapcore.NewIncreaseLevelCore(inner, zap.NewAtomicLevelAt(aboveFatal))
			if err != nil {
				panic(fmt.Sprintf("harness: NewIncreaseLevelCore: %v", err))
			}
			return c, nil
		}},
		{name: "option-IncreaseLevel(fatal)", cond: condFrom(zapcore.FatalLevel), build: func(w *world, _ zapcore.Level, _ string) (zapcore.Core, []zap.Option) {
			inner := zapcore.NewCore(newEncoder(), zapcore.Lock(w.newSink("a", atLeast(zapcore.FatalLevel))), zapcore.DebugLevel)
			return inner, []zap.Option{zap.IncreaseLevel(zapcore.FatalLevel)}
		}},
		{name: "levelenablerfunc-false", cond: condConst(condDisabled), build: func(w *world, _ zapcore.Level, _ string) (zapcore.Core, []zap.Option) {
			off := zap.LevelEnablerFunc(func(zapcore.Level) bool { return false })
			return zapcore.NewCore(newEncoder(), zapcore.Lock(w.newSink("a", never)), off), nil
		}},
	}
}

// ---------------------------------------------------------------------------
// hook settings and the reference model of the terminal action

type action int

const (
	actNone action = iota
	actPanicMsg
	actExit1
	actGoexit
	actCustomPanicHook
	actCustomFatalHook
)

func (a action) String() string {
	return [...]string{"none", "panic(message)", "exit(1)", "Goexit", "custom panic hook", "custom fatal hook"}[a]
}

type hookChoice struct {
	name string
	opt  func(w *world) zap.Option // nil: option not given
	act  action
}

type hookSetting struct {
	panicC, fatalC hookChoice
}

func (h hookSetting) name() string { return "panic=" + h.panicC.name + ",fatal=" + h.fatalC.name }

// relevant names the hook choice that governs an entry at lvl.
func (h hookSetting) relevant(lvl zapcore.Level) string {
	if lvl == zapcore.FatalLevel {
		return h.fatalC.name
	}
	return h.panicC.name
}

func (h hookSetting) opts(w *world) []zap.Option {
	var out []zap.Option
	if h.panicC.opt != nil {
		out = append(out, h.panicC.opt(w))
	}
	if h.fatalC.opt != nil {
		out = append(out, h.fatalC.opt(w))
	}
	return out
}

// panicChoices / fatalChoices: the documented default action replaces an
// unset, nil or WriteThenNoop hook; every other hook is the action.
func panicChoices() []hookChoice {
	return []hookChoice{
		{"unset", nil, actPanicMsg},
		{"nil", func(*world) zap.Option { return zap.WithPanicHook(nil) }, actPanicMsg},
		{"WriteThenNoop", func(*world) zap.Option { return zap.WithPanicHook(zapcore.WriteThenNoop) }, actPanicMsg},
		{"unset", nil, actPanicMsg}, // pads the quick pairing (with OnFatal(WriteThenNoop))
		{"custom", func(w *world) zap.Option { return zap.WithPanicHook(w.panicHook) }, actCustomPanicHook},
		{"WriteThenGoexit", func(*world) zap.Option { return zap.WithPanicHook(zapcore.WriteThenGoexit) }, actGoexit},
		{"WriteThenFatal", func(*world) zap.Option { return zap.WithPanicHook(zapcore.WriteThenFatal) }, actExit1},
		{"WriteThenPanic", func(*world) zap.Option { return zap.WithPanicHook(zapcore.WriteThenPanic) }, actPanicMsg},
	}
}

func fatalChoices() []hookChoice {
	return []hookChoice{
		{"unset", nil, actExit1},
		{"nil", func(*world) zap.Option { return zap.WithFatalHook(nil) }, actExit1},
		{"WriteThenNoop", func(*world) zap.Option { return zap.WithFatalHook(zapcore.WriteThenNoop) }, actExit1},
		{"OnFatal(WriteThenNoop)", func(*world) zap.Option { return zap.OnFatal(zapcore.WriteThenNoop) }, actExit1},
		{"custom", func(w *world) zap.Option { return zap.WithFatalHook(w.fatalHook) }, actCustomFatalHook},
		{"WriteThenGoexit", func(*world) zap.Option { return zap.WithFatalHook(zapcore.WriteThenGoexit) }, actGoexit},
		{"OnFatal(WriteThenPanic)", func(*world) zap.Option { return zap.OnFatal(zapcore.WriteThenPanic) }, actPanicMsg},
		{"WriteThenFatal", func(*world) zap.Option { return zap.WithFatalHook(zapcore.WriteThenFatal) }, actExit1},
	}
}

// hookSettings: quick pairs the i-th panic choice with the i-th fatal choice
// (every choice of either list occurs); thorough takes the full product.
func hookSettings(thorough bool) []hookSetting {
	ps, fs := panicChoices(), fatalChoices()
	var out []hookSetting
	if !thorough {
		for i := range ps {
			out = append(out, hookSetting{ps[i], fs[i]})
		}
		return out
	}
	for i, p := range ps {
		if i > 0 && p.name == "unset" {
			continue
		}
		for _, f := range fs {
			out = append(out, hookSetting{p, f})
		}
	}
	return out
}

// expectedAction is the reference model: Panic always runs the panic action,
// Fatal always runs the fatal action, DPanic runs the panic action exactly in
// development mode.
func expectedAction(lvl zapcore.Level, dev bool, h hookSetting) action {
	switch lvl {
	case zapcore.FatalLevel:
		return h.fatalC.act
	case zapcore.PanicLevel:
		return h.panicC.act
	case zapcore.DPanicLevel:
		if dev {
			return h.panicC.act
		}
	}
	return actNone
}

// ---------------------------------------------------------------------------
// line oracle

// checkLine verifies what reached a sink during one terminal call: complete
// lines only (earlier, buffered entries may be flushed along), the last of
// which is the JSON line carrying the message, the level, the expected fields
// and - where the encoder writes it - the time the clock handed out for this
// entry. For the console encoder (whose stack traces span several lines) it
// checks that the output is newline-terminated and that the last line carrying
// the capitalised level also carries the message.
func checkLine(data []byte, lvl zapcore.Level, msg string, fields map[string]any, wantTS string, console bool) string {
	if len(data) == 0 {
		return "no bytes"
	}
	if data[len(data)-1] != '\n' {
		return fmt.Sprintf("does not end with a newline: %q", data)
	}
	lines := strings.Split(strings.TrimSuffix(string(data), "\n"), "\n")
	if console {
		tag := "\t" + lvl.CapitalString() + "\t"
		for i := len(lines) - 1; i >= 0; i-- {
			if strings.Contains(lines[i], tag) {
				if !strings.Contains(lines[i], "\t"+msg) {
					return fmt.Sprintf("console line %q does not carry the message %q", lines[i], msg)
				}
				return ""
			}
		}
		return fmt.Sprintf("no console line at level %s: %q", lvl.CapitalString(), data)
	}
	var obj map[string]any
	for i, ln := range lines {
		obj = nil
		if err := json.Unmarshal([]byte(ln), &obj); err != nil {
			return fmt.Sprintf("line %d of %d is not valid JSON (%v): %q", i+1, len(lines), err, data)
		}
	}
	if obj["msg"] != msg {
		return fmt.Sprintf("last line has msg=%q, want %q", obj["msg"], msg)
	}
	if obj["level"] != lvl.String() {
		return fmt.Sprintf("last line has level=%q, want %q", obj["level"], lvl.String())
	}
	if ts, ok := obj["c06ts"]; ok && wantTS != "" && ts != wantTS {
		return fmt.Sprintf("last line has time %v, want %s (the time the logger's clock returned for this entry)", ts, wantTS)
	}
	for k, v := range fields {
		if fmt.Sprint(obj[k]) != fmt.Sprint(v) {
			return fmt.Sprintf("field %q=%v, want %v", k, obj[k], v)
		}
	}
	return ""
}

// ---------------------------------------------------------------------------
// derived loggers: the terminal behaviour must survive every derivation

type derivation struct {
	name string
	f    func(l *zap.Logger) *zap.Logger
}

func derivations(thorough bool) []derivation {
	ds := []derivation{
		{"none", func(l *zap.Logger) *zap.Logger { return l }},
		{"With", func(l *zap.Logger) *zap.Logger { return l.With(zap.String("ctx", "c")) }},
	}
	if thorough {
		ds = append(ds,
			derivation{"WithLazy", func(l *zap.Logger) *zap.Logger { return l.WithLazy(zap.String("ctx", "c")) }},
			derivation{"Named", func(l *zap.Logger) *zap.Logger { return l.Named("n") }},
			derivation{"Sugar.With.Desugar", func(l *zap.Logger) *zap.Logger { return l.Sugar().With("ctx", "c").Desugar() }},
			derivation{"WithOptions(AddCaller,AddStacktrace,Fields)", func(l *zap.Logger) *zap.Logger {
				return l.WithOptions(zap.AddCaller(), zap.AddStacktrace(zapcore.DebugLevel), zap.Fields(zap.Int("f", 1)))
			}},
		)
	}
	return ds
}

// ---------------------------------------------------------------------------
// cores with failing sinks: the terminal action must run all the same, every
// healthy accepting sink holds the line and was synced, and (where a Write
// itself fails) the failure is reported on the logger's ErrorOutput

func faultKinds() []coreKind {
	fc := condConst(condFault)
	io := func(s *recSink) zapcore.Core {
		return zapcore.NewCore(newEncoder(), zapcore.Lock(s), zapcore.DebugLevel)
	}
	failing := func(w *world, name string, from int) *recSink {
		s := w.newSink(name, never) // nothing is demanded of the failing sink's content
		s.failFrom = from
		return s
	}
	bufferedOver := func(size, from int) func(w *world, lvl zapcore.Level, msg string) (zapcore.Core, []zap.Option) {
		return func(w *world, _ zapcore.Level, _ string) (zapcore.Core, []zap.Option) {
			bws := &zapcore.BufferedWriteSyncer{WS: failing(w, "failing-underlying", from), Size: size, FlushInterval: time.Hour}
			w.cleanup = append(w.cleanup, func() { _ = bws.Stop() })
			w.stoppers = append(w.stoppers, func() { _ = bws.Stop() })
			return zapcore.NewCore(newEncoder(), bws, zapcore.DebugLevel), nil
		}
	}
	ks := []coreKind{
		{name: "io-write-fails", cond: fc, wantReport: true, build: func(w *world, _ zapcore.Level, _ string) (zapcore.Core, []zap.Option) {
			return io(failing(w, "failing", 1)), nil
		}},
		{name: "io-fails-from-3rd-write", cond: fc, pre: 2, wantReport: true, build: func(w *world, _ zapcore.Level, _ string) (zapcore.Core, []zap.Option) {
			return io(failing(w, "failing", 3)), nil
		}},
		{name: "tee(io-healthy,io-write-fails)", cond: fc, wantReport: true, build: func(w *world, _ zapcore.Level, _ string) (zapcore.Core, []zap.Option) {
			return zapcore.NewTee(io(w.newSink("healthy", always)), io(failing(w, "failing", 1))), nil
		}},
		{name: "tee(io-write-fails,io-healthy)", cond: fc, wantReport: true, build: func(w *world, _ zapcore.Level, _ string) (zapcore.Core, []zap.Option) {
			return zapcore.NewTee(io(failing(w, "failing", 1)), io(w.newSink("healthy", always))), nil
		}},
		{name: "tee(io-healthy,io-fails-from-3rd-write)", cond: fc, pre: 2, wantReport: true, build: func(w *world, _ zapcore.Level, _ string) (zapcore.Core, []zap.Option) {
			return zapcore.NewTee(io(w.newSink("healthy", always)), io(failing(w, "failing", 3))), nil
		}},
		{name: "tee(io-fails-from-3rd-write,io-healthy)", cond: fc, pre: 2, wantReport: true, build: func(w *world, _ zapcore.Level, _ string) (zapcore.Core, []zap.Option) {
			return zapcore.NewTee(io(failing(w, "failing", 3)), io(w.newSink("healthy", always))), nil
		}},
		// a buffered sink may surface the failure only at the flush inside
		// Sync, whose error the IO core ignores: no report is demanded
		{name: "io-buffered-size4096-over-failing-sink", cond: fc, build: bufferedOver(4096, 1)},
		{name: "io-buffered-size16-over-failing-sink", cond: fc, build: bufferedOver(16, 1)},
		{name: "tee(io-buffered-over-failing-sink,io-healthy)", cond: fc, build: func(w *world, lvl zapcore.Level, msg string) (zapcore.Core, []zap.Option) {
			c, _ := bufferedOver(4096, 1)(w, lvl, msg)
			return zapcore.NewTee(c, io(w.newSink("healthy", always))), nil
		}},
		{name: "io-sync-fails", cond: fc, build: func(w *world, _ zapcore.Level, _ string) (zapcore.Core, []zap.Option) {
			s := w.newSink("sync-failing", always) // Write works: the line must be there, and Sync attempted
			s.syncFail = true
			return io(s), nil
		}},
	}
	for i := range ks {
		ks[i].group = "fault"
	}
	return ks
}

// ---------------------------------------------------------------------------
// loggers built by zap.Config and by the preset constructors

// curWorld is the world of the case whose logger is being built: the c06rec
// sink scheme hands out that world's recording sinks.
var curWorld *world

type schemeSink struct{ *recSink }

func (schemeSink) Close() error { return nil }

func registerScheme() error {
	return zap.RegisterSink("c06rec", func(u *url.URL) (zap.Sink, error) {
		w := curWorld
		if w == nil {
			return nil, errors.New("c06rec: no current case")
		}
		if u.Host == "err" {
			return schemeSink{w.errOut}, nil
		}
		return schemeSink{w.newSink("config-output", w.cfgMust)}, nil
	})
}

func configKinds() []coreKind {
	var ks []coreKind
	for _, base := range []string{"production", "development"} {
		for _, noStack := range []bool{false, true} {
			for _, noCaller := range []bool{false, true} {
				for _, lvlName := range []string{"debug", "above-fatal"} {
					for _, samp := range []string{"nil", "100/100", "0/0"} {
						base, noStack, noCaller, lvlName, samp := base, noStack, noCaller, lvlName, samp
						cond, must := condEnabled, always
						switch {
						case lvlName == "above-fatal":
							cond, must = condDisabled, never
						case samp == "0/0":
							cond, must = condSampled, never
						}
						ks = append(ks, coreKind{
							name:    fmt.Sprintf("Config(%s,DisableStacktrace=%v,DisableCaller=%v,Level=%s,Sampling=%s)", base, noStack, noCaller, lvlName, samp),
							group:   "config",
							cond:    condConst(cond),
							console: base == "development",
							mk: func(w *world, dev bool, opts []zap.Option) *zap.Logger {
								cfg := zap.NewProductionConfig()
								if base == "development" {
									cfg = zap.NewDevelopmentConfig()
								}
								cfg.Development = dev
								cfg.DisableStacktrace = noStack
								cfg.DisableCaller = noCaller
								cfg.Level = zap.NewAtomicLevelAt(zapcore.DebugLevel)
								if lvlName == "above-fatal" {
									cfg.Level = zap.NewAtomicLevelAt(aboveFatal)
								}
								switch samp {
								case "nil":
									cfg.Sampling = nil
								case "100/100":
									cfg.Sampling = &zap.SamplingConfig{Initial: 100, Thereafter: 100}
								case "0/0":
									cfg.Sampling = &zap.SamplingConfig{Initial: 0, Thereafter: 0}
								}
								cfg.OutputPaths = []string{"c06rec://out"}
								cfg.ErrorOutputPaths = []string{"c06rec://err"}
								w.cfgMust = must
								curWorld = w
								defer func() { curWorld = nil }()
								l, err := cfg.Build(opts...)
								if err != nil {
									ev.ToolError("C06: Config.Build: %v", err)
								}
								return l
							},
						})
					}
				}
			}
		}
	}
	return ks
}

// scratch is the real file that stands in for stderr / stdout while a preset
// constructor builds its logger.
var scratch *os.File

func constructorKinds() []coreKind {
	withStd := func(w *world, f func() (*zap.Logger, error)) *zap.Logger {
		st, err := scratch.Stat()
		if err != nil {
			ev.ToolError("C06: stat scratch: %v", err)
		}
		w.file = &fileObs{f: scratch, off: st.Size(), must: always}
		w.cleanup = append(w.cleanup, func() {
			_ = scratch.Truncate(0)
			_, _ = scratch.Seek(0, 0)
		})
		oldOut, oldErr := os.Stdout, os.Stderr
		os.Stdout, os.Stderr = scratch, scratch
		defer func() { os.Stdout, os.Stderr = oldOut, oldErr }()
		l, err := f()
		if err != nil {
			ev.ToolError("C06: constructor: %v", err)
		}
		return l
	}
	dev := func(d bool, opts []zap.Option) []zap.Option {
		if d {
			return append(opts, zap.Development())
		}
		return opts
	}
	return []coreKind{
		{name: "zap.NewProduction", group: "constructor", cond: condConst(condEnabled), mk: func(w *world, d bool, opts []zap.Option) *zap.Logger {
			return withStd(w, func() (*zap.Logger, error) { return zap.NewProduction(dev(d, opts)...) })
		}},
		{name: "zap.NewDevelopment", group: "constructor", cond: condConst(condEnabled), forceDev: true, console: true, mk: func(w *world, d bool, opts []zap.Option) *zap.Logger {
			return withStd(w, func() (*zap.Logger, error) { return zap.NewDevelopment(dev(d, opts)...) })
		}},
		{name: "zap.NewExample", group: "constructor", cond: condConst(condEnabled), mk: func(w *world, d bool, opts []zap.Option) *zap.Logger {
			return withStd(w, func() (*zap.Logger, error) { return zap.NewExample(dev(d, opts)...), nil })
		}},
		{name: "zap.NewProduction+IncreaseLevel(above-fatal)", group: "constructor", cond: condConst(condDisabled), mk: func(w *world, d bool, opts []zap.Option) *zap.Logger {
			l := withStd(w, func() (*zap.Logger, error) {
				return zap.NewProduction(append(dev(d, opts), zap.IncreaseLevel(zap.NewAtomicLevelAt(aboveFatal)))...)
			})
			w.file.must = never
			return l
		}},
	}
}
