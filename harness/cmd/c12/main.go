// Command c12 decides property C12 (BufferedWriteSyncer) by model checking the
// real implementation: (a) every operation sequence over a state-dependent
// alphabet up to a depth, run deterministically under the scheduler against a
// reference model; (b) every interleaving (preemption-bounded) of generated
// multi-thread drivers; (c) real-process crash runs killed at every sink call.
package main

import (
	"bytes"
	"context"
	"errors"
	"fmt"
	"os"
	"os/exec"
	"path/filepath"
	"sort"
	"strconv"
	"strings"
	"sync/atomic"
	"syscall"
	"time"

	"go.uber.org/zap/zapcore"
	"go.uber.org/zap/zzverif/vsched"
	"go.uber.org/zap/zzverif/vsync"
	"verif/harness/internal/ev"
	"verif/harness/internal/mc"
)

// ---------------------------------------------------------------------------
// harness sink and clock

type sinkCall struct {
	sync bool
	data []byte
	at   int
	thr  int // scheduler thread that made the call
}

type sink struct {
	calls []sinkCall
	now   *int
	slow  bool // concurrent drivers: every sink call contains a scheduling point
	// failSync: Sync is recorded and then reports an error while Write works (stdout on a terminal or pipe
	// answers EINVAL): the syncer has to hand the error on and carry on flushing
	failSync bool
}

var errSinkSync = errors.New("sync not supported by this sink")

func (s *sink) Write(p []byte) (int, error) {
	if s.slow {
		vsched.Yield() // a sink call takes time: other threads can act while the syncer is inside it
	}
	*s.now++
	s.calls = append(s.calls, sinkCall{data: append([]byte(nil), p...), at: *s.now, thr: vsched.Current()})
	return len(p), nil
}

func (s *sink) Sync() error {
	if s.slow {
		vsched.Yield()
	}
	*s.now++
	s.calls = append(s.calls, sinkCall{sync: true, at: *s.now, thr: vsched.Current()})
	if s.failSync {
		return errSinkSync
	}
	return nil
}

type clock struct {
	ch  chan time.Time
	now atomic.Int64
}

// Now is far ahead of the stamps the ticks carry (Unix(1,0)) and advances with every reading:
// the flush loop picks every tick up late, as a descheduled process does - a late tick is
// still a tick, and nothing else may depend on the clock.
func (c *clock) Now() time.Time { return time.Unix(1_000_000+c.now.Add(1), 0) }
func (c *clock) NewTicker(time.Duration) *time.Ticker {
	vsched.Yield() // creating the ticker takes time: a scheduling point inside the syncer's lazy initialisation
	return &time.Ticker{C: c.ch}
}

const defaultSize = 256 * 1024

func effSize(size int) int {
	if size == 0 {
		return defaultSize
	}
	return size
}

// ---------------------------------------------------------------------------
// (a) sequential: all operation sequences

const (
	oW0 = iota
	oW1
	oWfm1
	oWf
	oWfp1
	oWS
	oWSp1
	oW2Sp1
	oSync
	oTick
	oStop
	nOps
)

var opNames = [...]string{"W0", "W1", "Wfree-1", "Wfree", "Wfree+1", "WSize", "WSize+1", "W2Size+1", "Sync", "Tick", "Stop"}

type seqRun struct {
	failSync bool
	size     int
	ops      []int
	err      string
	key      string // known-finding key, if the failure has one
	end      string
	// counters
	crashPoints int
}

func payload(off, n int) []byte {
	b := make([]byte, n)
	for i := range b {
		b[i] = byte((off+i)%251 + 1)
	}
	return b
}

func (r *seqRun) fail(key, format string, a ...any) {
	if r.err == "" {
		r.err = fmt.Sprintf(format, a...)
		r.key = key
	}
}

func (r *seqRun) body() {
	now := 0
	sk := &sink{now: &now, failSync: r.failSync}
	clk := &clock{ch: make(chan time.Time, 1)}
	ws := &zapcore.BufferedWriteSyncer{WS: sk, Size: r.size, Clock: clk, FlushInterval: time.Hour}
	size := effSize(r.size)
	var accepted []byte // concatenation of accepted writes
	bounds := map[int]bool{0: true}
	initialized, stopped := false, false
	checked := 0 // sink calls already validated

	// invariant at every sink-call boundary (= every crash point)
	validate := func(step int) bool {
		sunk := 0
		for i, c := range sk.calls {
			if c.sync {
				continue
			}
			if i >= checked {
				if !bounds[sunk] || !bounds[sunk+len(c.data)] {
					r.fail("", "step %d: sink write [%d,%d) is not made of whole caller writes (boundaries %v)", step, sunk, sunk+len(c.data), keys(bounds))
					return false
				}
				if sunk+len(c.data) > len(accepted) || !bytes.Equal(c.data, accepted[sunk:sunk+len(c.data)]) {
					r.fail("", "step %d: sink write at offset %d is not the accepted stream (lost, duplicated or reordered bytes)", step, sunk)
					return false
				}
				r.crashPoints++
			}
			sunk += len(c.data)
		}
		checked = len(sk.calls)
		if len(accepted)-sunk > size {
			r.fail("", "step %d: %d bytes held back, more than the configured size %d", step, len(accepted)-sunk, size)
			return false
		}
		return true
	}
	sunkBytes := func() int {
		n := 0
		for _, c := range sk.calls {
			n += len(c.data)
		}
		return n
	}
	flushed := func(step int, what, key string) {
		if held := len(accepted) - sunkBytes(); held != 0 {
			r.fail(key, "step %d: after %s %d accepted bytes are still not in the sink", step, what, held)
			return
		}
		// the sink must have been synced after the last write it received
		for i := len(sk.calls) - 1; i >= 0; i-- {
			if sk.calls[i].sync {
				break
			}
			if len(sk.calls[i].data) > 0 {
				r.fail(key, "step %d: after %s the sink was not synced after its last write", step, what)
				break
			}
		}
	}

	for step, op := range r.ops {
		if r.err != "" {
			break
		}
		free := size - (len(accepted) - sunkBytes())
		n := -1
		switch op {
		case oW0:
			n = 0
		case oW1:
			n = 1
		case oWfm1:
			n = free - 1
		case oWf:
			n = free
		case oWfp1:
			n = free + 1
		case oWS:
			n = size
		case oWSp1:
			n = size + 1
		case oW2Sp1:
			n = 2*size + 1
		}
		switch {
		case op <= oW2Sp1:
			if n < 0 {
				continue
			}
			p := payload(len(accepted), n)
			keep := append([]byte(nil), p...)
			got, err := ws.Write(p)
			for i := range p {
				p[i] = 0xDB // the caller owns p again once Write has returned (io.Writer: "must not retain p")
			}
			if got != n || err != nil {
				r.fail("", "step %d: Write(%d bytes) returned (%d, %v)", step, n, got, err)
				break
			}
			accepted = append(accepted, keep...)
			bounds[len(accepted)] = true
			initialized = true
		case op == oSync:
			if err := ws.Sync(); (err != nil) != r.failSync {
				r.fail("", "step %d: Sync returned %v (the sink's Sync fails: %v)", step, err, r.failSync)
			}
			flushed(step, "Sync", "")
		case op == oTick:
			if !initialized || stopped {
				continue // no ticker / no flush loop: nothing is processed
			}
			if !vsched.TrySend(clk.ch, time.Unix(1, 0)) {
				r.fail("", "step %d: tick not consumed by the flush loop", step)
				break
			}
			vsched.WaitIdle()
			if len(clk.ch) != 0 {
				r.fail("", "step %d: flush loop did not take the tick although it could run", step)
				break
			}
			flushed(step, "a processed flush tick", "")
		case op == oStop:
			if err := ws.Stop(); err != nil && !(r.failSync && initialized && !stopped) {
				r.fail("", "step %d: Stop returned %v", step, err)
			}
			if initialized && !stopped {
				stopped = true
				flushed(step, "Stop", "")
				if u := vsched.Unfinished(); u != 1 {
					r.fail("", "step %d: %d threads still alive after Stop returned (flush goroutine not terminated)", step, u-1)
				}
			} else if initialized {
				flushed(step, "a repeated Stop", "seq:write-after-stop-not-flushed-by-later-stop")
			}
		}
		if !validate(step) {
			break
		}
	}
	r.end = fmt.Sprintf("held=%d stopped=%v init=%v sinkcalls=%d", len(accepted)-sunkBytes(), stopped, initialized, len(sk.calls))
	_ = ws.Stop()
	if u := vsched.Unfinished(); u != 1 && r.err == "" {
		r.fail("", "end: %d threads still alive after Stop", u-1)
	}
}

func keys(m map[int]bool) []int {
	var k []int
	for x := range m {
		k = append(k, x)
	}
	sort.Ints(k)
	return k
}

func seqName(ops []int) string {
	s := make([]string, len(ops))
	for i, o := range ops {
		s[i] = opNames[o]
	}
	return strings.Join(s, ",")
}

// one sequential execution under the scheduler
var seqFailSync bool // set per item (seqf|...): the sink's Sync reports an error

func runSeq(size int, ops []int) (*seqRun, *mc.Violation) {
	r := &seqRun{size: size, ops: ops, failSync: seqFailSync}
	res := vsched.Run(nil, r.body)
	switch res.Verdict {
	case vsched.OK:
	case vsched.Diverged, vsched.Overflow:
		panic(mc.ToolErr{Msg: "scheduler overflow in sequential run"})
	default:
		kind := map[int]string{vsched.Deadlock: "deadlock", vsched.Leaked: "leaked", vsched.Panicked: "panic", vsched.Stuck: "stuck"}[res.Verdict]
		d := res.Blocked
		if res.Verdict == vsched.Panicked {
			d = fmt.Sprint(res.PanicVal)
		}
		return r, &mc.Violation{Kind: kind, Detail: fmt.Sprintf("size=%d ops=%s: %s %s", size, seqName(ops), kind, d), Choices: ops}
	}
	if r.err != "" {
		return r, &mc.Violation{Kind: "oracle", Detail: fmt.Sprintf("size=%d ops=%s: %s", size, seqName(ops), r.err) + keyTag(r.key), Choices: ops}
	}
	return r, nil
}

func keyTag(k string) string {
	if k == "" {
		return ""
	}
	return " {key=" + k + "}"
}

// item: seq|size|depth|first-op,second-op
func seqItem(item string, replay []int, isReplay bool) mc.ItemResult {
	f := strings.Split(item, "|")
	seqFailSync = f[0] == "seqf"
	size, _ := strconv.Atoi(f[1])
	depth, _ := strconv.Atoi(f[2])
	var pre []int
	for _, x := range strings.Split(f[3], ",") {
		if x != "" {
			n, _ := strconv.Atoi(x)
			pre = append(pre, n)
		}
	}
	if isReplay {
		_, v := runSeq(size, replay)
		return mc.ItemResult{Item: item, Violation: v}
	}
	st := mc.Stats{Outcomes: map[string]int{}, Exhaustive: true}
	known := map[string]int{}
	ops := make([]int, 0, depth)
	var rec func() *mc.Violation
	rec = func() *mc.Violation {
		// every sequence of length len(pre)..depth with this prefix
		if len(ops) >= len(pre) {
			r, v := runSeq(size, ops)
			st.Execs++
			st.Steps += int64(len(ops))
			if v != nil {
				if r.key != "" {
					known[r.key]++
				} else {
					return v
				}
			} else {
				st.Outcomes[r.end]++
			}
			st.MaxPoints += r.crashPoints
		}
		if len(ops) == depth {
			return nil
		}
		for o := 0; o < nOps; o++ {
			if len(ops) < len(pre) && pre[len(ops)] != o {
				continue
			}
			ops = append(ops, o)
			v := rec()
			ops = ops[:len(ops)-1]
			if v != nil {
				return v
			}
		}
		return nil
	}
	ops = append(ops, pre...)
	v := rec()
	for k, n := range known {
		st.Outcomes["KNOWN:"+k] += n
	}
	return mc.ItemResult{Item: item, Stats: st, Violation: v}
}

// ---------------------------------------------------------------------------
// (b) concurrent drivers

type cop struct {
	kind string // W | Sync | Stop | Tick
	n    int
}

func (o cop) String() string {
	if o.kind == "W" {
		return "W" + strconv.Itoa(o.n)
	}
	return o.kind
}

var copAlphabet = []cop{{"W", 1}, {"W", 3}, {"W", 6}, {"Sync", 0}, {"Stop", 0}, {"Tick", 0}}

func parseCop(s string) cop {
	if strings.HasPrefix(s, "W") {
		n, _ := strconv.Atoi(s[1:])
		return cop{"W", n}
	}
	return cop{s, 0}
}

type opRec struct {
	thr, idx int
	op       cop
	inv, ret int
	id       byte // payload id for writes
	n        int
	err      error
}

type concRun struct {
	size    int
	prelude []cop
	threads [][]cop

	now     int
	quiesce int // time at which every thread had finished and the flush goroutine was waiting again
	sk      *sink
	recs    []*opRec
	err     string
	key     string
	end     string
	callers map[int]bool // scheduler threads that execute the callers' operations
}

func (c *concRun) do(ws *zapcore.BufferedWriteSyncer, clk *clock, thr, idx int, op cop, nextID *byte) {
	if c.callers == nil {
		c.callers = map[int]bool{}
	}
	c.callers[vsched.Current()] = true
	c.now++
	r := &opRec{thr: thr, idx: idx, op: op, inv: c.now}
	c.recs = append(c.recs, r)
	switch op.kind {
	case "W":
		*nextID++
		r.id = *nextID
		p := bytes.Repeat([]byte{r.id}, op.n)
		r.n, r.err = ws.Write(p)
		for i := range p {
			p[i] = 0xDB // the caller reuses its buffer after Write returned
		}
	case "Sync":
		r.err = ws.Sync()
	case "Stop":
		r.err = ws.Stop()
	case "Tick":
		if vsched.TrySend(clk.ch, time.Unix(1, 0)) {
			r.n = 1 // delivered (the ticker channel had room)
		}
	}
	c.now++
	r.ret = c.now
}

func (c *concRun) body() {
	c.callers = map[int]bool{vsched.Current(): true}
	c.sk = &sink{now: &c.now, slow: true}
	clk := &clock{ch: make(chan time.Time, 1)}
	ws := &zapcore.BufferedWriteSyncer{WS: c.sk, Size: c.size, Clock: clk, FlushInterval: time.Hour}
	var id byte
	for i, op := range c.prelude {
		c.do(ws, clk, 0, i, op, &id)
	}
	var wg vsync.WaitGroup
	ids := make([]byte, len(c.threads))
	for t := range c.threads {
		t := t
		ids[t] = byte(32 * (t + 1))
		wg.Add(1)
		vsched.Go(func() {
			defer wg.Done()
			for i, op := range c.threads[t] {
				c.do(ws, clk, t+1, i, op, &ids[t])
			}
		})
	}
	wg.Wait()
	// let the flush goroutine finish processing any delivered tick (it runs until it waits again)
	vsched.WaitIdle()
	c.now++
	c.quiesce = c.now
	// epilogue: stop (if not yet), then flush whatever a late Write left behind
	c.now++
	ep := &opRec{thr: 0, idx: 100, op: cop{"Stop", 0}, inv: c.now}
	ep.err = ws.Stop()
	c.now++
	ep.ret = c.now
	c.recs = append(c.recs, ep)
	if u := vsched.Unfinished(); u != 1 {
		c.err = fmt.Sprintf("%d threads still alive after the final Stop returned (flush goroutine not terminated)", u-1)
	}
	_ = ws.Sync()
	c.now++
}

func (c *concRun) check() (string, error) {
	if c.err != "" {
		return "", fmt.Errorf("%s", c.err)
	}
	// 1. results
	writes := map[byte]*opRec{}
	for _, r := range c.recs {
		switch r.op.kind {
		case "W":
			if r.n != r.op.n || r.err != nil {
				return "", fmt.Errorf("Write(%d) by thread %d returned (%d, %v)", r.op.n, r.thr, r.n, r.err)
			}
			if r.op.n > 0 {
				writes[r.id] = r
			}
		case "Sync", "Stop":
			if r.err != nil {
				return "", fmt.Errorf("%s by thread %d returned %v", r.op.kind, r.thr, r.err)
			}
		}
	}
	// 1b. once a Stop of a started syncer has returned, no flush work is running any more:
	// a sink call made after that by a thread that is not one of the callers is such work
	for _, st := range c.recs {
		if st.op.kind != "Stop" || st.ret == 0 {
			continue
		}
		started := false
		for _, w := range c.recs {
			if w.op.kind == "W" && w.ret != 0 && w.ret < st.inv {
				started = true
			}
		}
		// a Stop that returns while an earlier Stop is still at work did not do the stopping
		// (a repeated Stop returns at once): the statement is about the one that did
		for _, o := range c.recs {
			if o != st && o.op.kind == "Stop" && o.inv < st.ret && (o.ret == 0 || o.ret > st.ret) {
				started = false
			}
		}
		if !started {
			continue
		}
		for _, sc := range c.sk.calls {
			if sc.at > st.ret && !c.callers[sc.thr] {
				what := "Write"
				if sc.sync {
					what = "Sync"
				}
				return "", fmt.Errorf("after a Stop (thread %d) had returned, a background goroutine (scheduler thread %d) called the sink's %s: flush work still running after Stop", st.thr, sc.thr, what)
			}
		}
	}
	// 2. parse the sink stream into whole payloads
	sunkAt := map[byte]int{}
	var order []byte
	var syncs []int
	for _, sc := range c.sk.calls {
		if sc.sync {
			syncs = append(syncs, sc.at)
			continue
		}
		d := sc.data
		for len(d) > 0 {
			w := writes[d[0]]
			if w == nil {
				return "", fmt.Errorf("sink write %q contains bytes no caller wrote", sc.data)
			}
			if len(d) < w.op.n || !bytes.Equal(d[:w.op.n], bytes.Repeat([]byte{w.id}, w.op.n)) {
				return "", fmt.Errorf("sink write %v splits or corrupts caller write %v (len %d)", sc.data, w.id, w.op.n)
			}
			if _, dup := sunkAt[w.id]; dup {
				return "", fmt.Errorf("caller write %v reached the sink twice", w.id)
			}
			sunkAt[w.id] = sc.at
			order = append(order, w.id)
			d = d[w.op.n:]
		}
	}
	for id, w := range writes {
		if _, ok := sunkAt[id]; !ok {
			return "", fmt.Errorf("accepted write %v (thread %d, %d bytes) never reached the sink", id, w.thr, w.op.n)
		}
	}
	// 3. real-time order
	pos := map[byte]int{}
	for i, id := range order {
		pos[id] = i
	}
	for a, wa := range writes {
		for b, wb := range writes {
			if wa.ret < wb.inv && pos[a] > pos[b] {
				return "", fmt.Errorf("write %v returned before write %v began but follows it in the sink", a, b)
			}
		}
	}
	// 4. never more than Size held back (over returned writes)
	size := effSize(c.size)
	for _, r := range c.recs {
		if r.op.kind != "W" {
			continue
		}
		held := 0
		for _, w := range writes {
			if w.ret <= r.ret && sunkAt[w.id] > r.ret {
				held += w.op.n
			}
		}
		if held > size {
			return "", fmt.Errorf("%d bytes of returned writes held back after a Write returned, size is %d", held, size)
		}
	}
	// 5. Sync / Stop cover everything that returned before they were invoked
	covered := func(r *opRec) string {
		last := 0
		for _, w := range writes {
			if w.ret < r.inv {
				if sunkAt[w.id] > r.ret {
					return fmt.Sprintf("write %v returned before %s was invoked but was not in the sink when %s returned", w.id, r.op.kind, r.op.kind)
				}
				if sunkAt[w.id] > last {
					last = sunkAt[w.id]
				}
			}
		}
		if last == 0 {
			return ""
		}
		for _, s := range syncs {
			if s > last && s < r.ret {
				return ""
			}
		}
		return fmt.Sprintf("sink not synced between its last covered write and the return of %s", r.op.kind)
	}
	// 5b. a delivered tick that the flush goroutine could process (no Stop in the program): once it has been
	// processed - at the latest when everything is quiescent - every write that had returned before the tick
	// was delivered is in the sink and the sink was synced after it
	hasStop := false
	for _, r := range c.recs {
		if r.op.kind == "Stop" && r.idx != 100 {
			hasStop = true
		}
	}
	if !hasStop && c.quiesce > 0 {
		for _, r := range c.recs {
			if r.op.kind != "Tick" || r.n != 1 {
				continue
			}
			last := 0
			for _, w := range writes {
				if w.ret < r.inv {
					if sunkAt[w.id] > c.quiesce {
						return "", fmt.Errorf("tick delivered by thread %d was processed, but write %v (returned before the tick) was still not in the sink when everything had come to rest", r.thr, w.id)
					}
					if sunkAt[w.id] > last {
						last = sunkAt[w.id]
					}
				}
			}
			if last > 0 {
				ok := false
				for _, sy := range syncs {
					if sy > last && sy < c.quiesce {
						ok = true
					}
				}
				if !ok {
					return "", fmt.Errorf("tick delivered by thread %d was processed, but the sink was not synced after the writes that had returned before the tick", r.thr)
				}
			}
		}
	}
	sat := map[*opRec]string{}
	for _, r := range c.recs {
		if r.op.kind == "Sync" || r.op.kind == "Stop" {
			sat[r] = covered(r)
		}
	}
	for _, r := range c.recs {
		msg := sat[r]
		if msg == "" {
			continue
		}
		if r.op.kind == "Sync" {
			return "", fmt.Errorf("Sync by thread %d: %s", r.thr, msg)
		}
		// Stop: is another Stop responsible for the flush?
		key := ""
		for _, o := range c.recs {
			if o == r || o.op.kind != "Stop" || o.inv >= r.ret {
				continue
			}
			if o.ret > r.ret {
				key = "conc:stop-returns-before-concurrent-stop-has-flushed"
			} else if sat[o] == "" && key == "" {
				key = "conc:write-after-stop-not-flushed-by-later-stop"
			}
		}
		c.key = key
		return "", fmt.Errorf("Stop by thread %d: %s%s", r.thr, msg, keyTag(key))
	}
	return fmt.Sprintf("order=%v sinkcalls=%d", order, len(c.sk.calls)), nil
}

// item: conc|size|preempt|prelude|t1;t2;t3   (ops comma separated)
func parseConc(item string) (*concRun, mc.Bounds) {
	f := strings.Split(item, "|")
	size, _ := strconv.Atoi(f[1])
	pre, _ := strconv.Atoi(f[2])
	c := &concRun{size: size}
	for _, s := range strings.Split(f[3], ",") {
		if s != "" {
			c.prelude = append(c.prelude, parseCop(s))
		}
	}
	for _, t := range strings.Split(f[4], ";") {
		var ops []cop
		for _, s := range strings.Split(t, ",") {
			if s != "" {
				ops = append(ops, parseCop(s))
			}
		}
		c.threads = append(c.threads, ops)
	}
	return c, mc.Bounds{Preempt: pre, Dev: -1}
}

func concItem(item string, replay []int, isReplay bool, journal func([]int)) mc.ItemResult {
	tmpl, b := parseConc(item)
	known := map[string]int{}
	mk := func() mc.Exec {
		c := &concRun{size: tmpl.size, prelude: tmpl.prelude, threads: tmpl.threads}
		return mc.Exec{Body: c.body, Check: func(vsched.Result) (string, error) {
			out, err := c.check()
			if err != nil && c.key != "" && !isReplay {
				known[c.key]++
				return "KNOWN:" + c.key, nil
			}
			return out, err
		}}
	}
	if isReplay {
		_, v := mc.Replay(mk, replay)
		return mc.ItemResult{Item: item, Violation: v}
	}
	st, v := mc.Explore(mk, b, journal)
	return mc.ItemResult{Item: item, Stats: st, Violation: v}
}

// ---------------------------------------------------------------------------
// (c) crash runs: real process, real file, SIGKILL at the k-th sink call

type fileSink struct {
	f     *os.File
	ack   *os.File
	calls int
	kill  int
}

func (s *fileSink) hit() {
	s.calls++
	if s.calls == s.kill {
		syscall.Kill(os.Getpid(), syscall.SIGKILL)
		select {}
	}
}

func (s *fileSink) Write(p []byte) (int, error) {
	s.hit() // die before the k-th call takes effect
	return s.f.Write(p)
}

func (s *fileSink) Sync() error {
	s.hit()
	return s.f.Sync()
}

// crashChild: argv = -crash <dir> <size> <kill> <ops...>; free-running (no scheduler).
func crashChild(args []string) {
	dir := args[0]
	size, _ := strconv.Atoi(args[1])
	kill, _ := strconv.Atoi(args[2])
	f, _ := os.Create(filepath.Join(dir, "out"))
	ack, _ := os.Create(filepath.Join(dir, "ack"))
	sk := &fileSink{f: f, ack: ack, kill: kill}
	ws := &zapcore.BufferedWriteSyncer{WS: sk, Size: size, FlushInterval: time.Hour}
	total := 0
	for _, a := range args[3:] {
		switch {
		case strings.HasPrefix(a, "W"):
			n, _ := strconv.Atoi(a[1:])
			p := payload(total, n)
			if _, err := ws.Write(p); err != nil {
				os.Exit(3)
			}
			total += n
			fmt.Fprintf(ack, "W %d\n", total)
		case a == "Sync":
			if ws.Sync() != nil {
				os.Exit(3)
			}
			fmt.Fprintf(ack, "A %d\n", total) // everything up to total is acknowledged
		case a == "Stop":
			if ws.Stop() != nil {
				os.Exit(3)
			}
			fmt.Fprintf(ack, "A %d\n", total)
		}
	}
	fmt.Fprintf(ack, "END %d\n", sk.calls)
	os.Exit(0)
}

type crashCase struct {
	Size int      `json:"size"`
	Ops  []string `json:"ops"`
}

func runCrash(run *ev.Run, workdir string, cases []crashCase) (children, points int) {
	for ci, cc := range cases {
		// first a run that is never killed, to learn the number of sink calls
		ncalls := 0
		for k := 0; ; k++ {
			dir := filepath.Join(workdir, fmt.Sprintf("crash%d_%d", ci, k))
			os.MkdirAll(dir, 0o755)
			args := append([]string{"-crash", dir, strconv.Itoa(cc.Size), strconv.Itoa(k)}, cc.Ops...)
			ctx, cancel := context.WithTimeout(context.Background(), 60*time.Second)
			cmd := exec.CommandContext(ctx, os.Args[0], args...)
			err := cmd.Run()
			hung := ctx.Err() != nil
			cancel()
			children++
			if hung {
				run.Report(fmt.Sprintf("crash:hang:size=%d ops=%v", cc.Size, cc.Ops), fmt.Sprintf("free-running child did not finish within 60s (deadlock or livelock): size=%d ops=%v kill=%d", cc.Size, cc.Ops, k), map[string]any{"size": cc.Size, "ops": cc.Ops, "kill": k})
				os.RemoveAll(dir)
				break
			}
			out, _ := os.ReadFile(filepath.Join(dir, "out"))
			ackb, _ := os.ReadFile(filepath.Join(dir, "ack"))
			os.RemoveAll(dir)
			killed := false
			if ee, ok := err.(*exec.ExitError); ok {
				if ws, ok := ee.Sys().(syscall.WaitStatus); ok && ws.Signaled() && ws.Signal() == syscall.SIGKILL {
					killed = true
				} else {
					ev.ToolError("crash child failed: %v", err)
				}
			}
			// bounds and acknowledgements from the ack journal
			bounds := map[int]bool{0: true}
			acked := 0
			for _, l := range strings.Split(string(ackb), "\n") {
				var n int
				if _, err := fmt.Sscanf(l, "W %d", &n); err == nil {
					bounds[n] = true
				} else if _, err := fmt.Sscanf(l, "A %d", &n); err == nil {
					acked = n
				} else if _, err := fmt.Sscanf(l, "END %d", &n); err == nil {
					ncalls = n
				}
			}
			// a write in flight when the process died is not in the journal: allow the next boundary too
			desc := fmt.Sprintf("size=%d ops=%v killed-before-sink-call=%d", cc.Size, cc.Ops, k)
			want := payload(0, len(out))
			if !bytes.Equal(out, want) {
				run.Report("crash:corrupt:"+desc, "file content after the kill is not a prefix of the written stream: "+desc, map[string]any{"size": cc.Size, "ops": cc.Ops, "kill": k})
			}
			if k > 0 && killed {
				points++
				if len(out) < acked {
					run.Report("crash:lost-acked:"+desc, fmt.Sprintf("file holds %d bytes but %d were acknowledged by Sync/Stop: %s", len(out), acked, desc), map[string]any{"size": cc.Size, "ops": cc.Ops, "kill": k})
				}
				// whole-write alignment: journal knows all returned writes; the write in progress may be the next one
				if !bounds[len(out)] {
					// compute boundaries from the op list itself (the journal lags by at most one write)
					total, okb := 0, false
					for _, a := range cc.Ops {
						if strings.HasPrefix(a, "W") {
							n, _ := strconv.Atoi(a[1:])
							total += n
							if total == len(out) {
								okb = true
							}
						}
					}
					if !okb {
						run.Report("crash:torn:"+desc, fmt.Sprintf("file length %d is not aligned to whole writes: %s", len(out), desc), map[string]any{"size": cc.Size, "ops": cc.Ops, "kill": k})
					}
				}
			}
			if k == 0 {
				if killed {
					ev.ToolError("crash child killed with k=0")
				}
				continue
			}
			if k >= ncalls {
				break
			}
		}
	}
	return
}

// ---------------------------------------------------------------------------

func handler(item string, replay []int, isReplay bool, journal func([]int)) mc.ItemResult {
	switch {
	case strings.HasPrefix(item, "seq|"), strings.HasPrefix(item, "seqf|"):
		return seqItem(item, replay, isReplay)
	case strings.HasPrefix(item, "conc|"):
		return concItem(item, replay, isReplay, journal)
	case strings.HasPrefix(item, "multi|"):
		return multiItem(item, replay, isReplay)
	}
	return mc.ItemResult{Item: item, ToolError: "unknown item"}
}

func threadProgs(maxLen int, alpha []cop) [][]cop {
	var out [][]cop
	for _, a := range alpha {
		out = append(out, []cop{a})
	}
	if maxLen >= 2 {
		for _, a := range alpha {
			for _, b := range alpha {
				out = append(out, []cop{a, b})
			}
		}
	}
	return out
}

func progStr(p []cop) string {
	s := make([]string, len(p))
	for i, o := range p {
		s[i] = o.String()
	}
	return strings.Join(s, ",")
}

func main() {
	if len(os.Args) > 1 && os.Args[1] == "-crash" {
		crashChild(os.Args[2:])
	}
	mc.MaybeWorker(handler)
	run := ev.Start("C12", "model_checking")
	thorough := run.Thorough()

	var items []string
	// (a) sequential
	depth := 6
	if thorough {
		depth = 7
	}
	sizes := []int{1, 2, 3, 4, 8}
	for _, size := range sizes {
		for a := 0; a < nOps; a++ {
			for b := 0; b < nOps; b++ {
				items = append(items, fmt.Sprintf("seq|%d|%d|%d,%d", size, depth, a, b))
			}
		}
	}
	if thorough {
		// one size one level deeper
		for a := 0; a < nOps; a++ {
			for b := 0; b < nOps; b++ {
				items = append(items, fmt.Sprintf("seq|4|%d|%d,%d", depth+1, a, b))
			}
		}
	}
	ddepth := 3
	if thorough {
		ddepth = 4
	}
	for a := 0; a < nOps; a++ {
		items = append(items, fmt.Sprintf("seq|0|%d|%d", ddepth, a))
		// sizes just above a page and not a multiple of one (an implementation that rounds its buffer up holds back more than configured)
		items = append(items, fmt.Sprintf("seq|4097|%d|%d", ddepth, a), fmt.Sprintf("seq|5000|%d|%d", ddepth, a))
	}
	// short sequences (shorter than the item prefixes)
	for _, size := range sizes {
		items = append(items, fmt.Sprintf("seq|%d|1|", size))
	}
	items = append(items, "seq|0|0|")
	// (a') the same sequences over a sink whose Sync reports an error while Write works
	for _, size := range []int{1, 4} {
		for a := 0; a < nOps; a++ {
			items = append(items, fmt.Sprintf("seqf|%d|%d|%d", size, depth-1, a))
		}
	}
	// (d) two syncers in one process: independent ones of the same size, and one buffering in front of the other
	mdepth := 6
	if thorough {
		mdepth = 7
	}
	for _, top := range []string{"two", "nested"} {
		for o := 0; o < nMulti; o++ {
			items = append(items, fmt.Sprintf("multi|%s|%d|%d", top, mdepth, o))
		}
	}
	nseq := len(items)
	// (b) concurrent
	pre := 2
	if thorough {
		pre = 3
	}
	progs := threadProgs(2, copAlphabet)
	single := threadProgs(1, copAlphabet)
	for _, prelude := range []string{"", "W1", "W3"} {
		for i := 0; i < len(progs); i++ {
			for j := i; j < len(progs); j++ {
				items = append(items, fmt.Sprintf("conc|4|%d|%s|%s;%s", pre, prelude, progStr(progs[i]), progStr(progs[j])))
			}
		}
		for i := 0; i < len(single); i++ {
			for j := i; j < len(single); j++ {
				for k := j; k < len(single); k++ {
					items = append(items, fmt.Sprintf("conc|4|%d|%s|%s;%s;%s", pre, prelude, progStr(single[i]), progStr(single[j]), progStr(single[k])))
				}
			}
		}
	}
	nconc := len(items) - nseq

	if rp := os.Getenv("VERIF_REPLAY"); rp != "" {
		mc.ReplayFromFile(rp, handler)
	}

	var sum mc.Summary
	func() {
		defer func() {
			if p := recover(); p != nil {
				if te, ok := p.(mc.ToolErr); ok {
					ev.ToolError("%s", te.Msg)
				}
				panic(p)
			}
		}()
		sum = mc.Run(items, mc.Options{})
	}()
	for _, v := range sum.Violations {
		run.Report(v.Kind+":"+v.Item+":"+fmt.Sprint(v.Choices), v.Detail, v)
	}
	// known findings hit inside items
	knownSeen := map[string]int{}
	states := 0
	for k, n := range sum.Outcomes {
		if strings.HasPrefix(k, "KNOWN:") {
			knownSeen[strings.TrimPrefix(k, "KNOWN:")] += n
		} else {
			states++
		}
	}
	for k, n := range knownSeen {
		for i := 0; i < 1; i++ {
			run.Report(k, fmt.Sprintf("%d explored executions", n), map[string]any{"key": k, "count": n})
		}
	}

	// (c) crash
	crashCases := []crashCase{
		{4, []string{"W1", "W1", "Sync", "W3", "W2", "Stop"}},
		{4, []string{"W3", "W3", "W5", "Sync", "W1", "W9", "W1", "Stop"}},
		{8, []string{"W8", "W1", "W9", "Sync", "W4", "W4", "W1", "Stop"}},
		{1, []string{"W1", "W1", "W2", "Sync", "W1", "Stop"}},
	}
	if thorough {
		crashCases = append(crashCases,
			crashCase{4, []string{"W2", "W2", "W1", "W4", "W5", "Sync", "Sync", "W1", "W1", "W1", "W1", "W1", "Stop"}},
			crashCase{0, []string{"W100", "W300000", "W5", "Sync", "W262144", "W1", "Stop"}},
			crashCase{8, []string{"W7", "W2", "W8", "W17", "Sync", "W3", "W3", "W3", "Stop"}},
		)
	}
	children, cpoints := 0, 0
	if run.Violations() == 0 {
		children, cpoints = runCrash(run, filepath.Dir(os.Args[0]), crashCases)
	}

	samples := []any{}
	n := 0
	for it, st := range sum.PerItem {
		if n < 6 && st.Execs > 1 {
			samples = append(samples, map[string]any{"item": it, "executions": st.Execs, "scheduling_points": st.Steps, "max_decisions": st.MaxPoints})
			n++
		}
	}
	samples = append(samples, map[string]any{"crash_case": crashCases[0]})
	run.Assume = []string{
		"scheduling points at synchronisation operations only (lock, channel, select, go); data-race freedom of the same code is C09's subject",
		"crash = process death (SIGKILL); torn OS-level writes are below zap",
		"the sequential alphabet is also run (sizes 1 and 4, one level shallower) over a sink whose Sync reports an error while its Write works (stdout on a terminal): Sync hands the error on, ticks keep being processed, everything else as with a healthy sink",
		"several syncers: every history of <= the stated length over two syncers of the same size with their own sinks, and over a syncer buffering in front of another one that is also written to directly (Write / Sync / Stop on either, no instance stopped twice); buffers larger than a history's bytes, so bytes move only in Sync and Stop; after every step each sink holds exactly its own bytes in acceptance order",
		"Go 1.23 runtime channel header layout (validated at start-up by vsched.SelfTest)",
	}
	run.Finish(map[string]any{
		"states":                        states,
		"transitions":                   sum.Steps,
		"traces_validated_against_impl": sum.Execs,
		"samples":                       samples,
		"exhaustive":                    sum.Exhaustive,
		"evaluations":                   sum.Execs,
		"distinct_nontrivial":           states,
		"rule":                          "every op sequence (sequential) / every schedule within the preemption bound (concurrent) is one execution of the real BufferedWriteSyncer; distinct = distinct canonical end observations (sink order, number of sink calls, held bytes)",
		"sequential_items":              nseq,
		"sequential_depth":              depth,
		"two_syncer_history_depth":      mdepth,
		"sequential_depth_note":         "thorough: size 4 additionally to depth+1",
		"concurrent_drivers":            nconc,
		"preemption_bound":              pre,
		"executions_with_branching":     sum.Branching,
		"max_threads":                   sum.MaxThreads,
		"crash_children":                children,
		"crash_points_killed":           cpoints,
		"explanation":                   "all executions are runs of the real code under the controlled scheduler; no abstract model of zap exists, the reference model is the oracle",
	})
}
