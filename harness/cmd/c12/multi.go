package main

import (
	"fmt"
	"strings"
	"time"

	"go.uber.org/zap/zapcore"
	"go.uber.org/zap/zzverif/vsched"
	"verif/harness/internal/mc"
)

// ---------------------------------------------------------------------------
// (d) several syncers in one process: every history over two instances.
//
// "two":    A and B are independent syncers of the same size over their own sinks.
// "nested": the outer syncer O buffers in front of the inner syncer I (O.WS = I), I over the sink;
//           I is also written to directly.
//
// Buffers are far larger than anything a history writes, so a syncer hands bytes on only
// in Sync and Stop. Each instance is stopped at most once (what a second Stop does is a
// recorded finding of the single-instance part) and Sync still flushes after Stop.
// Oracle after every operation: each sink holds exactly the bytes the reference says, in order.

const (
	mW0 = iota // first instance (A / outer): Write
	mS0        // Sync
	mT0        // Stop
	mW1        // second instance (B / inner): Write
	mS1
	mT1
	nMulti
)

var multiNames = [nMulti]string{"W0", "Sync0", "Stop0", "W1", "Sync1", "Stop1"}

func multiName(top string, ops []int) string {
	who := [2]string{"A", "B"}
	if top == "nested" {
		who = [2]string{"outer", "inner"}
	}
	var p []string
	for _, o := range ops {
		n := multiNames[o]
		p = append(p, who[int(n[len(n)-1]-'0')]+"."+n[:len(n)-1])
	}
	return strings.Join(p, " ")
}

type multiRun struct {
	top string
	ops []int
	err string
}

func (r *multiRun) body() {
	now := 0
	var sinks [2]*sink
	var ws [2]*zapcore.BufferedWriteSyncer
	clk := func() *clock { return &clock{ch: make(chan time.Time, 1)} }
	sinks[0] = &sink{now: &now}
	if r.top == "two" {
		sinks[1] = &sink{now: &now}
		ws[0] = &zapcore.BufferedWriteSyncer{WS: sinks[0], Size: 64, Clock: clk(), FlushInterval: time.Hour}
		ws[1] = &zapcore.BufferedWriteSyncer{WS: sinks[1], Size: 64, Clock: clk(), FlushInterval: time.Hour}
	} else {
		ws[1] = &zapcore.BufferedWriteSyncer{WS: sinks[0], Size: 64, Clock: clk(), FlushInterval: time.Hour}
		ws[0] = &zapcore.BufferedWriteSyncer{WS: ws[1], Size: 64, Clock: clk(), FlushInterval: time.Hour}
	}
	// reference
	var held [2][]byte
	var want [2][]byte  // expected sink content ("nested": only want[0], the one sink)
	inited := [2]bool{} // a syncer starts its flush loop with the first Write it receives; Stop before that does nothing at all
	flush := func(i int) {
		if r.top == "two" {
			want[i] = append(want[i], held[i]...)
			held[i] = nil
			return
		}
		if i == 0 { // outer hands its bytes to inner, then syncs inner
			if len(held[0]) > 0 {
				inited[1] = true
			}
			held[1] = append(held[1], held[0]...)
			held[0] = nil
		}
		want[0] = append(want[0], held[1]...)
		held[1] = nil
	}
	content := func(s *sink) []byte {
		var b []byte
		for _, c := range s.calls {
			b = append(b, c.data...)
		}
		return b
	}
	for step, o := range r.ops {
		i := 0
		if o >= mW1 {
			i = 1
		}
		switch o {
		case mW0, mW1:
			p := []byte{byte('a' + step), byte('0' + i)}
			n, err := ws[i].Write(p)
			if n != len(p) || err != nil {
				r.err = fmt.Sprintf("step %d: Write returned (%d, %v)", step, n, err)
				return
			}
			p[0], p[1] = 0xDB, 0xDB // the caller reuses its buffer
			held[i] = append(held[i], byte('a'+step), byte('0'+i))
			inited[i] = true
		case mS0, mS1:
			if err := ws[i].Sync(); err != nil {
				r.err = fmt.Sprintf("step %d: Sync returned %v", step, err)
				return
			}
			flush(i)
		case mT0, mT1:
			if err := ws[i].Stop(); err != nil {
				r.err = fmt.Sprintf("step %d: Stop returned %v", step, err)
				return
			}
			if inited[i] {
				flush(i)
			}
		}
		for k, s := range sinks {
			if s == nil {
				continue
			}
			if got := content(s); string(got) != string(want[k]) {
				r.err = fmt.Sprintf("after step %d (%s) sink %d holds %q, the bytes accepted and flushed for it so far are %q (each write is a letter for its step and the digit of the instance it was given to)", step, multiNames[o], k, got, want[k])
				return
			}
		}
	}
	for i := range ws {
		_ = ws[i].Stop() // ends the flush loops (a no-op on a stopped or never used syncer)
	}
}

// multiItem: multi|<topology>|depth|first-op ; every history of length <= depth with that first
// operation in which no instance is stopped twice.
func multiItem(item string, replay []int, isReplay bool) mc.ItemResult {
	f := strings.Split(item, "|")
	top := f[1]
	var depth, first int
	fmt.Sscan(f[2], &depth)
	fmt.Sscan(f[3], &first)
	one := func(ops []int) *mc.Violation {
		r := &multiRun{top: top, ops: ops}
		res := vsched.Run(nil, r.body)
		switch {
		case r.err != "":
			return &mc.Violation{Kind: "oracle", Detail: fmt.Sprintf("%s syncers, history %s: %s", top, multiName(top, ops), r.err), Choices: append([]int(nil), ops...)}
		case res.Verdict == vsched.Panicked:
			return &mc.Violation{Kind: "panic", Detail: fmt.Sprintf("%s syncers, history %s: panic %v", top, multiName(top, ops), res.PanicVal), Choices: append([]int(nil), ops...)}
		case res.Verdict != vsched.OK:
			return &mc.Violation{Kind: "stuck", Detail: fmt.Sprintf("%s syncers, history %s: verdict %d %s", top, multiName(top, ops), res.Verdict, res.Blocked), Choices: append([]int(nil), ops...)}
		}
		return nil
	}
	if isReplay {
		return mc.ItemResult{Item: item, Violation: one(replay)}
	}
	st := mc.Stats{Outcomes: map[string]int{}, Exhaustive: true}
	var ops []int
	var rec func() *mc.Violation
	rec = func() *mc.Violation {
		if v := one(ops); v != nil {
			return v
		}
		st.Execs++
		st.Steps += int64(len(ops))
		st.Outcomes[fmt.Sprintf("%s:%d", top, len(ops))]++
		if len(ops) == depth {
			return nil
		}
		for o := 0; o < nMulti; o++ {
			if o == mT0 || o == mT1 {
				dup := false
				for _, p := range ops {
					dup = dup || p == o
				}
				if dup {
					continue
				}
			}
			ops = append(ops, o)
			v := rec()
			ops = ops[:len(ops)-1]
			if v != nil {
				return v
			}
		}
		return nil
	}
	ops = append(ops, first)
	v := rec()
	return mc.ItemResult{Item: item, Stats: st, Violation: v}
}
