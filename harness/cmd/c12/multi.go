package main

import (
	"fmt"
	"strings"
	"time"

	"go.uber.org/zap/zapcore"
	"go.uber.org/zap/zzverif/vsched"
	"verif/harness/internal/mc"
)

// ---------------------------------------------------------------------------
// (d) several syncers in one process: every history over two instances.
//
// "two":    A and B are independent syncers of the same size over their own sinks.
// "nested": the outer syncer O buffers in front of the inner syncer I (O.WS = I), I over the sink;
//           I is also written to directly.
//
// Buffers are far larger than anything a history writes, so nothing forces bytes out before a
// Sync or Stop. Each instance is stopped at most once (what a second Stop does is a recorded
// finding of the single-instance part). Oracle after every operation, per sink: whole writes only,
// none twice, none foreign; everything covered by a completed Sync / effective Stop is there; and
// whatever is there respects the order in which the bytes had to enter the stream (bytes may arrive
// earlier than they must - an implementation may write through - never later and never out of order).

const (
	mW0 = iota // first instance (A / outer): Write
	mS0        // Sync
	mT0        // Stop
	mW1        // second instance (B / inner): Write
	mS1
	mT1
	nMulti
)

var multiNames = [nMulti]string{"W0", "Sync0", "Stop0", "W1", "Sync1", "Stop1"}

func multiName(top string, ops []int) string {
	who := [2]string{"A", "B"}
	if top == "nested" {
		who = [2]string{"outer", "inner"}
	}
	var p []string
	for _, o := range ops {
		n := multiNames[o]
		p = append(p, who[int(n[len(n)-1]-'0')]+"."+n[:len(n)-1])
	}
	return strings.Join(p, " ")
}

type multiRun struct {
	top string
	ops []int
	err string
}

func (r *multiRun) body() {
	now := 0
	var sinks [2]*sink
	var ws [2]*zapcore.BufferedWriteSyncer
	clk := func() *clock { return &clock{ch: make(chan time.Time, 1)} }
	sinks[0] = &sink{now: &now}
	if r.top == "two" {
		sinks[1] = &sink{now: &now}
		ws[0] = &zapcore.BufferedWriteSyncer{WS: sinks[0], Size: 64, Clock: clk(), FlushInterval: time.Hour}
		ws[1] = &zapcore.BufferedWriteSyncer{WS: sinks[1], Size: 64, Clock: clk(), FlushInterval: time.Hour}
	} else {
		ws[1] = &zapcore.BufferedWriteSyncer{WS: sinks[0], Size: 64, Clock: clk(), FlushInterval: time.Hour}
		ws[0] = &zapcore.BufferedWriteSyncer{WS: ws[1], Size: 64, Clock: clk(), FlushInterval: time.Hour}
	}
	// reference: what MUST be in each sink (everything accepted before the last Sync / effective Stop that covers it)
	// and the order constraints on whatever is there. Bytes may reach a sink earlier than they must (an
	// implementation may write through), never later, never out of order, never twice, never in part.
	type unit struct {
		txt   string
		inst  int // instance it was given to
		step  int
		flush int // step of the first Sync / effective Stop after it that covers it (-1: none yet)
	}
	var units []*unit
	inited := [2]bool{}              // a syncer starts its flush loop with the first Write it receives; Stop before that does nothing at all
	pendingTo := func(i, step int) { // Sync / Stop of instance i at this step covers ...
		for _, u := range units {
			if u.flush >= 0 {
				continue
			}
			switch {
			case r.top == "two" && u.inst == i:
				u.flush = step
			case r.top == "nested" && i == 1 && u.inst == 1:
				u.flush = step
			case r.top == "nested" && i == 0: // outer hands its bytes to inner, then syncs inner: covers both
				u.flush = step
			}
		}
	}
	parse := func(s *sink) ([]string, string) {
		var b []byte
		for _, c := range s.calls {
			b = append(b, c.data...)
		}
		if len(b)%2 != 0 {
			return nil, fmt.Sprintf("holds %q: a write arrived in part", b)
		}
		var out []string
		for k := 0; k < len(b); k += 2 {
			out = append(out, string(b[k:k+2]))
		}
		return out, ""
	}
	verify := func(step int, opName string) string {
		for k, s := range sinks {
			if s == nil {
				continue
			}
			got, msg := parse(s)
			if msg != "" {
				return fmt.Sprintf("after step %d (%s) sink %d %s", step, opName, k, msg)
			}
			pos := map[string]int{}
			for p, g := range got {
				if _, dup := pos[g]; dup {
					return fmt.Sprintf("after step %d (%s) sink %d holds %q: write %q delivered twice", step, opName, k, got, g)
				}
				pos[g] = p
			}
			known := map[string]*unit{}
			for _, u := range units {
				if r.top == "nested" || u.inst == k {
					known[u.txt] = u
				}
			}
			for _, g := range got {
				if known[g] == nil {
					return fmt.Sprintf("after step %d (%s) sink %d holds %q: %q was never given to a syncer writing to this sink", step, opName, k, got, g)
				}
			}
			for _, u := range known {
				if _, in := pos[u.txt]; !in && u.flush >= 0 {
					return fmt.Sprintf("after step %d (%s) sink %d holds %q: write %q (step %d) is missing although the Sync/Stop of step %d covers it", step, opName, k, got, u.txt, u.step, u.flush)
				}
			}
			// order: a precedes b whenever a had to be in the stream before b could get there
			for _, a := range known {
				for _, b := range known {
					if a == b {
						continue
					}
					mustPrecede := false
					switch {
					case a.inst == b.inst:
						mustPrecede = a.step < b.step
					case a.inst == 1 && b.inst == 0: // inner took a directly before outer even accepted b
						mustPrecede = a.step < b.step
					case a.inst == 0 && b.inst == 1: // outer's a was handed to inner (flush) before inner took b
						mustPrecede = a.flush >= 0 && a.flush < b.step
					}
					if !mustPrecede {
						continue
					}
					pa, ina := pos[a.txt]
					pb, inb := pos[b.txt]
					if inb && (!ina || pa > pb) {
						return fmt.Sprintf("after step %d (%s) sink %d holds %q: write %q (given to %d at step %d) must come before %q (given to %d at step %d)", step, opName, k, got, a.txt, a.inst, a.step, b.txt, b.inst, b.step)
					}
				}
			}
		}
		return ""
	}
	for step, o := range r.ops {
		i := 0
		if o >= mW1 {
			i = 1
		}
		switch o {
		case mW0, mW1:
			p := []byte{byte('a' + step), byte('0' + i)}
			n, err := ws[i].Write(p)
			if n != len(p) || err != nil {
				r.err = fmt.Sprintf("step %d: Write returned (%d, %v)", step, n, err)
				return
			}
			p[0], p[1] = 0xDB, 0xDB // the caller reuses its buffer
			units = append(units, &unit{txt: string([]byte{byte('a' + step), byte('0' + i)}), inst: i, step: step, flush: -1})
			inited[i] = true
		case mS0, mS1:
			if err := ws[i].Sync(); err != nil {
				r.err = fmt.Sprintf("step %d: Sync returned %v", step, err)
				return
			}
			pendingTo(i, step)
		case mT0, mT1:
			if err := ws[i].Stop(); err != nil {
				r.err = fmt.Sprintf("step %d: Stop returned %v", step, err)
				return
			}
			if inited[i] {
				pendingTo(i, step)
			}
		}
		if r.top == "nested" && i == 0 && (o == mS0 || (o == mT0 && inited[0])) {
			// outer's flush wrote into inner if it held anything: inner is in use from then on
			for _, u := range units {
				if u.inst == 0 {
					inited[1] = true
				}
			}
		}
		if msg := verify(step, multiNames[o]); msg != "" {
			r.err = msg + " (each write is a letter for its step and the digit of the instance it was given to)"
			return
		}
	}
	for i := range ws {
		_ = ws[i].Stop() // ends the flush loops (a no-op on a stopped or never used syncer)
	}
}

// multiItem: multi|<topology>|depth|first-op ; every history of length <= depth with that first
// operation in which no instance is stopped twice.
func multiItem(item string, replay []int, isReplay bool) mc.ItemResult {
	f := strings.Split(item, "|")
	top := f[1]
	var depth, first int
	fmt.Sscan(f[2], &depth)
	fmt.Sscan(f[3], &first)
	one := func(ops []int) *mc.Violation {
		r := &multiRun{top: top, ops: ops}
		res := vsched.Run(nil, r.body)
		switch {
		case r.err != "":
			return &mc.Violation{Kind: "oracle", Detail: fmt.Sprintf("%s syncers, history %s: %s", top, multiName(top, ops), r.err), Choices: append([]int(nil), ops...)}
		case res.Verdict == vsched.Panicked:
			return &mc.Violation{Kind: "panic", Detail: fmt.Sprintf("%s syncers, history %s: panic %v", top, multiName(top, ops), res.PanicVal), Choices: append([]int(nil), ops...)}
		case res.Verdict != vsched.OK:
			return &mc.Violation{Kind: "stuck", Detail: fmt.Sprintf("%s syncers, history %s: verdict %d %s", top, multiName(top, ops), res.Verdict, res.Blocked), Choices: append([]int(nil), ops...)}
		}
		return nil
	}
	if isReplay {
		return mc.ItemResult{Item: item, Violation: one(replay)}
	}
	st := mc.Stats{Outcomes: map[string]int{}, Exhaustive: true}
	var ops []int
	var rec func() *mc.Violation
	rec = func() *mc.Violation {
		if v := one(ops); v != nil {
			return v
		}
		st.Execs++
		st.Steps += int64(len(ops))
		st.Outcomes[fmt.Sprintf("%s:%d", top, len(ops))]++
		if len(ops) == depth {
			return nil
		}
		for o := 0; o < nMulti; o++ {
			if o == mT0 || o == mT1 {
				dup := false
				for _, p := range ops {
					dup = dup || p == o
				}
				if dup {
					continue
				}
			}
			ops = append(ops, o)
			v := rec()
			ops = ops[:len(ops)-1]
			if v != nil {
				return v
			}
		}
		return nil
	}
	ops = append(ops, first)
	v := rec()
	return mc.ItemResult{Item: item, Stats: st, Violation: v}
}
