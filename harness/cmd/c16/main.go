// Command c16 decides property C16 (console encoder line shape): for every
// configuration x entry x separator x field placement the line must equal the
// independently assembled columns joined by the separator, then (if fields
// exist) the separator and one JSON object equal - as a decoded tree - to the
// reference tree of the same fields, then the stack trace on the following
// lines, then the line ending.
package main

import (
	"fmt"
	"strings"
	"sync"
	"sync/atomic"

	"go.uber.org/zap/zapcore"
	"verif/harness/internal/encx"
	"verif/harness/internal/ev"
	"verif/harness/internal/jsonx"
	"verif/harness/internal/par"
)

var (
	evals    atomic.Int64
	mu       sync.Mutex
	distinct = map[string]struct{}{}
)

func check(run *ev.Run, c encx.Cfg, enc zapcore.Encoder, e encx.Ent, p encx.Placement, keyPrefix string, local map[string]struct{}) {
	evals.Add(1)
	desc := func() string { return fmt.Sprintf("config{%s} entry{%s} fields %s", c, e, describe(p)) }
	out, pv := encx.Encode(enc, e.Entry(), p, len(p.With) > 0)
	if pv != nil {
		cls := fmt.Sprint(pv)
		if i := strings.IndexAny(cls, ":("); i > 0 {
			cls = cls[:i]
		}
		run.Report(keyPrefix+":abnormal:"+cls, desc()+": "+fmt.Sprint(pv), desc())
		return
	}
	if len(local) < 200000 {
		local[string(out)] = struct{}{}
	}
	sep := c.Sep
	if sep == "" {
		sep = "\t"
	}
	cols := c.ConsoleColumns(e)
	// A line that starts with a column of empty text which is directly followed by the message
	// or by the field object (not by another metadata column): whether a separator follows that
	// empty text is not determined by the statement; the encoder starts the line at the next
	// part. (Between two metadata columns the separator is determined, also after an empty one.)
	nMeta := len(cols)
	if c.MessageKey != "" {
		nMeta--
	}
	for len(cols) > 0 && cols[0] == "" && nMeta <= 1 {
		cols, nMeta = cols[1:], 0
	}
	prefix := strings.Join(cols, sep)
	line := string(out)
	fail := func(class, msg string) {
		run.Report(keyPrefix+":"+class, fmt.Sprintf("%s: %s; line %q, expected to start with %q", desc(), msg, clip(line), clip(prefix)), map[string]any{"case": desc(), "line": clip(line)})
	}
	if !strings.HasPrefix(line, prefix) {
		fail("columns", "metadata columns differ")
		return
	}
	rest := line[len(prefix):]
	want := jsonx.O()
	encx.ExpectFields(want, p, c.Ref())
	if len(want.Members) > 0 {
		if len(cols) > 0 {
			if !strings.HasPrefix(rest, sep) {
				fail("context-separator", "no separator before the field object")
				return
			}
			rest = rest[len(sep):]
		}
		if !strings.HasPrefix(rest, "{") {
			fail("context-missing", "fields exist but no JSON object follows the columns")
			return
		}
		node, n, _, err := jsonx.ParseValue([]byte(rest))
		if err != nil {
			fail("context-malformed", "field object is not valid JSON: "+err.Error())
			return
		}
		if d := encx.DiffFields(node, p, c.Ref()); d != "" {
			fail("context-value", "field object differs from what the JSON encoder contract gives: "+d)
			return
		}
		rest = rest[n:]
	}
	tail := ""
	if e.Stack != "" && c.StackKey != "" {
		tail = "\n" + e.Stack
	}
	tail += c.WantLineEnding()
	if rest != tail {
		fail("tail", fmt.Sprintf("after columns and fields come %q, want %q", clip(rest), clip(tail)))
	}
}

func describe(p encx.Placement) string {
	var w []string
	for _, s := range p.With {
		w = append(w, "With"+encx.Describe(s))
	}
	return strings.Join(append(w, "log"+encx.Describe(p.Call)), " ")
}

func clip(s string) string {
	if len(s) > 300 {
		return s[:300] + "..."
	}
	return s
}

func merge(local map[string]struct{}) {
	mu.Lock()
	for k := range local {
		if len(distinct) < 2000000 {
			distinct[k] = struct{}{}
		}
	}
	mu.Unlock()
}

func main() {
	run := ev.Start("C16", "exploration")
	thorough := run.Thorough()
	var cfgs []encx.Cfg
	encx.AllConfigs(func(c encx.Cfg) { cfgs = append(cfgs, c) })
	levels := []zapcore.Level{zapcore.InfoLevel, zapcore.Level(42)}
	if thorough {
		levels = append(levels, zapcore.DebugLevel, zapcore.FatalLevel, zapcore.Level(-128))
	}
	var ents []encx.Ent
	ents = append(ents, encx.EntVariants(levels)...) // incl. empty messages: the message column is present whenever its key is set
	leaves := encx.Leaves(true)
	var dur *encx.Spec
	for _, lf := range leaves {
		if lf.Name == "duration:1500000000" {
			dur = lf
		}
	}
	placements := []encx.Placement{
		{},
		{Call: []*encx.Spec{encx.StringLeaf(encx.Hostile), dur}},
		{With: [][]*encx.Spec{{encx.StringLeaf("ctx"), encx.NamespaceSpec()}}},
		{With: [][]*encx.Spec{{encx.StringLeaf("ctx"), encx.NamespaceSpec()}}, Call: []*encx.Spec{dur, encx.NamespaceSpec(), encx.StringLeaf("in")}},
		{Call: []*encx.Spec{encx.SkipSpec()}},
	}
	seps := []string{"", "|", " ", "::", "→"}
	shards := 128
	par.For(shards, func(sh int) {
		local := map[string]struct{}{}
		for ci := sh; ci < len(cfgs); ci += shards {
			base := cfgs[ci]
			variants := []encx.Cfg{base}
			if thorough || ci%3 == 0 {
				for _, s := range seps[1:] {
					v := base
					v.Sep = s
					variants = append(variants, v)
				}
			}
			if ci%7 == 0 {
				for _, le := range []string{"\r\n", "|END|"} {
					v := base
					v.LineEnding = le
					variants = append(variants, v)
				}
				v := base
				v.SkipLineEnding = true
				variants = append(variants, v)
			}
			if ci%5 == 0 {
				for _, du := range []string{"nanos", "string", "nil", "noop"} {
					v := base
					v.DurEnc = du
					variants = append(variants, v)
				}
			}
			for _, c := range variants {
				enc := zapcore.NewConsoleEncoder(c.EncoderConfig())
				for _, e := range ents {
					for _, p := range placements {
						check(run, c, enc, e, p, "cfg", local)
					}
				}
				// messages that end in (or are) the configured separator: the separator
				// that follows the message column must still be written
				sep := c.Sep
				if sep == "" {
					sep = "\t"
				}
				for _, m := range []string{"tail" + sep, sep, sep + "x" + sep + sep} {
					e := ents[len(ents)-1]
					e.Message = m
					for _, p := range placements {
						check(run, c, enc, e, p, "cfg-msg-sep", local)
					}
				}
			}
		}
		merge(local)
	})
	// structural family on the default configuration
	nodes := 3
	if thorough {
		nodes = 4
	}
	g := encx.NewGen()
	c := encx.DefaultCfg()
	e := encx.DefaultEnt()
	for n := 1; n <= nodes; n++ {
		lists := g.Lists(n)
		par.For(64, func(sh int) {
			local := map[string]struct{}{}
			enc := zapcore.NewConsoleEncoder(c.EncoderConfig())
			for li := sh; li < len(lists); li += 64 {
				specs := lists[li]
				for a := 0; a <= len(specs); a++ {
					p := encx.Placement{Call: specs[a:]}
					if a > 0 {
						p.With = [][]*encx.Spec{specs[:a]}
					}
					check(run, c, enc, e, p, "tree", local)
				}
			}
			merge(local)
		})
	}
	// sequences of reflected values (encodable, unencodable, array that carries on after unencodable
	// elements) with zap's default reflection encoder and a user-supplied streaming one
	rlists, _ := encx.ReflectSeqLists(nodes)
	par.For(32, func(sh int) {
		local := map[string]struct{}{}
		for _, re := range []string{"", "partial"} {
			rc := c
			rc.ReflectEnc = re
			enc := zapcore.NewConsoleEncoder(rc.EncoderConfig())
			for li := sh; li < len(rlists); li += 32 {
				specs := rlists[li]
				for a := 0; a <= len(specs); a++ {
					p := encx.Placement{Call: specs[a:]}
					if a > 0 {
						p.With = [][]*encx.Spec{specs[:a]}
					}
					check(run, rc, enc, e, p, "reflect-seq:"+re, local)
				}
			}
		}
		merge(local)
	})
	// every string length up to the sweep maximum (one special unit at the start / middle / end) as message,
	// logger name and field value
	strMax := 300
	if thorough {
		strMax = 1100
	}
	sweep := encx.LengthSweepStrings(strMax)
	par.For(32, func(sh int) {
		local := map[string]struct{}{}
		enc := zapcore.NewConsoleEncoder(c.EncoderConfig())
		for si := sh; si < len(sweep); si += 32 {
			se := e
			se.Message, se.Name = sweep[si], sweep[si]
			check(run, c, enc, se, encx.Placement{Call: []*encx.Spec{encx.StringLeaf(sweep[si])}}, "string-length", local)
			check(run, c, enc, se, encx.Placement{With: [][]*encx.Spec{{encx.StringLeaf(sweep[si])}}}, "string-length", local)
		}
		merge(local)
	})
	// d namespaces left open for every d up to the sweep maximum, in six shapes (call site, With context, split
	// With chain, object marshaler, object in a namespaced context, object as array element)
	nsMax := 70
	if thorough {
		nsMax = 300
	}
	par.For(nsMax+1, func(depth int) {
		local := map[string]struct{}{}
		enc := zapcore.NewConsoleEncoder(c.EncoderConfig())
		for _, p := range encx.NamespaceDepthPlacements(depth) {
			check(run, c, enc, e, p, "namespace-depth", local)
		}
		merge(local)
	})
	// full leaf alphabet in every context class
	par.For(len(leaves), func(i int) {
		local := map[string]struct{}{}
		enc := zapcore.NewConsoleEncoder(c.EncoderConfig())
		for _, p := range encx.Contexts(leaves[i]) {
			check(run, c, enc, e, p, "leaf:"+leaves[i].Name, local)
		}
		merge(local)
	})
	// caller file paths of every shape with the short and the full caller encoder
	callerUnits := 5
	if thorough {
		callerUnits = 6
	}
	paths := encx.CallerPaths(callerUnits)
	par.For(2, func(i int) {
		local := map[string]struct{}{}
		cc := encx.DefaultCfg()
		cc.CallerEnc = []string{"short", "full"}[i]
		enc := zapcore.NewConsoleEncoder(cc.EncoderConfig())
		for _, cl := range paths {
			ce := encx.DefaultEnt()
			ce.Caller = cl
			check(run, cc, enc, ce, placements[1], "caller-path:"+cc.CallerEnc, local)
		}
		merge(local)
	})
	run.Assume = []string{
		"configuration product as in C01 (13440 key/sub-encoder combinations incl. nil and no-op) x entry variants x separators {default, |, space, ::, multi-byte} x line endings; messages may be empty (the message column is present whenever its key is set); when the line STARTS with a column of empty text (an empty message, or the time under an empty time layout) that is directly followed by the message or the field object, the separator after that empty text is not determined by the statement and the encoder's choice (none) is accepted - between metadata columns it is determined; a defined caller without a function name is among the entries (the function column is then an empty text, as the encoder prints it)",
		"a nil or no-op sub-encoder yields no column; a nil name encoder falls back to the full name (documented)",
		"sequences of <= max_tree_nodes reflected values (encodable / unencodable / failing json.Marshaler / array that carries on after unencodable elements) under zap's default reflection encoder and under a user-supplied streaming NewReflectedEncoder that fails after partial output",
		"one string of every length up to the stated sweep maximum, with one special unit (quote, newline, invalid byte, two-byte rune) at the start / middle / end, as message, logger name and field value",
		"the field object is compared as a decoded tree (whitespace-insensitive) with the same reference tree as C02",
	}
	run.Finish(map[string]any{
		"evaluations":         evals.Load(),
		"distinct_nontrivial": len(distinct),
		"rule":                "one evaluation = one console EncodeEntry / Core.Write compared byte-exactly (columns, separators, stack, line ending) and tree-exactly (field object) with the reference; distinct = distinct output lines",
		"samples": []any{
			map[string]any{"config": cfgs[len(cfgs)/2].String(), "entry": ents[len(ents)-1].String(), "fields": describe(placements[3])},
		},
		"exhaustive":              true,
		"configurations":          len(cfgs),
		"entry_variants":          len(ents),
		"max_tree_nodes":          nodes,
		"string_length_sweep_max": strMax,
		"caller_paths":            len(paths),
	})
}
