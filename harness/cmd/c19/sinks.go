package main

import (
	"errors"
	"fmt"
	"io/fs"
	"net/url"
	"os"
	"path/filepath"
	"regexp"
	"sort"
	"strconv"
	"strings"
	"sync"

	"go.uber.org/zap"
)

// ---------------------------------------------------------------------------
// recording sinks, registered once under vfok / vffail

type recSink struct {
	mu              sync.Mutex
	tag             string
	writes          [][]byte
	syncs, closes   int
	writeAfterClose int
}

func (s *recSink) Write(p []byte) (int, error) {
	s.mu.Lock()
	defer s.mu.Unlock()
	if s.closes > 0 {
		s.writeAfterClose++
	}
	s.writes = append(s.writes, append([]byte(nil), p...))
	return len(p), nil
}

func (s *recSink) Sync() error {
	s.mu.Lock()
	s.syncs++
	s.mu.Unlock()
	return nil
}

func (s *recSink) Close() error {
	s.mu.Lock()
	s.closes++
	s.mu.Unlock()
	return nil
}

func (s *recSink) all() string {
	s.mu.Lock()
	defer s.mu.Unlock()
	var b strings.Builder
	for _, w := range s.writes {
		b.Write(w)
	}
	return b.String()
}

// caseCtx is the per-case recorder: custom sinks find it through the URL host.
type caseCtx struct {
	id, dir string
	mu      sync.Mutex
	sinks   []*recSink
	refused []string
}

var (
	cases        sync.Map // id -> *caseCtx
	harnessFault sync.Map // message -> true (factory called for an unknown case)
	workRoot     string
)

func newCase(letter string, idx int) *caseCtx {
	c := &caseCtx{id: letter + strconv.Itoa(idx)}
	c.dir = filepath.Join(workRoot, "cases", letter, strconv.Itoa(idx%256), c.id)
	if err := os.MkdirAll(c.dir, 0o755); err != nil {
		toolError("mkdir %s: %v", c.dir, err)
	}
	cases.Store(c.id, c)
	return c
}

func (c *caseCtx) done() {
	cases.Delete(c.id)
	_ = os.RemoveAll(c.dir)
}

func (c *caseCtx) byTag(tag string) []*recSink {
	c.mu.Lock()
	defer c.mu.Unlock()
	var out []*recSink
	for _, s := range c.sinks {
		if s.tag == tag {
			out = append(out, s)
		}
	}
	return out
}

func (c *caseCtx) allSinks() []*recSink {
	c.mu.Lock()
	defer c.mu.Unlock()
	return append([]*recSink(nil), c.sinks...)
}

func okFactory(u *url.URL) (zap.Sink, error) {
	v, ok := cases.Load(u.Host)
	if !ok {
		harnessFault.Store("vfok factory called for unknown case "+u.String(), true)
		return nil, errors.New("c19 harness: unknown case")
	}
	c := v.(*caseCtx)
	s := &recSink{tag: strings.TrimPrefix(u.Path, "/")}
	c.mu.Lock()
	c.sinks = append(c.sinks, s)
	c.mu.Unlock()
	return s, nil
}

func failFactory(u *url.URL) (zap.Sink, error) {
	if v, ok := cases.Load(u.Host); ok {
		c := v.(*caseCtx)
		c.mu.Lock()
		c.refused = append(c.refused, u.Path)
		c.mu.Unlock()
	}
	return nil, fmt.Errorf("vffail sink refuses to open %s", u.Path)
}

// ---------------------------------------------------------------------------
// the path alphabet

const (
	kOkCustom = iota
	kFailCustom
	kOkFile
	kFailFile
	kStdout
	kUnknown
	kUnparsable
	nQuickKinds
	// thorough only
	kOkCustomMixedCase = iota - 1
	kFileURL
	kRelFile
	kStderr
	nThoroughKinds
)

var kindNames = []string{"ok-custom", "failing-custom", "ok-file", "failing-file", "stdout", "unknown-scheme", "unparsable-url", "ok-custom-MixedCase-scheme", "file-url", "relative-file", "stderr"}

type pathSpec struct {
	kind int
	tag  string // list letter + position
	s    string // the string handed to zap
	file string // for file kinds: the file that must be opened
}

func (p pathSpec) ok() bool {
	switch p.kind {
	case kFailCustom, kFailFile, kUnknown, kUnparsable:
		return false
	}
	return true
}
func (p pathSpec) custom() bool { return p.kind == kOkCustom || p.kind == kOkCustomMixedCase }
func (p pathSpec) isFile() bool {
	return p.kind == kOkFile || p.kind == kFileURL || p.kind == kRelFile
}

func mkSpecs(c *caseCtx, kinds []int, list string) []pathSpec {
	out := make([]pathSpec, len(kinds))
	for i, k := range kinds {
		tag := list + strconv.Itoa(i)
		p := pathSpec{kind: k, tag: tag}
		switch k {
		case kOkCustom:
			p.s = "vfok://" + c.id + "/" + tag
		case kOkCustomMixedCase:
			p.s = "VfOk://" + c.id + "/" + tag
		case kFailCustom:
			p.s = "vffail://" + c.id + "/" + tag
		case kOkFile:
			p.file = filepath.Join(c.dir, tag+".log")
			p.s = p.file
		case kFailFile:
			p.s = filepath.Join(c.dir, "missing", tag+".log")
		case kStdout:
			p.s = "stdout"
		case kStderr:
			p.s = "stderr"
		case kUnknown:
			p.s = "vfnone://" + c.id + "/" + tag
		case kUnparsable:
			p.s = ":bad-" + c.id + "-" + tag
		case kFileURL:
			p.file = filepath.Join(c.dir, tag+".log")
			if i%2 == 0 {
				p.s = "file://" + p.file
			} else {
				p.s = "file://localhost" + p.file
			}
		case kRelFile:
			p.file = filepath.Join(c.dir, tag+".log")
			rel, err := filepath.Rel(workRoot, p.file)
			if err != nil {
				toolError("rel: %v", err)
			}
			p.s = rel
		}
		out[i] = p
	}
	return out
}

func strs(ps []pathSpec) []string {
	out := make([]string, len(ps))
	for i, p := range ps {
		out[i] = p.s
	}
	return out
}

func kindStrs(ks []int) []string {
	out := make([]string, len(ks))
	for i, k := range ks {
		out[i] = kindNames[k]
	}
	return out
}

// lists returns every list of length <= maxLen over 0..k-1, shortest first.
func lists(k, maxLen int) [][]int {
	out := [][]int{{}}
	cur := [][]int{{}}
	for l := 1; l <= maxLen; l++ {
		var next [][]int
		for _, p := range cur {
			for a := 0; a < k; a++ {
				q := append(append(make([]int, 0, len(p)+1), p...), a)
				next = append(next, q)
			}
		}
		out = append(out, next...)
		cur = next
	}
	return out
}

// ---------------------------------------------------------------------------
// observation from outside zap

// fdsInto lists the descriptors of this process that point into dir.
func fdsInto(dir string) []string {
	ents, err := os.ReadDir("/proc/self/fd")
	if err != nil {
		toolError("/proc/self/fd: %v", err)
	}
	var out []string
	pre := dir + "/"
	for _, e := range ents {
		t, err := os.Readlink("/proc/self/fd/" + e.Name())
		if err != nil {
			continue
		}
		if strings.HasPrefix(t, pre) {
			out = append(out, strings.TrimSuffix(strings.TrimPrefix(t, pre), " (deleted)"))
		}
	}
	sort.Strings(out)
	return out
}

// regularFiles lists the regular files below dir (relative names, sorted).
func regularFiles(dir string) []string {
	var out []string
	_ = filepath.WalkDir(dir, func(p string, d fs.DirEntry, err error) error {
		if err != nil {
			return nil
		}
		if d.Type().IsRegular() {
			r, _ := filepath.Rel(dir, p)
			out = append(out, r)
		}
		return nil
	})
	sort.Strings(out)
	return out
}

func try(f func()) (pan any) {
	defer func() {
		if r := recover(); r != nil {
			pan = r
		}
	}()
	f()
	return nil
}

// ---------------------------------------------------------------------------
// tokens and the deferred stdout/stderr comparison

func token(id, kind string) string { return "tok." + id + "." + kind + ".end" }

var tokRE = regexp.MustCompile(`tok\.([a-z]+)([0-9]+)\.([A-Z])\.end`)

type stdExpect struct {
	mu   sync.Mutex
	want map[string]int
}

func (e *stdExpect) add(tok string, n int) {
	if n == 0 {
		return
	}
	e.mu.Lock()
	e.want[tok] += n
	e.mu.Unlock()
}

var (
	expOut = &stdExpect{want: map[string]int{}}
	expErr = &stdExpect{want: map[string]int{}}
)

func compareCapture(col *collector, stream, file string, e *stdExpect) int {
	b, err := os.ReadFile(file)
	if err != nil {
		toolError("read capture: %v", err)
	}
	got := map[string]int{}
	for _, m := range tokRE.FindAll(b, -1) {
		got[string(m)]++
	}
	report := func(tok string, want, have int) {
		m := tokRE.FindStringSubmatch(tok)
		idx, _ := strconv.Atoi(m[2])
		part := map[string]int{"o": partOpen, "b": partBuild, "u": partURL}[m[1]]
		role := map[string]string{"W": "write through the Open writer", "A": "log entry", "B": "log entry (with failing hook)", "H": "internal logger error"}[m[3]]
		col.add(part, idx, fmt.Sprintf("%s:success:%s-delivery:%s", partNames[part], stream, m[3]),
			fmt.Sprintf("case %s%d: %s reached os.%s %d times, expected %d (one per %q entry in the relevant path list)", m[1], idx, role, strings.ToUpper(stream[:1])+stream[1:], have, want, stream),
			map[string]any{"part": partNames[part], "index": idx})
	}
	for tok, w := range e.want {
		if got[tok] != w {
			report(tok, w, got[tok])
		}
	}
	for tok, h := range got {
		if _, ok := e.want[tok]; !ok {
			report(tok, 0, h)
		}
	}
	return len(e.want)
}
