package main

import (
	"bytes"
	"fmt"
	"log"
	"os"

	"go.uber.org/zap"
	"go.uber.org/zap/zapcore"
	"go.uber.org/zap/zaptest/observer"
	"go.uber.org/zap/zzverif/bridge"
)

// part std-log: sequential (the standard logger is process-global state).

func flagStr(f int) string { return fmt.Sprintf("0x%x", f) }

func runStdlog(col *collector, thorough bool, only int) (evals int, distinct map[string]bool) {
	distinct = map[string]bool{}
	core, obs := observer.New(zapcore.DebugLevel)
	base := zap.New(core)
	origW, origF, origP := log.Writer(), log.Flags(), log.Prefix()
	restoreGlobals := func() {
		log.SetOutput(origW)
		log.SetFlags(origF)
		log.SetPrefix(origP)
	}
	defer restoreGlobals()

	flagsSet := []int{0, log.LstdFlags, log.Lshortfile | log.Lmsgprefix}
	prefixes := []string{"", "p: "}
	if thorough {
		flagsSet = append(flagsSet, log.Lmsgprefix, log.Ldate|log.Lmicroseconds|log.LUTC, log.Llongfile)
		prefixes = append(prefixes, "[x] ")
	}
	sentinel := &bytes.Buffer{}
	idx := -1
	for _, api := range []string{"RedirectStdLogAt", "NewStdLogAt", "RedirectStdLog", "NewStdLog"} {
		lo, hi := -128, 127
		if api == "RedirectStdLog" || api == "NewStdLog" {
			lo, hi = int(zapcore.InfoLevel), int(zapcore.InfoLevel)
		}
		for lv := lo; lv <= hi; lv++ {
			for _, flags := range flagsSet {
				for _, prefix := range prefixes {
					idx++
					if only >= 0 && idx != only {
						continue
					}
					evals++
					level := zapcore.Level(lv)
					valid := lv >= int(zapcore.DebugLevel) && lv <= int(zapcore.FatalLevel)
					distinct[fmt.Sprintf("%s/%d/%d/%s", api, lv, flags, prefix)] = true
					log.SetOutput(sentinel)
					log.SetFlags(flags)
					log.SetPrefix(prefix)
					sentinel.Reset()
					obs.TakeAll()
					desc := fmt.Sprintf("%s(level %d) with prior log.Flags()=%s log.Prefix()=%q", api, lv, flagStr(flags), prefix)
					replay := map[string]any{"part": "stdlog", "index": idx, "api": api, "level": lv, "flags": flags, "prefix": prefix}
					i := idx
					add := func(key, what string) { col.add(partStdlog, i, key, desc+": "+what, replay) }
					short := map[string]string{"RedirectStdLogAt": "redirect-at", "NewStdLogAt": "new-at", "RedirectStdLog": "redirect", "NewStdLog": "new"}[api]
					tok := fmt.Sprintf("tok.s%d.W.end", idx)

					emit := func(print func(...any)) {
						stub := bridge.StubExit()
						_ = try(func() { print(tok) }) // PanicLevel panics by contract
						stub.Unstub()
						es := obs.TakeAll()
						if len(es) != 1 || es[0].Level != level || es[0].Message != tok {
							var got []string
							for _, e := range es {
								got = append(got, fmt.Sprintf("%v:%q", e.Level, e.Message))
							}
							add("stdlog:"+short+":delivery", fmt.Sprintf("printing %q produced zap entries %v, expected exactly one at level %v with that message", tok, got, level))
						}
						if sentinel.Len() != 0 {
							add("stdlog:"+short+":previous-writer-written", fmt.Sprintf("the previous std-log writer received %q", sentinel.String()))
						}
					}

					switch api {
					case "RedirectStdLogAt", "RedirectStdLog":
						var restore func()
						var err error
						pan := try(func() {
							if api == "RedirectStdLog" {
								restore = zap.RedirectStdLog(base)
							} else {
								restore, err = zap.RedirectStdLogAt(base, level)
							}
						})
						if pan != nil {
							add("stdlog:"+short+":panic", fmt.Sprintf("panic: %v", pan))
							restoreGlobals()
							continue
						}
						if !valid {
							if err == nil {
								add("stdlog:"+short+":invalid-level-accepted", "no error for a level outside Debug..Fatal")
							} else {
								if log.Flags() != flags || log.Prefix() != prefix {
									add("stdlog:"+short+":invalid-level:flags-and-prefix-not-restored", fmt.Sprintf("returned error %q but left log.Flags()=%s log.Prefix()=%q", err.Error(), flagStr(log.Flags()), log.Prefix()))
								}
								if log.Writer() != sentinel {
									add("stdlog:"+short+":invalid-level:output-replaced", fmt.Sprintf("returned error %q but replaced the std-log writer", err.Error()))
								}
							}
							restoreGlobals()
							continue
						}
						if err != nil || restore == nil {
							add("stdlog:"+short+":valid-level-rejected", fmt.Sprintf("error %v", err))
							restoreGlobals()
							continue
						}
						emit(log.Print)
						if p := try(restore); p != nil {
							add("stdlog:"+short+":restore-func:panic", fmt.Sprintf("panic: %v", p))
						}
						if log.Flags() != flags || log.Prefix() != prefix {
							add("stdlog:"+short+":restore-func:flags-and-prefix-not-restored", fmt.Sprintf("after the restore function log.Flags()=%s log.Prefix()=%q", flagStr(log.Flags()), log.Prefix()))
						}
						if log.Writer() != os.Stderr {
							add("stdlog:"+short+":restore-func:output-not-stderr", "after the restore function log.Writer() is not os.Stderr")
						}
					case "NewStdLogAt", "NewStdLog":
						var sl *log.Logger
						var err error
						pan := try(func() {
							if api == "NewStdLog" {
								sl = zap.NewStdLog(base)
							} else {
								sl, err = zap.NewStdLogAt(base, level)
							}
						})
						if pan != nil {
							add("stdlog:"+short+":panic", fmt.Sprintf("panic: %v", pan))
							restoreGlobals()
							continue
						}
						if !valid {
							if err == nil {
								add("stdlog:"+short+":invalid-level-accepted", "no error for a level outside Debug..Fatal")
							} else if sl != nil {
								add("stdlog:"+short+":logger-returned-with-error", "non-nil *log.Logger together with an error")
							}
						} else if err != nil || sl == nil {
							add("stdlog:"+short+":valid-level-rejected", fmt.Sprintf("error %v", err))
						} else {
							emit(sl.Print)
						}
						if log.Flags() != flags || log.Prefix() != prefix || log.Writer() != sentinel {
							add("stdlog:"+short+":global-std-logger-changed", fmt.Sprintf("the package-global std logger was modified: flags=%s prefix=%q writer-unchanged=%v", flagStr(log.Flags()), log.Prefix(), log.Writer() == sentinel))
						}
					}
					restoreGlobals()
				}
			}
		}
	}
	return
}
