package main

import (
	"encoding/json"
	"fmt"
	"net/url"
	"os"
	"os/exec"
	"path/filepath"
	"strconv"
	"strings"

	"go.uber.org/zap"
	"go.uber.org/zap/zapcore"
)

// The registries are process-global and grow only, so every ordering of the
// name enumeration runs in a fresh subprocess of this binary
// (`c19 regworker <variant> <tier>`), which prints one JSON document.

type regFinding struct {
	Idx  int    `json:"idx"`
	Key  string `json:"key"`
	What string `json:"what"`
}

type regResult struct {
	Variant       int          `json:"variant"`
	SinkAttempts  int          `json:"sink_attempts"`
	SinkNames     int          `json:"sink_names"`
	SinkAccepted  int          `json:"sink_accepted"`
	Lookups       int          `json:"lookups"`
	EncoderSeqs   int          `json:"encoder_sequences"`
	EncoderOps    int          `json:"encoder_ops"`
	Findings      []regFinding `json:"findings"`
	StrayFiles    []string     `json:"stray_files"`
	SampleNames   []string     `json:"sample_names"`
	EncoderSample string       `json:"encoder_sample"`
}

// ---- sink schemes

type fac struct {
	label string
	opens int
}

func (f *fac) factory(*url.URL) (zap.Sink, error) {
	f.opens++
	return &recSink{tag: f.label}, nil
}

func schemeNames() []string {
	alpha := []string{"a", "Z", "1", "+", "-", ".", "_", "é"}
	out := []string{""}
	cur := []string{""}
	for l := 1; l <= 3; l++ {
		var next []string
		for _, p := range cur {
			for _, a := range alpha {
				next = append(next, p+a)
			}
		}
		out = append(out, next...)
		cur = next
	}
	// every byte value before, after and between letters (the validity rule is per byte)
	for b := 0; b < 256; b++ {
		c := string([]byte{byte(b)})
		out = append(out, "q"+c, c+"q", "q"+c+"r")
	}
	return out
}

func isLetter(c byte) bool { return (c >= 'a' && c <= 'z') || (c >= 'A' && c <= 'Z') }

// validScheme is RFC 3986 section 3.1: ALPHA *( ALPHA / DIGIT / "+" / "-" / "." )
func validScheme(s string) bool {
	if s == "" || !isLetter(s[0]) {
		return false
	}
	for i := 1; i < len(s); i++ {
		c := s[i]
		if !(isLetter(c) || (c >= '0' && c <= '9') || c == '+' || c == '-' || c == '.') {
			return false
		}
	}
	return true
}

func schemeClass(s string) string {
	switch {
	case s == "":
		return "empty"
	case s[0] >= 0x80:
		return "leading-non-ascii"
	case s[0] >= '0' && s[0] <= '9':
		return "leading-digit"
	case !isLetter(s[0]):
		return "leading-symbol"
	}
	for i := 1; i < len(s); i++ {
		switch {
		case s[i] >= 0x80:
			return "contains-non-ascii"
		case s[i] == '_':
			return "contains-underscore"
		}
	}
	return "well-formed"
}

func asciiMap(s string, f func(byte) byte) string {
	b := []byte(s)
	for i, c := range b {
		if c < 0x80 {
			b[i] = f(c)
		}
	}
	return string(b)
}
func lowerASCII(s string) string {
	return asciiMap(s, func(c byte) byte {
		if c >= 'A' && c <= 'Z' {
			return c + 32
		}
		return c
	})
}
func upperASCII(s string) string {
	return asciiMap(s, func(c byte) byte {
		if c >= 'a' && c <= 'z' {
			return c - 32
		}
		return c
	})
}
func flipASCII(s string) string {
	return asciiMap(s, func(c byte) byte {
		switch {
		case c >= 'a' && c <= 'z':
			return c - 32
		case c >= 'A' && c <= 'Z':
			return c + 32
		}
		return c
	})
}

func regWorker(variant int, thorough bool) regResult {
	res := regResult{Variant: variant, Findings: []regFinding{}}
	attempt := -1
	add := func(key, what string) { res.Findings = append(res.Findings, regFinding{attempt, key, what}) }

	owner := map[string]*fac{} // lower-cased scheme -> factory that must answer
	probe := &fac{label: "vfprobe"}
	if err := zap.RegisterSink("vfprobe", probe.factory); err != nil {
		fmt.Println(`{"tool_error":"cannot register vfprobe"}`)
		os.Exit(2)
	}
	owner["vfprobe"] = probe

	// resolve opens scheme://h/p and says which factory (by label) answered, "" if none
	resolve := func(scheme string) (err error) {
		res.Lookups++
		var closeFn func()
		pan := try(func() { _, closeFn, err = zap.Open(scheme + "://h/p") })
		if pan != nil {
			return fmt.Errorf("panic: %v", pan)
		}
		if err == nil && closeFn != nil {
			closeFn()
		}
		return err
	}
	// expectResolves checks that scheme (in any letter case) reaches exactly want
	expectResolves := func(scheme string, want *fac, why string) {
		for _, form := range []string{lowerASCII(scheme), upperASCII(scheme), scheme} {
			before := want.opens
			err := resolve(form)
			if err != nil || want.opens != before+1 {
				add("registry:sink:registered-scheme-does-not-resolve", fmt.Sprintf("%s: Open(%q) -> %v; the factory registered as %q was called %d times", why, form+"://h/p", err, want.label, want.opens-before))
				return
			}
		}
	}

	names := schemeNames()
	res.SinkNames = len(names)
	if variant%2 == 1 {
		for i, j := 0, len(names)-1; i < j; i, j = i+1, j-1 {
			names[i], names[j] = names[j], names[i]
		}
	}
	flipFirst := variant/2 == 1
	var lastOK string
	for pass := 0; pass < 3; pass++ {
		for _, base := range names {
			s := base
			if (pass == 1) != flipFirst {
				s = flipASCII(base)
			}
			attempt++
			res.SinkAttempts++
			f := &fac{label: fmt.Sprintf("%q@attempt%d", s, attempt)}
			var err error
			if pan := try(func() { err = zap.RegisterSink(s, f.factory) }); pan != nil {
				add("registry:sink:panic:"+schemeClass(s), fmt.Sprintf("RegisterSink(%q) panicked: %v", s, pan))
				continue
			}
			low := lowerASCII(s)
			prev, dup := owner[low]
			wantOK := validScheme(s) && !dup
			switch {
			case err == nil && !validScheme(s):
				add("registry:sink:accepted-malformed:"+schemeClass(s), fmt.Sprintf("RegisterSink(%q) succeeded; a scheme must be a letter followed by letters, digits, '+', '-', '.'", s))
			case err == nil && dup:
				how := "same-spelling"
				if !strings.Contains(prev.label, strconv.Quote(s)) {
					how = "different-letter-case"
				}
				add("registry:sink:accepted-duplicate:"+how, fmt.Sprintf("RegisterSink(%q) succeeded although %s is already registered", s, prev.label))
			case err != nil && wantOK:
				add("registry:sink:rejected-well-formed-new-scheme", fmt.Sprintf("RegisterSink(%q) failed: %v", s, err))
			}
			if err == nil {
				res.SinkAccepted++
			}
			if wantOK && err == nil {
				owner[low] = f
				expectResolves(s, f, fmt.Sprintf("after RegisterSink(%q) succeeded", s))
				lastOK = low
			} else if err != nil {
				// the rejected registration must not be reachable and must not have displaced anything
				if dup {
					expectResolves(s, prev, fmt.Sprintf("after the duplicate RegisterSink(%q) was rejected", s))
				} else if rerr := resolve(s); rerr == nil {
					add("registry:sink:rejected-scheme-resolves", fmt.Sprintf("RegisterSink(%q) failed (%v) but Open(%q) succeeds", s, err, s+"://h/p"))
				}
				if f.opens != 0 {
					add("registry:sink:rejected-factory-was-called", fmt.Sprintf("RegisterSink(%q) failed (%v) but its factory was called %d times", s, err, f.opens))
				}
				expectResolves("vfprobe", probe, fmt.Sprintf("after RegisterSink(%q) was rejected", s))
				if lastOK != "" {
					expectResolves(lastOK, owner[lastOK], fmt.Sprintf("after RegisterSink(%q) was rejected", s))
				}
			}
		}
		// full sweep of the model at the end of each pass
		for _, base := range schemeNames() {
			if o, ok := owner[lowerASCII(base)]; ok {
				expectResolves(base, o, fmt.Sprintf("sweep after pass %d", pass))
			}
		}
	}
	for i := 0; i < len(names); i += 97 {
		res.SampleNames = append(res.SampleNames, names[i])
	}

	// ---- encoder names
	maxLen := 3
	if thorough {
		maxLen = 4
	}
	type ector struct {
		label string
		calls int
	}
	mk := func(e *ector) func(zapcore.EncoderConfig) (zapcore.Encoder, error) {
		return func(c zapcore.EncoderConfig) (zapcore.Encoder, error) {
			e.calls++
			return zapcore.NewJSONEncoder(c), nil
		}
	}
	model := map[string]*ector{"json": nil, "console": nil} // nil owner = built-in
	baseE := &ector{label: "vfbase"}
	if err := zap.RegisterEncoder("vfbase", mk(baseE)); err != nil {
		add("registry:encoder:rejected-new-name", fmt.Sprintf("RegisterEncoder(%q): %v", "vfbase", err))
	} else {
		model["vfbase"] = baseE
	}
	builds := func(name string) (bool, string) {
		cfg := zap.Config{Level: zap.NewAtomicLevelAt(zap.InfoLevel), Encoding: name, EncoderConfig: zap.NewProductionEncoderConfig()}
		var err error
		var lg *zap.Logger
		if pan := try(func() { lg, err = cfg.Build() }); pan != nil {
			return false, fmt.Sprintf("panic: %v", pan)
		}
		return err == nil && lg != nil, fmt.Sprint(err)
	}
	fresh := 0
	opNames := []string{`""`, "new", "existing", `"json"`, `"console"`}
	for _, seq := range lists(5, maxLen)[1:] {
		res.EncoderSeqs++
		lastNew := "vfbase"
		var trail []string
		for _, op := range seq {
			attempt++
			res.EncoderOps++
			var name string
			switch op {
			case 0:
				name = ""
			case 1:
				fresh++
				name = fmt.Sprintf("vfenc%d", fresh)
			case 2:
				name = lastNew
			case 3:
				name = "json"
			case 4:
				name = "console"
			}
			trail = append(trail, opNames[op])
			e := &ector{label: fmt.Sprintf("%q@attempt%d", name, attempt)}
			var err error
			if pan := try(func() { err = zap.RegisterEncoder(name, mk(e)) }); pan != nil {
				add("registry:encoder:panic", fmt.Sprintf("RegisterEncoder(%q) panicked: %v", name, pan))
				continue
			}
			_, dup := model[name]
			wantOK := name != "" && !dup
			where := fmt.Sprintf("sequence [%s]: RegisterEncoder(%q)", strings.Join(trail, " "), name)
			switch {
			case err == nil && name == "":
				add("registry:encoder:accepted-empty-name", where+" succeeded")
			case err == nil && dup:
				kind := "custom"
				if name == "json" || name == "console" {
					kind = "built-in"
				}
				add("registry:encoder:accepted-duplicate:"+kind, where+" succeeded although the name is taken")
			case err != nil && wantOK:
				add("registry:encoder:rejected-new-name", fmt.Sprintf("%s failed: %v", where, err))
			}
			if wantOK && err == nil {
				model[name] = e
				lastNew = name
			}
			// the registry must answer exactly like the model for the names this sequence touched
			for _, n := range []string{"", "json", "console", "vfbase", lastNew, name} {
				o, in := model[n]
				if n == "" {
					in = false
				}
				before := 0
				if o != nil {
					before = o.calls
				}
				eBefore := e.calls
				ok, msg := builds(n)
				switch {
				case ok != in:
					add("registry:encoder:lookup-disagrees-with-registrations", fmt.Sprintf("%s returned %v; afterwards Config{Encoding:%q}.Build succeeds=%v (%s), registered=%v", where, err, n, ok, msg, in))
				case in && o != nil && o.calls != before+1:
					add("registry:encoder:registered-constructor-replaced", fmt.Sprintf("%s returned %v; afterwards building %q did not call the constructor registered first (%s)", where, err, n, o.label))
				case in && o != e && e.calls != eBefore:
					add("registry:encoder:rejected-constructor-was-called", fmt.Sprintf("%s returned %v, yet building %q called the rejected constructor", where, err, n))
				}
			}
		}
		if res.EncoderSample == "" && len(seq) == maxLen {
			res.EncoderSample = strings.Join(trail, " ")
		}
	}
	cwd, _ := os.Getwd()
	res.StrayFiles = regularFiles(cwd)
	return res
}

func regWorkerMain() {
	variant, _ := strconv.Atoi(os.Args[2])
	thorough := len(os.Args) > 3 && os.Args[3] == "thorough"
	dir := filepath.Join(filepath.Dir(os.Args[0]), "c19work", "reg"+os.Args[2])
	if err := os.MkdirAll(dir, 0o755); err != nil {
		fmt.Printf(`{"tool_error":%q}`, err.Error())
		os.Exit(2)
	}
	if err := os.Chdir(dir); err != nil {
		fmt.Printf(`{"tool_error":%q}`, err.Error())
		os.Exit(2)
	}
	res := regWorker(variant, thorough)
	b, _ := json.Marshal(res)
	os.Stdout.Write(b)
	os.Exit(0)
}

func spawnRegWorker(variant int, tier string) (regResult, error) {
	cmd := exec.Command(os.Args[0], "regworker", strconv.Itoa(variant), tier)
	cmd.Stderr = realStderr
	out, err := cmd.Output()
	var res regResult
	if err != nil {
		return res, fmt.Errorf("registry worker %d: %v (output %q)", variant, err, out)
	}
	if err := json.Unmarshal(out, &res); err != nil {
		return res, fmt.Errorf("registry worker %d: bad output %q: %v", variant, out, err)
	}
	return res, nil
}
