// Command c19 decides property C19 (Open, Config.Build and std-log redirection
// are all-or-nothing; file URLs validated; registries reject bad names without
// changing) by fault enumeration on the real zap code: every path list over a
// destination alphabet with every subset/position failing, every Config fault,
// all 256 levels for std-log redirection, file URLs assembled from components,
// and all short scheme / encoder names (in fresh subprocesses).
package main

import (
	"encoding/json"
	"errors"
	"fmt"
	"net/url"
	"os"
	"path/filepath"
	"runtime"
	"runtime/debug"
	"sort"
	"sync"

	"go.uber.org/zap"
	"go.uber.org/zap/zapcore"
	"verif/harness/internal/ev"
	"verif/harness/internal/par"
)

const (
	partOpen = iota
	partBuild
	partStdlog
	partURL
	partRegistry
)

var partNames = []string{"open", "build", "stdlog", "url", "registry"}

type finding struct {
	part, idx int
	key, what string
	replay    any
}

type collector struct {
	mu sync.Mutex
	fs []finding
}

func (c *collector) add(part, idx int, key, what string, replay any) {
	c.mu.Lock()
	c.fs = append(c.fs, finding{part, idx, key, what, replay})
	c.mu.Unlock()
}

func (c *collector) sorted() []finding {
	c.mu.Lock()
	defer c.mu.Unlock()
	sort.SliceStable(c.fs, func(i, j int) bool {
		a, b := c.fs[i], c.fs[j]
		if a.part != b.part {
			return a.part < b.part
		}
		if a.idx != b.idx {
			return a.idx < b.idx
		}
		return a.key < b.key
	})
	return c.fs
}

var (
	realStdout, realStderr *os.File
	capOut, capErr         *os.File
)

func toolError(format string, a ...any) {
	if realStdout != nil {
		os.Stdout, os.Stderr = realStdout, realStderr
	}
	ev.ToolError(format, a...)
}

// runBatched shards n cases over all cores in small batches with a collection
// in between: the collector is off while cases run, so an unreferenced leaked
// *os.File can never be closed by its finalizer before the case has looked at
// /proc/self/fd (the observation stays deterministic).
func runBatched(n int, f func(i int)) {
	const batch = 64
	for lo := 0; lo < n; lo += batch {
		hi := lo + batch
		if hi > n {
			hi = n
		}
		par.For(hi-lo, func(k int) { f(lo + k) })
		runtime.GC()
	}
}

func setup() {
	realStdout, realStderr = os.Stdout, os.Stderr
	exe, err := filepath.Abs(os.Args[0])
	if err != nil {
		toolError("abs: %v", err)
	}
	workRoot = filepath.Join(filepath.Dir(exe), "c19work")
	_ = os.RemoveAll(workRoot)
	if err := os.MkdirAll(workRoot, 0o755); err != nil {
		toolError("mkdir: %v", err)
	}
	if err := os.Chdir(workRoot); err != nil {
		toolError("chdir: %v", err)
	}
	open := func(name string) *os.File {
		f, err := os.OpenFile(filepath.Join(workRoot, name), os.O_CREATE|os.O_APPEND|os.O_RDWR, 0o644)
		if err != nil {
			toolError("capture: %v", err)
		}
		return f
	}
	capOut, capErr = open("stdout.cap"), open("stderr.cap")

	if err := zap.RegisterSink("vfok", okFactory); err != nil {
		toolError("RegisterSink(vfok): %v", err)
	}
	if err := zap.RegisterSink("vffail", failFactory); err != nil {
		toolError("RegisterSink(vffail): %v", err)
	}
	if err := zap.RegisterEncoder("vfencfail", func(zapcore.EncoderConfig) (zapcore.Encoder, error) {
		return nil, errors.New("vfencfail constructor refuses")
	}); err != nil {
		toolError("RegisterEncoder(vfencfail): %v", err)
	}

	// self-tests of the observation machinery
	if _, err := url.Parse(":bad-o1-o0"); err == nil {
		toolError("self-test: the unparsable-URL symbol parses")
	}
	st := filepath.Join(workRoot, "selftest")
	_ = os.MkdirAll(st, 0o755)
	f, err := os.Create(filepath.Join(st, "x"))
	if err != nil {
		toolError("self-test: %v", err)
	}
	if n := len(fdsInto(st)); n != 1 {
		toolError("self-test: /proc/self/fd scan sees %d descriptors for one open file", n)
	}
	f.Close()
	if n := len(fdsInto(st)); n != 0 {
		toolError("self-test: /proc/self/fd scan sees %d descriptors after close", n)
	}
	_ = os.RemoveAll(st)
}

type plan struct {
	openCases  [][]int
	buildLists [][]int
	nVariants  int
	urls       []urlCase
	regVariant []int
}

func mkPlan(thorough bool) plan {
	var p plan
	if thorough {
		p.openCases = lists(nThoroughKinds, 4)
		p.buildLists = lists(nThoroughKinds, 2)
		p.regVariant = []int{0, 1, 2, 3}
	} else {
		p.openCases = lists(nQuickKinds, 4)
		// the thorough-only symbols appear in quick in every list of length <= 2
		for _, l := range lists(nThoroughKinds, 2) {
			for _, k := range l {
				if k >= nQuickKinds {
					p.openCases = append(p.openCases, l)
					break
				}
			}
		}
		p.buildLists = lists(nQuickKinds, 2)
		p.regVariant = []int{0, 3}
	}
	p.nVariants = 4
	p.urls = urlCases(thorough)
	return p
}

func (p plan) nBuild() int { return len(p.buildLists) * len(p.buildLists) * nFaults * p.nVariants }

func (p plan) buildCase(idx int) buildCase {
	v := idx % p.nVariants
	idx /= p.nVariants
	f := idx % nFaults
	idx /= nFaults
	e := idx % len(p.buildLists)
	o := idx / len(p.buildLists)
	return buildCase{outs: p.buildLists[o], errs: p.buildLists[e], fault: f, sampling: v&1 != 0, fields: v&2 != 0}
}

func main() {
	if len(os.Args) > 1 && os.Args[1] == "regworker" {
		regWorkerMain()
		return
	}
	run := ev.Start("C19", "fault_enumeration")
	setup()
	debug.SetGCPercent(-1)
	p := mkPlan(run.Thorough())
	col := &collector{}

	type replaySel struct {
		Part  string `json:"part"`
		Index int    `json:"index"`
	}
	var sel *replaySel
	var replayKey string
	if rp := os.Getenv("VERIF_REPLAY"); rp != "" {
		b, err := os.ReadFile(rp)
		if err != nil {
			toolError("replay: %v", err)
		}
		var rf struct {
			Key  string    `json:"key"`
			Case replaySel `json:"case"`
		}
		if err := json.Unmarshal(b, &rf); err != nil || rf.Case.Part == "" {
			toolError("replay file has no part/index: %v", err)
		}
		sel, replayKey = &rf.Case, rf.Key
	}
	want := func(part string) bool { return sel == nil || sel.Part == part }
	pick := func(part string, n int, f func(i int)) {
		if sel != nil {
			if sel.Part == part && sel.Index >= 0 && sel.Index < n {
				f(sel.Index)
			}
			return
		}
		runBatched(n, f)
	}

	// registry workers run beside the in-process enumeration
	regCh := make(chan struct {
		r   regResult
		err error
	}, len(p.regVariant))
	nReg := 0
	if want("registry") {
		for _, v := range p.regVariant {
			if sel != nil && sel.Index/1000000 != v {
				continue
			}
			nReg++
			go func(v int) {
				r, err := spawnRegWorker(v, run.Tier)
				regCh <- struct {
					r   regResult
					err error
				}{r, err}
			}(v)
		}
	}

	os.Stdout, os.Stderr = capOut, capErr

	stdEvals, stdDistinct := 0, map[string]bool{}
	if want("stdlog") {
		only := -1
		if sel != nil {
			only = sel.Index
		}
		stdEvals, stdDistinct = runStdlog(col, run.Thorough(), only)
	}
	pick("open", len(p.openCases), func(i int) { runOpenCase(col, i, p.openCases[i]) })
	pick("url", len(p.urls), func(i int) { runURLCase(col, i, p.urls[i]) })
	pick("build", p.nBuild(), func(i int) { runBuildCase(col, i, p.buildCase(i)) })

	relEvals := 0
	var rootedSkipped []string
	if sel == nil || (sel.Part == "open" && sel.Index >= 900000) { // the sequential current-directory parts (replayed as a whole)
		relEvals = runRelSpecial(col)
		relEvals += runRelURL(col)
		relEvals += runSameFile(col)
		var n int
		n, rootedSkipped = runRooted(col)
		relEvals += n
	}
	os.Stdout, os.Stderr = realStdout, realStderr
	nStd := compareCapture(col, "stdout", filepath.Join(workRoot, "stdout.cap"), expOut)
	nStd += compareCapture(col, "stderr", filepath.Join(workRoot, "stderr.cap"), expErr)

	var regs []regResult
	for i := 0; i < nReg; i++ {
		x := <-regCh
		if x.err != nil {
			toolError("%v", x.err)
		}
		regs = append(regs, x.r)
	}
	sort.Slice(regs, func(i, j int) bool { return regs[i].Variant < regs[j].Variant })
	regEvals, regLookups := 0, 0
	for _, r := range regs {
		if len(r.StrayFiles) > 0 {
			// the lookups open "<name>://h/p" for every candidate name; for names that are no schemes the string is a
			// scheme-less relative URL with a query or fragment ("q?://h/p") or an invalid one: nothing may be opened
			col.add(partRegistry, r.Variant*1000000, "registry:lookup-of-unregistered-name-created-files", fmt.Sprintf("registry enumeration order %d: Open(\"<name>://h/p\") over the candidate scheme names left files %v in the working directory (a relative file URL with a query or fragment was opened)", r.Variant, r.StrayFiles),
				map[string]any{"part": "registry", "index": r.Variant * 1000000, "variant": r.Variant})
		}
		regEvals += r.SinkAttempts + r.EncoderOps
		regLookups += r.Lookups
		for _, f := range r.Findings {
			col.add(partRegistry, r.Variant*1000000+f.Idx, f.Key, fmt.Sprintf("registry enumeration order %d: %s", r.Variant, f.What),
				map[string]any{"part": "registry", "index": r.Variant*1000000 + f.Idx, "variant": r.Variant, "attempt": f.Idx})
		}
	}
	var faults []string
	harnessFault.Range(func(k, _ any) bool { faults = append(faults, k.(string)); return true })
	if len(faults) > 0 {
		sort.Strings(faults)
		toolError("harness: %v", faults[0])
	}
	_ = os.RemoveAll(workRoot)

	fs := col.sorted()
	if sel != nil {
		for _, f := range fs {
			if f.key == replayKey {
				fmt.Printf("VIOLATION property=C19 replay=%s\n  key:  %s\n  what: %s\n", os.Getenv("VERIF_REPLAY"), f.key, f.what)
				os.Exit(1)
			}
		}
		fmt.Println("replay: no violation on this tree")
		os.Exit(0)
	}
	for _, f := range fs {
		run.Report(f.key, f.what, f.replay)
	}

	nOpenNontrivial := len(p.openCases) - 1
	nBuildNontrivial := 0
	for i, n := 0, p.nBuild(); i < n; i += p.nVariants {
		bc := p.buildCase(i)
		if len(bc.outs)+len(bc.errs) > 0 || bc.fault != fNone {
			nBuildNontrivial += p.nVariants
		}
	}
	evals := len(p.openCases) + p.nBuild() + stdEvals + len(p.urls) + regEvals + relEvals
	distinct := nOpenNontrivial + nBuildNontrivial + len(stdDistinct) + len(p.urls)
	if len(regs) > 0 {
		distinct += regs[0].SinkNames + regs[0].EncoderSeqs
	}
	run.Assume = []string{
		"destination alphabet: custom sink (vfok), failing custom sink (vffail), file in a fresh directory, file under a missing directory, stdout, unknown scheme, unparsable URL; thorough adds mixed-case custom scheme, file:// URL, relative file path, stderr; every position of a list names a distinct destination",
		"file URLs are assembled from the listed components; empty port/query/fragment ('file://h:/p', '?', '#'), upper-case 'LOCALHOST' and scheme-less ABSOLUTE strings containing '?', '#', '%' are left out (the source documents that absolute paths are opened as plain paths; the documentation is silent)",
		"scheme-less RELATIVE destinations are URLs without a scheme (Open's documentation) and so file URLs: escapes are decoded, a query or fragment makes them invalid, an undecodable escape is an error; 80 such strings (incl. opaque file URLs such as file:stdout, whose path is empty) are run in the current directory",
		"one file opened by two Open calls (as a plain path and as a URL): everything written through either writer is in the file afterwards, in the order written",
		"file URLs and plain paths whose absolute path cannot be opened (first directory missing at the root: drive-letter look-alikes /c:/..., an escaped colon, ordinary names) while a look-alike tree exists under the current directory: the call must fail naming the absolute path and leave the look-alike tree empty",
		"scheme names: every string of length <= 3 over {a,Z,1,+,-,.,_,e-acute} plus the empty string; encoder names {\"\", new, existing, json, console} in every sequence of bounded length; nil factories / constructors and encoder-name letter case are left out (documentation silent)",
		"std-log: all 256 zapcore.Level values; prior flags and prefixes from the listed sets; termination behaviour of Panic/Fatal levels is C06's subject and not judged here",
		"a sink's Close returning an error, and calling the close function twice, are not exercised (documentation silent)",
		"Build success is judged with two entries below the sampling threshold, so sampling decisions never depend on the clock",
	}
	var samples []any
	samples = append(samples,
		map[string]any{"part": "open", "kinds": kindStrs(p.openCases[len(p.openCases)/2])},
		map[string]any{"part": "build", "case": p.buildCase(p.nBuild() / 3).String()},
		map[string]any{"part": "url", "url": fmt.Sprintf("%+v", p.urls[len(p.urls)/5])},
	)
	if len(regs) > 0 {
		samples = append(samples, map[string]any{"part": "registry", "scheme_names": regs[0].SampleNames, "encoder_sequence": regs[0].EncoderSample})
	}
	run.Finish(map[string]any{
		"evaluations":                        evals,
		"distinct_nontrivial":                distinct,
		"rule":                               "open: every list of <=4 destinations over the alphabet (each failing symbol at every position/subset); build: OutputPaths x ErrorOutputPaths (each <=2) x 6 config faults x sampling on/off x initial fields on/off; std-log: 4 APIs x all 256 levels x prior flags x prior prefix; url: cross product of scheme case, user info, host, port, path, query, fragment; registry: every scheme string <=3 over 8 symbols registered three times (as is, other letter case, again) in several orders, each in a fresh subprocess, and every encoder-name sequence. distinct = distinct tuples; non-trivial = at least one destination or fault (open/build), every std-log/url tuple, every scheme name and encoder sequence (counted once, not per order)",
		"samples":                            samples,
		"exhaustive":                         true,
		"open_cases":                         len(p.openCases),
		"build_cases":                        p.nBuild(),
		"stdlog_cases":                       stdEvals,
		"url_cases":                          len(p.urls),
		"current_directory_cases":            relEvals,
		"rooted_cases_skipped":               rootedSkipped,
		"registry_orders":                    len(regs),
		"registry_attempts":                  regEvals,
		"registry_lookups":                   regLookups,
		"stdout_stderr_expectations_checked": nStd,
		"workers":                            par.Workers(),
	})
}
