package main

import (
	"errors"
	"fmt"
	"os"
	"strings"

	"go.uber.org/zap"
	"go.uber.org/zap/zapcore"
)

const (
	fNone = iota
	fUnknownEncoding
	fEmptyEncoding
	fMissingEncodeTime
	fMissingLevel
	fEncoderCtorError
	nFaults
)

var faultNames = []string{"none", "unknown-encoding", "empty-encoding", "missing-EncodeTime", "missing-level", "encoder-constructor-error"}

type buildCase struct {
	outs, errs []int
	fault      int
	sampling   bool
	fields     bool
}

func (b buildCase) String() string {
	return fmt.Sprintf("OutputPaths=[%s] ErrorOutputPaths=[%s] fault=%s sampling=%v initialFields=%v",
		strings.Join(kindStrs(b.outs), ","), strings.Join(kindStrs(b.errs), ","), faultNames[b.fault], b.sampling, b.fields)
}

func anyFails(ps []pathSpec) bool {
	for _, p := range ps {
		if !p.ok() {
			return true
		}
	}
	return false
}

func mentionsAllFailing(msg string, ps []pathSpec) bool {
	for _, p := range ps {
		if !p.ok() && !strings.Contains(msg, p.s) {
			return false
		}
	}
	return true
}

func runBuildCase(col *collector, idx int, bc buildCase) {
	c := newCase("b", idx)
	defer c.done()
	outs := mkSpecs(c, bc.outs, "o")
	errs := mkSpecs(c, bc.errs, "e")
	replay := map[string]any{"part": "build", "index": idx, "case": bc.String(), "outputPaths": strs(outs), "errorOutputPaths": strs(errs)}
	add := func(key, what string) {
		col.add(partBuild, idx, key, fmt.Sprintf("Config.Build with %s: %s", bc.String(), what), replay)
	}

	cfg := zap.Config{
		Level:             zap.NewAtomicLevelAt(zap.InfoLevel),
		DisableCaller:     true,
		DisableStacktrace: true,
		Encoding:          "json",
		EncoderConfig:     zap.NewProductionEncoderConfig(),
		OutputPaths:       strs(outs),
		ErrorOutputPaths:  strs(errs),
	}
	if bc.sampling {
		cfg.Sampling = &zap.SamplingConfig{Initial: 100, Thereafter: 100}
	}
	if bc.fields {
		cfg.InitialFields = map[string]interface{}{"k": "v"}
	}
	switch bc.fault {
	case fUnknownEncoding:
		cfg.Encoding = "vf-no-such-encoding"
	case fEmptyEncoding:
		cfg.Encoding = ""
	case fMissingEncodeTime:
		cfg.EncoderConfig.EncodeTime = nil // TimeKey stays "ts"
	case fMissingLevel:
		cfg.Level = zap.AtomicLevel{}
	case fEncoderCtorError:
		cfg.Encoding = "vfencfail"
	}

	var lg *zap.Logger
	var err error
	outFail, errFail := anyFails(outs), anyFails(errs)
	cause := faultNames[bc.fault]
	if bc.fault == fNone {
		switch {
		case outFail && errFail:
			cause = "bad-output-and-error-output-paths"
		case outFail:
			cause = "bad-output-path"
		case errFail:
			cause = "bad-error-output-path"
		}
	}
	if p := try(func() { lg, err = cfg.Build() }); p != nil {
		add("build:"+cause+":panic", fmt.Sprintf("panic: %v", p))
		return
	}

	if bc.fault != fNone || outFail || errFail {
		if err == nil {
			add("build:"+cause+":no-error", "returned a nil error")
			return
		}
		if lg != nil {
			add("build:"+cause+":logger-returned-with-error", "returned a non-nil logger together with an error")
		}
		notClosed, twice := 0, 0
		all := c.allSinks()
		for _, s := range all {
			switch {
			case s.closes == 0:
				notClosed++
			case s.closes > 1:
				twice++
			}
		}
		fds := fdsInto(c.dir)
		if notClosed > 0 || len(fds) > 0 {
			add("build:"+cause+":sinks-left-open", fmt.Sprintf("returned error %q but did not undo what it opened: %d of %d opened custom sinks were never closed; file descriptors still open on %v", err.Error(), notClosed, len(all), fds))
		}
		if twice > 0 {
			add("build:"+cause+":sink-closed-more-than-once", fmt.Sprintf("%d opened custom sinks were closed more than once", twice))
		}
		if bc.fault == fNone {
			ok := (outFail && mentionsAllFailing(err.Error(), outs)) || (errFail && mentionsAllFailing(err.Error(), errs))
			if !ok {
				add("build:"+cause+":error-omits-failing-paths", fmt.Sprintf("error %q names neither all failing output paths nor all failing error-output paths", err.Error()))
			}
		}
		return
	}

	// success expected
	if err != nil || lg == nil {
		add("build:spurious-error", fmt.Sprintf("every path is openable and the configuration is complete, but Build returned (%v, %v)", lg != nil, err))
		return
	}
	tokA, tokB, tokH := token(c.id, "A"), token(c.id, "B"), token(c.id, "H")
	if p := try(func() {
		lg.Info(tokA)
		lgH := lg.WithOptions(zap.Hooks(func(zapcore.Entry) error { return errors.New(tokH) }))
		lgH.Info(tokB)
		_ = lg.Sync()
	}); p != nil {
		add("build:success:panic-on-use", fmt.Sprintf("panic: %v", p))
		return
	}
	nOut := map[int]int{}
	for _, p := range outs {
		nOut[p.kind]++
	}
	nErr := map[int]int{}
	for _, p := range errs {
		nErr[p.kind]++
	}
	expOut.add(tokA, nOut[kStdout])
	expOut.add(tokB, nOut[kStdout])
	expOut.add(tokH, nErr[kStdout])
	expErr.add(tokA, nOut[kStderr])
	expErr.add(tokB, nOut[kStderr])
	expErr.add(tokH, nErr[kStderr])

	content := func(p pathSpec) (string, bool) {
		switch {
		case p.custom():
			ss := c.byTag(p.tag)
			if len(ss) != 1 {
				add("build:success:custom-sink-open-count", fmt.Sprintf("path %q was opened %d times", p.s, len(ss)))
				return "", false
			}
			if ss[0].closes != 0 {
				add("build:success:sink-closed", fmt.Sprintf("destination %q of the returned logger has been closed", p.s))
			}
			return ss[0].all(), true
		case p.isFile():
			b, rerr := os.ReadFile(p.file)
			if rerr != nil {
				add("build:success:file-not-created:"+kindNames[p.kind], fmt.Sprintf("file %q for path %q: %v", p.file, p.s, rerr))
				return "", false
			}
			return string(b), true
		}
		return "", false
	}
	for _, p := range outs {
		got, ok := content(p)
		if !ok {
			continue
		}
		if strings.Count(got, tokA) != 1 || strings.Count(got, tokB) != 1 || strings.Count(got, tokH) != 0 {
			add("build:success:output-delivery:"+kindNames[p.kind], fmt.Sprintf("output destination %q received %q; expected each of the two entries exactly once and no internal error", p.s, got))
		}
		if bc.fields && strings.Count(got, `"k":"v"`) != 2 {
			add("build:success:initial-fields-missing", fmt.Sprintf("output destination %q received %q; InitialFields {k:v} expected on both entries", p.s, got))
		}
		if p.custom() {
			if ss := c.byTag(p.tag); len(ss) == 1 && ss[0].syncs < 1 {
				add("build:success:sync-not-forwarded", fmt.Sprintf("Logger.Sync did not reach output destination %q", p.s))
			}
		}
	}
	for _, p := range errs {
		got, ok := content(p)
		if !ok {
			continue
		}
		if strings.Count(got, tokH) != 1 || strings.Count(got, tokA) != 0 || strings.Count(got, tokB) != 0 {
			add("build:success:error-output-delivery:"+kindNames[p.kind], fmt.Sprintf("error-output destination %q received %q; expected the hook failure %q exactly once and no log entries", p.s, got, tokH))
		}
	}
	nCustom := nOut[kOkCustom] + nOut[kOkCustomMixedCase] + nErr[kOkCustom] + nErr[kOkCustomMixedCase]
	if n := len(c.allSinks()); n != nCustom {
		add("build:success:custom-sink-open-count", fmt.Sprintf("%d custom sinks were opened for %d custom paths", n, nCustom))
	}
}
