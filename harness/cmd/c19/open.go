package main

import (
	"fmt"
	"os"
	"path/filepath"
	"strings"

	"go.uber.org/zap"
	"go.uber.org/zap/zapcore"
)

// ---------------------------------------------------------------------------
// part Open: every path list of length <= maxLen over the alphabet

func runOpenCase(col *collector, idx int, kinds []int) {
	c := newCase("o", idx)
	defer c.done()
	ps := mkSpecs(c, kinds, "o")
	replay := map[string]any{"part": "open", "index": idx, "kinds": kindStrs(kinds), "paths": strs(ps)}
	add := func(key, what string) {
		col.add(partOpen, idx, key, fmt.Sprintf("zap.Open(%q) [%s]: %s", strs(ps), strings.Join(kindStrs(kinds), ","), what), replay)
	}

	var w zapcore.WriteSyncer
	var closeFn func()
	var err error
	if p := try(func() { w, closeFn, err = zap.Open(strs(ps)...) }); p != nil {
		add("open:panic", fmt.Sprintf("panic: %v", p))
		return
	}
	var failing []pathSpec
	nCustom, nStdout, nStderr := 0, 0, 0
	var wantFiles []string
	for _, p := range ps {
		switch {
		case !p.ok():
			failing = append(failing, p)
		case p.custom():
			nCustom++
		case p.isFile():
			r, _ := filepath.Rel(c.dir, p.file)
			wantFiles = append(wantFiles, r)
		case p.kind == kStdout:
			nStdout++
		case p.kind == kStderr:
			nStderr++
		}
	}

	if len(failing) > 0 {
		if err == nil {
			add("open:failing-path:no-error", "returned a nil error although a path cannot be opened")
			if closeFn != nil {
				closeFn()
			}
			return
		}
		if w != nil {
			add("open:failing-path:writer-returned-with-error", "returned a non-nil writer together with an error")
		}
		for _, p := range failing {
			if !strings.Contains(err.Error(), p.s) {
				add("open:failing-path:error-omits-a-failing-path", fmt.Sprintf("error %q does not mention failing path %q", err.Error(), p.s))
				break
			}
		}
		notClosed, twice := 0, 0
		for _, s := range c.allSinks() {
			switch {
			case s.closes == 0:
				notClosed++
			case s.closes > 1:
				twice++
			}
		}
		fds := fdsInto(c.dir)
		if notClosed > 0 || len(fds) > 0 {
			add("open:failing-path:opened-sinks-left-open", fmt.Sprintf("returned error %q but left open: %d of %d opened custom sinks never closed, file descriptors still open on %v", err.Error(), notClosed, len(c.allSinks()), fds))
		}
		if twice > 0 {
			add("open:failing-path:sink-closed-more-than-once", fmt.Sprintf("%d opened custom sinks were closed more than once", twice))
		}
		for _, f := range regularFiles(c.dir) {
			if !contains(wantFiles, f) {
				add("open:unexpected-file-created", fmt.Sprintf("file %q appeared although no path names it", f))
			}
		}
		return
	}

	// every path can be opened
	if err != nil {
		add("open:spurious-error", fmt.Sprintf("every path is openable but the error is %v", err))
		return
	}
	if w == nil || closeFn == nil {
		add("open:success:nil-writer-or-close-func", "nil writer or nil close function without an error")
		return
	}
	if n := len(c.allSinks()); n != nCustom {
		add("open:success:custom-sink-open-count", fmt.Sprintf("%d custom sinks were opened for %d custom paths", n, nCustom))
	}
	tok := token(c.id, "W") + "\n"
	n, werr := w.Write([]byte(tok))
	if n != len(tok) || werr != nil {
		add("open:success:write-failed", fmt.Sprintf("Write returned (%d,%v) for %d bytes", n, werr, len(tok)))
	}
	serr := w.Sync()
	if serr != nil {
		add("open:success:sync-failed", fmt.Sprintf("Sync returned %v", serr))
	}
	expOut.add(strings.TrimSuffix(tok, "\n"), nStdout)
	expErr.add(strings.TrimSuffix(tok, "\n"), nStderr)
	for _, p := range ps {
		switch {
		case p.custom():
			ss := c.byTag(p.tag)
			if len(ss) != 1 {
				add("open:success:custom-sink-open-count", fmt.Sprintf("path %q was opened %d times", p.s, len(ss)))
				continue
			}
			if got := ss[0].all(); got != tok {
				add("open:success:write-not-delivered:custom-sink", fmt.Sprintf("destination %q received %q, wrote %q", p.s, got, tok))
			}
			if ss[0].syncs != 1 {
				add("open:success:sync-not-delivered", fmt.Sprintf("destination %q saw %d Sync calls for one Sync", p.s, ss[0].syncs))
			}
			if ss[0].closes != 0 {
				add("open:success:closed-before-close-func", fmt.Sprintf("destination %q was closed before the close function ran", p.s))
			}
		case p.isFile():
			b, rerr := os.ReadFile(p.file)
			if rerr != nil || string(b) != tok {
				add("open:success:write-not-delivered:file:"+kindNames[p.kind], fmt.Sprintf("file %q for path %q contains %q (%v), wrote %q", p.file, p.s, b, rerr, tok))
			}
		}
	}
	got := regularFiles(c.dir)
	if strings.Join(got, "|") != strings.Join(sorted(wantFiles), "|") {
		add("open:success:wrong-files-created", fmt.Sprintf("files in the case directory %v, expected exactly %v", got, sorted(wantFiles)))
	}
	if p := try(closeFn); p != nil {
		add("open:close-func:panic", fmt.Sprintf("panic: %v", p))
		return
	}
	for _, s := range c.allSinks() {
		if s.closes != 1 {
			add("open:close-func:custom-sink-close-count", fmt.Sprintf("custom sink %q closed %d times by the close function, expected exactly once", s.tag, s.closes))
			break
		}
	}
	if fds := fdsInto(c.dir); len(fds) > 0 {
		add("open:close-func:file-left-open", fmt.Sprintf("descriptors still open after the close function: %v", fds))
	}
	if nStdout > 0 {
		if _, e := capOut.Stat(); e != nil {
			add("open:close-func:closed-os-stdout", fmt.Sprintf("os.Stdout unusable after the close function: %v", e))
		}
	}
	if nStderr > 0 {
		if _, e := capErr.Stat(); e != nil {
			add("open:close-func:closed-os-stderr", fmt.Sprintf("os.Stderr unusable after the close function: %v", e))
		}
	}
}

func contains(xs []string, x string) bool {
	for _, y := range xs {
		if x == y {
			return true
		}
	}
	return false
}

func sorted(xs []string) []string {
	out := append([]string(nil), xs...)
	for i := 1; i < len(out); i++ {
		for j := i; j > 0 && out[j] < out[j-1]; j-- {
			out[j], out[j-1] = out[j-1], out[j]
		}
	}
	return out
}

// ---------------------------------------------------------------------------
// part URL: file URLs assembled from components

type urlCase struct {
	scheme, user, host, port, path, query, frag string
	wantRel                                     string // file that must appear (relative to the case dir)
}

func urlCases(thorough bool) []urlCase {
	schemes := []string{"file", "FILE", "fIlE"}
	users := []string{"", "u@", "u:p@", "@", ":@", ":p@"} // incl. user info with an empty user name
	hosts := []string{"", "localhost", "example.com", "127.0.0.1"}
	ports := []string{"", ":80"}
	paths := [][2]string{{"/abs/p", "abs/p"}, {"/with%20esc", "with esc"}, {"/p/../q", "q"}}
	if thorough {
		paths = append(paths, [2]string{"/a+b", "a+b"}, [2]string{"/sp%C3%A9", "spé"})
	}
	queries := []string{"", "?a=b", "?&", "?a;b", "?%zz", "?x=%G1"} // incl. queries without any decodable pair: still queries
	frags := []string{"", "#f"}
	var out []urlCase
	for _, s := range schemes {
		for _, u := range users {
			for _, h := range hosts {
				for _, po := range ports {
					for _, pa := range paths {
						for _, q := range queries {
							for _, f := range frags {
								out = append(out, urlCase{s, u, h, po, pa[0], q, f, pa[1]})
							}
						}
					}
				}
			}
		}
	}
	return out
}

func (u urlCase) offending() []string {
	var off []string
	if u.user != "" {
		off = append(off, "userinfo")
	}
	if u.host != "" && u.host != "localhost" {
		off = append(off, "foreign-host")
	}
	if u.port != "" {
		off = append(off, "port")
	}
	if u.query != "" {
		off = append(off, "query")
	}
	if u.frag != "" {
		off = append(off, "fragment")
	}
	return off
}

func runURLCase(col *collector, idx int, u urlCase) {
	c := newCase("u", idx)
	defer c.done()
	for _, d := range []string{"abs", "p"} {
		if err := os.Mkdir(filepath.Join(c.dir, d), 0o755); err != nil {
			toolError("mkdir: %v", err)
		}
	}
	raw := u.scheme + "://" + u.user + u.host + u.port + c.dir + u.path + u.query + u.frag
	replay := map[string]any{"part": "url", "index": idx, "url": raw}
	add := func(key, what string) {
		col.add(partURL, idx, key, fmt.Sprintf("zap.Open(%q): %s", raw, what), replay)
	}
	var w zapcore.WriteSyncer
	var closeFn func()
	var err error
	if p := try(func() { w, closeFn, err = zap.Open(raw) }); p != nil {
		add("url:panic", fmt.Sprintf("panic: %v", p))
		return
	}
	off := u.offending()
	if len(off) > 0 {
		if err == nil {
			add("url:accepted-with:"+strings.Join(off, "+"), fmt.Sprintf("a file URL with %s was opened (files now present: %v)", strings.Join(off, ", "), regularFiles(c.dir)))
			if closeFn != nil {
				closeFn()
			}
			return
		}
		if w != nil {
			add("url:writer-returned-with-error", "non-nil writer together with an error")
		}
		if fs := regularFiles(c.dir); len(fs) > 0 {
			add("url:rejected-but-file-created", fmt.Sprintf("the URL was rejected with %q but files %v were created", err.Error(), fs))
		}
		if fds := fdsInto(c.dir); len(fds) > 0 {
			add("url:rejected-but-descriptor-open", fmt.Sprintf("the URL was rejected but descriptors %v are open", fds))
		}
		return
	}
	if err != nil || w == nil || closeFn == nil {
		add("url:valid-file-url-rejected:scheme-"+u.scheme, fmt.Sprintf("a file URL without user info, port, query, fragment and host %q was not opened: %v", u.host, err))
		return
	}
	tok := token(c.id, "W") + "\n"
	if n, werr := w.Write([]byte(tok)); n != len(tok) || werr != nil {
		add("url:write-failed", fmt.Sprintf("Write returned (%d,%v)", n, werr))
	}
	closeFn()
	fs := regularFiles(c.dir)
	if len(fs) != 1 || fs[0] != u.wantRel {
		add("url:wrong-path-opened:"+u.path, fmt.Sprintf("files created %v, expected exactly %q (the URL's decoded path)", fs, u.wantRel))
	} else if b, _ := os.ReadFile(filepath.Join(c.dir, u.wantRel)); string(b) != tok {
		add("url:write-not-delivered", fmt.Sprintf("file %q contains %q, wrote %q", u.wantRel, b, tok))
	}
	if fds := fdsInto(c.dir); len(fds) > 0 {
		add("url:close-func:file-left-open", fmt.Sprintf("descriptors still open after the close function: %v", fds))
	}
}

// plain scheme-less forms: absolute path, relative path, stdout, stderr are
// part of the Open alphabet (ok-file, relative-file, stdout, stderr).

// ---------------------------------------------------------------------------
// scheme-less paths that merely CLEAN to the special names: only the literal
// strings "stdout" and "stderr" denote the process streams; "./stdout" or
// "sub/../stderr" are file paths and exactly that file must be opened. Runs
// sequentially in the work root (the files live in the current directory).
func runRelSpecial(col *collector) (evals int) {
	if err := os.MkdirAll(filepath.Join(workRoot, "relsub"), 0o755); err != nil {
		toolError("mkdir: %v", err)
	}
	cases := []struct{ path, file string }{
		{"./stdout", "stdout"}, {"./stderr", "stderr"}, {"relsub/../stdout", "stdout"}, {"relsub/../stderr", "stderr"},
		{"relsub/stdout", "relsub/stdout"}, {"./relsub/./stderr", "relsub/stderr"},
	}
	for i, c := range cases {
		evals++
		_ = os.Remove(filepath.Join(workRoot, c.file))
		line := fmt.Sprintf("rel-special-%d\n", i)
		replay := map[string]any{"part": "open", "index": 900000 + i, "path": c.path}
		add := func(key, what string) {
			col.add(partOpen, 900000+i, key, fmt.Sprintf("zap.Open(%q): %s", c.path, what), replay)
		}
		ws, closeFn, err := zap.Open(c.path)
		if err != nil {
			add("open:relative-special-name:error", "returned "+err.Error()+"; a relative file path must be opened as a file")
			continue
		}
		_, _ = ws.Write([]byte(line))
		_ = ws.Sync()
		closeFn()
		b, rerr := os.ReadFile(filepath.Join(workRoot, c.file))
		if rerr != nil || string(b) != line {
			add("open:relative-special-name:file-not-written", fmt.Sprintf("the file %q holds %q (read error %v), want the written line: only the literal names stdout / stderr denote the process streams", c.file, b, rerr))
		}
		_ = os.Remove(filepath.Join(workRoot, c.file))
	}
	return evals
}
