package main

import (
	"fmt"
	"os"
	"path/filepath"
	"strings"

	"go.uber.org/zap"
)

// ---------------------------------------------------------------------------
// part relurl: scheme-less RELATIVE destinations are file URLs too (the scheme
// defaults to file): escapes are decoded, a query or fragment makes them
// invalid, an undecodable escape is a parse error. Runs sequentially in the
// work root (relative paths resolve against the current directory).

type relURLCase struct {
	raw      string
	wantFile string // relative to the work root; "" = must be rejected
	why      string
}

func relURLCases() []relURLCase {
	type pth struct{ raw, file string }
	paths := []pth{
		{"relu/app.log", "relu/app.log"},
		{"./relu/app.log", "relu/app.log"},
		{"relu/my%20logs.log", "relu/my logs.log"},
		{"relu/a%23b.log", "relu/a#b.log"},
		{"relu/a%3Fb.log", "relu/a?b.log"},
		{"relu/sub/../up.log", "relu/up.log"},
		{"relu/d%2Fe.log", "relu/d/e.log"},
		{"relu/p+q.log", "relu/p+q.log"},
		{"relu/t%3Au.log", "relu/t:u.log"},
	}
	var out []relURLCase
	for _, p := range paths {
		for _, q := range []string{"", "?mode=0600", "?a", "?&"} {
			for _, f := range []string{"", "#tail"} {
				c := relURLCase{raw: p.raw + q + f, wantFile: p.file}
				if q != "" || f != "" {
					c.wantFile = ""
					c.why = "a relative destination is a file URL; it has a " + strings.TrimSuffix(map[bool]string{true: "query ", false: ""}[q != ""]+map[bool]string{true: "fragment ", false: ""}[f != ""], " ")
				}
				out = append(out, c)
			}
		}
	}
	// opaque file URLs (no slash after the colon): their path is empty, so nothing - and in particular not the text
	// after the colon, nor a process stream named by it - may be opened
	for _, o := range []string{"file:relu/app.log", "FILE:relu/x.log", "file:stdout", "File:stderr", "file:relu%2Fy.log", "file:.."} {
		out = append(out, relURLCase{raw: o, why: "an opaque file URL has an empty path"})
	}
	out = append(out,
		relURLCase{raw: "relu/app-%zz.log", why: "undecodable escape: not a URL"},
		relURLCase{raw: "relu/%", why: "undecodable escape: not a URL"},
	)
	return out
}

func runRelURL(col *collector) (evals int) {
	base := filepath.Join(workRoot, "relu")
	for i, c := range relURLCases() {
		evals++
		_ = os.RemoveAll(base)
		for _, d := range []string{"relu/sub", "relu/d"} {
			if err := os.MkdirAll(filepath.Join(workRoot, d), 0o755); err != nil {
				toolError("mkdir: %v", err)
			}
		}
		replay := map[string]any{"part": "open", "index": 910000 + i, "path": c.raw}
		add := func(key, what string) {
			col.add(partOpen, 910000+i, key, fmt.Sprintf("zap.Open(%q): %s", c.raw, what), replay)
		}
		ws, closeFn, err := zap.Open(c.raw)
		if c.wantFile == "" {
			if err == nil {
				line := "x\n"
				_, _ = ws.Write([]byte(line))
				closeFn()
				add("relurl:accepted-invalid", fmt.Sprintf("opened (files now present: %v) although %s", regularFiles(base), c.why))
				continue
			}
			if fs := regularFiles(base); len(fs) > 0 {
				add("relurl:rejected-but-file-created", fmt.Sprintf("rejected with %q but files %v were created", err.Error(), fs))
			}
			if fds := fdsInto(base); len(fds) > 0 {
				add("relurl:rejected-but-descriptor-open", fmt.Sprintf("rejected but descriptors %v are open", fds))
			}
			continue
		}
		if err != nil {
			add("relurl:valid-relative-destination-rejected", "returned "+err.Error())
			continue
		}
		line := fmt.Sprintf("rel-url-%d\n", i)
		_, _ = ws.Write([]byte(line))
		_ = ws.Sync()
		closeFn()
		want := strings.TrimPrefix(c.wantFile, "relu/")
		if fs := regularFiles(base); len(fs) != 1 || fs[0] != want {
			add("relurl:wrong-path-opened", fmt.Sprintf("files created under relu/: %v, expected exactly %q (the decoded path)", fs, want))
		} else if b, _ := os.ReadFile(filepath.Join(workRoot, c.wantFile)); string(b) != line {
			add("relurl:write-not-delivered", fmt.Sprintf("file %q holds %q, wrote %q", c.wantFile, b, line))
		}
		if fds := fdsInto(base); len(fds) > 0 {
			add("relurl:close-func:file-left-open", fmt.Sprintf("descriptors still open after the close function: %v", fds))
		}
	}
	_ = os.RemoveAll(base)
	return evals
}

// ---------------------------------------------------------------------------
// part rooted: file URLs whose absolute path cannot be opened (its first
// directory does not exist at the file-system root) while the SAME path taken
// relative to the current directory could be (a decoy tree mirrors it there).
// Exactly the URL's path must be tried: the call fails and the decoy stays
// empty. Shapes: ordinary names, a drive-letter look-alike ("/c:/..."), an
// escaped colon, a single-letter first segment.

func runRooted(col *collector) (evals int, skipped []string) {
	type rc struct{ url, abs string }
	var cases []rc
	for _, p := range [][2]string{
		{"/c:/logs/app.log", "/c:/logs/app.log"},
		{"/x:/y.log", "/x:/y.log"},
		{"/q%3Ar/z.log", "/q:r/z.log"},
		{"/vfdecoy/sub/app.log", "/vfdecoy/sub/app.log"},
		{"/v/w.log", "/v/w.log"},
		{"/1:2/f", "/1:2/f"},
	} {
		for _, pre := range []string{"file://", "FILE://", "file://localhost", "file:"} {
			cases = append(cases, rc{pre + p[0], p[1]})
		}
		cases = append(cases, rc{p[1], p[1]}) // the plain absolute path (no URL parsing)
	}
	for i, c := range cases {
		first := "/" + strings.SplitN(strings.TrimPrefix(c.abs, "/"), "/", 2)[0]
		if _, err := os.Lstat(first); err == nil {
			skipped = append(skipped, c.url+" ("+first+" exists on this machine)")
			continue
		}
		evals++
		rel := strings.TrimPrefix(c.abs, "/")
		top := filepath.Join(workRoot, strings.SplitN(rel, "/", 2)[0])
		_ = os.RemoveAll(top)
		if err := os.MkdirAll(filepath.Join(workRoot, filepath.Dir(rel)), 0o755); err != nil {
			toolError("mkdir: %v", err)
		}
		replay := map[string]any{"part": "open", "index": 920000 + i, "path": c.url}
		add := func(key, what string) {
			col.add(partOpen, 920000+i, key, fmt.Sprintf("zap.Open(%q): %s", c.url, what), replay)
		}
		ws, closeFn, err := zap.Open(c.url)
		if err == nil {
			_, _ = ws.Write([]byte("x\n"))
			closeFn()
			add("rooted:wrong-path-opened", fmt.Sprintf("succeeded although %q cannot be opened (%s does not exist); files in the current directory's look-alike tree: %v", c.abs, first, regularFiles(top)))
			_ = os.RemoveAll(top)
			_ = os.RemoveAll(first) // not reached on a correct tree
			continue
		}
		if !strings.Contains(err.Error(), c.abs) {
			add("rooted:error-does-not-name-path", fmt.Sprintf("failed with %q, which does not name the path %q it had to open", err.Error(), c.abs))
		}
		if fs := regularFiles(top); len(fs) > 0 {
			add("rooted:file-created-elsewhere", fmt.Sprintf("failed, but created %v under the current directory", fs))
		}
		_ = os.RemoveAll(top)
	}
	return evals, skipped
}

// ---------------------------------------------------------------------------
// part samefile: one file opened by two Open calls (two cores of a tee on one path, two configurations sharing
// an output path). Every write through either writer must be in the file afterwards, whole and in the order written.
func runSameFile(col *collector) (evals int) {
	dir := filepath.Join(workRoot, "samefile")
	for i, spell := range [][2]string{{"plain", "plain"}, {"plain", "url"}, {"url", "url"}} {
		evals++
		_ = os.RemoveAll(dir)
		if err := os.MkdirAll(dir, 0o755); err != nil {
			toolError("mkdir: %v", err)
		}
		file := filepath.Join(dir, "shared.log")
		name := func(how string) string {
			if how == "url" {
				return "file://" + file
			}
			return file
		}
		replay := map[string]any{"part": "open", "index": 930000 + i, "path": file}
		add := func(key, what string) {
			col.add(partOpen, 930000+i, key, fmt.Sprintf("two zap.Open calls on %q (%s, %s): %s", file, spell[0], spell[1], what), replay)
		}
		w1, c1, err1 := zap.Open(name(spell[0]))
		w2, c2, err2 := zap.Open(name(spell[1]))
		if err1 != nil || err2 != nil {
			add("samefile:open-failed", fmt.Sprintf("errors %v / %v", err1, err2))
			continue
		}
		var want strings.Builder
		for k := 0; k < 6; k++ {
			line := fmt.Sprintf("writer-%d line %d %s\n", k%2+1, k, strings.Repeat("x", 3*k))
			w := w1
			if k%2 == 1 {
				w = w2
			}
			if n, err := w.Write([]byte(line)); n != len(line) || err != nil {
				add("samefile:write-failed", fmt.Sprintf("Write returned (%d,%v)", n, err))
			}
			want.WriteString(line)
		}
		_ = w1.Sync()
		_ = w2.Sync()
		c1()
		c2()
		got, _ := os.ReadFile(file)
		if string(got) != want.String() {
			add("samefile:writes-lost-or-overwritten", fmt.Sprintf("the file holds %q, the two writers wrote %q (a destination receives every write: files are opened for appending)", got, want.String()))
		}
	}
	_ = os.RemoveAll(dir)
	return evals
}
