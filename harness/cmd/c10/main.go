// Command c10 decides property C10: (a) every failing field (marshaler error
// at every position, panicking / nil Stringer and error values, unencodable
// reflected values) at every position of every enumerated field tree leaves a
// well-formed line with all other fields intact and a <key>Error field; (b)
// every outcome vector of failing sinks / cores in tees and multi-syncers is
// reported on the error output while every destination still gets every entry.
package main

import (
	"context"
	"errors"
	"fmt"
	"go.uber.org/zap/exp/zapslog"
	"log/slog"
	"strings"
	"time"

	"go.uber.org/zap"
	"go.uber.org/zap/zapcore"
	"go.uber.org/zap/zzverif/vsched"
	"verif/harness/internal/encx"
	"verif/harness/internal/ev"
)

type fsink struct {
	name           string
	writeErr, sync error
	short          bool
	zero           bool
	writes         [][]byte
	syncs          int
}

func (s *fsink) Write(p []byte) (int, error) {
	s.writes = append(s.writes, append([]byte(nil), p...))
	n := len(p)
	if s.short {
		n = len(p) / 2
	}
	if s.zero {
		n = 0
	}
	return n, s.writeErr
}

func (s *fsink) Sync() error { s.syncs++; return s.sync }

type errOut struct{ b strings.Builder }

func (e *errOut) Write(p []byte) (int, error) { e.b.Write(p); return len(p), nil }
func (e *errOut) Sync() error                 { return nil }

// outcome of one destination: 0 ok, 1 write error, 2 short write + error, 3 sync error, 4 nothing written + error
func mkSink(i, outcome int) *fsink {
	s := &fsink{name: fmt.Sprintf("sink%d", i)}
	switch outcome {
	case 1:
		s.writeErr = fmt.Errorf("W%d-failed", i)
	case 2:
		s.writeErr = fmt.Errorf("W%d-short", i)
		s.short = true
	case 3:
		s.sync = fmt.Errorf("S%d-failed", i)
	case 4:
		s.writeErr = fmt.Errorf("W%d-zero", i)
		s.zero = true
	}
	return s
}

const nOutcomes = 5

// annotation options of the Logger: each makes Logger.check take another path to the entry it hands out
var loggerOptSets = []struct {
	name string
	opts []zap.Option
}{
	{"", nil},
	{" [AddCaller]", []zap.Option{zap.AddCaller()}},
	{" [AddCaller, AddStacktrace(debug)]", []zap.Option{zap.AddCaller(), zap.AddStacktrace(zapcore.DebugLevel)}},
	{" [AddCaller, AddCallerSkip(1000): no frame to report]", []zap.Option{zap.AddCaller(), zap.AddCallerSkip(1000)}},
	{" [AddStacktrace(debug), AddCallerSkip(1000): no frame to report]", []zap.Option{zap.AddStacktrace(zapcore.DebugLevel), zap.AddCallerSkip(1000)}},
}

var hungOutsideScheduler bool
var stuckTopo = map[string]int{}

// how the entry ends: ordinary levels return; the terminal ones run an action that
// does not come back (panic, goroutine exit) or - Fatal with a returning hook - stand in for os.Exit
type endMode struct {
	name                string
	lvl                 zapcore.Level
	panics, goexit, dev bool
	direct              string // "": through a zap.Logger; "core": Core.Check + CheckedEntry.Write without a Logger (no error output configured); "slog": through the zapslog handler (no error output either)
}

var modes = []endMode{
	{name: "info", lvl: zapcore.InfoLevel},
	{name: "error", lvl: zapcore.ErrorLevel},
	{name: "fatal(hook stands in for os.Exit)", lvl: zapcore.FatalLevel},
	{name: "panic", lvl: zapcore.PanicLevel, panics: true},
	{name: "dpanic(Development)", lvl: zapcore.DPanicLevel, panics: true, dev: true},
	{name: "dpanic(production)", lvl: zapcore.DPanicLevel},
	{name: "fatal(WriteThenGoexit)", lvl: zapcore.FatalLevel, goexit: true},
	{name: "info, Core.Check+Write without a Logger", lvl: zapcore.InfoLevel, direct: "core"},
	{name: "error, Core.Check+Write without a Logger", lvl: zapcore.ErrorLevel, direct: "core"},
	{name: "warn, through the zapslog handler", lvl: zapcore.WarnLevel, direct: "slog"},
}

func sinkFaults(run *ev.Run, maxK int) (evals int, distinct map[string]bool) {
	distinct = map[string]bool{}
	enc := func() zapcore.Encoder { return zapcore.NewJSONEncoder(zap.NewProductionEncoderConfig()) }
	for _, topo := range []string{"tee", "teewrap", "multi", "tee-locked", "combine"} {
		for k := 1; k <= maxK; k++ {
			total := 1
			for i := 0; i < k; i++ {
				total *= nOutcomes
			}
			for v := 0; v < total; v++ {
				for _, mode := range modes {
					for lo, lopt := range loggerOptSets {
						if lo > 0 && (k > 2 || mode.direct != "") {
							continue // the annotation options on the smaller vectors, through the Logger front ends
						}
						lvl := mode.lvl
						sinks := make([]*fsink, k)
						x := v
						label := ""
						for i := range sinks {
							sinks[i] = mkSink(i, x%nOutcomes)
							label += fmt.Sprint(x % nOutcomes)
							x /= nOutcomes
						}
						var core zapcore.Core
						if topo == "tee" || topo == "teewrap" || topo == "tee-locked" {
							cores := make([]zapcore.Core, k)
							for i, s := range sinks {
								var ws zapcore.WriteSyncer = s
								if topo == "tee-locked" {
									ws = zapcore.Lock(s) // the usual way to hand a sink to a core: a lock kept on an error path blocks the next entry
								}
								cores[i] = zapcore.NewCore(enc(), ws, zapcore.DebugLevel)
							}
							core = zapcore.NewTee(cores...)
							if topo == "teewrap" {
								// a user-written decorator core: it registers ITSELF in Check and
								// forwards Write / Sync, so the tee is reached through its Write method
								core = fwdCore{core}
							}
						} else {
							wss := make([]zapcore.WriteSyncer, k)
							for i, s := range sinks {
								wss[i] = s
							}
							if topo == "combine" {
								core = zapcore.NewCore(enc(), zap.CombineWriteSyncers(wss...), zapcore.DebugLevel)
							} else {
								core = zapcore.NewCore(enc(), zapcore.NewMultiWriteSyncer(wss...), zapcore.DebugLevel)
							}
						}
						eo := &errOut{}
						fatals := 0
						desc := fmt.Sprintf("%s of %d destinations outcomes=%s (0 ok,1 write error,2 short write+error,3 sync error,4 zero count+error) level=%v%s", topo, k, label, mode.name, lopt.name)
						key := func(what string) string { return fmt.Sprintf("sinks:%s:%s", topo, what) }
						// at the moment the terminal action starts (a real Fatal exits there, a panic unwinds
						// from there) the failure must already have been reported
						atHook := func() {
							fatals++
							rep := eo.b.String()
							for i, s := range sinks {
								if s.writeErr != nil && strings.Count(rep, s.writeErr.Error()) < fatals {
									run.Report(key("write-error-not-reported-before-terminal-action"), fmt.Sprintf("%s: when the terminal action of entry %d started, error %q of destination %d was not yet on the error output: %q", desc, fatals-1, s.writeErr, i, rep), desc)
								}
							}
						}
						opts := []zap.Option{zap.ErrorOutput(eo), zap.WithFatalHook(hook(atHook))}
						opts = append(opts, lopt.opts...)
						if mode.goexit {
							opts[1] = zap.WithFatalHook(zapcore.WriteThenGoexit)
						}
						if mode.dev {
							opts = append(opts, zap.Development())
						}
						logger := zap.New(core, opts...)
						logAll := func() (ok bool) {
							defer func() {
								if r := recover(); r != nil {
									run.Report(key("panic"), desc+": log call panicked: "+fmt.Sprint(r), desc)
								}
							}()
							for e := 0; e < 2; e++ {
								msg := fmt.Sprintf("entry-%d", e)
								switch {
								case mode.goexit:
									// the call ends its goroutine: make it on one of its own
									done := make(chan struct{})
									go func() {
										defer close(done)
										logger.Log(lvl, msg, zap.Int("n", e))
										run.Report(key("goexit-returned"), desc+": Fatal with WriteThenGoexit returned", desc)
									}()
									select {
									case <-done:
									case <-time.After(30 * time.Second): // reached only when the call hangs (this mode runs outside the controlled scheduler)
										run.Report(key("call-does-not-return"), desc+": Fatal with WriteThenGoexit neither returned nor ended its goroutine within 30s", desc)
										hungOutsideScheduler = true
										return false
									}
								case mode.panics:
									func() {
										defer func() {
											if r := recover(); r == nil {
												run.Report(key("no-panic"), desc+": the call returned without panicking", desc)
											} else if fmt.Sprint(r) != msg {
												panic(r)
											}
										}()
										logger.Log(lvl, msg, zap.Int("n", e))
									}()
								case mode.direct == "core":
									if ce := core.Check(zapcore.Entry{Level: lvl, Message: msg, Time: time.Unix(1700000000, 0)}, nil); ce != nil {
										ce.Write(zap.Int("n", e))
									}
								case mode.direct == "slog":
									r := slog.NewRecord(time.Unix(1700000000, 0), slog.LevelWarn, msg, 0)
									r.AddAttrs(slog.Int("n", e))
									_ = zapslog.NewHandler(core).Handle(context.Background(), r)
								default:
									logger.Log(lvl, msg, zap.Int("n", e))
								}
							}
							_ = logger.Sync()
							return true
						}
						returned := false
						if stuckTopo[topo] >= 8 {
							continue // reported; the blocked threads of every further stuck case stay parked in the scheduler
						}
						if mode.goexit && (hungOutsideScheduler || stuckTopo[topo] > 0) {
							continue // a call already hung in this mode: reported; every further case would wait out the guard again
						}
						if mode.goexit {
							returned = logAll() // spawns goroutines of its own: outside the controlled scheduler
						} else {
							// under the controlled scheduler a call that never returns (a lock kept on an error path)
							// is a deadlock verdict of this case instead of a hang of the enumeration
							res := vsched.Run(nil, func() { returned = logAll() })
							if res.Verdict != vsched.OK && res.Verdict != vsched.Panicked {
								run.Report(key("call-does-not-return"), fmt.Sprintf("%s: the logging calls did not all return (%s)", desc, res.Blocked), desc)
								returned = false
								stuckTopo[topo]++
							}
						}
						evals++
						distinct[topo+label] = true
						if !returned {
							continue
						}
						// every destination received both entries, complete, in order
						for i, s := range sinks {
							if len(s.writes) != 2 {
								run.Report(key("destination-skipped"), fmt.Sprintf("%s: destination %d received %d writes for 2 entries", desc, i, len(s.writes)), desc)
								continue
							}
							for e := 0; e < 2; e++ {
								w := string(s.writes[e])
								if !strings.Contains(w, fmt.Sprintf(`"msg":"entry-%d"`, e)) || !strings.HasSuffix(w, "}\n") {
									run.Report(key("destination-incomplete"), fmt.Sprintf("%s: destination %d entry %d got %q", desc, i, e, w), desc)
								}
							}
						}
						if mode.direct != "" {
							continue // no error output exists on these paths: delivery to every destination and a normal return are what is required
						}
						// the error output names every write error, once per failing entry
						rep := eo.b.String()
						for i, s := range sinks {
							if s.writeErr != nil {
								if c := strings.Count(rep, s.writeErr.Error()); c < 2 {
									run.Report(key("write-error-not-reported"), fmt.Sprintf("%s: error %q of destination %d appears %d times on the error output for 2 failing entries: %q", desc, s.writeErr, i, c, rep), desc)
								}
							}
						}
						anyWriteErr := false
						for _, s := range sinks {
							if s.writeErr != nil {
								anyWriteErr = true
							}
						}
						if !anyWriteErr && strings.Contains(rep, "write error") {
							run.Report(key("spurious-report"), fmt.Sprintf("%s: error output has a write error report although no write failed: %q", desc, rep), desc)
						}
						if lvl == zapcore.FatalLevel && !mode.goexit && fatals != 2 {
							run.Report(key("fatal-hook"), fmt.Sprintf("%s: fatal hook ran %d times for 2 fatal entries", desc, fatals), desc)
						}
					}
				}
			}
		}
	}
	return
}

// fwdCore is the usual shape of a user-written wrapper core (metrics,
// filtering ...): Check adds the wrapper, Write and Sync are forwarded.
type fwdCore struct{ zapcore.Core }

func (c fwdCore) Check(ent zapcore.Entry, ce *zapcore.CheckedEntry) *zapcore.CheckedEntry {
	if c.Enabled(ent.Level) {
		return ce.AddCore(ent, c)
	}
	return ce
}
func (c fwdCore) With(fs []zapcore.Field) zapcore.Core { return fwdCore{c.Core.With(fs)} }

type hook func()

func (h hook) OnWrite(*zapcore.CheckedEntry, []zapcore.Field) { h() }

var _ = errors.New

func main() {
	run := ev.Start("C10", "fault_enumeration")
	d := encx.NewDriver(run, "c10")
	d.Tree = true
	d.FaultsOnly = true
	nodes, maxK := 4, 3
	if run.Thorough() {
		nodes, maxK = 5, 4
	}
	d.F1(nodes)
	d.ReflectSeqs(nodes)
	d.F2(0)
	se, sd := sinkFaults(run, maxK)
	run.Assume = []string{
		"field faults: marshaler error before / between / after children at every node of every tree with <= the stated number of nodes, unencodable reflected values (channel, failing json.Marshaler) as fields and as array elements, panicking Stringer / Error() / Errors(), nil-pointer Stringer and error (rendered as \"<nil>\" under the field's own key, which zap documents in encodeStringer/encodeError)",
		"elements of the same array after a failing element are not required (zap's array marshalers stop at the first error; the statement speaks of other fields)",
		"sink/core faults: every vector over {ok, write error, short write + error, sync error, nothing written + error} for tees (sinks bare and behind zapcore.Lock), multi-syncers and CombineWriteSyncers of k destinations (each case under the controlled scheduler, so a call that never returns is a deadlock verdict), two entries each (vectors of <= 2 destinations also under the Logger's caller / stack-trace options, incl. a caller skip that leaves no frame to report), ending in every way an entry can end: info, error, dpanic (production), fatal with a hook standing in for os.Exit (the report must be on the error output when the hook starts), panic, dpanic under Development (recovered), fatal with WriteThenGoexit (own goroutine); and the same vectors through Core.Check + CheckedEntry.Write without a Logger and through the zapslog handler, where no error output is configured (every destination still receives the entry, the call returns)",
		"field faults are also run with a user-supplied NewReflectedEncoder that has already written part of its output when it fails (a streaming encoder)",
	}
	cov := d.Coverage("field part: one evaluation = one log call on the real JSON core with a failing field somewhere in the tree, decoded and compared with the reference tree that contains the <key>Error member and every other field; sink part: one evaluation = one (topology, outcome vector, level) run of two entries; distinct = distinct output lines / outcome vectors")
	cov["evaluations"] = d.Evals.Load() + int64(se)
	cov["distinct_nontrivial"] = d.Distinct() + len(sd)
	cov["sink_fault_runs"] = se
	cov["max_tree_nodes"] = nodes
	cov["max_destinations"] = maxK
	run.Finish(cov)
}
