// Package hx holds harness pieces shared by the scheduler-based checks: sinks
// that make unserialised access visible, a fixed clock, pool poisoning.
package hx

import (
	"time"

	"go.uber.org/zap/buffer"
	"go.uber.org/zap/zapcore"
	"go.uber.org/zap/zzverif/vsched"
)

// TornSink appends every write to its stream in two halves with scheduling
// points in between, so a write that is not serialised by its caller tears.
type TornSink struct {
	Stream []byte
	Writes int
	Syncs  int
	inUse  bool
	// Overlap counts calls that entered while another was inside.
	Overlap int
}

func (s *TornSink) Write(p []byte) (int, error) {
	if s.inUse {
		s.Overlap++
	}
	s.inUse = true
	h := len(p) / 2
	s.Stream = append(s.Stream, p[:h]...)
	vsched.Yield()
	s.Stream = append(s.Stream, p[h:]...)
	s.Writes++
	s.inUse = false
	return len(p), nil
}

func (s *TornSink) Sync() error {
	if s.inUse {
		s.Overlap++
	}
	s.inUse = true
	vsched.Yield()
	s.Syncs++
	s.inUse = false
	return nil
}

// Close implements zap.Sink.
func (s *TornSink) Close() error { return nil }

// FixedClock is a zapcore.Clock with a constant time and harness-owned ticker.
type FixedClock struct {
	T  time.Time
	Ch chan time.Time
}

func (c *FixedClock) Now() time.Time { return c.T }
func (c *FixedClock) NewTicker(time.Duration) *time.Ticker {
	vsched.Yield() // a scheduling point inside lazy initialisations that create their ticker
	return &time.Ticker{C: c.Ch}
}

// NewFixedClock returns a clock frozen at 2023-11-14T22:13:20Z whose tickers
// all share one harness-owned channel (capacity 1, like time.Ticker).
func NewFixedClock() *FixedClock {
	return &FixedClock{T: time.Unix(1700000000, 0).UTC(), Ch: make(chan time.Time, 1)}
}

var _ zapcore.Clock = (*FixedClock)(nil)

// PoisonBuffers makes the controlled pool overwrite every freed buffer, so a
// buffer used after Free is visible in the output.
func PoisonBuffers() {
	vsched.PoolPutHook = func(x any) {
		if b, ok := x.(*buffer.Buffer); ok {
			bs := b.Bytes()
			bs = bs[:cap(bs)]
			for i := range bs {
				bs[i] = 0xDB
			}
		}
	}
}
