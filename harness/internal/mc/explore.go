// Package mc is the stateless model checker: depth-first enumeration of all
// choice sequences (thread interleavings and environment answers) of a closed
// driver run on the real code under vsched, with iterative deviation bounding,
// plus the worker-process pool that shards the search.
package mc

import (
	"fmt"
	"time"

	"go.uber.org/zap/zzverif/vsched"
)

// Exec is one fresh instance of a driver: Body runs as virtual thread 0 (it
// builds the objects, spawns threads with vsched.Go, joins them and performs
// the final operations); Check evaluates the oracle after an OK execution and
// returns a canonical description of what was observed (for counting distinct
// outcomes) or an error describing the violation.
type Exec struct {
	Body  func()
	Check func(res vsched.Result) (outcome string, err error)
	// AllowVerdict lets a driver accept a non-OK verdict (e.g. Leaked is
	// checked by the oracle itself).
	AllowVerdict func(res vsched.Result) bool
}

// Bounds limits the search.
type Bounds struct {
	Preempt  int // max preemptions, -1 = unbounded
	Dev      int // max environment deviations, -1 = unbounded
	Shard    int
	NShards  int
	Deadline time.Time
}

// Violation is a failing execution.
type Violation struct {
	Item    string `json:"item"`
	Kind    string `json:"kind"` // deadlock | leaked | panic | stuck | oracle | race
	Detail  string `json:"detail"`
	Choices []int  `json:"choices"`
}

// Stats summarises an exploration.
type Stats struct {
	Execs      int64          `json:"execs"`
	Steps      int64          `json:"steps"`
	Outcomes   map[string]int `json:"outcomes"`
	MaxPoints  int            `json:"max_points"`
	MaxThreads int            `json:"max_threads"`
	Exhaustive bool           `json:"exhaustive"`
	Branching  int64          `json:"branching"` // executions with >1 decision point
}

// ToolErr is a problem of the machinery, not of the code under test.
type ToolErr struct{ Msg string }

func (e ToolErr) Error() string { return e.Msg }

type explorer struct {
	mk      func() Exec
	b       Bounds
	journal func([]int)
	st      Stats
	vio     *Violation
	rootAlt int
}

func verdictKind(v int) string {
	switch v {
	case vsched.Deadlock:
		return "deadlock"
	case vsched.Leaked:
		return "leaked"
	case vsched.Panicked:
		return "panic"
	case vsched.Stuck:
		return "stuck"
	}
	return "?"
}

func choicesOf(pts []vsched.Point) []int {
	c := make([]int, len(pts))
	for i, p := range pts {
		c[i] = int(p.Choice)
	}
	return c
}

// runOne executes one schedule and evaluates the oracle.
func runOne(mk func() Exec, prefix []int) (vsched.Result, string, *Violation) {
	x := mk()
	res := vsched.Run(prefix, x.Body)
	switch res.Verdict {
	case vsched.OK:
	case vsched.Diverged:
		panic(ToolErr{fmt.Sprintf("replay diverged (nondeterministic driver) prefix=%v", prefix)})
	case vsched.Overflow:
		panic(ToolErr{"too many scheduling points or threads"})
	default:
		if x.AllowVerdict != nil && x.AllowVerdict(res) {
			break
		}
		d := res.Blocked
		if res.Verdict == vsched.Panicked {
			d = fmt.Sprintf("thread %d panicked: %v", res.PanicThr, res.PanicVal)
		}
		return res, "", &Violation{Kind: verdictKind(res.Verdict), Detail: d, Choices: choicesOf(res.Points)}
	}
	out, err := x.Check(res)
	if err != nil {
		return res, "", &Violation{Kind: "oracle", Detail: err.Error(), Choices: choicesOf(res.Points)}
	}
	return res, out, nil
}

func (e *explorer) explore(prefix []int, pre, dev int, root bool) {
	if e.vio != nil {
		return
	}
	if !e.b.Deadline.IsZero() && time.Now().After(e.b.Deadline) {
		e.st.Exhaustive = false
		return
	}
	if e.journal != nil {
		e.journal(prefix)
	}
	res, out, v := runOne(e.mk, prefix)
	counted := !root || e.b.Shard == 0
	if counted {
		e.st.Execs++
		e.st.Steps += int64(res.Steps)
		if len(res.Points) > e.st.MaxPoints {
			e.st.MaxPoints = len(res.Points)
		}
		if res.Threads > e.st.MaxThreads {
			e.st.MaxThreads = res.Threads
		}
		if len(res.Points) > 0 {
			e.st.Branching++
		}
	}
	if v != nil {
		if counted {
			e.vio = v
		} else {
			// another shard owns the root execution; it will report it
			e.vio = v
		}
		return
	}
	if counted {
		if len(e.st.Outcomes) < 4096 || e.st.Outcomes[out] > 0 {
			e.st.Outcomes[out]++
		}
	}
	pts := res.Points
	for i := len(prefix); i < len(pts); i++ {
		p := pts[i]
		npre, ndev := pre, dev
		if p.Env {
			ndev++
			if e.b.Dev >= 0 && ndev > e.b.Dev {
				continue
			}
		} else if p.CurEnabled {
			npre++
			if e.b.Preempt >= 0 && npre > e.b.Preempt {
				continue
			}
		}
		for alt := 1; alt < int(p.N); alt++ {
			if root && e.b.NShards > 1 {
				e.rootAlt++
				if e.rootAlt%e.b.NShards != e.b.Shard {
					continue
				}
			}
			child := make([]int, i+1)
			for j := 0; j < i; j++ {
				child[j] = int(pts[j].Choice)
			}
			child[i] = alt
			e.explore(child, npre, ndev, false)
			if e.vio != nil {
				return
			}
		}
	}
}

// Explore enumerates every schedule of the driver within the bounds. It stops
// at the first violation (the process state is unreliable afterwards).
func Explore(mk func() Exec, b Bounds, journal func([]int)) (Stats, *Violation) {
	if b.NShards <= 0 {
		b.NShards = 1
	}
	e := &explorer{mk: mk, b: b, journal: journal}
	e.st.Outcomes = map[string]int{}
	e.st.Exhaustive = true
	e.explore(nil, 0, 0, true)
	return e.st, e.vio
}

// Replay runs exactly one schedule.
func Replay(mk func() Exec, choices []int) (string, *Violation) {
	_, out, v := runOne(mk, choices)
	return out, v
}
