package mc

import (
	"bufio"
	"bytes"
	"encoding/json"
	"fmt"
	"os"
	"os/exec"
	"path/filepath"
	"runtime"
	"sort"
	"strconv"
	"strings"
	"sync"
	"time"

	"go.uber.org/zap/zzverif/vsched"
)

// ItemResult is what a worker reports for one work item.
type ItemResult struct {
	Item      string     `json:"item"`
	Stats     Stats      `json:"stats"`
	Violation *Violation `json:"violation,omitempty"`
	ToolError string     `json:"tool_error,omitempty"`
}

// Handler explores one work item. replay == nil: full exploration; otherwise
// run exactly that schedule.
type Handler func(item string, replay []int, isReplay bool, journal func([]int)) ItemResult

// Options configures the parent.
type Options struct {
	Workers    int
	Race       bool // workers are built with -race: exit code 66 = data race
	ReplayRuns int  // how many times a violation is re-run before it is believed
}

// Summary aggregates all items.
type Summary struct {
	Items      int
	Execs      int64
	Steps      int64
	Outcomes   map[string]int
	Branching  int64
	MaxPoints  int
	MaxThreads int
	Exhaustive bool
	Violations []Violation
	PerItem    map[string]Stats
}

func parseChoices(s string) []int {
	var c []int
	for _, f := range strings.Split(s, ",") {
		if f == "" {
			continue
		}
		n, _ := strconv.Atoi(f)
		c = append(c, n)
	}
	return c
}

func fmtChoices(c []int) string {
	s := make([]string, len(c))
	for i, n := range c {
		s[i] = strconv.Itoa(n)
	}
	return strings.Join(s, ",")
}

func safeHandle(h Handler, item string, replay []int, isReplay bool, journal func([]int)) (r ItemResult) {
	defer func() {
		if p := recover(); p != nil {
			if te, ok := p.(ToolErr); ok {
				r = ItemResult{Item: item, ToolError: te.Msg}
				return
			}
			panic(p)
		}
	}()
	return h(item, replay, isReplay, journal)
}

// MaybeWorker must be called first thing in main: if the process was started
// as a worker or replayer it serves and exits.
func MaybeWorker(h Handler) {
	if len(os.Args) < 2 {
		return
	}
	switch os.Args[1] {
	case "-worker":
		runtime.GOMAXPROCS(1)
		if err := vsched.SelfTest(); err != nil {
			fmt.Println(`{"tool_error":"` + err.Error() + `"}`)
			os.Exit(2)
		}
		var jf *os.File
		if p := os.Getenv("VERIF_JOURNAL"); p != "" {
			jf, _ = os.OpenFile(p, os.O_CREATE|os.O_RDWR|os.O_TRUNC, 0o644)
		}
		in := bufio.NewScanner(os.Stdin)
		in.Buffer(make([]byte, 1<<20), 1<<20)
		out := bufio.NewWriter(os.Stdout)
		for in.Scan() {
			item := in.Text()
			var journal func([]int)
			if jf != nil {
				var buf [4096]byte
				journal = func(prefix []int) {
					b := buf[:0]
					b = append(b, item...)
					b = append(b, '\t')
					for i, c := range prefix {
						if i > 0 {
							b = append(b, ',')
						}
						b = strconv.AppendInt(b, int64(c), 10)
						if len(b) > 4000 {
							break
						}
					}
					b = append(b, '\n')
					for len(b) < 256 {
						b = append(b, ' ')
					}
					_, _ = jf.WriteAt(b, 0)
				}
			}
			r := safeHandle(h, item, nil, false, journal)
			b, _ := json.Marshal(r)
			out.Write(b)
			out.WriteByte('\n')
			out.Flush()
			if r.Violation != nil || r.ToolError != "" {
				os.Exit(0) // state is unreliable after a violation: fresh worker
			}
		}
		os.Exit(0)
	case "-replay":
		runtime.GOMAXPROCS(1)
		if err := vsched.SelfTest(); err != nil {
			os.Exit(2)
		}
		item := os.Args[2]
		ch := []int{}
		if len(os.Args) > 3 {
			ch = parseChoices(os.Args[3])
		}
		r := safeHandle(h, item, ch, true, nil)
		b, _ := json.Marshal(r)
		fmt.Println(string(b))
		os.Exit(0)
	}
}

type workerProc struct {
	cmd     *exec.Cmd
	in      *bufio.Writer
	inC     interface{ Close() error }
	out     *bufio.Scanner
	stderr  *bytes.Buffer
	journal string
}

func startWorker(idx int, opt Options, workdir string) (*workerProc, error) {
	cmd := exec.Command(os.Args[0], "-worker")
	w := &workerProc{cmd: cmd, stderr: &bytes.Buffer{}}
	w.journal = filepath.Join(workdir, fmt.Sprintf("journal.%d", idx))
	cmd.Env = append(os.Environ(), "GOMAXPROCS=1", "VERIF_JOURNAL="+w.journal)
	if opt.Race {
		cmd.Env = append(cmd.Env, "GORACE=halt_on_error=1 exitcode=66 atexit_sleep_ms=0")
	}
	cmd.Stderr = w.stderr
	stdin, err := cmd.StdinPipe()
	if err != nil {
		return nil, err
	}
	stdout, err := cmd.StdoutPipe()
	if err != nil {
		return nil, err
	}
	w.in = bufio.NewWriter(stdin)
	w.inC = stdin
	w.out = bufio.NewScanner(stdout)
	w.out.Buffer(make([]byte, 1<<24), 1<<24)
	if err := cmd.Start(); err != nil {
		return nil, err
	}
	return w, nil
}

func replayOnce(item string, choices []int, opt Options) (ItemResult, int, string) {
	cmd := exec.Command(os.Args[0], "-replay", item, fmtChoices(choices))
	cmd.Env = append(os.Environ(), "GOMAXPROCS=1")
	if opt.Race {
		cmd.Env = append(cmd.Env, "GORACE=halt_on_error=1 exitcode=66 atexit_sleep_ms=0")
	}
	var so, se bytes.Buffer
	cmd.Stdout, cmd.Stderr = &so, &se
	err := cmd.Run()
	code := 0
	if err != nil {
		if ee, ok := err.(*exec.ExitError); ok {
			code = ee.ExitCode()
		} else {
			code = -1
		}
	}
	var r ItemResult
	_ = json.Unmarshal(bytes.TrimSpace(so.Bytes()), &r)
	return r, code, se.String()
}

// raceSummary extracts a stable description from a TSan report.
func raceSummary(report string) string {
	lines := strings.Split(report, "\n")
	var fr []string
	for i, l := range lines {
		t := strings.TrimSpace(l)
		if strings.HasPrefix(t, "Write at") || strings.HasPrefix(t, "Read at") || strings.HasPrefix(t, "Previous write at") || strings.HasPrefix(t, "Previous read at") || strings.HasPrefix(t, "Atomic") || strings.HasPrefix(t, "Previous atomic") {
			kind := strings.Fields(t)
			k := kind[0]
			if k == "Previous" || k == "Atomic" {
				k = kind[0] + " " + kind[1]
			}
			// first frame that is not in the shims
			for j := i + 1; j < len(lines) && strings.TrimSpace(lines[j]) != ""; j += 2 {
				fn := strings.TrimSpace(lines[j])
				if strings.Contains(fn, "zzverif/") || strings.HasPrefix(fn, "runtime.") || strings.HasPrefix(fn, "sync") {
					continue
				}
				fn = strings.TrimSuffix(fn, "()")
				fr = append(fr, k+" "+fn)
				break
			}
		}
	}
	return strings.Join(fr, " / ")
}

// Run distributes items over worker processes and confirms violations by
// replaying them in fresh processes.
func Run(items []string, opt Options) Summary {
	if opt.Workers <= 0 {
		opt.Workers = runtime.NumCPU()
	}
	if opt.ReplayRuns <= 0 {
		opt.ReplayRuns = 5
	}
	workdir, err := os.MkdirTemp(filepath.Dir(os.Args[0]), "mc")
	if err != nil {
		panic(ToolErr{err.Error()})
	}
	defer os.RemoveAll(workdir)

	sum := Summary{Outcomes: map[string]int{}, Exhaustive: true, PerItem: map[string]Stats{}}
	var mu sync.Mutex
	var toolErrs []string
	next := 0
	take := func() (string, bool) {
		mu.Lock()
		defer mu.Unlock()
		if next >= len(items) || len(sum.Violations) >= 5 || len(toolErrs) > 0 {
			return "", false
		}
		it := items[next]
		next++
		return it, true
	}
	record := func(r ItemResult) {
		mu.Lock()
		defer mu.Unlock()
		sum.Items++
		sum.Execs += r.Stats.Execs
		sum.Steps += r.Stats.Steps
		sum.Branching += r.Stats.Branching
		if r.Stats.MaxPoints > sum.MaxPoints {
			sum.MaxPoints = r.Stats.MaxPoints
		}
		if r.Stats.MaxThreads > sum.MaxThreads {
			sum.MaxThreads = r.Stats.MaxThreads
		}
		if !r.Stats.Exhaustive && r.Violation == nil {
			sum.Exhaustive = false
		}
		for k, n := range r.Stats.Outcomes {
			if len(sum.Outcomes) < 1<<16 || sum.Outcomes[k] > 0 {
				sum.Outcomes[k] += n
			}
		}
		sum.PerItem[r.Item] = Stats{Execs: r.Stats.Execs, Steps: r.Stats.Steps, MaxPoints: r.Stats.MaxPoints, Exhaustive: r.Stats.Exhaustive, Branching: r.Stats.Branching, MaxThreads: r.Stats.MaxThreads}
		if r.ToolError != "" {
			toolErrs = append(toolErrs, r.Item+": "+r.ToolError)
		}
	}
	confirm := func(v Violation, stderrText string) {
		// replay in fresh processes; all must agree
		same := 0
		var last string
		for i := 0; i < opt.ReplayRuns; i++ {
			r, code, se := replayOnce(v.Item, v.Choices, opt)
			switch {
			case v.Kind == "race":
				if code == 66 {
					same++
					last = se
				}
			case r.Violation != nil && r.Violation.Kind == v.Kind:
				same++
			default:
				last = fmt.Sprintf("replay gave code=%d result=%+v stderr=%s", code, r, se)
			}
		}
		mu.Lock()
		defer mu.Unlock()
		if same != opt.ReplayRuns {
			toolErrs = append(toolErrs, fmt.Sprintf("violation did not reproduce %d/%d times: %+v (%s)", same, opt.ReplayRuns, v, last))
			return
		}
		if v.Kind == "race" && v.Detail == "" {
			v.Detail = raceSummary(last) + "\n" + last
		}
		sum.Violations = append(sum.Violations, v)
	}

	var wg sync.WaitGroup
	for wi := 0; wi < opt.Workers; wi++ {
		wg.Add(1)
		go func(wi int) {
			defer wg.Done()
			var w *workerProc
			defer func() {
				if w != nil {
					w.inC.Close()
					w.cmd.Wait()
				}
			}()
			for {
				item, ok := take()
				if !ok {
					return
				}
				if w == nil {
					var err error
					w, err = startWorker(wi, opt, workdir)
					if err != nil {
						mu.Lock()
						toolErrs = append(toolErrs, err.Error())
						mu.Unlock()
						return
					}
				}
				fmt.Fprintln(w.in, item)
				w.in.Flush()
				if w.out.Scan() {
					var r ItemResult
					if err := json.Unmarshal(w.out.Bytes(), &r); err != nil {
						mu.Lock()
						toolErrs = append(toolErrs, "bad worker output: "+w.out.Text())
						mu.Unlock()
						return
					}
					r.Item = item
					record(r)
					if r.Violation != nil {
						v := *r.Violation
						if v.Item == "" {
							v.Item = item // a handler may name a narrower, directly replayable item
						}
						w.inC.Close()
						w.cmd.Wait()
						w = nil
						confirm(v, "")
					} else if r.ToolError != "" {
						w.inC.Close()
						w.cmd.Wait()
						w = nil
					}
					continue
				}
				// worker died
				w.inC.Close()
				err := w.cmd.Wait()
				code := -1
				if ee, ok := err.(*exec.ExitError); ok {
					code = ee.ExitCode()
				}
				se := w.stderr.String()
				jb, _ := os.ReadFile(w.journal)
				w = nil
				if opt.Race && code == 66 {
					line := strings.TrimSpace(strings.SplitN(string(jb), "\n", 2)[0])
					parts := strings.SplitN(line, "\t", 2)
					ch := []int{}
					if len(parts) == 2 {
						ch = parseChoices(parts[1])
					}
					record(ItemResult{Item: item})
					confirm(Violation{Item: item, Kind: "race", Choices: ch}, se)
					continue
				}
				mu.Lock()
				toolErrs = append(toolErrs, fmt.Sprintf("worker died on item %q: exit=%d journal=%q stderr=%s", item, code, strings.TrimSpace(string(jb)), tail(se, 3000)))
				mu.Unlock()
				return
			}
		}(wi)
	}
	wg.Wait()
	if len(toolErrs) > 0 {
		sort.Strings(toolErrs)
		panic(ToolErr{strings.Join(toolErrs, "\n")})
	}
	return sum
}

func tail(s string, n int) string {
	if len(s) > n {
		return "..." + s[len(s)-n:]
	}
	return s
}

// StdHandler builds a Handler from a function that resolves an item name to a
// driver factory and bounds.
func StdHandler(resolve func(item string) (func() Exec, Bounds, error)) Handler {
	return func(item string, replay []int, isReplay bool, journal func([]int)) ItemResult {
		mk, b, err := resolve(item)
		if err != nil {
			return ItemResult{Item: item, ToolError: err.Error()}
		}
		if isReplay {
			_, v := Replay(mk, replay)
			if v != nil {
				v.Item = item
			}
			return ItemResult{Item: item, Violation: v}
		}
		st, v := Explore(mk, b, journal)
		if v != nil {
			v.Item = item
		}
		return ItemResult{Item: item, Stats: st, Violation: v}
	}
}

// ReplayFromFile re-runs the counterexample stored in a replay file (written by
// ev.Report from a Violation) in this process and exits 1 if it reproduces.
func ReplayFromFile(path string, h Handler) {
	b, err := os.ReadFile(path)
	if err != nil {
		fmt.Println("TOOL-ERROR:", err)
		os.Exit(2)
	}
	var rf struct {
		Property string    `json:"property"`
		Case     Violation `json:"case"`
	}
	if err := json.Unmarshal(b, &rf); err != nil || rf.Case.Item == "" {
		fmt.Println("TOOL-ERROR: replay file has no item/choices:", err)
		os.Exit(2)
	}
	runtime.GOMAXPROCS(1)
	if err := vsched.SelfTest(); err != nil {
		fmt.Println("TOOL-ERROR:", err)
		os.Exit(2)
	}
	r := safeHandle(h, rf.Case.Item, rf.Case.Choices, true, nil)
	if r.ToolError != "" {
		fmt.Println("TOOL-ERROR:", r.ToolError)
		os.Exit(2)
	}
	if r.Violation != nil {
		fmt.Printf("VIOLATION property=%s replay=%s\n  %s: %s\n", rf.Property, path, r.Violation.Kind, r.Violation.Detail)
		os.Exit(1)
	}
	fmt.Println("replay: no violation on this tree")
	os.Exit(0)
}

var _ = time.Now
