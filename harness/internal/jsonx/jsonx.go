// Package jsonx is an independent, strict RFC 8259 recogniser and an order-
// and duplicate-preserving decoder. Numbers are kept as text.
package jsonx

import (
	"fmt"
	"strings"
	"unicode/utf16"
	"unicode/utf8"
)

type Kind int

const (
	Null Kind = iota
	Bool
	Num
	Str
	Arr
	Obj
)

type Member struct {
	Key string
	Val *Node
}

type Node struct {
	Kind    Kind
	B       bool
	Text    string // number text, or decoded string value
	Sub     bool   // with Wild: the string must contain Text
	Wild    bool   // expected side only: any string matches (used where the wording of an error text is not pinned)
	AnyV    bool   // expected side only: any well-formed value matches (used where the statement leaves a value open)
	Elems   []*Node
	Members []Member
}

func S(s string) *Node { return &Node{Kind: Str, Text: s} }
func AnyValue() *Node  { return &Node{Kind: Null, AnyV: true} }
func AnyS() *Node      { return &Node{Kind: Str, Text: "<any string>", Wild: true} }

// Containing matches (on the expected side) any string that contains sub: used
// for error texts whose wording is zap's choice but which must describe the
// failure.
func Containing(sub string) *Node { return &Node{Kind: Str, Text: sub, Wild: true, Sub: true} }
func N(t string) *Node            { return &Node{Kind: Num, Text: t} }
func B(b bool) *Node              { return &Node{Kind: Bool, B: b} }
func NullNode() *Node             { return &Node{Kind: Null} }
func O() *Node                    { return &Node{Kind: Obj} }
func A(e ...*Node) *Node          { return &Node{Kind: Arr, Elems: e} }

func (n *Node) Add(k string, v *Node) *Node {
	n.Members = append(n.Members, Member{k, v})
	return n
}

// Get returns the first member with the key.
func (n *Node) Get(k string) *Node {
	for _, m := range n.Members {
		if m.Key == k {
			return m.Val
		}
	}
	return nil
}

func (n *Node) String() string {
	var sb strings.Builder
	n.write(&sb)
	return sb.String()
}

func (n *Node) write(sb *strings.Builder) {
	switch n.Kind {
	case Null:
		sb.WriteString("null")
	case Bool:
		fmt.Fprintf(sb, "%v", n.B)
	case Num:
		sb.WriteString(n.Text)
	case Str:
		fmt.Fprintf(sb, "%q", n.Text)
	case Arr:
		sb.WriteByte('[')
		for i, e := range n.Elems {
			if i > 0 {
				sb.WriteByte(',')
			}
			e.write(sb)
		}
		sb.WriteByte(']')
	case Obj:
		sb.WriteByte('{')
		for i, m := range n.Members {
			if i > 0 {
				sb.WriteByte(',')
			}
			fmt.Fprintf(sb, "%q:", m.Key)
			m.Val.write(sb)
		}
		sb.WriteByte('}')
	}
}

type parser struct {
	s   []byte
	pos int
	// ctrl is set when a raw byte < 0x20 (other than the whitespace JSON
	// allows between tokens) or any line break is seen inside the value.
	rawLineBreak bool
}

type SyntaxError struct {
	Pos int
	Msg string
}

func (e *SyntaxError) Error() string { return fmt.Sprintf("offset %d: %s", e.Pos, e.Msg) }

func (p *parser) fail(msg string) error { return &SyntaxError{p.pos, msg} }

func (p *parser) ws() {
	for p.pos < len(p.s) {
		switch p.s[p.pos] {
		case ' ', '\t':
			p.pos++
		case '\n', '\r':
			p.rawLineBreak = true
			p.pos++
		default:
			return
		}
	}
}

// ParseValue parses exactly one JSON value starting at s[0] (no leading
// whitespace skipped beyond what RFC 8259 allows) and returns the node and
// the number of bytes consumed (trailing whitespace not consumed).
func ParseValue(s []byte) (*Node, int, bool, error) {
	p := &parser{s: s}
	p.ws()
	n, err := p.value(0)
	if err != nil {
		return nil, p.pos, p.rawLineBreak, err
	}
	return n, p.pos, p.rawLineBreak, nil
}

// Parse parses a complete JSON text (surrounding whitespace allowed).
func Parse(s []byte) (*Node, error) {
	p := &parser{s: s}
	p.ws()
	n, err := p.value(0)
	if err != nil {
		return nil, err
	}
	p.ws()
	if p.pos != len(s) {
		return nil, p.fail("trailing bytes after the value")
	}
	return n, nil
}

func (p *parser) value(depth int) (*Node, error) {
	if depth > 10000 {
		return nil, p.fail("too deep")
	}
	if p.pos >= len(p.s) {
		return nil, p.fail("unexpected end of input")
	}
	switch c := p.s[p.pos]; {
	case c == '{':
		return p.object(depth)
	case c == '[':
		return p.array(depth)
	case c == '"':
		s, err := p.str()
		if err != nil {
			return nil, err
		}
		return S(s), nil
	case c == 't':
		return p.lit("true", B(true))
	case c == 'f':
		return p.lit("false", B(false))
	case c == 'n':
		return p.lit("null", NullNode())
	case c == '-' || (c >= '0' && c <= '9'):
		return p.number()
	default:
		return nil, p.fail(fmt.Sprintf("unexpected byte %q", c))
	}
}

func (p *parser) lit(w string, n *Node) (*Node, error) {
	if strings.HasPrefix(string(p.s[p.pos:]), w) {
		p.pos += len(w)
		return n, nil
	}
	return nil, p.fail("bad literal")
}

func (p *parser) number() (*Node, error) {
	start := p.pos
	if p.s[p.pos] == '-' {
		p.pos++
	}
	if p.pos >= len(p.s) {
		return nil, p.fail("bad number")
	}
	switch {
	case p.s[p.pos] == '0':
		p.pos++
	case p.s[p.pos] >= '1' && p.s[p.pos] <= '9':
		for p.pos < len(p.s) && p.s[p.pos] >= '0' && p.s[p.pos] <= '9' {
			p.pos++
		}
	default:
		return nil, p.fail("bad number")
	}
	if p.pos < len(p.s) && p.s[p.pos] == '.' {
		p.pos++
		d := 0
		for p.pos < len(p.s) && p.s[p.pos] >= '0' && p.s[p.pos] <= '9' {
			p.pos++
			d++
		}
		if d == 0 {
			return nil, p.fail("bad number: no digits after '.'")
		}
	}
	if p.pos < len(p.s) && (p.s[p.pos] == 'e' || p.s[p.pos] == 'E') {
		p.pos++
		if p.pos < len(p.s) && (p.s[p.pos] == '+' || p.s[p.pos] == '-') {
			p.pos++
		}
		d := 0
		for p.pos < len(p.s) && p.s[p.pos] >= '0' && p.s[p.pos] <= '9' {
			p.pos++
			d++
		}
		if d == 0 {
			return nil, p.fail("bad number: no digits in exponent")
		}
	}
	return N(string(p.s[start:p.pos])), nil
}

func hexv(c byte) int {
	switch {
	case c >= '0' && c <= '9':
		return int(c - '0')
	case c >= 'a' && c <= 'f':
		return int(c-'a') + 10
	case c >= 'A' && c <= 'F':
		return int(c-'A') + 10
	}
	return -1
}

func (p *parser) hex4() (rune, error) {
	if p.pos+4 > len(p.s) {
		return 0, p.fail("short \\u escape")
	}
	var r rune
	for i := 0; i < 4; i++ {
		h := hexv(p.s[p.pos+i])
		if h < 0 {
			return 0, p.fail("bad hex digit in \\u escape")
		}
		r = r<<4 | rune(h)
	}
	p.pos += 4
	return r, nil
}

func (p *parser) str() (string, error) {
	p.pos++ // opening quote
	var out []byte
	for {
		if p.pos >= len(p.s) {
			return "", p.fail("unterminated string")
		}
		c := p.s[p.pos]
		switch {
		case c == '"':
			p.pos++
			return string(out), nil
		case c < 0x20:
			if c == '\n' || c == '\r' {
				p.rawLineBreak = true
			}
			return "", p.fail(fmt.Sprintf("raw control character 0x%02x inside a string", c))
		case c == '\\':
			p.pos++
			if p.pos >= len(p.s) {
				return "", p.fail("unterminated escape")
			}
			e := p.s[p.pos]
			p.pos++
			switch e {
			case '"', '\\', '/':
				out = append(out, e)
			case 'b':
				out = append(out, '\b')
			case 'f':
				out = append(out, '\f')
			case 'n':
				out = append(out, '\n')
			case 'r':
				out = append(out, '\r')
			case 't':
				out = append(out, '\t')
			case 'u':
				r, err := p.hex4()
				if err != nil {
					return "", err
				}
				if utf16.IsSurrogate(r) {
					if p.pos+2 <= len(p.s) && p.s[p.pos] == '\\' && p.s[p.pos+1] == 'u' {
						save := p.pos
						p.pos += 2
						r2, err := p.hex4()
						if err != nil {
							return "", err
						}
						if d := utf16.DecodeRune(r, r2); d != utf8.RuneError {
							r = d
						} else {
							p.pos = save
							r = utf8.RuneError
						}
					} else {
						r = utf8.RuneError
					}
				}
				out = utf8.AppendRune(out, r)
			default:
				return "", p.fail(fmt.Sprintf("invalid escape \\%c", e))
			}
		case c < utf8.RuneSelf:
			out = append(out, c)
			p.pos++
		default:
			r, size := utf8.DecodeRune(p.s[p.pos:])
			if r == utf8.RuneError && size == 1 {
				return "", p.fail("invalid UTF-8 inside a string")
			}
			out = append(out, p.s[p.pos:p.pos+size]...)
			p.pos += size
		}
	}
}

func (p *parser) array(depth int) (*Node, error) {
	p.pos++
	n := &Node{Kind: Arr}
	p.ws()
	if p.pos < len(p.s) && p.s[p.pos] == ']' {
		p.pos++
		return n, nil
	}
	for {
		p.ws()
		v, err := p.value(depth + 1)
		if err != nil {
			return nil, err
		}
		n.Elems = append(n.Elems, v)
		p.ws()
		if p.pos >= len(p.s) {
			return nil, p.fail("unterminated array")
		}
		switch p.s[p.pos] {
		case ',':
			p.pos++
		case ']':
			p.pos++
			return n, nil
		default:
			return nil, p.fail(fmt.Sprintf("expected ',' or ']' in array, found %q", p.s[p.pos]))
		}
	}
}

func (p *parser) object(depth int) (*Node, error) {
	p.pos++
	n := &Node{Kind: Obj}
	p.ws()
	if p.pos < len(p.s) && p.s[p.pos] == '}' {
		p.pos++
		return n, nil
	}
	for {
		p.ws()
		if p.pos >= len(p.s) || p.s[p.pos] != '"' {
			return nil, p.fail("expected a string key in object")
		}
		k, err := p.str()
		if err != nil {
			return nil, err
		}
		p.ws()
		if p.pos >= len(p.s) || p.s[p.pos] != ':' {
			return nil, p.fail("expected ':' after object key")
		}
		p.pos++
		p.ws()
		v, err := p.value(depth + 1)
		if err != nil {
			return nil, err
		}
		n.Members = append(n.Members, Member{k, v})
		p.ws()
		if p.pos >= len(p.s) {
			return nil, p.fail("unterminated object")
		}
		switch p.s[p.pos] {
		case ',':
			p.pos++
		case '}':
			p.pos++
			return n, nil
		default:
			return nil, p.fail(fmt.Sprintf("expected ',' or '}' in object, found %q", p.s[p.pos]))
		}
	}
}

// Equal compares two trees structurally (order and duplicates significant).
// cmpNum decides number equality (nil: textual).
func Equal(a, b *Node, cmpNum func(x, y string) bool) bool {
	return Diff(a, b, cmpNum) == ""
}

// Diff returns a description of the first difference, "" if equal.
func Diff(a, b *Node, cmpNum func(x, y string) bool) string {
	return diff("$", a, b, cmpNum)
}

func diff(path string, a, b *Node, cmpNum func(x, y string) bool) string {
	if a == nil || b == nil {
		if a == b {
			return ""
		}
		return path + ": one side missing"
	}
	if b.AnyV {
		return ""
	}
	if a.Kind != b.Kind {
		return fmt.Sprintf("%s: kind differs: got %s want %s", path, a, b)
	}
	switch a.Kind {
	case Bool:
		if a.B != b.B {
			return fmt.Sprintf("%s: got %v want %v", path, a.B, b.B)
		}
	case Num:
		ok := a.Text == b.Text
		if !ok && cmpNum != nil {
			ok = cmpNum(a.Text, b.Text)
		}
		if !ok {
			return fmt.Sprintf("%s: number got %s want %s", path, a.Text, b.Text)
		}
	case Str:
		if b.Wild && b.Sub && !strings.Contains(a.Text, b.Text) {
			return fmt.Sprintf("%s: string got %q, want a string containing %q", path, a.Text, b.Text)
		}
		if !b.Wild && a.Text != b.Text {
			return fmt.Sprintf("%s: string got %q want %q", path, a.Text, b.Text)
		}
	case Arr:
		if len(a.Elems) != len(b.Elems) {
			return fmt.Sprintf("%s: array length got %d want %d (got %s want %s)", path, len(a.Elems), len(b.Elems), a, b)
		}
		for i := range a.Elems {
			if d := diff(fmt.Sprintf("%s[%d]", path, i), a.Elems[i], b.Elems[i], cmpNum); d != "" {
				return d
			}
		}
	case Obj:
		if len(a.Members) != len(b.Members) {
			return fmt.Sprintf("%s: object has %d members want %d (got %s want %s)", path, len(a.Members), len(b.Members), a, b)
		}
		for i := range a.Members {
			if a.Members[i].Key != b.Members[i].Key {
				return fmt.Sprintf("%s: member %d key got %q want %q (got %s want %s)", path, i, a.Members[i].Key, b.Members[i].Key, a, b)
			}
			if d := diff(path+"."+a.Members[i].Key, a.Members[i].Val, b.Members[i].Val, cmpNum); d != "" {
				return d
			}
		}
	}
	return ""
}
