// Package ev is the reporting side shared by all checks: known-findings
// lookup, VIOLATION / KNOWN-FINDING lines, replay files and the evidence file.
package ev

import (
	"crypto/sha1"
	"encoding/hex"
	"encoding/json"
	"fmt"
	"os"
	"path/filepath"
	"sort"
	"strconv"
	"sync"
	"time"
)

// Root is the /verif directory.
var Root = func() string {
	if r := os.Getenv("VERIF_ROOT"); r != "" {
		return r
	}
	return "/verif"
}()

// Finding is one entry of known_findings.json.
type Finding struct {
	Property string `json:"property"`
	Key      string `json:"key"`
	Status   string `json:"status"` // "known" | "fixed"
	Commit   string `json:"commit,omitempty"`
	What     string `json:"what"`
}

// Run collects the outcome of one check run.
type Run struct {
	Prop  string
	Tier  string
	Seed  int64
	Level string

	start      time.Time
	mu         sync.Mutex
	known      map[string]Finding
	knownHit   map[string]int
	vio        map[string]int
	vioOrder   []string
	Assume     []string
	maxPrinted int
}

// Start begins a run. Tier comes from argv[1] or VERIF_TIER (default quick).
func Start(prop, level string) *Run {
	r := &Run{Prop: prop, Level: level, start: time.Now(), known: map[string]Finding{}, knownHit: map[string]int{}, vio: map[string]int{}, maxPrinted: 8}
	r.Tier = os.Getenv("VERIF_TIER")
	for _, a := range os.Args[1:] {
		if a == "quick" || a == "thorough" {
			r.Tier = a
		}
	}
	if r.Tier != "thorough" {
		r.Tier = "quick"
	}
	if s := os.Getenv("VERIF_SEED"); s != "" {
		r.Seed, _ = strconv.ParseInt(s, 10, 64)
	}
	b, err := os.ReadFile(filepath.Join(Root, "known_findings.json"))
	if err == nil {
		var fs []Finding
		if err := json.Unmarshal(b, &fs); err != nil {
			ToolError("known_findings.json: %v", err)
		}
		for _, f := range fs {
			if f.Property == prop && f.Status == "known" {
				r.known[f.Key] = f
			}
		}
	}
	return r
}

// Thorough reports whether the thorough tier was requested.
func (r *Run) Thorough() bool { return r.Tier == "thorough" }

// ToolError aborts with exit status 2 (never a violation).
func ToolError(format string, a ...any) {
	fmt.Fprintf(os.Stderr, "TOOL-ERROR: "+format+"\n", a...)
	fmt.Printf("TOOL-ERROR: "+format+"\n", a...)
	os.Exit(2)
}

// Report records a failing case. key identifies the defect specifically (the
// constructor + input class, call site, operation sequence ...); if that key
// is listed as a known finding it is reported as such, otherwise it is a
// violation with a replay file.
func (r *Run) Report(key, what string, replay any) {
	r.mu.Lock()
	defer r.mu.Unlock()
	if f, ok := r.known[key]; ok {
		if r.knownHit[key] == 0 {
			fmt.Printf("KNOWN-FINDING: property=%s %s [%s]\n", r.Prop, f.What, key)
		}
		r.knownHit[key]++
		return
	}
	r.vio[key]++
	if r.vio[key] > 1 {
		return
	}
	r.vioOrder = append(r.vioOrder, key)
	if len(r.vioOrder) > r.maxPrinted {
		return
	}
	h := sha1.Sum([]byte(key))
	dig := hex.EncodeToString(h[:])[:10]
	dir := filepath.Join(Root, "replays")
	_ = os.MkdirAll(dir, 0o755)
	path := filepath.Join(dir, fmt.Sprintf("%s-%s.json", r.Prop, dig))
	b, err := json.MarshalIndent(map[string]any{"property": r.Prop, "key": key, "what": what, "tier": r.Tier, "case": replay}, "", " ")
	if err != nil {
		b, _ = json.MarshalIndent(map[string]any{"property": r.Prop, "key": key, "what": what, "tier": r.Tier, "case": fmt.Sprintf("%+v", replay)}, "", " ")
	}
	_ = os.WriteFile(path, b, 0o644)
	fmt.Printf("VIOLATION property=%s replay=%s\n", r.Prop, path)
	fmt.Printf("  key:  %s\n  what: %s\n", key, trunc(what, 1500))
}

func trunc(s string, n int) string {
	if len(s) > n {
		return s[:n] + "..."
	}
	return s
}

// Violations returns the number of distinct unlisted failing keys so far.
func (r *Run) Violations() int {
	r.mu.Lock()
	defer r.mu.Unlock()
	return len(r.vioOrder)
}

// Finish writes the evidence file and exits 0 (held) or 1 (violations).
func (r *Run) Finish(cov map[string]any) {
	r.mu.Lock()
	nv := len(r.vioOrder)
	total := 0
	for _, n := range r.vio {
		total += n
	}
	kf := []string{}
	for k, n := range r.knownHit {
		kf = append(kf, fmt.Sprintf("%s (x%d)", k, n))
	}
	sort.Strings(kf)
	r.mu.Unlock()
	if len(kf) > 0 {
		cov["known_findings_hit"] = kf
	}
	if nv > 0 {
		cov["violation_keys"] = r.vioOrder
		cov["failing_cases"] = total
	}
	evd := map[string]any{
		"property_id": r.Prop,
		"tier":        r.Tier,
		"seed":        r.Seed,
		"level":       r.Level,
		"coverage":    cov,
		"assumptions": r.Assume,
		"wall_s":      time.Since(r.start).Seconds(),
		"violations":  nv,
	}
	if r.Assume == nil {
		evd["assumptions"] = []string{}
	}
	b, err := json.MarshalIndent(evd, "", " ")
	if err != nil {
		ToolError("evidence: %v", err)
	}
	dir := filepath.Join(Root, "evidence")
	if d := os.Getenv("VERIF_EVIDENCE_DIR"); d != "" {
		dir = d // mutation / seed runs against scratch trees must not overwrite the evidence of the real tree
	}
	_ = os.MkdirAll(dir, 0o755)
	if err := os.WriteFile(filepath.Join(dir, r.Prop+".json"), b, 0o644); err != nil {
		ToolError("evidence: %v", err)
	}
	fmt.Printf("%s %s: violations=%d known=%d wall=%.1fs\n", r.Prop, r.Tier, nv, len(kf), time.Since(r.start).Seconds())
	if nv > 0 {
		os.Exit(1)
	}
	os.Exit(0)
}
