// Package par runs independent enumeration shards on all cores.
package par

import (
	"runtime"
	"sync"
)

// For calls f(shard) for shard = 0..n-1 on up to NumCPU goroutines.
func For(n int, f func(i int)) {
	w := runtime.NumCPU()
	if w > n {
		w = n
	}
	var wg sync.WaitGroup
	var mu sync.Mutex
	next := 0
	for k := 0; k < w; k++ {
		wg.Add(1)
		go func() {
			defer wg.Done()
			for {
				mu.Lock()
				i := next
				next++
				mu.Unlock()
				if i >= n {
					return
				}
				f(i)
			}
		}()
	}
	wg.Wait()
}

// Workers returns the number of parallel workers used.
func Workers() int { return runtime.NumCPU() }
