package encx

import (
	"fmt"
	"strings"

	"go.uber.org/zap"
	"go.uber.org/zap/zapcore"
	"verif/harness/internal/jsonx"
)

// ---------------------------------------------------------------------------
// F1: structural enumeration - every field list with a given number of nodes

// Gen enumerates field trees by node count.
type Gen struct {
	leaves []*Spec
	lists  map[int][][]*Spec // memo: all lists of total size n
	elists map[int][][]*Elem
}

func NewGen() *Gen {
	g := &Gen{lists: map[int][][]*Spec{0: {nil}}, elists: map[int][][]*Elem{0: {nil}}}
	g.leaves = append(g.leaves, Leaves(false)...)
	g.leaves = append(g.leaves, SkipSpec(), NamespaceSpec())
	return g
}

func errPositions(n int) []int {
	switch n {
	case 0:
		return []int{-1, 0}
	case 1:
		return []int{-1, 0, 1}
	}
	return []int{-1, 0, 1, n}
}

// Nodes returns every node of exactly size s.
func (g *Gen) Nodes(s int) []*Spec {
	var out []*Spec
	if s == 1 {
		out = append(out, g.leaves...)
	}
	for _, ch := range g.Lists(s - 1) {
		for _, ea := range errPositions(len(ch)) {
			out = append(out, &Spec{Kind: KObject, Name: "object", Children: ch, ErrAt: ea, Fault: ea >= 0})
			out = append(out, &Spec{Kind: KInline, Name: "inline", Children: ch, ErrAt: ea, Fault: ea >= 0})
		}
		out = append(out, &Spec{Kind: KDict, Name: "dict", Children: ch, ErrAt: -1})
	}
	for _, el := range g.ELists(s - 1) {
		for _, ea := range errPositions(len(el)) {
			out = append(out, &Spec{Kind: KArray, Name: "array", Elems: el, ErrAt: ea, Fault: ea >= 0})
		}
	}
	return out
}

// Lists returns every field list whose nodes sum to n.
func (g *Gen) Lists(n int) [][]*Spec {
	if n < 0 {
		return nil
	}
	if l, ok := g.lists[n]; ok {
		return l
	}
	var out [][]*Spec
	for s := 1; s <= n; s++ {
		nodes := g.Nodes(s)
		rests := g.Lists(n - s)
		for _, nd := range nodes {
			for _, r := range rests {
				l := make([]*Spec, 0, 1+len(r))
				l = append(l, nd)
				l = append(l, r...)
				out = append(out, l)
			}
		}
	}
	g.lists[n] = out
	return out
}

// ENodes returns every array element of exactly size s.
func (g *Gen) ENodes(s int) []*Elem {
	var out []*Elem
	if s == 1 {
		out = append(out, ElemInt(), ElemStr(), ElemReflectFail())
	}
	for _, ch := range g.Lists(s - 1) {
		for _, ea := range errPositions(len(ch)) {
			out = append(out, &Elem{Name: "object", IsObj: true, Children: ch, ErrAt: ea})
		}
	}
	for _, el := range g.ELists(s - 1) {
		for _, ea := range errPositions(len(el)) {
			out = append(out, &Elem{Name: "array", IsArr: true, Elems: el, ErrAt: ea})
		}
	}
	return out
}

func (g *Gen) ELists(n int) [][]*Elem {
	if n < 0 {
		return nil
	}
	if l, ok := g.elists[n]; ok {
		return l
	}
	var out [][]*Elem
	for s := 1; s <= n; s++ {
		nodes := g.ENodes(s)
		rests := g.ELists(n - s)
		for _, nd := range nodes {
			for _, r := range rests {
				l := make([]*Elem, 0, 1+len(r))
				l = append(l, nd)
				l = append(l, r...)
				out = append(out, l)
			}
		}
	}
	g.elists[n] = out
	return out
}

// Describe renders a spec list compactly.
func Describe(specs []*Spec) string {
	var parts []string
	for _, s := range specs {
		parts = append(parts, s.describe())
	}
	return "[" + strings.Join(parts, ", ") + "]"
}

func (s *Spec) describe() string {
	key := ""
	if s.Key != "" {
		key = fmt.Sprintf("key=%q ", strings.ReplaceAll(s.Key, "\x00empty", ""))
	}
	e := ""
	if s.ErrAt >= 0 {
		e = fmt.Sprintf(" err@%d", s.ErrAt)
	}
	switch s.Kind {
	case KObject, KInline, KDict:
		return key + s.Name + Describe(s.Children) + e
	case KArray:
		return key + "array" + describeElems(s.Elems) + e
	}
	return key + s.Name
}

func describeElems(es []*Elem) string {
	var parts []string
	for _, e := range es {
		x := ""
		if e.ErrAt >= 0 {
			x = fmt.Sprintf(" err@%d", e.ErrAt)
		}
		switch {
		case e.IsObj:
			parts = append(parts, "object"+Describe(e.Children)+x)
		case e.IsArr:
			parts = append(parts, "array"+describeElems(e.Elems)+x)
		default:
			parts = append(parts, e.Name)
		}
	}
	return "[" + strings.Join(parts, ", ") + "]"
}

// HasFault reports whether any node of the list is a failing field.
func HasFault(specs []*Spec) bool {
	for _, s := range specs {
		if s.Fault || HasFault(s.Children) || elemsFault(s.Elems) {
			return true
		}
	}
	return false
}

func elemsFault(es []*Elem) bool {
	for _, e := range es {
		if e.Fails || e.ErrAt >= 0 || HasFault(e.Children) || elemsFault(e.Elems) {
			return true
		}
	}
	return false
}

// ---------------------------------------------------------------------------
// F2: contexts for a single leaf

// Units is the 16-unit string alphabet of DESIGN section 3.
var Units = []string{"a", "\"", "\\", "\n", "\t", "\x00", "\x1f", "\x7f", "é", " ", "😀", "�", "\x80", "\xc3", "\xed\xa0\x80", "\xff"}

// Strings returns every string of at most n units.
func Strings(n int) []string {
	out := []string{""}
	cur := []string{""}
	for l := 1; l <= n; l++ {
		var next []string
		for _, p := range cur {
			for _, u := range Units {
				next = append(next, p+u)
			}
		}
		out = append(out, next...)
		cur = next
	}
	return out
}

// StringLeaf is a string field with the given value.
func StringLeaf(v string) *Spec {
	return fixed(fmt.Sprintf("string:%q", v), func(k string) zapcore.Field { return zap.String(k, v) }, jsonx.S(FixUTF8(v)))
}

// Keyed returns an int leaf under an explicit (possibly hostile) key.
func Keyed(key string) *Spec {
	s := fixed("int:7", func(k string) zapcore.Field { return zap.Int(k, 7) }, I64(7))
	s.Key = key
	if key == "" {
		s.Key = "\x00empty"
	}
	return s
}

func plain() *Spec {
	return fixed("int:1", func(k string) zapcore.Field { return zap.Int(k, 1) }, I64(1))
}

// Placement is a complete input for one encode: With segments + call-site fields.
type Placement struct {
	With [][]*Spec
	Call []*Spec
	Ctx  string
}

// Contexts places one spec in every context class.
func Contexts(s *Spec) []Placement {
	obj := func(ch ...*Spec) *Spec { return &Spec{Kind: KObject, Name: "object", Children: ch, ErrAt: -1} }
	inl := func(ch ...*Spec) *Spec { return &Spec{Kind: KInline, Name: "inline", Children: ch, ErrAt: -1} }
	dct := func(ch ...*Spec) *Spec { return &Spec{Kind: KDict, Name: "dict", Children: ch, ErrAt: -1} }
	return []Placement{
		{Ctx: "first at top level", Call: []*Spec{s}},
		{Ctx: "after a field", Call: []*Spec{plain(), s, plain()}},
		{Ctx: "in With context", With: [][]*Spec{{s}}, Call: []*Spec{plain()}},
		{Ctx: "in second With after a namespace", With: [][]*Spec{{plain(), NamespaceSpec()}, {s}}, Call: []*Spec{plain()}},
		{Ctx: "first in namespace", Call: []*Spec{NamespaceSpec(), s}},
		{Ctx: "first in object", Call: []*Spec{obj(s)}},
		{Ctx: "later in object, after nested object", Call: []*Spec{obj(obj(plain()), s)}},
		{Ctx: "inlined", Call: []*Spec{plain(), inl(s, plain())}},
		{Ctx: "in dict in namespace", Call: []*Spec{NamespaceSpec(), dct(plain(), s)}},
		{Ctx: "object element of an array", Call: []*Spec{{Kind: KArray, Name: "array", ErrAt: -1, Elems: []*Elem{ElemInt(), {Name: "object", IsObj: true, Children: []*Spec{s}, ErrAt: -1}}}}},
	}
}
