// Package encx is the "encoder explorer": a generator of field trees with an
// independently computed expected JSON tree for every node, shared by the
// checks for C01 (well-formedness), C02 (value fidelity), C10 (fault
// containment) and C16 (console encoder).
package encx

import (
	"encoding/base64"
	"encoding/json"
	"errors"
	"fmt"
	"math"
	"strconv"
	"strings"
	"time"

	"go.uber.org/multierr"
	"go.uber.org/zap"
	"go.uber.org/zap/zapcore"
	"verif/harness/internal/jsonx"
)

// Ref carries the configuration-dependent parts of the reference encoding.
type Ref struct {
	Dur  string // seconds | nanos | millis | string
	Time string // epoch | epochmillis | epochnanos | iso8601 | rfc3339 | rfc3339nano
	Alt  int    // which of a spec's acceptable encodings to expect (0 = first; see Spec.Alts)
}

// Kind of a spec node.
const (
	KLeaf = iota
	KSkip
	KNamespace
	KObject
	KInline
	KDict
	KArray
)

// Spec describes one field together with its expected encoding.
type Spec struct {
	Kind     int
	Name     string
	Key      string // "" = assigned by position
	Make     func(key string) zapcore.Field
	Want     func(key string, r Ref) []jsonx.Member
	Children []*Spec // object / inline / dict members
	Elems    []*Elem // array elements
	ErrAt    int     // -1: marshaler succeeds; k: returns an error after k children
	Fault    bool    // this node is a failing field (C10)
	Alts     int     // number of further acceptable encodings (Want consults Ref.Alt)
	Hostile  bool
}

// Elem is one array element.
type Elem struct {
	Name     string
	Append   func(enc zapcore.ArrayEncoder) error
	Want     func(r Ref) *jsonx.Node // nil when nothing is appended (failed reflect)
	Fails    bool
	Children []*Spec // nested object element
	Elems    []*Elem // nested array element
	ErrAt    int
	IsObj    bool
	IsArr    bool
}

// ErrMsg is the error text returned by failing test marshalers.
const ErrMsg = "marshal \"failed\"\n<here>"

type objMarshaler struct {
	children []*Spec
	keys     []string
	errAt    int
}

func (m *objMarshaler) MarshalLogObject(enc zapcore.ObjectEncoder) error {
	for i, c := range m.children {
		if m.errAt == i {
			return errors.New(ErrMsg)
		}
		c.field(m.keys[i]).AddTo(enc)
	}
	if m.errAt == len(m.children) {
		return errors.New(ErrMsg)
	}
	return nil
}

type arrMarshaler struct {
	elems []*Elem
	errAt int
}

func (m *arrMarshaler) MarshalLogArray(enc zapcore.ArrayEncoder) error {
	for i, e := range m.elems {
		if m.errAt == i {
			return errors.New(ErrMsg)
		}
		if err := e.append(enc); err != nil {
			return err
		}
	}
	if m.errAt == len(m.elems) {
		return errors.New(ErrMsg)
	}
	return nil
}

func (e *Elem) append(enc zapcore.ArrayEncoder) error {
	switch {
	case e.IsObj:
		return enc.AppendObject(&objMarshaler{children: e.Children, keys: AutoKeys(e.Children, "e"), errAt: e.ErrAt})
	case e.IsArr:
		return enc.AppendArray(&arrMarshaler{elems: e.Elems, errAt: e.ErrAt})
	}
	return e.Append(enc)
}

// AutoKeys assigns keys by position (explicit keys win).
func AutoKeys(specs []*Spec, prefix string) []string {
	ks := make([]string, len(specs))
	for i, s := range specs {
		if s.Key != "" || s.Kind == KInline {
			ks[i] = s.Key
			if s.Key == "\x00empty" {
				ks[i] = ""
			}
		} else {
			ks[i] = prefix + strconv.Itoa(i)
		}
	}
	return ks
}

// Fields builds the zap fields of a spec list.
func Fields(specs []*Spec, prefix string) []zapcore.Field {
	ks := AutoKeys(specs, prefix)
	fs := make([]zapcore.Field, len(specs))
	for i, s := range specs {
		fs[i] = s.field(ks[i])
	}
	return fs
}

func (s *Spec) field(key string) zapcore.Field {
	switch s.Kind {
	case KSkip:
		return zap.Skip()
	case KNamespace:
		return zap.Namespace(key)
	case KObject:
		return zap.Object(key, &objMarshaler{children: s.Children, keys: AutoKeys(s.Children, key+"_"), errAt: s.ErrAt})
	case KInline:
		return zap.Inline(&objMarshaler{children: s.Children, keys: AutoKeys(s.Children, "in_"), errAt: s.ErrAt})
	case KDict:
		return zap.Dict(key, Fields(s.Children, key+"_")...)
	case KArray:
		return zap.Array(key, &arrMarshaler{elems: s.Elems, errAt: s.ErrAt})
	}
	return s.Make(key)
}

// scope is where expected members are appended; namespaces move it inward.
type scope struct{ cur *jsonx.Node }

// Expect appends the expected members of the spec list to obj, in order, and
// returns the innermost open scope (namespaces stay open for what follows).
func Expect(sc *jsonx.Node, specs []*Spec, prefix string, r Ref) *jsonx.Node {
	ks := AutoKeys(specs, prefix)
	cur := sc
	for i, s := range specs {
		// keys are strings like any other: invalid UTF-8 bytes arrive as U+FFFD
		cur = s.expect(cur, FixUTF8(ks[i]), r)
	}
	return cur
}

func (s *Spec) expect(cur *jsonx.Node, key string, r Ref) *jsonx.Node {
	switch s.Kind {
	case KSkip:
	case KNamespace:
		n := jsonx.O()
		cur.Add(key, n)
		return n
	case KObject:
		o := jsonx.O()
		cur.Add(key, o)
		n := len(s.Children)
		if s.ErrAt >= 0 && s.ErrAt < n {
			n = s.ErrAt
		}
		Expect(o, s.Children[:n], key+"_", r)
		if s.ErrAt >= 0 {
			cur.Add(key+"Error", jsonx.Containing(ErrMsg))
		}
	case KInline:
		n := len(s.Children)
		if s.ErrAt >= 0 && s.ErrAt < n {
			n = s.ErrAt
		}
		cur = Expect(cur, s.Children[:n], "in_", r)
		if s.ErrAt >= 0 {
			cur.Add("Error", jsonx.Containing(ErrMsg))
		}
	case KDict:
		o := jsonx.O()
		cur.Add(key, o)
		Expect(o, s.Children, key+"_", r)
	case KArray:
		a, failed := expectArr(s.Elems, s.ErrAt, r)
		cur.Add(key, a)
		if failed != "" {
			// the <key>Error text must describe the failure: contain the
			// marshaler's / encoder's message (the exact wording is zap's)
			cur.Add(key+"Error", jsonx.Containing(failed))
		}
	default:
		for _, m := range s.Want(key, r) {
			cur.Add(m.Key, m.Val)
		}
	}
	return cur
}

// ReflectErrChan is the error encoding/json reports for a channel value.
const ReflectErrChan = "chan int"

func expectArr(elems []*Elem, errAt int, r Ref) (*jsonx.Node, string) {
	a := jsonx.A()
	for i, e := range elems {
		if errAt == i {
			return a, ErrMsg
		}
		switch {
		case e.IsObj:
			o := jsonx.O()
			n := len(e.Children)
			if e.ErrAt >= 0 && e.ErrAt < n {
				n = e.ErrAt
			}
			Expect(o, e.Children[:n], "e", r)
			a.Elems = append(a.Elems, o)
			if e.ErrAt >= 0 {
				return a, ErrMsg
			}
		case e.IsArr:
			in, failed := expectArr(e.Elems, e.ErrAt, r)
			a.Elems = append(a.Elems, in)
			if failed != "" {
				return a, failed
			}
		default:
			if w := e.Want(r); w != nil {
				a.Elems = append(a.Elems, w)
			}
			if e.Fails {
				return a, ReflectErrChan
			}
		}
	}
	if errAt == len(elems) {
		return a, ErrMsg
	}
	return a, ""
}

// ---------------------------------------------------------------------------
// number helpers: expected numbers that must be compared by value

func F64(v float64) *jsonx.Node {
	switch {
	case math.IsNaN(v):
		return jsonx.S("NaN")
	case math.IsInf(v, 1):
		return jsonx.S("+Inf")
	case math.IsInf(v, -1):
		return jsonx.S("-Inf")
	}
	return jsonx.N("~f64:" + strconv.FormatUint(math.Float64bits(v), 16))
}

func F32(v float32) *jsonx.Node {
	switch {
	case v != v:
		return jsonx.S("NaN")
	case math.IsInf(float64(v), 1):
		return jsonx.S("+Inf")
	case math.IsInf(float64(v), -1):
		return jsonx.S("-Inf")
	}
	return jsonx.N("~f32:" + strconv.FormatUint(uint64(math.Float32bits(v)), 16))
}

func I64(v int64) *jsonx.Node  { return jsonx.N(strconv.FormatInt(v, 10)) }
func U64(v uint64) *jsonx.Node { return jsonx.N(strconv.FormatUint(v, 10)) }

// CmpNum compares an emitted number text with an expected one.
func CmpNum(got, want string) bool {
	switch {
	case strings.HasPrefix(want, "~f64:"):
		bits, _ := strconv.ParseUint(want[5:], 16, 64)
		f, err := strconv.ParseFloat(got, 64)
		return err == nil && math.Float64bits(f) == bits
	case strings.HasPrefix(want, "~f32:"):
		bits, _ := strconv.ParseUint(want[5:], 16, 32)
		f, err := strconv.ParseFloat(got, 32)
		return err == nil && math.Float32bits(float32(f)) == uint32(bits)
	}
	return got == want
}

// FixUTF8 replaces every invalid UTF-8 byte by U+FFFD.
func FixUTF8(s string) string {
	var sb strings.Builder
	for i := 0; i < len(s); {
		c := s[i]
		if c < 0x80 {
			sb.WriteByte(c)
			i++
			continue
		}
		r, size := decodeRune(s[i:])
		if r == 0xFFFD && size == 1 {
			sb.WriteString("�")
			i++
			continue
		}
		sb.WriteString(s[i : i+size])
		i += size
	}
	return sb.String()
}

// ---------------------------------------------------------------------------
// reference formatters for durations and times

func DurNode(d time.Duration, r Ref) *jsonx.Node {
	switch r.Dur {
	case "seconds":
		return F64(float64(d) / float64(time.Second))
	case "millis":
		return I64(d.Nanoseconds() / 1e6)
	case "string":
		return jsonx.S(d.String())
	}
	return I64(int64(d)) // nanos, also the documented fall-back for nil / no-op encoders
}

// TimeInRange reports whether t is representable as int64 nanoseconds.
func TimeInRange(t time.Time) bool {
	return !t.Before(time.Unix(0, math.MinInt64)) && !t.After(time.Unix(0, math.MaxInt64))
}

func TimeNode(t time.Time, r Ref) *jsonx.Node {
	switch r.Time {
	case "epoch":
		return F64(float64(t.UnixNano()) / float64(time.Second))
	case "epochmillis":
		return F64(float64(t.UnixNano()) / float64(time.Millisecond))
	case "iso8601":
		return jsonx.S(t.Format("2006-01-02T15:04:05.000Z0700"))
	case "rfc3339":
		return jsonx.S(t.Format(time.RFC3339))
	case "rfc3339nano":
		return jsonx.S(t.Format(time.RFC3339Nano))
	case "layout":
		return jsonx.S(t.Format(HostileLayout))
	case "plainlayout":
		return jsonx.S(t.Format(PlainLayout))
	case "emptylayout":
		return jsonx.S("")
	}
	return I64(t.UnixNano())
}

func cplx(re, im float64, bits int) string {
	s := strconv.FormatFloat(re, 'f', -1, bits)
	if im >= 0 {
		s += "+"
	}
	return s + strconv.FormatFloat(im, 'f', -1, bits) + "i"
}

// ---------------------------------------------------------------------------
// leaves

func one(k string, v *jsonx.Node) []jsonx.Member { return []jsonx.Member{{Key: k, Val: v}} }

func leaf(name string, mk func(k string) zapcore.Field, want func(k string, r Ref) []jsonx.Member) *Spec {
	return &Spec{Kind: KLeaf, Name: name, Make: mk, Want: want, ErrAt: -1}
}

func fixed(name string, mk func(k string) zapcore.Field, v *jsonx.Node) *Spec {
	return leaf(name, mk, func(k string, r Ref) []jsonx.Member { return one(k, v) })
}

type okStringer struct{ s string }

func (s okStringer) String() string { return s.s }

type panicStringer struct{}

func (panicStringer) String() string { panic("stringer \"boom\"\n") }

type (
	panicU8       uint8
	panicInt      int
	panicBool     bool
	panicF64      float64
	panicStr      string
	panicSlice    []int
	panicMap      map[string]int
	panicPtr      struct{ x int }
	panicFunc     func()
	panicErrU8    uint8
	panicErrStr   string
	panicErrSlice []int
	panicErrPtr   struct{ x int }
)

func (panicU8) String() string      { panic("kind boom") }
func (panicInt) String() string     { panic("kind boom") }
func (panicBool) String() string    { panic("kind boom") }
func (panicF64) String() string     { panic("kind boom") }
func (panicStr) String() string     { panic("kind boom") }
func (panicSlice) String() string   { panic("kind boom") }
func (panicMap) String() string     { panic("kind boom") }
func (*panicPtr) String() string    { panic("kind boom") }
func (panicFunc) String() string    { panic("kind boom") }
func (panicErrU8) Error() string    { panic("kind boom") }
func (panicErrStr) Error() string   { panic("kind boom") }
func (panicErrSlice) Error() string { panic("kind boom") }
func (*panicErrPtr) Error() string  { panic("kind boom") }

type valStringer struct{ x int }

func (v valStringer) String() string { return "v" + strconv.Itoa(v.x) }

type verboseErr struct{ msg string }

func (e verboseErr) Error() string { return e.msg }
func (e verboseErr) Format(f fmt.State, c rune) {
	if c == 'v' && f.Flag('+') {
		fmt.Fprintf(f, "%s\n\tat frame \"x\"", e.msg)
		return
	}
	fmt.Fprint(f, e.msg)
}

type panicErr struct{}

func (panicErr) Error() string { panic("error \"boom\"") }

type ptrErr struct{ msg string }

func (e *ptrErr) Error() string { return e.msg }

type groupPanics struct{}

func (groupPanics) Error() string   { return "group" }
func (groupPanics) Errors() []error { panic("errors boom") }

type failingJSON struct{}

func (failingJSON) MarshalJSON() ([]byte, error) { return nil, errors.New("mj \"failed\"") }

type htmlStruct struct {
	A string `json:"a<>&"`
	B []int  `json:"b"`
}

// Hostile is a string exercising every escaping class.
const Hostile = "a\"\\\n\r\t\x00\x1f\x7fé 😀�\x80\xc3\xed\xa0\x80\xff</script>"

// Leaves returns the leaf alphabet. full=false gives the reduced set used for
// structural enumeration.
func Leaves(full bool) []*Spec {
	ls := []*Spec{
		fixed("int64:max", func(k string) zapcore.Field { return zap.Int64(k, math.MaxInt64) }, I64(math.MaxInt64)),
		fixed("string:hostile", func(k string) zapcore.Field { return zap.String(k, Hostile) }, jsonx.S(FixUTF8(Hostile))),
		leaf("reflect:chan(unencodable)", func(k string) zapcore.Field { return zap.Reflect(k, make(chan int)) }, func(k string, r Ref) []jsonx.Member {
			return one(k+"Error", jsonx.Containing("chan int"))
		}),
		leaf("error:group", func(k string) zapcore.Field {
			return zap.NamedError(k, multierr.Combine(errors.New("e\"1"), verboseErr{"e2"}))
		}, func(k string, r Ref) []jsonx.Member {
			return []jsonx.Member{
				{Key: k, Val: jsonx.S("e\"1; e2")},
				{Key: k + "Causes", Val: jsonx.A(
					jsonx.O().Add("error", jsonx.S("e\"1")),
					jsonx.O().Add("error", jsonx.S("e2")).Add("errorVerbose", jsonx.S("e2\n\tat frame \"x\"")),
				)},
			}
		}),
	}
	ls[2].Fault = true
	if !full {
		return ls
	}
	add := func(s *Spec) { ls = append(ls, s) }
	// integers
	add(fixed("int64:min", func(k string) zapcore.Field { return zap.Int64(k, math.MinInt64) }, I64(math.MinInt64)))
	add(fixed("int:-1", func(k string) zapcore.Field { return zap.Int(k, -1) }, I64(-1)))
	add(fixed("int32:min", func(k string) zapcore.Field { return zap.Int32(k, math.MinInt32) }, I64(math.MinInt32)))
	add(fixed("int16:min", func(k string) zapcore.Field { return zap.Int16(k, math.MinInt16) }, I64(math.MinInt16)))
	add(fixed("int8:min", func(k string) zapcore.Field { return zap.Int8(k, math.MinInt8) }, I64(math.MinInt8)))
	add(fixed("uint64:max", func(k string) zapcore.Field { return zap.Uint64(k, math.MaxUint64) }, U64(math.MaxUint64)))
	add(fixed("uint64:2^63", func(k string) zapcore.Field { return zap.Uint64(k, 1<<63) }, U64(1<<63)))
	add(fixed("uint:max", func(k string) zapcore.Field { return zap.Uint(k, math.MaxUint) }, U64(math.MaxUint)))
	add(fixed("uint32:max", func(k string) zapcore.Field { return zap.Uint32(k, math.MaxUint32) }, U64(math.MaxUint32)))
	add(fixed("uint16:max", func(k string) zapcore.Field { return zap.Uint16(k, math.MaxUint16) }, U64(math.MaxUint16)))
	add(fixed("uint8:max", func(k string) zapcore.Field { return zap.Uint8(k, math.MaxUint8) }, U64(math.MaxUint8)))
	add(fixed("uintptr:max", func(k string) zapcore.Field { return zap.Uintptr(k, ^uintptr(0)) }, U64(math.MaxUint64)))
	add(fixed("bool:true", func(k string) zapcore.Field { return zap.Bool(k, true) }, jsonx.B(true)))
	add(fixed("bool:false", func(k string) zapcore.Field { return zap.Bool(k, false) }, jsonx.B(false)))
	// floats
	for _, v := range []float64{0, math.Copysign(0, -1), 1.5, math.NaN(), math.Inf(1), math.Inf(-1), 5e-324, math.MaxFloat64, 1e21, 1e-7, 123456789.123, -2.2250738585072014e-308} {
		v := v
		add(fixed(fmt.Sprintf("float64:%v", v), func(k string) zapcore.Field { return zap.Float64(k, v) }, F64(v)))
	}
	for _, v := range []float32{0.1, 1e-45, math.MaxFloat32, float32(math.NaN()), float32(math.Inf(-1)), 16777217, -0.0} {
		v := v
		add(fixed(fmt.Sprintf("float32:%v", v), func(k string) zapcore.Field { return zap.Float32(k, v) }, F32(v)))
	}
	// complex
	for _, c := range []complex128{complex(1, 2), complex(math.NaN(), math.Inf(-1)), complex(-1.5, -0.25), complex(0, math.Copysign(0, -1)), complex(1e21, 5e-324)} {
		c := c
		add(fixed(fmt.Sprintf("complex128:%v", c), func(k string) zapcore.Field { return zap.Complex128(k, c) }, jsonx.S(cplx(real(c), imag(c), 64))))
	}
	for _, c := range []complex64{complex(0.1, -0.2), complex(float32(math.Inf(1)), 3)} {
		c := c
		add(fixed(fmt.Sprintf("complex64:%v", c), func(k string) zapcore.Field { return zap.Complex64(k, c) }, jsonx.S(cplx(float64(real(c)), float64(imag(c)), 32))))
	}
	// strings and bytes
	add(fixed("string:empty", func(k string) zapcore.Field { return zap.String(k, "") }, jsonx.S("")))
	add(fixed("bytestring:hostile", func(k string) zapcore.Field { return zap.ByteString(k, []byte(Hostile)) }, jsonx.S(FixUTF8(Hostile))))
	add(fixed("binary", func(k string) zapcore.Field { return zap.Binary(k, []byte(Hostile)) }, jsonx.S(base64.StdEncoding.EncodeToString([]byte(Hostile)))))
	add(fixed("binary:empty", func(k string) zapcore.Field { return zap.Binary(k, nil) }, jsonx.S("")))
	// sizes around the base64 quantum (3) and around 64 / 1024 bytes (chunked encoders pad per chunk)
	for _, n := range []int{1, 2, 3, 4, 63, 64, 65, 66, 127, 128, 129, 1023, 1024, 1025, 3000} {
		b := make([]byte, n)
		for i := range b {
			b[i] = byte(i*7 + n)
		}
		bb := b
		add(fixed("binary:len-"+strconv.Itoa(n), func(k string) zapcore.Field { return zap.Binary(k, bb) }, jsonx.S(base64.StdEncoding.EncodeToString(bb))))
	}
	// durations
	for _, d := range []time.Duration{0, 1, -1, 1500 * time.Millisecond, math.MinInt64, math.MaxInt64, 999999, -1000001} {
		d := d
		add(leaf(fmt.Sprintf("duration:%d", int64(d)), func(k string) zapcore.Field { return zap.Duration(k, d) }, func(k string, r Ref) []jsonx.Member { return one(k, DurNode(d, r)) }))
	}
	// times (only instants whose representation every built-in encoder defines)
	zone := time.FixedZone("X\"Z", -7*3600-1800)
	for _, t := range []time.Time{time.Unix(0, 0).UTC(), time.Date(2023, 11, 14, 22, 13, 20, 123456789, zone), time.Date(1901, 1, 2, 3, 4, 5, 6, time.UTC), time.Date(2262, 4, 11, 23, 47, 16, 854775807, time.UTC), time.Unix(1, 500).In(time.FixedZone("", 3600))} {
		t := t
		add(leaf("time:"+t.Format(time.RFC3339Nano), func(k string) zapcore.Field { return zap.Time(k, t) }, func(k string, r Ref) []jsonx.Member { return one(k, TimeNode(t, r)) }))
	}
	// pointers
	var nilInt *int
	seven := 7
	add(fixed("intp:nil", func(k string) zapcore.Field { return zap.Intp(k, nilInt) }, jsonx.NullNode()))
	add(fixed("intp:7", func(k string) zapcore.Field { return zap.Intp(k, &seven) }, I64(7)))
	// reflection
	add(fixed("reflect:nil", func(k string) zapcore.Field { return zap.Reflect(k, nil) }, jsonx.NullNode()))
	// a reflected plain string goes through the reflection encoder like any other value: JSON escaping, not Go quoting
	add(fixed("reflect:plain-hostile-string", func(k string) zapcore.Field { return zap.Reflect(k, Hostile+"\a\v\x7f\U0010ffff") }, jsonx.S(FixUTF8(Hostile+"\a\v\x7f\U0010ffff"))))
	add(fixed("reflect:map", func(k string) zapcore.Field { return zap.Reflect(k, map[string]int{"a": 1}) }, jsonx.O().Add("a", jsonx.N("1"))))
	add(fixed("reflect:html-struct", func(k string) zapcore.Field { return zap.Reflect(k, htmlStruct{A: "<&> ", B: nil}) }, jsonx.O().Add("a<>&", jsonx.S("<&> ")).Add("b", jsonx.NullNode())))
	add(fixed("reflect:rawmessage-with-newline", func(k string) zapcore.Field {
		return zap.Reflect(k, json.RawMessage("{\n \"x\" :\t[1,\n2]}"))
	}, jsonx.O().Add("x", jsonx.A(jsonx.N("1"), jsonx.N("2")))))
	// error groups (Errors() []error) whose own Error() works while a member's does not
	nilMember := leaf("error:group-with-nil-pointer-member", func(k string) zapcore.Field {
		var missing *derefErrX
		return zap.NamedError(k, groupErr{[]error{errors.New("ok1"), missing, errors.New("ok2")}})
	}, func(k string, r Ref) []jsonx.Member {
		return []jsonx.Member{{Key: k, Val: jsonx.S("group failed")}, {Key: k + "Causes", Val: jsonx.A(
			jsonx.O().Add("error", jsonx.S("ok1")), jsonx.O().Add("error", jsonx.S("<nil>")), jsonx.O().Add("error", jsonx.S("ok2")))}}
	})
	add(nilMember)
	boomMember := leaf("error:group-with-panicking-member", func(k string) zapcore.Field {
		return zap.NamedError(k, groupErr{[]error{errors.New("ok1"), boomErrX{}, errors.New("ok2")}})
	}, func(k string, r Ref) []jsonx.Member {
		// the members up to the failing one are in the array; what the array holds from the failing member on is not pinned
		return []jsonx.Member{{Key: k, Val: jsonx.S("group failed")}, {Key: k + "Causes", Val: jsonx.AnyValue()}, {Key: k + "Error", Val: jsonx.Containing("member exploded")}}
	})
	boomMember.Fault = true
	add(boomMember)
	// json.RawMessage values that are not one complete JSON document: encoding/json rejects them, so they are
	// reported like any other value reflection cannot encode; a nil one is null
	for _, rm := range []struct{ name, raw string }{{"truncated", `{"a":`}, {"trailing-garbage", `{} x`}, {"empty-non-nil", ""}, {"unquoted", `a"b`}, {"two-documents", `1 2`}} {
		rm := rm
		bad := leaf("reflect:rawmessage-invalid("+rm.name+")", func(k string) zapcore.Field { return zap.Reflect(k, json.RawMessage([]byte(rm.raw))) }, func(k string, r Ref) []jsonx.Member {
			return one(k+"Error", jsonx.Containing("json"))
		})
		bad.Fault = true
		add(bad)
	}
	add(fixed("reflect:rawmessage-nil", func(k string) zapcore.Field { return zap.Reflect(k, json.RawMessage(nil)) }, jsonx.NullNode()))
	add(fixed("reflect:rawmessage-spaced", func(k string) zapcore.Field { return zap.Reflect(k, json.RawMessage(` { "a" : [ 1 , 2 ] } `)) }, jsonx.O().Add("a", jsonx.A(jsonx.N("1"), jsonx.N("2")))))
	fj := leaf("reflect:failing-json-marshaler", func(k string) zapcore.Field { return zap.Reflect(k, failingJSON{}) }, func(k string, r Ref) []jsonx.Member {
		return one(k+"Error", jsonx.S("json: error calling MarshalJSON for type encx.failingJSON: mj \"failed\""))
	})
	fj.Fault = true
	add(fj)
	// stringers
	add(fixed("stringer:ok", func(k string) zapcore.Field { return zap.Stringer(k, okStringer{Hostile}) }, jsonx.S(FixUTF8(Hostile))))
	ps := leaf("stringer:panics", func(k string) zapcore.Field { return zap.Stringer(k, panicStringer{}) }, func(k string, r Ref) []jsonx.Member {
		return one(k+"Error", jsonx.Containing("stringer \"boom\"\n"))
	})
	ps.Fault = true
	add(ps)
	// panicking Stringers / errors of every other dynamic kind (enum-style named
	// scalars, strings, slices, maps, funcs, pointers): containment must not depend on the kind
	for _, kc := range []struct {
		name string
		v    fmt.Stringer
	}{
		{"uint8", panicU8(7)}, {"int", panicInt(-3)}, {"bool", panicBool(true)}, {"float64", panicF64(1.5)}, {"string", panicStr("s")},
		{"slice", panicSlice{1}}, {"map", panicMap{"a": 1}}, {"pointer", &panicPtr{}}, {"func", panicFunc(func() {})},
	} {
		kc := kc
		l := leaf("stringer:panics:kind-"+kc.name, func(k string) zapcore.Field { return zap.Stringer(k, kc.v) }, func(k string, r Ref) []jsonx.Member {
			return one(k+"Error", jsonx.Containing("kind boom"))
		})
		l.Fault = true
		add(l)
		la := leaf("any:stringer-panics:kind-"+kc.name, func(k string) zapcore.Field { return zap.Any(k, kc.v) }, func(k string, r Ref) []jsonx.Member {
			return one(k+"Error", jsonx.Containing("kind boom"))
		})
		la.Fault = true
		add(la)
	}
	for _, kc := range []struct {
		name string
		v    error
	}{
		{"uint8", panicErrU8(7)}, {"string", panicErrStr("s")}, {"slice", panicErrSlice{1}}, {"pointer", &panicErrPtr{}},
	} {
		kc := kc
		l := leaf("error:Error()-panics:kind-"+kc.name, func(k string) zapcore.Field { return zap.NamedError(k, kc.v) }, func(k string, r Ref) []jsonx.Member {
			return one(k+"Error", jsonx.Containing("kind boom"))
		})
		l.Fault = true
		add(l)
	}
	var nilVS *valStringer
	ns := fixed("stringer:nil-pointer", func(k string) zapcore.Field { return zap.Stringer(k, nilVS) }, jsonx.S("<nil>"))
	ns.Fault = true
	add(ns)
	// errors
	add(fixed("error:plain", func(k string) zapcore.Field { return zap.NamedError(k, errors.New(Hostile)) }, jsonx.S(FixUTF8(Hostile))))
	add(leaf("error:nil", func(k string) zapcore.Field { return zap.NamedError(k, nil) }, func(k string, r Ref) []jsonx.Member { return nil }))
	add(leaf("error:verbose", func(k string) zapcore.Field { return zap.NamedError(k, verboseErr{"v"}) }, func(k string, r Ref) []jsonx.Member {
		return []jsonx.Member{{Key: k, Val: jsonx.S("v")}, {Key: k + "Verbose", Val: jsonx.S("v\n\tat frame \"x\"")}}
	}))
	// a verbose form that differs from the message without being longer (a terse code; same length; one byte)
	for _, tv := range [][2]string{{"a long message", "E42 db.go:17"}, {"abcd", "abcX"}, {"msg", "m"}} {
		tv := tv
		add(leaf("error:verbose-form-not-longer("+tv[1]+")", func(k string) zapcore.Field { return zap.NamedError(k, terseVerboseErr{tv[0], tv[1]}) }, func(k string, r Ref) []jsonx.Member {
			return []jsonx.Member{{Key: k, Val: jsonx.S(tv[0])}, {Key: k + "Verbose", Val: jsonx.S(tv[1])}}
		}))
	}
	add(leaf("error:group-with-terse-verbose-member", func(k string) zapcore.Field {
		return zap.NamedError(k, groupErr{[]error{errors.New("ok1"), terseVerboseErr{"a long message", "E42"}}})
	}, func(k string, r Ref) []jsonx.Member {
		return []jsonx.Member{{Key: k, Val: jsonx.S("group failed")}, {Key: k + "Causes", Val: jsonx.A(
			jsonx.O().Add("error", jsonx.S("ok1")), jsonx.O().Add("error", jsonx.S("a long message")).Add("errorVerbose", jsonx.S("E42")))}}
	}))
	pe := leaf("error:Error()-panics", func(k string) zapcore.Field { return zap.NamedError(k, panicErr{}) }, func(k string, r Ref) []jsonx.Member {
		return one(k+"Error", jsonx.Containing("error \"boom\""))
	})
	pe.Fault = true
	add(pe)
	// panic VALUES that are hard to render: an error whose own Error() panics (a typed nil pointer), a Stringer likewise
	for _, hv := range []struct {
		name string
		v    interface{}
	}{{"typed-nil-error", (*derefErrX)(nil)}, {"typed-nil-stringer", (*derefStrX)(nil)}, {"error-that-panics", boomErrX{}}} {
		hv := hv
		pe2 := leaf("error:Error()-panics-with-"+hv.name, func(k string) zapcore.Field { return zap.NamedError(k, panicsWith{hv.v}) }, func(k string, r Ref) []jsonx.Member {
			return one(k+"Error", jsonx.Containing("PANIC="))
		})
		pe2.Fault = true
		add(pe2)
		ps2 := leaf("stringer:String()-panics-with-"+hv.name, func(k string) zapcore.Field { return zap.Stringer(k, panicsWith{hv.v}) }, func(k string, r Ref) []jsonx.Member {
			return one(k+"Error", jsonx.Containing("PANIC="))
		})
		ps2.Fault = true
		add(ps2)
		pg2 := leaf("error:group-member-panics-with-"+hv.name, func(k string) zapcore.Field {
			return zap.NamedError(k, groupErr{[]error{errors.New("ok1"), panicsWith{hv.v}, errors.New("ok2")}})
		}, func(k string, r Ref) []jsonx.Member {
			return []jsonx.Member{{Key: k, Val: jsonx.S("group failed")}, {Key: k + "Causes", Val: jsonx.AnyValue()}, {Key: k + "Error", Val: jsonx.Containing("PANIC=")}}
		})
		pg2.Fault = true
		add(pg2)
	}
	var nilPE *ptrErr
	npe := fixed("error:nil-pointer", func(k string) zapcore.Field { return zap.NamedError(k, nilPE) }, jsonx.S("<nil>"))
	npe.Fault = true
	add(npe)
	// a nil pointer whose methods tolerate the nil receiver is an ordinary error value: its Error() text is the value
	add(fixed("error:nil-pointer-with-nil-safe-Error()", func(k string) zapcore.Field { return zap.NamedError(k, (*safeNilErr)(nil)) }, jsonx.S("not found (nil receiver)")))
	add(leaf("error:group-with-nil-safe-nil-pointer-member", func(k string) zapcore.Field {
		return zap.NamedError(k, groupErr{[]error{(*safeNilErr)(nil), errors.New("ok2")}})
	}, func(k string, r Ref) []jsonx.Member {
		return []jsonx.Member{{Key: k, Val: jsonx.S("group failed")}, {Key: k + "Causes", Val: jsonx.A(
			jsonx.O().Add("error", jsonx.S("not found (nil receiver)")), jsonx.O().Add("error", jsonx.S("ok2")))}}
	}))
	add(fixed("errors:nil-safe-nil-pointer-element", func(k string) zapcore.Field { return zap.Errors(k, []error{(*safeNilErr)(nil)}) },
		jsonx.A(jsonx.O().Add("error", jsonx.S("not found (nil receiver)")))))
	// groups of exactly one cause and of no cause are groups: the causes array is there
	add(leaf("error:group-with-one-cause", func(k string) zapcore.Field {
		return zap.NamedError(k, groupErr{[]error{errors.New("disk full")}})
	}, func(k string, r Ref) []jsonx.Member {
		return []jsonx.Member{{Key: k, Val: jsonx.S("group failed")}, {Key: k + "Causes", Val: jsonx.A(jsonx.O().Add("error", jsonx.S("disk full")))}}
	}))
	add(leaf("error:group-with-no-cause", func(k string) zapcore.Field {
		return zap.NamedError(k, groupErr{nil})
	}, func(k string, r Ref) []jsonx.Member {
		return []jsonx.Member{{Key: k, Val: jsonx.S("group failed")}, {Key: k + "Causes", Val: jsonx.A()}}
	}))
	add(leaf("error:group-nested-one-cause-groups", func(k string) zapcore.Field {
		return zap.NamedError(k, groupErr{[]error{groupErr{[]error{errors.New("inner")}}}})
	}, func(k string, r Ref) []jsonx.Member {
		return []jsonx.Member{{Key: k, Val: jsonx.S("group failed")}, {Key: k + "Causes", Val: jsonx.A(
			jsonx.O().Add("error", jsonx.S("group failed")).Add("errorCauses", jsonx.A(jsonx.O().Add("error", jsonx.S("inner")))))}}
	}))
	gp := leaf("error:group-Errors()-panics", func(k string) zapcore.Field { return zap.NamedError(k, groupPanics{}) }, func(k string, r Ref) []jsonx.Member {
		return []jsonx.Member{{Key: k, Val: jsonx.S("group")}, {Key: k + "Error", Val: jsonx.Containing("errors boom")}}
	})
	gp.Fault = true
	add(gp)
	add(leaf("error:group-with-nil-cause", func(k string) zapcore.Field {
		return zap.NamedError(k, nilCauseGroup{})
	}, func(k string, r Ref) []jsonx.Member {
		return []jsonx.Member{{Key: k, Val: jsonx.S("g")}, {Key: k + "Causes", Val: jsonx.A(jsonx.O().Add("error", jsonx.S("c")))}}
	}))
	// typed slices
	add(fixed("ints", func(k string) zapcore.Field { return zap.Int64s(k, []int64{math.MinInt64, 0, math.MaxInt64}) }, jsonx.A(I64(math.MinInt64), I64(0), I64(math.MaxInt64))))
	add(fixed("float64s", func(k string) zapcore.Field { return zap.Float64s(k, []float64{math.NaN(), 1.5}) }, jsonx.A(jsonx.S("NaN"), F64(1.5))))
	add(fixed("strings", func(k string) zapcore.Field { return zap.Strings(k, []string{"", Hostile}) }, jsonx.A(jsonx.S(""), jsonx.S(FixUTF8(Hostile)))))
	add(fixed("strings:nil", func(k string) zapcore.Field { return zap.Strings(k, nil) }, jsonx.A()))
	add(fixed("bools", func(k string) zapcore.Field { return zap.Bools(k, []bool{true, false}) }, jsonx.A(jsonx.B(true), jsonx.B(false))))
	add(fixed("bytestrings", func(k string) zapcore.Field { return zap.ByteStrings(k, [][]byte{[]byte("\xff"), nil}) }, jsonx.A(jsonx.S("�"), jsonx.S(""))))
	add(leaf("durations", func(k string) zapcore.Field { return zap.Durations(k, []time.Duration{1, -1500 * time.Millisecond}) }, func(k string, r Ref) []jsonx.Member {
		return one(k, jsonx.A(DurNode(1, r), DurNode(-1500*time.Millisecond, r)))
	}))
	add(leaf("times", func(k string) zapcore.Field { return zap.Times(k, []time.Time{time.Unix(1, 5).UTC()}) }, func(k string, r Ref) []jsonx.Member {
		return one(k, jsonx.A(TimeNode(time.Unix(1, 5).UTC(), r)))
	}))
	add(fixed("uint64s", func(k string) zapcore.Field { return zap.Uint64s(k, []uint64{math.MaxUint64}) }, jsonx.A(U64(math.MaxUint64))))
	// every other integer / float / complex slice constructor with its extreme values (each goes through its own Append* shim)
	add(fixed("uints", func(k string) zapcore.Field { return zap.Uints(k, []uint{math.MaxUint, 0, 1 << 63}) }, jsonx.A(U64(math.MaxUint64), U64(0), U64(1<<63))))
	add(fixed("uint32s", func(k string) zapcore.Field { return zap.Uint32s(k, []uint32{math.MaxUint32, 0}) }, jsonx.A(U64(math.MaxUint32), U64(0))))
	add(fixed("uint16s", func(k string) zapcore.Field { return zap.Uint16s(k, []uint16{math.MaxUint16, 0}) }, jsonx.A(U64(math.MaxUint16), U64(0))))
	add(fixed("uintptrs", func(k string) zapcore.Field { return zap.Uintptrs(k, []uintptr{^uintptr(0), 0}) }, jsonx.A(U64(math.MaxUint64), U64(0))))
	add(fixed("ints(int)", func(k string) zapcore.Field { return zap.Ints(k, []int{math.MinInt, math.MaxInt, -1}) }, jsonx.A(I64(math.MinInt64), I64(math.MaxInt64), I64(-1))))
	add(fixed("int32s", func(k string) zapcore.Field { return zap.Int32s(k, []int32{math.MinInt32, math.MaxInt32}) }, jsonx.A(I64(math.MinInt32), I64(math.MaxInt32))))
	add(fixed("int16s", func(k string) zapcore.Field { return zap.Int16s(k, []int16{math.MinInt16, math.MaxInt16}) }, jsonx.A(I64(math.MinInt16), I64(math.MaxInt16))))
	add(fixed("int8s", func(k string) zapcore.Field { return zap.Int8s(k, []int8{math.MinInt8, math.MaxInt8}) }, jsonx.A(I64(math.MinInt8), I64(math.MaxInt8))))
	add(fixed("float32s", func(k string) zapcore.Field {
		return zap.Float32s(k, []float32{0.1, math.MaxFloat32, float32(math.Inf(-1))})
	}, jsonx.A(F32(0.1), F32(math.MaxFloat32), jsonx.S("-Inf"))))
	add(fixed("complex64s", func(k string) zapcore.Field { return zap.Complex64s(k, []complex64{complex(0.1, -2), complex(3, 0)}) }, jsonx.A(jsonx.S(cplx(float64(float32(0.1)), -2, 32)), jsonx.S(cplx(3, 0, 32)))))
	add(fixed("complex128s", func(k string) zapcore.Field { return zap.Complex128s(k, []complex128{complex(1, -1)}) }, jsonx.A(jsonx.S("1-1i"))))
	add(fixed("stringers", func(k string) zapcore.Field { return zap.Stringers(k, []okStringer{{"a"}, {"\n"}}) }, jsonx.A(jsonx.S("a"), jsonx.S("\n"))))
	// failing elements inside zap.Stringers: the statement promises containment
	// (the call returns, the line stays well-formed, the other fields are
	// intact); two renderings are accepted - the element shown as "<nil>" like
	// the nil-pointer Stringer field, or the array cut at the failing element
	// with a <key>Error member (any text) like a failing array marshaler.
	nilElem := leaf("stringers:nil-pointer-element", func(k string) zapcore.Field {
		return zap.Stringers(k, []*valStringer{{1}, nil, {2}})
	}, func(k string, r Ref) []jsonx.Member {
		if r.Alt == 0 {
			return one(k, jsonx.A(jsonx.S("v1"), jsonx.S("<nil>"), jsonx.S("v2")))
		}
		return []jsonx.Member{{Key: k, Val: jsonx.A(jsonx.S("v1"))}, {Key: k + "Error", Val: jsonx.AnyS()}}
	})
	nilElem.Fault, nilElem.Alts = true, 1
	add(nilElem)
	panicElem := leaf("stringers:panicking-element", func(k string) zapcore.Field {
		return zap.Stringers(k, []fmt.Stringer{okStringer{"a"}, panicStringer{}, okStringer{"b"}})
	}, func(k string, r Ref) []jsonx.Member {
		return []jsonx.Member{{Key: k, Val: jsonx.A(jsonx.S("a"))}, {Key: k + "Error", Val: jsonx.AnyS()}}
	})
	panicElem.Fault = true
	add(panicElem)
	add(leaf("errors", func(k string) zapcore.Field { return zap.Errors(k, []error{errors.New("x"), nil, verboseErr{"y"}}) }, func(k string, r Ref) []jsonx.Member {
		return one(k, jsonx.A(jsonx.O().Add("error", jsonx.S("x")), jsonx.O().Add("error", jsonx.S("y")).Add("errorVerbose", jsonx.S("y\n\tat frame \"x\""))))
	}))
	return ls
}

type nilCauseGroup struct{}

func (nilCauseGroup) Error() string   { return "g" }
func (nilCauseGroup) Errors() []error { return []error{nil, errors.New("c"), nil} }

// Skip / Namespace constructors
func SkipSpec() *Spec      { return &Spec{Kind: KSkip, Name: "skip", ErrAt: -1} }
func NamespaceSpec() *Spec { return &Spec{Kind: KNamespace, Name: "namespace", ErrAt: -1} }

// element alphabet for arrays
func ElemInt() *Elem {
	return &Elem{Name: "int", ErrAt: -1, Append: func(e zapcore.ArrayEncoder) error { e.AppendInt64(-42); return nil }, Want: func(Ref) *jsonx.Node { return I64(-42) }}
}
func ElemStr() *Elem {
	return &Elem{Name: "str", ErrAt: -1, Append: func(e zapcore.ArrayEncoder) error { e.AppendString(Hostile); return nil }, Want: func(Ref) *jsonx.Node { return jsonx.S(FixUTF8(Hostile)) }}
}
func ElemReflectFail() *Elem {
	return &Elem{Name: "reflect(chan)", ErrAt: -1, Fails: true, Append: func(e zapcore.ArrayEncoder) error { return e.AppendReflected(make(chan int)) }, Want: func(Ref) *jsonx.Node { return nil }}
}
func ElemMore() []*Elem {
	return []*Elem{
		{Name: "float:NaN", ErrAt: -1, Append: func(e zapcore.ArrayEncoder) error { e.AppendFloat64(math.NaN()); return nil }, Want: func(Ref) *jsonx.Node { return jsonx.S("NaN") }},
		{Name: "float32", ErrAt: -1, Append: func(e zapcore.ArrayEncoder) error { e.AppendFloat32(0.1); return nil }, Want: func(Ref) *jsonx.Node { return F32(0.1) }},
		{Name: "bool", ErrAt: -1, Append: func(e zapcore.ArrayEncoder) error { e.AppendBool(true); return nil }, Want: func(Ref) *jsonx.Node { return jsonx.B(true) }},
		{Name: "uint64", ErrAt: -1, Append: func(e zapcore.ArrayEncoder) error { e.AppendUint64(math.MaxUint64); return nil }, Want: func(Ref) *jsonx.Node { return U64(math.MaxUint64) }},
		{Name: "duration", ErrAt: -1, Append: func(e zapcore.ArrayEncoder) error { e.AppendDuration(1500 * time.Millisecond); return nil }, Want: func(r Ref) *jsonx.Node { return DurNode(1500*time.Millisecond, r) }},
		{Name: "time", ErrAt: -1, Append: func(e zapcore.ArrayEncoder) error { e.AppendTime(time.Unix(1, 5).UTC()); return nil }, Want: func(r Ref) *jsonx.Node { return TimeNode(time.Unix(1, 5).UTC(), r) }},
		{Name: "complex", ErrAt: -1, Append: func(e zapcore.ArrayEncoder) error { e.AppendComplex128(complex(1, -2)); return nil }, Want: func(Ref) *jsonx.Node { return jsonx.S("1-2i") }},
		{Name: "bytestring", ErrAt: -1, Append: func(e zapcore.ArrayEncoder) error { e.AppendByteString([]byte("\xffq\"")); return nil }, Want: func(Ref) *jsonx.Node { return jsonx.S("�q\"") }},
		{Name: "reflect:ok", ErrAt: -1, Append: func(e zapcore.ArrayEncoder) error { return e.AppendReflected([]int{1}) }, Want: func(Ref) *jsonx.Node { return jsonx.A(jsonx.N("1")) }},
		{Name: "reflect:nil", ErrAt: -1, Append: func(e zapcore.ArrayEncoder) error { return e.AppendReflected(nil) }, Want: func(Ref) *jsonx.Node { return jsonx.NullNode() }},
	}
}

func decodeRune(s string) (rune, int) {
	for i, r := range s {
		_ = i
		n := len(string(r))
		if r == 0xFFFD {
			// distinguish a literal U+FFFD (3 bytes) from a decoding error (1 byte)
			if len(s) >= 3 && s[:3] == "�" {
				return r, 3
			}
			return r, 1
		}
		return r, n
	}
	return 0, 0
}

type derefErrX struct{ host string }

func (e *derefErrX) Error() string { return "lookup " + e.host } // nil receiver: nil dereference

// safeNilErr: Error() works on a nil receiver.
type safeNilErr struct{ what string }

func (e *safeNilErr) Error() string {
	if e == nil {
		return "not found (nil receiver)"
	}
	return e.what
}

type boomErrX struct{}

func (boomErrX) Error() string { panic("member exploded") }

// groupErr is an error group in the multierr style whose own message does not depend on its members.
type groupErr struct{ errs []error }

func (g groupErr) Error() string   { return "group failed" }
func (g groupErr) Errors() []error { return g.errs }

// panicsWith panics with the given value from both Error() and String().
type panicsWith struct{ v interface{} }

func (p panicsWith) Error() string  { panic(p.v) }
func (p panicsWith) String() string { panic(p.v) }

type derefStrX struct{ s string }

func (d *derefStrX) String() string { return d.s } // nil receiver: nil dereference

// terseVerboseErr's %+v form is its own text, unrelated in length to the message.
type terseVerboseErr struct{ msg, verbose string }

func (e terseVerboseErr) Error() string { return e.msg }
func (e terseVerboseErr) Format(f fmt.State, c rune) {
	if c == 'v' && f.Flag('+') {
		fmt.Fprint(f, e.verbose)
		return
	}
	fmt.Fprint(f, e.msg)
}
